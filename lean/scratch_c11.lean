import Martian.Util
open List
#check @List.getLast?_append
#check @List.getLast?_eq_some_getLast
#check @List.getLast_mem
#check @List.getLast?_cons_cons
example (x : List Nat) (gs : List (List Nat)) (h : ∀ y ∈ (x :: gs), y = []) : (x :: gs).getLast? = some [] := by
  rw [List.getLast?_eq_some_getLast (by simp)]
  rw [h _ (List.getLast_mem (by simp))]
