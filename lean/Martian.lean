-- Root of the library: everything a check may need is built by `lake build Martian`.
import Martian.Util
import Martian.Props.C20
import Martian.Drv.C20
