import Martian.Util
import Martian.Drv.C20
open Martian

/-- Generic line loop: `case` resets the state; every other line is one operation. -/
partial def loop {σ : Type} (h : IO.FS.Stream) (out : IO.FS.Stream) (init : σ)
    (step : σ → List String → σ × String) (s : σ) : IO Unit := do
  let line ← h.getLine
  if line.isEmpty then return ()
  let toks := tokens line
  match toks with
  | [] => loop h out init step s
  | "case" :: _ => out.putStrLn "case"; loop h out init step init
  | _ =>
    let (s', o) := step s toks
    out.putStrLn o
    loop h out init step s'

def main (args : List String) : IO UInt32 := do
  let stdin ← IO.getStdin
  let stdout ← IO.getStdout
  match args with
  | ["C20"] => loop stdin stdout () Drv.C20.step (); return 0
  | _ => IO.eprintln "usage: driver <ID> < ops.txt"; return 2
