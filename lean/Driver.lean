import Martian.Util
import Martian.Drv.C01
import Martian.Drv.C02
import Martian.Drv.C03
import Martian.Drv.C04
import Martian.Drv.C05
import Martian.Drv.C06
import Martian.Drv.C07
import Martian.Drv.C08
import Martian.Drv.C09
import Martian.Drv.C10
import Martian.Drv.C11
import Martian.Drv.C12
import Martian.Drv.C13
import Martian.Drv.C14
import Martian.Drv.C15
import Martian.Drv.C16
import Martian.Drv.C17
import Martian.Drv.C18
import Martian.Drv.C19
import Martian.Drv.C20
open Martian

/-- Generic line loop: `case` resets the state; every other line is one operation. -/
partial def loop {σ : Type} (h : IO.FS.Stream) (out : IO.FS.Stream) (init : σ)
    (step : σ → List String → σ × String) (s : σ) : IO Unit := do
  let line ← h.getLine
  if line.isEmpty then return ()
  let toks := tokens line
  match toks with
  | [] => loop h out init step s
  | "case" :: _ => out.putStrLn "case"; loop h out init step init
  | _ =>
    let (s', o) := step s toks
    out.putStrLn o
    loop h out init step s'

def main (args : List String) : IO UInt32 := do
  let stdin ← IO.getStdin
  let stdout ← IO.getStdout
  match args with
  | ["C01"] => loop stdin stdout Drv.C01.init Drv.C01.step Drv.C01.init; return 0
  | ["C02"] => loop stdin stdout Drv.C02.init Drv.C02.step Drv.C02.init; return 0
  | ["C03"] => loop stdin stdout Drv.C03.init Drv.C03.step Drv.C03.init; return 0
  | ["C04"] => loop stdin stdout Drv.C04.init Drv.C04.step Drv.C04.init; return 0
  | ["C05"] => loop stdin stdout Drv.C05.init Drv.C05.step Drv.C05.init; return 0
  | ["C06"] => loop stdin stdout Drv.C06.init Drv.C06.step Drv.C06.init; return 0
  | ["C07"] => loop stdin stdout Drv.C07.init Drv.C07.step Drv.C07.init; return 0
  | ["C08"] => loop stdin stdout Drv.C08.init Drv.C08.step Drv.C08.init; return 0
  | ["C09"] => loop stdin stdout Drv.C09.init Drv.C09.step Drv.C09.init; return 0
  | ["C10"] => loop stdin stdout Drv.C10.init Drv.C10.step Drv.C10.init; return 0
  | ["C11"] => loop stdin stdout Drv.C11.init Drv.C11.step Drv.C11.init; return 0
  | ["C12"] => loop stdin stdout Drv.C12.init Drv.C12.step Drv.C12.init; return 0
  | ["C13"] => loop stdin stdout Drv.C13.init Drv.C13.step Drv.C13.init; return 0
  | ["C14"] => loop stdin stdout Drv.C14.init Drv.C14.step Drv.C14.init; return 0
  | ["C15"] => loop stdin stdout Drv.C15.init Drv.C15.step Drv.C15.init; return 0
  | ["C16"] => loop stdin stdout Drv.C16.init Drv.C16.step Drv.C16.init; return 0
  | ["C17"] => loop stdin stdout Drv.C17.init Drv.C17.step Drv.C17.init; return 0
  | ["C18"] => loop stdin stdout Drv.C18.init Drv.C18.step Drv.C18.init; return 0
  | ["C19"] => loop stdin stdout Drv.C19.init Drv.C19.step Drv.C19.init; return 0
  | ["C20"] => loop stdin stdout Drv.C20.init Drv.C20.step Drv.C20.init; return 0
  | _ => IO.eprintln "usage: driver <ID> < ops.txt"; return 2
