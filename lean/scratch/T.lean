import Martian.Lemmas.HttpSpec
open Martian Martian.Go Martian.Go.Header Martian.HttpSpec
example : indexByte (strBytes "1:2") 58 = some 1 := by decide
example : lastIndexByte (strBytes "1:2") 58 = some 1 := by decide
example : splitHostPort (strBytes "1:2") = some (strBytes "1") := by decide
