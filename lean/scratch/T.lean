import Martian.Go.Header
open Martian Martian.Go

theorem byte_forall {p : UInt8 → Prop} (h : ∀ n : Fin 256, p (UInt8.ofNat n.val)) : ∀ c : UInt8, p c := by
  intro c
  have := h ⟨c.toNat, c.toNat_lt⟩
  simpa using this

set_option maxRecDepth 100000 in
theorem up_up : ∀ c : UInt8, toUpperB (toUpperB c) = toUpperB c := by
  apply byte_forall; decide
