import Martian.Lemmas.Har
open Martian Martian.Har Martian.MessageView
theorem a1 : base64Tok = [98, 97, 115, 101, 54, 52] := by decide
theorem a2 : utf8Valid base64Tok = true := by
  apply utf8Valid_of_ascii
  rw [a1]; decide
theorem a3 : (([] : Bytes) == base64Tok) = false := by rw [a1]; rfl
