import Martian.Props.C13.Conc
open Martian Martian.Verify Martian.Props.C13
#eval cxReport.map (fun b => String.mk (b.map (fun c => Char.ofNat c.toNat)))
#eval (Cells.report ((cxGroup.cells .req).run cxSigma)).map (fun b => String.mk (b.map (fun c => Char.ofNat c.toNat)))
#print axioms nonatomic_query_not_linearisable_counterexample
#print axioms phased_history_linearisable
#print axioms query_is_failures_since_reset_concurrent
