import Martian.Lemmas.Shutdown
namespace Martian.Shutdown
example {closing : Bool} {cpc : ClosePc} {h h' : Handler}
    (hg : cpc = .returned → closing = true) (ok : HOk closing cpc h)
    (hs : hstep closing cpc.holdsMu (decide (cpc = .returned)) h (.writeEnd) = some h') : HOk closing cpc h' := by
  obtain ⟨e1, e2, e3, e4, e5, e6, e7, e8, e9, e10, e11⟩ := ok
  cases hpc : h.pc <;> simp [hstep, hpc, Pc.readable] at hs
  rename_i b
  have e4' := e4 b (Or.inr hpc)
  clear e4
  subst hs
  cases b
  · constructor <;> simp_all [Pc.inExchange, Pc.winding, Pc.afterClosing, Pc.counted, anyMarked_snoc]
    · exact MarksOk_snoc e3 (by simp)
  · constructor <;> simp_all [Pc.inExchange, Pc.winding, Pc.afterClosing, Pc.counted, anyMarked_snoc]
    · exact MarksOk_snoc e3 (by simp [e4'])
end Martian.Shutdown
