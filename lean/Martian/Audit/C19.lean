import Martian.Props.C19
