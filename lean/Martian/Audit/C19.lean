import Martian.Props.C19
open Martian.Props.C19
#print axioms facts_marbl_layout
#print axioms decode_encode_header
#print axioms decode_encode_data
#print axioms reader_total
#print axioms reader_loop_ends_with_error
#print axioms F19_wrapped_sum_panics
#print axioms F19_witness_now_error
#print axioms stream_roundtrip
#print axioms interleaved_messages_recovered
#print axioms data_indices_contiguous_from_zero
#print axioms concat_data_eq_bytes_read
#print axioms terminal_pointwise
#print axioms last_terminal_iff_eof
#print axioms terminal_iff_eof
#print axioms wrapper_transparent
#print axioms messageFrames_key
#print axioms messageFrames_valid
#print axioms logged_message_roundtrip
#print axioms nobody_request_is_empty_body
#print axioms retaining_writer_sees_written
#print axioms subscriber_stream_roundtrip
#print axioms pooled_buffers_counterexample
#print axioms exA
#print axioms exB
