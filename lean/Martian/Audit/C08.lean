import Martian.Props.C08
