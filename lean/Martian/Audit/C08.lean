import Martian.Props.C08
open Martian.Props.C08
#print axioms dispatch_units
#print axioms control_frames_identical
#print axioms data_split_faithful
#print axioms chunks_concat
#print axioms header_block_frames_fit
#print axioms push_block_frames_fit
#print axioms accepted_is_image_of_calls
#print axioms per_stream_order_and_content
#print axioms header_blocks_leave_in_encode_order_counterexample
#print axioms header_blocks_leave_in_encode_order_partial
#print axioms safeRunB_sound
#print axioms priority_flag_partial
#print axioms priority_flag_counterexample
#print axioms facts_relay_constants
#print axioms facts_continued_headers_keep_end_stream
#print axioms facts_preface_read_in_full
