import Martian.Props.C20
open Martian.Props.C20
#print axioms never_panics
#print axioms full_when_no_range
#print axioms single_range_exact
#print axioms multi_range_parts
#print axioms never_outside_content
#print axioms clamp_or_416
#print axioms clean_rooted_has_no_dotdot
#print axioms resolved_under_root
#print axioms resolved_bytes_under_root
#print axioms answer_follows_current_file
#print axioms mapping_is_exact_key_only
#print axioms atoi_within_int64
#print axioms accepted_range_arithmetic_is_exact
#print axioms facts_both_modifiers_same_range_loop
#print axioms facts_range_loop_is_parseOne
#print axioms facts_range_header_split
#print axioms facts_single_range_slice
#print axioms facts_static_path_resolution
