import Martian.Props.C11
