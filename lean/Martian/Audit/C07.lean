import Martian.Props.C07
