import Martian.Props.C07
open Martian.Props.C07
#print axioms reachable_invariant
