import Martian.Props.C01
open Martian.Props.C01
#print axioms relay_one_to_one
#print axioms writeIdx_item
#print axioms writeIdx_tail
#print axioms writeIdx_run_ge
#print axioms relay_in_order
#print axioms response_is_origins
#print axioms served_prefix_is_until_first_close
#print axioms closes_iff_asked
#print axioms next_request_served_iff
#print axioms chunked_body_identical_for_every_chunking
#print axioms rechunking_by_the_relay_preserves_body
#print axioms facts_one_read_one_roundtrip_one_write
#print axioms facts_request_body_drained_at_return
#print axioms facts_close_decision
#print axioms facts_serving_loop
