import Martian.Props.C01
open Martian.Props.C01
#print axioms relay_one_to_one
#print axioms writeIdx_item
#print axioms writeIdx_tail
#print axioms writeIdx_run_ge
#print axioms relay_in_order
#print axioms response_is_origins
#print axioms served_prefix_is_until_first_close
#print axioms closes_iff_asked
#print axioms next_request_served_iff
#print axioms chunked_body_identical_for_every_chunking
#print axioms rechunking_by_the_relay_preserves_body
#print axioms read_wire_request
#print axioms read_wire_request_any_chunking
#print axioms read_wire_response
#print axioms body_is_framing_independent
#print axioms pipelined_requests_split_exactly
#print axioms kept_alive_responses_split_exactly
#print axioms relayed_request_is_the_request
#print axioms relayed_response_is_the_response_partial
#print axioms relayed_head_response_is_the_response_partial
#print axioms head_chunked_relay_leaves_stray_crlf
