import Martian.Props.C01
