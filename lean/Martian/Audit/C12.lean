import Martian.Props.C12
