import Martian.Props.C12
open Martian.Props.C12
#print axioms compile_eval_eq_spec
#print axioms multierror_never_empty
#print axioms priority_insert_sorted
#print axioms priority_order_characterised
#print axioms priority_order_unique
#print axioms priority_insert_position
#print axioms scope_projection
#print axioms out_of_scope_untouched
#print axioms spec_out_of_scope
#print axioms first_error_stops
#print axioms first_error_stops_priority
#print axioms no_error_runs_all
#print axioms aggregate_runs_all_reports_each_once
#print axioms accept_iff_valid
#print axioms reject_whole
#print axioms reject_iff_bad_node_anywhere
#print axioms bad_child_rejects_parent
#print axioms reconfig_atomic
#print axioms rejected_leaves_previous
#print axioms accepted_replaces_completely
#print axioms traffic_follows_last_accepted
#print axioms facts_servePOST_order
#print axioms facts_servePOST_parse_then_swap
#print axioms facts_priority_insert_test
