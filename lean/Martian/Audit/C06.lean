import Martian.Props.C06
