import Martian.Props.C06
open Martian.Props.C06
#print axioms returned_cert_verifies
#print axioms named_host_served
#print axioms stale_entry_replaced
#print axioms expired_is_stale
#print axioms reuse_only_while_valid
#print axioms valid_entry_reused
#print axioms no_cross_host
#print axioms san_dns_or_ip
#print axioms cache_key_is_normalised_host
#print axioms no_host_refused
#print axioms tls_no_sni_refused
#print axioms refused_iff_no_host
#print axioms sni_or_fallback
#print axioms empty_host_served_before_fix
#print axioms org_in_every_history
#print axioms served_cert_right_in_every_history
#print axioms concurrent_own_host
#print axioms two_steps_are_cert
#print axioms subsecond_validity_born_expired
#print axioms bracketed_v6_without_port
#print axioms facts_lock_discipline
#print axioms facts_defaults
