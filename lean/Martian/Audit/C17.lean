import Martian.Props.C17
