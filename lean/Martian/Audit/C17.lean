import Martian.Props.C17
open Martian.Props.C17
#print axioms heap_refines_spec
#print axioms ring_invariant_reachable
#print axioms never_panics_nor_diverges
#print axioms request_appended_if_fresh
#print axioms duplicate_rejected_log_undisturbed
#print axioms response_attached_to_own_id
#print axioms orphan_response_ignored
#print axioms export_is_the_log
#print axioms export_and_reset_partitions
#print axioms reset_empties
#print axioms export_lists_log
#print axioms export_and_reset_after
#print axioms exports_in_arrival_order
#print axioms returned_at_most_once
#print axioms returned_are_completed
#print axioms completed_returned_by_next_export_and_reset
#print axioms pending_kept_by_export_and_reset
#print axioms each_response_attached_to_own_request
#print axioms log_well_formed
#print axioms response_after_reset_ignored
