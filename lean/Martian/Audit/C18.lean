import Martian.Props.C18
