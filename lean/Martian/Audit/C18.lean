import Martian.Props.C18
open Martian.Props.C18
#print axioms write_loop_terminates
#print axioms delivered_is_prefix_of_written
#print axioms no_close_delivers_all
#print axioms status_ok_or_closed
#print axioms close_at_k
#print axioms close_at_k_fresh
#print axioms ok_preserves_invariant
#print axioms unmatched_url_not_shaped
#print axioms unshaped_write_untouched
#print axioms replaced_shape_no_actions
#print axioms invalid_config_rejected_state_unchanged
#print axioms accepted_config_wellformed
#print axioms accepted_shape_sorted_nonoverlapping
#print axioms binary_searches_are_linear
#print axioms fresh_context_ok
#print axioms accepted_applies_only_to_later_conns
#print axioms interleaved_delivered_prefix
#print axioms configure_ok_lastMod
#print axioms interleaved_accepted_applies_only_to_later_conns
#print axioms old_conn_round_inert
#print axioms stamp_at_request_start_counterexample
