import Martian.Props.C16
open Martian.Props.C16
#print axioms request_fields_equal
#print axioms response_fields_equal
#print axioms header_list_includes_host_cl_te
#print axioms postdata_is_deframed_body
#print axioms chunk_framing_is_not_body
#print axioms content_is_decoded_body_with_true_size
#print axioms capture_follows_options
#print axioms uncaptured_has_no_body
#print axioms postdata_json_roundtrip
#print axioms content_json_roundtrip
#print axioms logged_content_is_base64
#print axioms late_invalid_byte_is_not_text
#print axioms late_invalid_byte_is_base64
#print axioms wire_head_is_wire_fields
#print axioms header_list_is_what_the_wire_carries
#print axioms ordinary_fields_are_the_maps
#print axioms absent_field_lists_the_maps_lines
