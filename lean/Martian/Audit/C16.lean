import Martian.Props.C16
