import Martian.Props.C05
