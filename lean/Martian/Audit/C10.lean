import Martian.Props.C10
open Martian.Props.C10
#print axioms ranking_decreases
#print axioms bounded_process_steps
#print axioms termed_is_stable
#print axioms deadlock_only_f10c
#print axioms terminates_or_f10c
#print axioms terminates_partial
#print axioms f10c_start_reachable
#print axioms f10c_run
#print axioms f10c_end_is_stuck
#print axioms terminates_counterexample
#print axioms returned_is_stable
#print axioms upstream_closed_on_return
#print axioms no_process_left_on_return
