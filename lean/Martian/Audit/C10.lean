import Martian.Props.C10
