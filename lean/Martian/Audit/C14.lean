import Martian.Props.C14
