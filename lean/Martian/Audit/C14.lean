import Martian.Props.C14
open Martian.Props.C14
#print axioms rfc_hop_by_hop_listed
