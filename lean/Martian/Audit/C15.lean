import Martian.Props.C15
open Martian.Props.C15
#print axioms snapshot_is_wire_partial
#print axioms snapshot_lacks_final_crlf
#print axioms snapshot_is_wire_counterexample
#print axioms reader_sections_partition
#print axioms decode_reader_returns_body
#print axioms logger_identity
#print axioms skip_logging_records_nothing
#print axioms unskipped_is_recorded
#print axioms logger_identity_with_errors
#print axioms logger_error_records_nothing
#print axioms skip_logging_records_nothing_with_errors
#print axioms unskipped_without_error_is_recorded
#print axioms logMsgT_ok
#print axioms flags_accumulate
#print axioms mark_idempotent
#print axioms skip_logging_records_nothing_marks
#print axioms marked_exchange_is_not_recorded
#print axioms held_messages_are_isolated
#print axioms held_messages_are_isolated_from
#print axioms pooled_buffers_break_isolation
