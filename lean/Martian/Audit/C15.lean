import Martian.Props.C15
