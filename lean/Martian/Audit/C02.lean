import Martian.Props.C02
