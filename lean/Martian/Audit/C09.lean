import Martian.Props.C09
