import Martian.Props.C09
open Martian.Props.C09
#print axioms ledger
#print axioms never_exceeds_grant
#print axioms every_emission_fits
#print axioms frame_within_max
#print axioms emitted_was_accepted
#print axioms credit_returned_exact
#print axioms credit_is_flow_controlled_length
#print axioms no_eligible_frame_stranded
#print axioms facts_flow_constants
#print axioms facts_credit_uses_frame_header_length
#print axioms settings_last_wins
#print axioms settings_applied_eq_receivers
#print axioms initial_window_applied_once_with_last
#print axioms settings_history_eq_receivers
#print axioms facts_settings_read_modes
#print axioms facts_window_update_creates_buffer
