import Martian.Props.C09
open Martian.Props.C09
#print axioms ledger
#print axioms never_exceeds_grant
#print axioms every_emission_fits
#print axioms frame_within_max
#print axioms emitted_was_accepted
#print axioms credit_returned_exact
#print axioms credit_is_flow_controlled_length
#print axioms no_eligible_frame_stranded
#print axioms facts_flow_constants
#print axioms facts_credit_uses_frame_header_length
