import Martian.Props.C03
