import Martian.Props.C04
open Martian.Props.C04
#print axioms tunnel_transparent_up
#print axioms tunnel_transparent_down
#print axioms nothing_retained_at_quiescence
#print axioms delivery_only_grows
#print axioms eof_propagates_to_target
#print axioms eof_propagates_to_client
#print axioms no_spurious_eof
#print axioms dial_failure_502_warning
#print axioms dial_success_200
#print axioms both_released_iff_both_finished
#print axioms legacy_buffered_pump_retains
#print axioms legacy_buffered_pump_counterexample
#print axioms facts_tunnel_pumps
#print axioms facts_downstream_read_ahead_handed_over
