import Martian.Props.C04
