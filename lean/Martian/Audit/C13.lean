import Martian.Props.C13
open Martian.Props.C13
#print axioms facts_filter_walks_visit_both_branches
#print axioms facts_verifiers_skip_api
#print axioms facts_multierror_locked
#print axioms run_append
#print axioms run_invariant
#print axioms fresh_tracks
#print axioms query_is_failures_since_reset
#print axioms install_fresh
#print axioms query_is_failures_since_reset_of_config
#print axioms reset_restores_initial
#print axioms query_after_reset
#print axioms api_requests_not_counted
#print axioms query_idempotent
#print axioms report_depth_one
#print axioms single_verifier_report
