import Martian.Props.C13
