import Martian.Util
/-!
`strconv.Atoi` / `strconv.Itoa` on a 64-bit platform (base 10, optional sign, no underscores,
range error outside int64). `none` = any `*NumError`.
-/
namespace Martian.Go
open Martian

def isDigit (c : UInt8) : Bool := 48 ≤ c && c ≤ 57

def digitsVal : Bytes → Nat → Nat
  | [], acc => acc
  | c :: r, acc => digitsVal r (acc * 10 + (c.toNat - 48))

def maxInt64 : Int := 9223372036854775807
def minInt64 : Int := -9223372036854775808

def atoiUnsigned (s : Bytes) : Option Nat :=
  if s.isEmpty then none else if s.all isDigit then some (digitsVal s 0) else none

def atoi (s : Bytes) : Option Int :=
  match s with
  | [] => none
  | c :: r =>
    if c == 43 then (atoiUnsigned r).bind fun n => if (n : Int) ≤ maxInt64 then some n else none
    else if c == 45 then (atoiUnsigned r).bind fun n => if -(n : Int) ≥ minInt64 then some (-(n : Int)) else none
    else (atoiUnsigned s).bind fun n => if (n : Int) ≤ maxInt64 then some n else none

def natDigits (n : Nat) : Bytes := (Nat.toDigits 10 n).map (fun c => UInt8.ofNat c.toNat)

def itoa (i : Int) : Bytes :=
  if i < 0 then 45 :: natDigits i.natAbs else natDigits i.natAbs

end Martian.Go
