import Martian.Util
/-!
Models of the `strings` functions the modelled code leans on, over ASCII byte strings.
Trusted base: each is differentially tested against the real Go function by the harness
(`vharness GOLIB`). Non-ASCII input is outside the model (`isAscii` is the explicit guard).
-/
namespace Martian.Go
open Martian

def isAscii (s : Bytes) : Bool := s.all (· < 128)

def toLowerB (c : UInt8) : UInt8 := if 65 ≤ c ∧ c ≤ 90 then c + 32 else c
def toUpperB (c : UInt8) : UInt8 := if 97 ≤ c ∧ c ≤ 122 then c - 32 else c
/-- `strings.ToLower` on ASCII. -/
def toLower (s : Bytes) : Bytes := s.map toLowerB
def toUpper (s : Bytes) : Bytes := s.map toUpperB

/-- `strings.TrimLeft(s, cutset)`. -/
def trimLeft (s cut : Bytes) : Bytes := s.dropWhile (fun c => cut.contains c)

/-- ASCII white space as `unicode.IsSpace` sees it below 128. -/
def isSpace (c : UInt8) : Bool := c == 9 || c == 10 || c == 11 || c == 12 || c == 13 || c == 32

/-- `strings.TrimSpace` on ASCII. -/
def trimSpace (s : Bytes) : Bytes :=
  ((s.dropWhile isSpace).reverse.dropWhile isSpace).reverse

/-- `strings.Split(s, string(sep))` for a one-byte separator: always at least one piece. -/
def splitAux (sep : UInt8) : Bytes → Bytes → List Bytes
  | [], cur => [cur.reverse]
  | c :: rest, cur => if c == sep then cur.reverse :: splitAux sep rest [] else splitAux sep rest (c :: cur)

def split (s : Bytes) (sep : UInt8) : List Bytes := splitAux sep s []

def hasPrefix (s p : Bytes) : Bool := p.isPrefixOf s
def hasSuffix (s p : Bytes) : Bool := p.reverse.isPrefixOf s.reverse

def join (l : List Bytes) (sep : Bytes) : Bytes := sep.intercalate l

/-- `strings.EqualFold` on ASCII. -/
def equalFold (a b : Bytes) : Bool := toLower a == toLower b

theorem splitAux_length_pos (sep : UInt8) (s cur : Bytes) : 0 < (splitAux sep s cur).length := by
  induction s generalizing cur with
  | nil => simp [splitAux]
  | cons c r ih => simp only [splitAux]; split <;> simp [ih]

theorem split_ne_nil (s : Bytes) (sep : UInt8) : split s sep ≠ [] := by
  intro h; have := splitAux_length_pos sep s []; simp [split] at h; simp [h] at this

end Martian.Go
