import Martian.Go.Strings
/-!
`path.Clean` / `filepath.Clean` (Unix) and `filepath.Join`, written as the component-stack
algorithm that Go's byte-level implementation realises (Rob Pike, "Lexical File Names in
Plan 9"). The byte-level `lazybuf` code itself is trusted-base: the harness compares `clean`
and `join2` with the real functions on every run (`vharness GOLIB`).
-/
namespace Martian.Go
open Martian

def slash : UInt8 := 47
def dot : Bytes := [46]
def dotdot : Bytes := [46, 46]

/-- One component processed against the stack (stack kept in reverse order, top first). -/
def cleanStep (rooted : Bool) (stk : List Bytes) (c : Bytes) : List Bytes :=
  if c == [] || c == dot then stk
  else if c == dotdot then
    match stk with
    | [] => if rooted then [] else [dotdot]
    | top :: rest => if top == dotdot then dotdot :: stk else rest
  else c :: stk

def cleanComps (rooted : Bool) (comps : List Bytes) : List Bytes :=
  (comps.foldl (cleanStep rooted) []).reverse

def isRooted (p : Bytes) : Bool := p.head? == some slash

/-- `filepath.Clean` on Unix. -/
def clean (p : Bytes) : Bytes :=
  if p.isEmpty then dot else
  let rooted := isRooted p
  let out := cleanComps rooted (split p slash)
  if rooted then slash :: join out [slash]
  else if out.isEmpty then dot else join out [slash]

/-- `filepath.Join(a, b)` for two elements (Unix): empty elements are ignored, the rest are
joined by a separator and cleaned; all-empty gives "". -/
def join2 (a b : Bytes) : Bytes :=
  if a.isEmpty && b.isEmpty then []
  else if a.isEmpty then clean b
  else if b.isEmpty then clean a
  else clean (a ++ [slash] ++ b)

/-- The components of a path (pieces between separators that are not empty). -/
def comps (p : Bytes) : List Bytes := (split p slash).filter (· ≠ [])

end Martian.Go
