import Martian.Go.Strings
/-!
Model of Go's `net/http.Header` (a `map[string][]string`) as an association list, and of
`textproto.CanonicalMIMEHeaderKey`. Key order of the list has no meaning (Go map); the order of
the values inside one key is the order of the Go slice. Trusted base: differentially tested
against the real `http.Header` / `http.CanonicalHeaderKey` by the C14 harness (`hdr.*` ops).
-/
namespace Martian.Go
open Martian

abbrev Header := List (Bytes × List Bytes)

/-- `textproto.validHeaderFieldByte`: RFC 7230 token characters. -/
def validHeaderFieldByte (c : UInt8) : Bool :=
  (48 ≤ c && c ≤ 57) || (97 ≤ c && c ≤ 122) || (65 ≤ c && c ≤ 90) ||
  c == 33 || c == 35 || c == 36 || c == 37 || c == 38 || c == 39 || c == 42 || c == 43 ||
  c == 45 || c == 46 || c == 94 || c == 95 || c == 96 || c == 124 || c == 126

/-- The canonicalising loop: upper case at the start and after `-`, lower case elsewhere. -/
def canonLoop : Bool → Bytes → Bytes
  | _, [] => []
  | up, c :: r =>
    let c' := if up then toUpperB c else toLowerB c
    c' :: canonLoop (c' == 45) r

/-- `http.CanonicalHeaderKey`: a key with a byte outside the token alphabet is returned unchanged. -/
def canonKey (s : Bytes) : Bytes := if s.all validHeaderFieldByte then canonLoop true s else s

namespace Header

def keys (h : Header) : List Bytes := h.map (·.1)

/-- `h[k]` (direct map index, no canonicalisation); `nil` when absent. -/
def index (h : Header) (k : Bytes) : List Bytes :=
  match h.find? (·.1 == k) with
  | some e => e.2
  | none => []

/-- `delete(h, k)`. -/
def delete (h : Header) (k : Bytes) : Header := h.filter (fun e => !(e.1 == k))

/-- `h[k] = vs`. -/
def assign (h : Header) (k : Bytes) (vs : List Bytes) : Header := delete h k ++ [(k, vs)]

/-- `h.Values(key)`. -/
def values (h : Header) (key : Bytes) : List Bytes := index h (canonKey key)

/-- `h.Get(key)`: first value or `""`. -/
def get (h : Header) (key : Bytes) : Bytes := (values h key).headD []

/-- `h.Set(key, v)`. -/
def set (h : Header) (key v : Bytes) : Header := assign h (canonKey key) [v]

/-- `h.Add(key, v)`. -/
def add (h : Header) (key v : Bytes) : Header := assign h (canonKey key) (index h (canonKey key) ++ [v])

/-- `h.Del(key)`. -/
def del (h : Header) (key : Bytes) : Header := delete h (canonKey key)

end Header
end Martian.Go
