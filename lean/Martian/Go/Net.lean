import Martian.Util
/-!
Model of `net.SplitHostPort` (host part only; `none` = the call returns an error), transcribed
from the Go source. Trusted base: differentially tested by the C14 harness (`net.shp` op).
-/
namespace Martian.Go
open Martian

def indexByte (s : Bytes) (c : UInt8) : Option Nat := s.findIdx? (· == c)

def lastIndexByte (s : Bytes) (c : UInt8) : Option Nat :=
  match indexByte s.reverse c with
  | some i => some (s.length - 1 - i)
  | none => none

/-- `host, _, err := net.SplitHostPort(hp)`; `none` when `err != nil`. -/
def splitHostPort (hp : Bytes) : Option Bytes :=
  match lastIndexByte hp 58 with
  | none => none                                   -- missing port
  | some i =>
    if hp.head? == some 91 then                    -- '['
      match indexByte hp 93 with
      | none => none                               -- missing ']'
      | some e =>
        if e + 1 == hp.length then none            -- missing port
        else if e + 1 == i then
          if (hp.drop 1).contains 91 then none     -- unexpected '['
          else if (hp.drop (e + 1)).contains 93 then none  -- unexpected ']'
          else some ((hp.take e).drop 1)
        else none                                  -- too many colons / missing port
    else
      let host := hp.take i
      if host.contains 58 then none                -- too many colons
      else if hp.contains 91 then none
      else if hp.contains 93 then none
      else some host

end Martian.Go
