/-
Line-protocol plumbing shared by every model driver: bytes, hex, token splitting.
Core-only (no Mathlib) so that the driver links as a `lean_exe`.
-/
namespace Martian

abbrev Bytes := List UInt8

def hexVal (c : Char) : Option Nat :=
  if '0' ≤ c ∧ c ≤ '9' then some (c.toNat - '0'.toNat)
  else if 'a' ≤ c ∧ c ≤ 'f' then some (c.toNat - 'a'.toNat + 10)
  else none

def unhexAux : List Char → List UInt8 → Option (List UInt8)
  | [], acc => some acc.reverse
  | [_], _ => none
  | a :: b :: rest, acc =>
    match hexVal a, hexVal b with
    | some x, some y => unhexAux rest (UInt8.ofNat (x * 16 + y) :: acc)
    | _, _ => none

/-- `-` stands for the empty byte string so that a token is never empty. -/
def unhex (s : String) : Option Bytes :=
  if s = "-" then some [] else unhexAux s.toList []

def hexDigit (n : Nat) : Char := if n < 10 then Char.ofNat (48 + n) else Char.ofNat (87 + n)

def hex (bs : Bytes) : String :=
  if bs.isEmpty then "-" else
  String.ofList (bs.flatMap fun b => [hexDigit (b.toNat / 16), hexDigit (b.toNat % 16)])

/-- ASCII string literal as bytes (kernel-reducible, unlike `String.toUTF8`). -/
def strBytes (s : String) : Bytes := s.toList.map (fun c => UInt8.ofNat c.toNat)

/-- ASCII-only rendering of bytes as a Lean string (used for model-side printing). -/
def bytesStr (b : Bytes) : String := String.ofList (b.map fun x => Char.ofNat x.toNat)

def tokens (line : String) : List String :=
  (line.trimAscii.toString.splitOn " ").filter (· ≠ "")

def natList (s : String) : Option (List Nat) :=
  if s = "-" then some [] else (s.splitOn ",").mapM String.toNat?

def showNatList (l : List Nat) : String :=
  if l.isEmpty then "-" else ",".intercalate (l.map toString)

end Martian
