import Martian.Go.Header
import Martian.Go.Strconv
import Martian.Go.Net
import Martian.Generated.HttpSpec
/-!
Executable model of martian's spec-compliance stack (`httpspec.NewStack`) and of its four
members (`header/hopbyhop_modifier.go`, `via_modifier.go`, `forwarded_modifier.go`,
`framing_modifier.go`) over the `http.Header` model of `Go/Header.lean`, run with the
first-error semantics of `fifo.Group`.

PARAMETERS regenerated from the source on every check (`Generated/HttpSpec.lean`):
* `fixedList` IS `Generated.HttpSpec.hopByHop` (the `hopByHopHeaders` literal);
* `stackReq` / `stackRes` run the modifiers in `Generated.HttpSpec.requestOrder` /
  `responseOrder` (the `outer.Add…Modifier` calls of `NewStack`, in source order);
* `Generated.HttpSpec.aggregateErrors` (whether `NewStack` switches error aggregation on).
Core-only (the driver links this).
-/
namespace Martian.HttpSpec
open Martian Martian.Go Martian.Go.Header

def comma : UInt8 := 44
def kConnection : Bytes := strBytes "Connection"
def kVia : Bytes := strBytes "Via"
def kCL : Bytes := strBytes "Content-Length"
def kTE : Bytes := strBytes "Transfer-Encoding"
def kXFF : Bytes := strBytes "X-Forwarded-For"
def kXFProto : Bytes := strBytes "X-Forwarded-Proto"
def kXFHost : Bytes := strBytes "X-Forwarded-Host"
def kXFUrl : Bytes := strBytes "X-Forwarded-Url"
def commaSp : Bytes := strBytes ", "
def chunked : Bytes := strBytes "chunked"

/-! ### hop-by-hop removal (`removeHopByHopHeaders`) -/

/-- The generated `hopByHopHeaders` literal. -/
def fixedList : List Bytes := Generated.HttpSpec.hopByHop.map strBytes

/-- `k := http.CanonicalHeaderKey(strings.TrimSpace(v))` for every `v` of every `Connection` line.
Go ranges over the slice `header["Connection"]` evaluated once, so deleting `Connection` itself
during the loop does not shorten the iteration. -/
def connTokens (h : Header) : List Bytes :=
  (index h kConnection).flatMap fun vs => (split vs comma).map fun v => canonKey (trimSpace v)

def removeHopByHop (h : Header) : Header :=
  fixedList.foldl del ((connTokens h).foldl del h)

/-! ### Via (`ViaModifier`) -/

def isWs (c : UInt8) : Bool := c == 9 || c == 32

/-- `parts[1]` of `regexp.MustCompile("[\t ]+").Split(s, 3)`; `none` when `len(parts) < 2`. -/
def field2 (s : Bytes) : Option Bytes :=
  let rest := s.dropWhile (fun c => !isWs c)
  if rest.isEmpty then none else some ((rest.dropWhile isWs).takeWhile (fun c => !isWs c))

/-- `ViaModifier.hasLoop`. -/
def hasLoop (via tag : Bytes) : Bool :=
  (split via comma).any fun e => field2 (trimSpace e) == some tag

/-- What the modifiers read from the request besides its header. -/
structure Env where
  major : Nat
  minor : Nat
  name : Bytes        -- requestedBy
  boundary : Bytes
  scheme : Bytes      -- req.URL.Scheme
  host : Bytes        -- req.Host
  url : Bytes         -- req.URL.String()
  remote : Bytes      -- req.RemoteAddr

def tag (env : Env) : Bytes := env.name ++ [45] ++ env.boundary

/-- `fmt.Sprintf("%d.%d %s-%s", major, minor, requestedBy, boundary)`. -/
def viaEntry (env : Env) : Bytes :=
  natDigits env.major ++ [46] ++ natDigits env.minor ++ [32] ++ tag env

inductive Err | cl | te | loop | unknown
  deriving DecidableEq, Repr

/-- The header plus the two context bits the via modifier writes. -/
structure RS where
  hdr : Header
  skip : Bool := false       -- ctx.SkipRoundTrip()
  loopKey : Bool := false    -- ctx.Set("via.LoopDetection", err)

abbrev ReqMod := Env → RS → RS × Option Err

def viaReq : ReqMod := fun env s =>
  let v := join (index s.hdr kVia) commaSp
  if v != [] then
    if hasLoop v (tag env) then ({ s with loopKey := true, skip := true }, some .loop)
    else ({ s with hdr := set s.hdr kVia (v ++ commaSp ++ viaEntry env) }, none)
  else ({ s with hdr := set s.hdr kVia (viaEntry env) }, none)

/-! ### X-Forwarded-* (`NewForwardedModifier`) -/

def clientOf (remote : Bytes) : Bytes :=
  match splitHostPort remote with
  | some h => h
  | none => remote

def fwdHeader (env : Env) (h : Header) : Header :=
  let h := if get h kXFProto == [] then set h kXFProto env.scheme else h
  let h := if get h kXFHost == [] then set h kXFHost env.host else h
  let h := if get h kXFUrl == [] then set h kXFUrl env.url else h
  let v := join (index h kXFF) commaSp
  set h kXFF (if v != [] then v ++ commaSp ++ clientOf env.remote else clientOf env.remote)

def fwdReq : ReqMod := fun env s => ({ s with hdr := fwdHeader env s.hdr }, none)

/-! ### framing (`NewBadFramingModifier`) -/

/-- The double loop over all `Content-Length` lines and their comma pieces, sharing `length`. -/
def clScan : List Bytes → Bytes → Option Bytes
  | [], len => some len
  | l :: r, len =>
    if len == [] then clScan r (trimSpace l)
    else if len != trimSpace l then none
    else clScan r len

def clTokens (h : Header) : List Bytes := (index h kCL).flatMap fun ls => split ls comma

def teLast (h : Header) : Bytes := trimSpace ((split ((index h kTE).getLastD []) comma).getLastD [])

/-- The Content-Length part: `none` = mismatch error; else the header with the agreed value set. -/
def framingCL (h : Header) : Option Header :=
  if (index h kCL).length > 0 then
    match clScan (clTokens h) [] with
    | none => none
    | some len => some (set h kCL len)
  else some h

/-- The Transfer-Encoding part. -/
def framingTE (h1 : Header) : Header × Option Err :=
  if (index h1 kTE).length > 0 then
    if teLast h1 != chunked then (h1, some .te)
    else (del h1 kCL, none)
  else (h1, none)

def framingHeader (h : Header) : Header × Option Err :=
  match framingCL h with
  | none => (h, some .cl)
  | some h1 => framingTE h1

def framingReq : ReqMod := fun _ s =>
  let (h, e) := framingHeader s.hdr
  ({ s with hdr := h }, e)

def hbhReq : ReqMod := fun _ s => ({ s with hdr := removeHopByHop s.hdr }, none)

/-! ### the stack (`httpspec.NewStack` + `fifo.Group`) -/

/-- Constructor name (as extracted from `NewStack`) ↦ behaviour. `fifo.NewGroup` is the (empty)
user group `inner`. A constructor the model does not know yields `Err.unknown`. -/
def reqMod (name : String) : ReqMod :=
  if name = "header.NewHopByHopModifier" then hbhReq
  else if name = "header.NewForwardedModifier" then fwdReq
  else if name = "header.NewBadFramingModifier" then framingReq
  else if name = "header.NewViaModifier" then viaReq
  else if name = "fifo.NewGroup" then fun _ s => (s, none)
  else fun _ s => (s, some .unknown)

/-- `fifo.Group.ModifyRequest`: first error returns (or, aggregating, all errors are collected). -/
def runReq (agg : Bool) (env : Env) : List ReqMod → RS → RS × List Err
  | [], s => (s, [])
  | m :: ms, s =>
    match m env s with
    | (s', none) => runReq agg env ms s'
    | (s', some e) =>
      if agg then
        let (s'', es) := runReq agg env ms s'
        (s'', e :: es)
      else (s', [e])

def stackReq (env : Env) (h : Header) : RS × List Err :=
  runReq Generated.HttpSpec.aggregateErrors env (Generated.HttpSpec.requestOrder.map reqMod) { hdr := h }

structure ResS where
  hdr : Header
  status : Nat

/-- Response modifiers see the context bit `loopKey` left by the request side. -/
abbrev ResMod := Bool → ResS → ResS × Option Err

def viaRes : ResMod := fun loopKey s =>
  if loopKey then ({ s with status := 400 }, some .loop) else (s, none)

def hbhRes : ResMod := fun _ s => ({ s with hdr := removeHopByHop s.hdr }, none)

def resMod (name : String) : ResMod :=
  if name = "header.NewHopByHopModifier" then hbhRes
  else if name = "header.NewViaModifier" then viaRes
  else if name = "fifo.NewGroup" then fun _ s => (s, none)
  else fun _ s => (s, some .unknown)

def runRes (agg : Bool) (loopKey : Bool) : List ResMod → ResS → ResS × List Err
  | [], s => (s, [])
  | m :: ms, s =>
    match m loopKey s with
    | (s', none) => runRes agg loopKey ms s'
    | (s', some e) =>
      if agg then
        let (s'', es) := runRes agg loopKey ms s'
        (s'', e :: es)
      else (s', [e])

def stackRes (loopKey : Bool) (s : ResS) : ResS × List Err :=
  runRes Generated.HttpSpec.aggregateErrors loopKey (Generated.HttpSpec.responseOrder.map resMod) s

/-- `Proxy.roundTrip`: the upstream is contacted iff the context does not skip the round trip. -/
def sentUpstream (s : RS) : Bool := !s.skip

/-! ### one exchange through `martian.Proxy` using the stack (`Proxy.handle`, non-CONNECT) -/

/-- What can be observed of one exchange: how often the origin was contacted, the header it was
handed, the status and header the client gets, and the two error lists (which the proxy turns
into `Warning` values; those are not part of `seen` / `resHdr`). -/
structure Exchange where
  calls : Nat
  seen : Header
  reqErrs : List Err
  status : Nat
  resHdr : Header
  resErrs : List Err

/-- `Proxy.handle`: request modifiers; `roundTrip` answers a synthesised `200` with an empty header
without contacting the origin when the context skips the round trip, else the origin's response;
response modifiers on the same context. -/
def exchange (env : Env) (h : Header) (originStatus : Nat) (originHdr : Header) : Exchange :=
  let rq := stackReq env h
  let res : ResS := if sentUpstream rq.1 then { hdr := originHdr, status := originStatus } else { hdr := [], status := 200 }
  let rs := stackRes rq.1.loopKey res
  { calls := if sentUpstream rq.1 then 1 else 0, seen := rq.1.hdr, reqErrs := rq.2,
    status := rs.1.status, resHdr := rs.1.hdr, resErrs := rs.2 }

end Martian.HttpSpec
