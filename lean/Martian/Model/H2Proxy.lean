import Martian.Model.H2Session
/-!
# The stages of `h2.Config.Proxy` around the relay machine

`Config.Proxy` (h2/h2.go), statement by statement:

1. `tls.Dial` — TCP connect + TLS handshake (`dialing`); an error returns at once, there is no
   upstream connection yet;
2. `defer sc.Close()` — from here on EVERY return closes the upstream connection;
3. `forwardPreface(sc, cc)` — `io.ReadFull` of the 24-byte client preface (`prefaceRead`), comparison,
   write to the server (`prefaceWrite`); an error returns (through the deferred close);
4. the two relays, the watcher, `wg.Wait()` (`running`: the machine of `Model/H2Session.lean`).

`closing` is not looked at before stage 4 (the preface read has no `select`): a proxy shutdown while
the client has not yet sent its preface is noticed only when the read ends (finding F10d,
`closing_unobserved_in_preface`).
-/
namespace Martian.H2Session

inductive Stage
  /-- inside `tls.Dial` -/
  | dialing
  /-- `sc` open and its close deferred; inside `io.ReadFull(client, preface)` -/
  | prefaceRead
  /-- the preface was read and is the right one; inside `server.Write` -/
  | prefaceWrite
  /-- an error `return` is about to run (`dialed`: the deferred `sc.Close()` is registered) -/
  | failing (dialed : Bool)
  /-- returned before the relays were started -/
  | returnedEarly (dialed : Bool)
  /-- the relays are running: the state is `sys` -/
  | running
deriving DecidableEq, Repr

structure Proxy where
  stage : Stage := .dialing
  /-- the proxy's `closing` channel has been closed (remembered for the relay machine) -/
  closing : Bool := false
  /-- the caller has closed the client connection (only after the return) -/
  ccClosed : Bool := false
  sys : Sys := init
deriving DecidableEq, Repr

def pinit : Proxy := {}

inductive PLabel
  -- environment
  | dial (ok : Bool)            -- tls.Dial returns a connection / an error
  | prefaceIn (ok : Bool)       -- ReadFull delivered the 24 preface bytes / EOF, a read error, other bytes
  | prefaceOut (ok : Bool)      -- the write of the preface to the server completed / failed
  | closing
  | callerClose
  -- process
  | retErr                      -- the error return (and the deferred sc.Close() when registered)
  | relay (l : Label)           -- a step of the relay machine (environment or process)
deriving DecidableEq, Repr

def PLabel.isProc : PLabel → Bool
  | .retErr => true
  | .relay l => l.isProc
  | _ => false

def Proxy.returned (p : Proxy) : Bool :=
  match p.stage with
  | .returnedEarly _ => true
  | .running => p.sys.returned
  | _ => false

/-- `tls.Dial` has returned a connection. -/
def Proxy.dialed (p : Proxy) : Bool :=
  match p.stage with
  | .dialing => false
  | .failing b | .returnedEarly b => b
  | _ => true

/-- The upstream connection has been closed by `Proxy`. -/
def Proxy.scClosed (p : Proxy) : Bool :=
  match p.stage with
  | .returnedEarly b => b
  | .running => p.sys.scClosed
  | _ => false

def pstep (p : Proxy) : PLabel → Option Proxy
  | .dial ok =>
    match p.stage with
    | .dialing => some { p with stage := if ok then .prefaceRead else .failing false }
    | _ => none
  | .prefaceIn ok =>
    match p.stage with
    | .prefaceRead => some { p with stage := if ok then .prefaceWrite else .failing true }
    | _ => none
  | .prefaceOut ok =>
    match p.stage with
    | .prefaceWrite =>
      if ok then some { p with stage := .running, sys := { init with closing := p.closing } }
      else some { p with stage := .failing true }
    | _ => none
  | .closing =>
    match p.stage with
    | .running => (step p.sys .closing).map fun s' => { p with closing := true, sys := s' }
    | _ => some { p with closing := true }
  | .callerClose =>
    match p.stage with
    | .running => (step p.sys .callerClose).map fun s' => { p with ccClosed := true, sys := s' }
    | .returnedEarly _ => some { p with ccClosed := true }
    | _ => none
  | .retErr =>
    match p.stage with
    | .failing b => some { p with stage := .returnedEarly b }
    | _ => none
  | .relay l =>
    match p.stage, l with
    | .running, .closing => none        -- use PLabel.closing / callerClose, which keep the wrapper's flags
    | .running, .callerClose => none
    | .running, l => (step p.sys l).map fun s' => { p with sys := s' }
    | _, _ => none

def pexec (p : Proxy) : List PLabel → Option Proxy
  | [] => some p
  | l :: ls => match pstep p l with
    | some p' => pexec p' ls
    | none => none

def pprocOnly (ls : List PLabel) : Bool := ls.all PLabel.isProc

/-- No process (of any stage) can take a step. -/
def pquiescent (p : Proxy) : Bool :=
  match p.stage with
  | .failing _ => false
  | .running => quiescent p.sys
  | _ => true

/-- Ranking function over all stages. -/
def pmu (p : Proxy) : Nat :=
  match p.stage with
  | .failing _ => 1
  | .running => mu p.sys
  | _ => 0

/-- A terminating event has been seen by `Proxy`. -/
def ptermed (p : Proxy) : Bool :=
  match p.stage with
  | .failing _ | .returnedEarly _ => true
  | .running => termed p.sys
  | _ => false

/-- Goroutines of the session. Before the relays exist there is only the caller's goroutine. -/
def palive (p : Proxy) : List Proc :=
  match p.stage with
  | .returnedEarly _ => []
  | .running => alive p.sys
  | _ => [.main]

inductive PReach : Proxy → Prop
  | init : PReach pinit
  | step {p p' : Proxy} (l : PLabel) : PReach p → pstep p l = some p' → PReach p'

end Martian.H2Session
