import Martian.Util
import Martian.Go.Strings
import Martian.Go.Strconv
import Martian.Go.Header
/-!
C12 — the filter conditions, concretely: what `header.Matcher`, `martianurl.Matcher` (+ `MatchHost`),
`querystring.Matcher`, `method.Matcher` and `cookie.Matcher` answer on a concrete exchange.

A `Message` is the part of one exchange the five matchers read: the request's method, URL fields,
`Host`/`ContentLength`/`TransferEncoding` pseudo-headers (through `proxyutil.Header`), header map and
cookies, and the same for the response attached to it. Trusted below this level: `net/http`'s cookie
parsing (`req.Cookies()`, `res.Cookies()`: the model is given the parsed cookies), `net/url`'s struct
(the model is given `URL.Scheme/Host/Path/RawQuery` as stored). `url.ParseQuery` is modelled here
(`parseQuery`) and tied differentially (`c12` op `query`), `http.CanonicalHeaderKey` in `Go/Header.lean`.
-/
namespace Martian.Config
open Martian Martian.Go

inductive Kind | req | res
  deriving DecidableEq, Repr

/-- The parameters of a filter as its JSON body gives them. -/
inductive Cond
  /-- `method.Filter {"method": m}` -/
  | method (m : Bytes)
  /-- `url.Filter {"scheme","host","path","query"}` (`""` = segment not constrained) -/
  | url (scheme host path query : Bytes)
  /-- `querystring.Filter {"name","value"}` (`""` value = any value) -/
  | query (name value : Bytes)
  /-- `header.Filter {"name","value"}` -/
  | header (name value : Bytes)
  /-- `cookie.Filter {"name","value"}` (`""` value = any value) -/
  | cookie (name value : Bytes)
  /-- `port.Filter {"port"}` (no else branch) -/
  | port (p : Int)
  deriving DecidableEq, Repr

structure Message where
  method : Bytes
  scheme : Bytes
  host : Bytes
  path : Bytes
  rawQuery : Bytes
  /-- `req.Host` -/
  reqHost : Bytes
  reqCL : Int
  /-- `req.TransferEncoding` (`none` = nil slice) -/
  reqTE : Option (List Bytes)
  reqHeader : Header
  /-- `req.Cookies()` as (name, value) -/
  reqCookies : List (Bytes × Bytes)
  resCL : Int
  resTE : Option (List Bytes)
  resHeader : Header
  /-- `res.Cookies()` as (name, value) -/
  resCookies : List (Bytes × Bytes)
  deriving Repr

/-! ### `martianurl.MatchHost` -/

def star : UInt8 := 42
def dotB : UInt8 := 46

/-- `for hi > 0 && host[hi] != '.' { hi-- }` on the reversed prefix `host[0..hi]` (head = `host[hi]`). -/
def skipLabel : Bytes → Bytes
  | [] => []
  | [c] => [c]
  | c :: d :: r => if c == dotB then c :: d :: r else skipLabel (d :: r)

/-- The backward walk of `MatchHost`: `hr` = reversed `host[0..hi]`, `mr` = reversed `match[0..mi]`. -/
def hostLoop : Bytes → Bytes → Bool
  | _, [] => false
  | hr, m :: mr =>
    if m == star then
      let hr' := skipLabel hr
      if mr.isEmpty && hr'.length == 1 then true else hostLoop hr' mr
    else
      match hr with
      | [] => false
      | h :: hr' =>
        if h != m then false
        else if hr'.isEmpty then mr.isEmpty
        else hostLoop hr' mr

/-- `martianurl.MatchHost(host, match)`. -/
def matchHost (host pat : Bytes) : Bool :=
  if host.isEmpty then false
  else if host == pat then true
  else hostLoop host.reverse pat.reverse

/-! ### `url.ParseQuery` (as used by `URL.Query()`: the error is dropped) -/

def isHex (c : UInt8) : Bool := (48 ≤ c && c ≤ 57) || (97 ≤ c && c ≤ 102) || (65 ≤ c && c ≤ 70)

def unhexB (c : UInt8) : UInt8 :=
  if 48 ≤ c && c ≤ 57 then c - 48 else if 97 ≤ c && c ≤ 102 then c - 97 + 10 else c - 65 + 10

/-- `url.QueryUnescape`: `%XX` → byte, `+` → space; `none` = `EscapeError`. -/
def queryUnescape : Bytes → Option Bytes
  | [] => some []
  | c :: r =>
    if c == 37 then
      match r with
      | a :: b :: r' => if isHex a && isHex b then (queryUnescape r').map ((unhexB a * 16 + unhexB b) :: ·) else none
      | _ => none
    else if c == 43 then (queryUnescape r).map (32 :: ·)
    else (queryUnescape r).map (c :: ·)

/-- `strings.Cut(s, string(sep))`: before, after (after = `""` when absent). -/
def cut (s : Bytes) (sep : UInt8) : Bytes × Bytes :=
  (s.takeWhile (· != sep), (s.dropWhile (· != sep)).drop 1)

/-- One `&`-separated piece of the query: skipped when it contains `;`, is empty, or does not unescape. -/
def queryPiece (piece : Bytes) : Option (Bytes × Bytes) :=
  if piece.contains 59 then none
  else if piece.isEmpty then none
  else
    let kv := cut piece 61
    match queryUnescape kv.1, queryUnescape kv.2 with
    | some k, some v => some (k, v)
    | _, _ => none

/-- The pairs `url.ParseQuery` adds to the map, in order of appearance. -/
def parseQuery (q : Bytes) : List (Bytes × Bytes) := (split q 38).filterMap queryPiece

/-! ### `proxyutil.Header.All` -/

def hostKey : Bytes := strBytes "Host"
def clKey : Bytes := strBytes "Content-Length"
def teKey : Bytes := strBytes "Transfer-Encoding"

/-- `proxyutil.Header.All(name)`; `none` = `nil, false`. -/
def headerAll (h : Header) (host : Bytes) (cl : Int) (te : Option (List Bytes)) (name : Bytes) : Option (List Bytes) :=
  let k := canonKey name
  if k == hostKey then (if host.isEmpty then none else some [host])
  else if k == clKey then (if cl ≤ 0 then none else some [itoa cl])
  else if k == teKey then te
  else (h.find? (·.1 == k)).map (·.2)

def Message.headerAll (m : Message) : Kind → Bytes → Option (List Bytes)
  | .req, name => Config.headerAll m.reqHeader m.reqHost m.reqCL m.reqTE name
  | .res, name => Config.headerAll m.resHeader [] m.resCL m.resTE name

def Message.cookies (m : Message) : Kind → List (Bytes × Bytes)
  | .req => m.reqCookies
  | .res => m.resCookies

/-! ### The five matchers -/

/-- `martianurl.Matcher.matches` (the filter's URL has no fragment: JSON cannot set one). -/
def urlMatches (m : Message) (scheme host path query : Bytes) : Bool :=
  if !scheme.isEmpty && scheme != m.scheme then false
  else if !host.isEmpty && !matchHost m.host host then false
  else if !path.isEmpty && path != m.path then false
  else if !query.isEmpty && query != m.rawQuery then false
  else true

/-! ### `port.Filter` (after `repo-patches/C12-fix-port-filter-response.patch`: both sides decide alike) -/

/-- `defaultPort` of `port.Filter.Modify*`: 80 for `http`, 443 for `https`, else the zero value. -/
def defaultPort (scheme : Bytes) : Int :=
  if scheme == strBytes "http" then 80 else if scheme == strBytes "https" then 443 else 0

/-- the text after the last `:` of `URL.Host`, when there is a `:` (`net.SplitHostPort` on `host:port`) -/
def explicitPort (host : Bytes) : Option Bytes :=
  if host.contains 58 then some (host.reverse.takeWhile (· != 58)).reverse else none

/-- The request URL's port — explicit, else the scheme's default — equals the filter's.
(Hosts whose port is not a decimal number are outside the domain: the real filter returns an error.) -/
def portMatches (m : Message) (p : Int) : Bool :=
  match explicitPort m.host with
  | none => p == defaultPort m.scheme
  | some ps => atoi ps == some p

/-- `Match{Request,Response}` of the matcher a filter's JSON body builds, on the message of kind `k`
of the exchange `m`. Method, URL, query and port conditions read the request of the exchange for both kinds;
header and cookie conditions read the message itself. -/
def holds (c : Cond) (k : Kind) (m : Message) : Bool :=
  match c with
  | .method x => equalFold m.method x
  | .url s h p q => urlMatches m s h p q
  | .query n v => (parseQuery m.rawQuery).any fun kv => n == kv.1 && (v.isEmpty || v == kv.2)
  | .header n v =>
    -- `header.NewFilter` canonicalises the name once, `Header.All` again
    match m.headerAll k (canonKey n) with
    | none => false
    | some vs => vs.any (· == v)
  | .cookie n v => (m.cookies k).any fun c => n == c.1 && (v.isEmpty || v == c.2)
  | .port p => portMatches m p

/-- The valuation of the conditions that a concrete exchange induces for its message of kind `k`. -/
def Message.val (m : Message) (k : Kind) : Cond → Bool := fun c => holds c k m

end Martian.Config
