import Martian.Util
import Martian.Go.Strings
import Martian.Go.Strconv
import Martian.Go.Header
import Martian.Model.MessageView
/-!
The HTTP/1 wire codec as `net/http` (Go 1.23) implements it, for the message grammar the proxy
relays: an incremental reader in the style of `http.ReadRequest` / `http.ReadResponse` followed by
`io.ReadAll(Body)`, and what `martian.Proxy` + `http.Transport` + `Response.Write` do to the framing
of a message they relay.

Transcribed from `net/http/request.go` (`readRequest`, `parseRequestLine`, `ParseHTTPVersion`),
`response.go` (`ReadResponse`, `Write`), `transfer.go` (`readTransfer`, `parseTransferEncoding`,
`fixLength`, `fixTrailer`, `shouldClose`, `body.readLocked/readTrailer`, `newTransferWriter`,
`shouldSendContentLength`, `writeHeader`), `net/textproto/reader.go` (`ReadLine`,
`readContinuedLineSlice`, `readMIMEHeader`, `canonicalMIMEHeaderKey`), `bufio.Reader.ReadLine`
and `net/http/internal/chunked.go` (`chunkedReader`, `readChunkLine`, `parseHexUint`).

Result of a read: `complete a rest` (a value and the bytes left unread), `incomplete` (the input ends
inside the message: Go reports `io.EOF`, `io.ErrUnexpectedEOF` or "unexpected EOF reading
trailer"), `malformed` (any other Go error) or `outOfModel`.

OUT OF MODEL (the reader answers `outOfModel`, never a guess):
* obs-fold (a header line that starts with SP/HT after the first field), header names with a space;
* several `Content-Length` fields (Go de-duplicates equal ones and rejects different ones);
* request targets other than `*`, origin-form (`/…`) and `http://` / `https://` absolute-form with a
  `host[:port]` authority of letters, digits, `-`, `.`; targets with bytes outside `0x21..0x7E`
  or with a `%` that is not followed by two hex digits (`net/url` is not modelled);
* `CONNECT` and the HTTP/2 preface method `PRI`;
* status codes that are not three decimal digits (`strconv.Atoi` accepts a sign);
* an empty `Content-Length` value (error or "absent" depending on `GODEBUG=httplaxcontentlength`);
* chunk sizes of 2^62 and above (Go's `int64` overhead counter wraps there).
Everything else is transcribed, including what Go rejects: a `Transfer-Encoding` other than a
single `chunked` (any case) is `malformed`, as are a bad `Content-Length`, a missing colon, an
invalid field name or value byte, bare LF is accepted as a line end, and so on.

Sizes: `bufio`'s 4096-byte buffer bounds a chunk-size line and the window in which the blank line
after a trailer section must be seen; both are modelled (`bufSize`).
-/
namespace Martian.Http1
open Martian Martian.Go Martian.MessageView

/-- Result of an incremental read. -/
inductive R (α : Type) where
  | complete (a : α) (rest : Bytes)
  | incomplete
  | malformed
  | outOfModel
  deriving DecidableEq, Repr

/-- Result of a step that consumes no input. -/
inductive E (α : Type) where
  | ok (a : α)
  | malformed
  | outOfModel
  deriving DecidableEq, Repr

def R.isComplete {α} : R α → Bool
  | .complete _ _ => true
  | _ => false

/-! ### bytes -/

/-- `strings.Cut(s, string(sep))`. -/
def cut (sep : UInt8) : Bytes → Option (Bytes × Bytes)
  | [] => none
  | c :: r => if c == sep then some ([], r) else
    match cut sep r with
    | some (a, b) => some (c :: a, b)
    | none => none

def isOWS (c : UInt8) : Bool := c == 32 || c == 9

/-- `textproto.trim` / `httpguts.trimOWS`: leading and trailing SP / HT removed. -/
def trimOWS (s : Bytes) : Bytes := ((s.dropWhile isOWS).reverse.dropWhile isOWS).reverse

/-- `textproto.TrimString`: leading and trailing SP / HT / CR / LF removed. -/
def trimLWS (s : Bytes) : Bytes := ((s.dropWhile isLineWs).reverse.dropWhile isLineWs).reverse

/-- `httpguts.IsTokenRune` = `textproto.validHeaderFieldByte`. -/
def isTokenByte (c : UInt8) : Bool := validHeaderFieldByte c

/-- `textproto.validHeaderValueByte`: HT, SP, VCHAR, obs-text. -/
def validValueByte (c : UInt8) : Bool := c == 9 || (32 ≤ c && c != 127)

def bufSize : Nat := 4096

/-! ### lines (`bufio.Reader.ReadLine` through `textproto.Reader.readLineSlice`) -/

def stripCR (l : Bytes) : Bytes := if l.getLast? == some 13 then l.dropLast else l

/-- One line without its `\n` / `\r\n`; `none` = `io.EOF` (no byte left). The bytes after the last
LF of the input are returned as a line, unchanged (Go reports the EOF on the next call). -/
def readLine (inp : Bytes) : Option (Bytes × Bytes) :=
  match cut 10 inp with
  | some (l, rest) => some (stripCR l, rest)
  | none => if inp.isEmpty then none else some (inp, [])

/-! ### header section (`textproto.readMIMEHeader`) -/

inductive Line where
  | field (k v : Bytes)
  | malformed
  | outOfModel
  deriving DecidableEq, Repr

/-- One non-empty line that does not start with SP / HT: key up to the first colon,
canonicalised; value with optional white space trimmed. -/
def parseFieldLine (line : Bytes) : Line :=
  match cut 58 line with
  | none => .malformed                                  -- mustHaveFieldNameColon
  | some (k, v) =>
    if k.isEmpty then .malformed
    else if k.all isTokenByte then
      if v.all validValueByte then .field (canonLoop true k) (trimOWS v) else .malformed
    else if k.all (fun c => isTokenByte c || c == 32) then .outOfModel
    else .malformed

/-- The field lines up to and including the blank line, in wire order. -/
def readHeaderLines : Nat → Bool → Bytes → R (List KV)
  | 0, _, _ => .outOfModel
  | fuel + 1, first, inp =>
    match readLine inp with
    | none => .incomplete
    | some (line, rest) =>
      match line with
      | [] => .complete [] rest
      | c :: _ =>
        if isOWS c then (if first then .malformed else .outOfModel)
        else match parseFieldLine line with
          | .malformed => .malformed
          | .outOfModel => .outOfModel
          | .field k v =>
            match readHeaderLines fuel false rest with
            | .complete hs r => .complete ((k, v) :: hs) r
            | e => e

def readHeader (inp : Bytes) : R (List KV) := readHeaderLines (inp.length + 1) true inp

/-! ### the header map as a list: wire order, canonical keys -/

def vals (hs : List KV) (k : Bytes) : List Bytes := (hs.filter fun kv => kv.1 == k).map (·.2)
def has (hs : List KV) (k : Bytes) : Bool := hs.any fun kv => kv.1 == k
def del (hs : List KV) (k : Bytes) : List KV := hs.filter fun kv => !(kv.1 == k)

def connKey : Bytes := strBytes "Connection"
def trailerKey : Bytes := strBytes "Trailer"
def pragmaKey : Bytes := strBytes "Pragma"
def cacheKey : Bytes := strBytes "Cache-Control"
def uaKey : Bytes := strBytes "User-Agent"
def closeTok : Bytes := strBytes "close"
def keepAliveTok : Bytes := strBytes "keep-alive"
def noCacheTok : Bytes := strBytes "no-cache"

/-- `httpguts.tokenEqual` against an ASCII token. -/
def tokenEq (t tok : Bytes) : Bool := t.all (· < 128) && toLower t == toLower tok

/-- `httpguts.HeaderValuesContainsToken`. -/
def valuesContainToken (vs : List Bytes) (tok : Bytes) : Bool :=
  vs.any fun v => (split v 44).any fun p => tokenEq (trimOWS p) tok

/-- `shouldClose` without the header removal. -/
def shouldClose (major minor : Nat) (hs : List KV) : Bool :=
  if major < 1 then true
  else
    let conv := vals hs connKey
    let hasClose := valuesContainToken conv closeTok
    if major == 1 && minor == 0 then hasClose || !valuesContainToken conv keepAliveTok
    else hasClose

/-- `fixPragmaCacheControl`. -/
def fixPragma (hs : List KV) : List KV :=
  match vals hs pragmaKey with
  | v :: _ => if v == noCacheTok && !has hs cacheKey then hs ++ [(cacheKey, noCacheTok)] else hs
  | [] => hs

/-- `parseContentLength` of one value: `none` = error. -/
def parseCL (v : Bytes) : Option Nat :=
  match atoiUnsigned (trimLWS v) with
  | some n => if n < 2 ^ 63 then some n else none
  | none => none

def insertKey (x : Bytes) : List Bytes → List Bytes
  | [] => [x]
  | y :: ys => if bytesLt y x then y :: insertKey x ys else if y == x then y :: ys else x :: y :: ys

/-- The keys of a Go map in sorted order (duplicates merged). -/
def sortedKeys (l : List Bytes) : List Bytes := l.foldr insertKey []

/-- `foreachHeaderElement` over all values, canonicalised. -/
def headerElements (vs : List Bytes) : List Bytes :=
  vs.flatMap fun v => ((split (trimLWS v) 44).map trimLWS).filter (fun f => !f.isEmpty) |>.map canonKey

inductive BodyKind where
  | none                -- http.NoBody
  | len (n : Nat)       -- io.LimitReader(r, n)
  | chunked             -- chunked reader, then the trailer
  | eof                 -- the rest of the connection
  deriving DecidableEq, Repr

structure Transfer where
  hdr : List KV
  chunked : Bool
  cl : Int
  close : Bool
  decl : Option (List Bytes)        -- keys of the `Trailer` map made from the announcement
  body : BodyKind
  deriving DecidableEq, Repr

def headTok : Bytes := strBytes "HEAD"

def bodyAllowedForStatus (code : Nat) : Bool := !((100 ≤ code && code ≤ 199) || code == 204 || code == 304)

/-- `readTransfer`. `close0` is `t.Close` on entry. For a request `code = 200`, `reqMethod` = its own
method. -/
def readTransfer (isResp : Bool) (reqMethod : Bytes) (code major minor : Nat) (close0 : Bool)
    (hs : List KV) : E Transfer :=
  -- parseTransferEncoding (HTTP/0.0 is taken for 1.1)
  let teVals := vals hs teKey
  let hs1 := del hs teKey
  let atLeast11 := (major == 0 && minor == 0) || major > 1 || (major == 1 && minor ≥ 1)
  let teRes : E Bool :=
    if teVals.isEmpty || !atLeast11 then .ok false
    else match teVals with
      | [v] => if toLower v == chunkedTok then .ok true else .malformed
      | _ => .malformed
  match teRes with
  | .malformed => .malformed
  | .outOfModel => .outOfModel
  | .ok chunked =>
  -- fixLength
  let cls := vals hs1 clKey
  if cls.length > 1 then .outOfModel else
  let clRes : E (Option Nat) :=
    match cls with
    | [] => .ok none
    | v :: _ =>
      -- an empty value is an error or "no length" depending on GODEBUG httplaxcontentlength
      if (trimLWS v).isEmpty then .outOfModel else
      match parseCL v with
      | some n => .ok (some n)
      | none => .malformed
  match clRes with
  | .malformed => .malformed
  | .outOfModel => .outOfModel
  | .ok cln =>
  let head := isResp && reqMethod == headTok
  let noBodyStatus := code / 100 == 1 || code == 204 || code == 304
  let (realLen, hs2) : Int × List KV :=
    if head || noBodyStatus then (0, hs1)
    else if chunked then (-1, del hs1 clKey)
    else match cln with
      | some n => ((n : Int), hs1)
      | none => if isResp then (-1, hs1) else (0, hs1)
  let cl : Int := if head then (match cln with | some n => (n : Int) | none => -1) else realLen
  -- fixTrailer
  let trVals := vals hs2 trailerKey
  let announced := has hs2 trailerKey && chunked
  let keys := headerElements trVals
  if announced && keys.any (fun k => k == teKey || k == trailerKey || k == clKey) then .malformed else
  let hs3 := if announced then del hs2 trailerKey else hs2
  let decl : Option (List Bytes) := if announced && !keys.isEmpty then some keys else none
  let close := close0 || (isResp && realLen == -1 && !chunked && bodyAllowedForStatus code)
  let body : BodyKind :=
    if chunked then (if isResp && (head || !bodyAllowedForStatus code) then .none else .chunked)
    else if realLen == 0 then .none
    else if realLen > 0 then .len realLen.toNat
    else if close then .eof else .none
  .ok { hdr := hs3, chunked, cl, close, decl, body }

/-! ### chunked body (`internal.chunkedReader`) and trailer (`body.readTrailer`) -/

/-- `readChunkLine`: the line up to LF (LF removed), at most `bufSize - 1` bytes with the LF. -/
def chunkLine (inp : Bytes) : R Bytes :=
  match cut 10 (inp.take bufSize) with
  | some (l, _) => if l.length + 2 ≤ bufSize then .complete l (inp.drop (l.length + 1)) else .malformed
  | none => if bufSize ≤ inp.length then .malformed else .incomplete

/-- `parseHexUint` with its 16-digit guard. -/
def chunkSize (l : Bytes) : Option Nat := if l.length > 16 then none else parseHexUint l

/-- `cr.excess` after a size line of `lineLen` bytes (without its LF) announcing `n` bytes. -/
def nextExcess (ex : Int) (lineLen n : Nat) : Int :=
  let ex1 : Int := ex + (lineLen + 1) + 2 - (16 + 2 * (n : Int))
  if ex1 < 0 then 0 else ex1

/-- The chunks up to and including the last-chunk line; `ex` is `cr.excess`. -/
def readChunks : Nat → Bytes → Int → R Bytes
  | 0, _, _ => .outOfModel
  | fuel + 1, inp, ex =>
    match chunkLine inp with
    | .incomplete => .incomplete
    | .malformed => .malformed
    | .outOfModel => .outOfModel
    | .complete line rest =>
      match chunkSize (removeChunkExt (trimRightWs line)) with
      | none => .malformed
      | some n =>
        if n ≥ 2 ^ 62 then .outOfModel else
        let ex2 : Int := nextExcess ex line.length n
        if n == 0 then .complete [] rest
        else if ex2 > 16 * 1024 then .malformed
        else if rest.length < n then .incomplete
        else
          let r2 := rest.drop n
          if r2.length < 2 then .incomplete
          else if r2.take 2 != crlf then .malformed
          else match readChunks fuel (r2.drop 2) ex2 with
            | .complete b r => .complete (rest.take n ++ b) r
            | e => e

/-- Is there a `CRLF CRLF` in the list? (`seeUpcomingDoubleCRLF` applies it to the buffer window.) -/
def hasDoubleCRLF : Bytes → Bool
  | 13 :: 10 :: 13 :: 10 :: _ => true
  | _ :: r => hasDoubleCRLF r
  | [] => false

/-- `body.readTrailer` + `mergeSetHeader`: the `Trailer` map after the body, flattened. -/
def readTrailer (decl : Option (List Bytes)) (inp : Bytes) : R (Option (List KV)) :=
  if inp.take 2 == crlf then .complete (decl.map fun _ => []) (inp.drop 2)
  else if inp.length < 2 then .incomplete
  else if !hasDoubleCRLF (inp.take bufSize) then .malformed
  else match readHeader inp with
    | .complete hs rest => .complete (some (sortKV hs)) rest
    | .incomplete => .incomplete
    | .malformed => .malformed
    | .outOfModel => .outOfModel

/-- `io.ReadAll(Body)`: the body bytes and the trailer. -/
def readBody (kind : BodyKind) (decl : Option (List Bytes)) (inp : Bytes) : R (Bytes × Option (List KV)) :=
  match kind with
  | .none => .complete ([], decl.map fun _ => []) inp
  | .len n => if inp.length < n then .incomplete else .complete (inp.take n, decl.map fun _ => []) (inp.drop n)
  | .eof => .complete (inp, decl.map fun _ => []) []
  | .chunked =>
    match readChunks (inp.length + 1) inp 0 with
    | .complete b rest =>
      (match readTrailer decl rest with
       | .complete t r => .complete (b, t) r
       | .incomplete => .incomplete
       | .malformed => .malformed
       | .outOfModel => .outOfModel)
    | .incomplete => .incomplete
    | .malformed => .malformed
    | .outOfModel => .outOfModel

/-! ### start lines -/

def parseRequestLine (line : Bytes) : Option (Bytes × Bytes × Bytes) :=
  match cut 32 line with
  | none => none
  | some (m, rest) =>
    match cut 32 rest with
    | none => none
    | some (u, p) => some (m, u, p)

/-- `ParseHTTPVersion`. -/
def parseHTTPVersion (v : Bytes) : Option (Nat × Nat) :=
  match v with
  | [72, 84, 84, 80, 47, a, 46, b] =>
    if isDigit a && isDigit b then some (a.toNat - 48, b.toNat - 48) else none
  | _ => none

def isHexDigitB (c : UInt8) : Bool := (hexValB c).isSome

/-- Every `%` is followed by two hex digits. -/
def pctOK : Bytes → Bool
  | [] => true
  | 37 :: a :: b :: r => isHexDigitB a && isHexDigitB b && pctOK r
  | 37 :: _ => false
  | _ :: r => pctOK r

def isAlnum (c : UInt8) : Bool := isDigit c || (97 ≤ c && c ≤ 122) || (65 ≤ c && c ≤ 90)
def isHostByte (c : UInt8) : Bool := isAlnum c || c == 45 || c == 46

def validAuthority (a : Bytes) : Bool :=
  match cut 58 a with
  | none => !a.isEmpty && a.all isHostByte
  | some (h, p) => !h.isEmpty && h.all isHostByte && !p.isEmpty && p.all isDigit

def httpScheme : Bytes := strBytes "http://"
def httpsScheme : Bytes := strBytes "https://"

def authorityOf (afterScheme : Bytes) : Option Bytes :=
  let a := afterScheme.takeWhile fun c => c != 47 && c != 63
  if validAuthority a then some a else none

/-- The authority of a request target in the modelled domain: `none` = out of model,
`some none` = no authority (`URL.Host == ""`). -/
def targetHost (u : Bytes) : Option (Option Bytes) :=
  if !(u.all fun c => 33 ≤ c && c ≤ 126) || !pctOK u then none
  else if u == [42] then some none
  else if u.head? == some 47 then some none
  else if httpScheme.isPrefixOf u then (authorityOf (u.drop httpScheme.length)).map some
  else if httpsScheme.isPrefixOf u then (authorityOf (u.drop httpsScheme.length)).map some
  else none

/-! ### messages -/

/-- What the reader delivers: the message (body read to its end, trailer merged), `Close`, and the
trailer keys that were announced in the head (`Trailer` map before the body is read). -/
structure Parsed where
  msg : Msg
  close : Bool
  decl : Option (List Bytes)
  deriving DecidableEq, Repr

def connectTok : Bytes := strBytes "CONNECT"
def priTok : Bytes := strBytes "PRI"

def liftE {α β} (e : E α) (k : α → R β) : R β :=
  match e with
  | .ok a => k a
  | .malformed => .malformed
  | .outOfModel => .outOfModel

def finishBody (m : Msg) (t : Transfer) (inp : Bytes) : R Parsed :=
  match readBody t.body t.decl inp with
  | .complete (b, tr) rest =>
    .complete { msg := { m with te := if t.chunked then [chunkedTok] else [], cl := t.cl, hdr := sortKV t.hdr,
                                body := some b, trailer := tr },
                close := t.close, decl := t.decl } rest
  | .incomplete => .incomplete
  | .malformed => .malformed
  | .outOfModel => .outOfModel

def reqSkeleton (method uri : Bytes) (major minor : Nat) (host : Bytes) : Msg :=
  { isReq := true, method, url := uri, major, minor, code := 0, status := [], host, te := [], cl := 0,
    hdr := [], body := none, trailer := none }

def resSkeleton (major minor code : Nat) (status : Bytes) : Msg :=
  { isReq := false, method := [], url := [], major, minor, code, status, host := [], te := [], cl := 0,
    hdr := [], body := none, trailer := none }

/-- `http.ReadRequest`: the request line and the header section; the body is not touched. The
result is the message skeleton, the framing decision and the bytes after the blank line. -/
def readRequestHead (inp : Bytes) : R (Msg × Transfer) :=
  match readLine inp with
  | none => .incomplete
  | some (line, r1) =>
    match parseRequestLine line with
    | none => .malformed
    | some (method, uri, proto) =>
      if method.isEmpty || !method.all isTokenByte then .malformed else
      match parseHTTPVersion proto with
      | none => .malformed
      | some (major, minor) =>
        if method == connectTok || method == priTok then .outOfModel else
        match targetHost uri with
        | none => .outOfModel
        | some auth =>
          match readHeader r1 with
          | .incomplete => .incomplete
          | .malformed => .malformed
          | .outOfModel => .outOfModel
          | .complete hs r2 =>
            let hosts := vals hs hostKey
            if hosts.length > 1 then .malformed else
            let host := auth.getD (hosts.headD [])
            let hs1 := fixPragma hs
            let close0 := shouldClose major minor hs1
            liftE (readTransfer false method 200 major minor close0 hs1) fun t =>
              .complete (reqSkeleton method uri major minor host, { t with hdr := del t.hdr hostKey }) r2

/-- `http.ReadRequest` followed by `io.ReadAll(req.Body)`. -/
def readRequest (inp : Bytes) : R Parsed :=
  match readRequestHead inp with
  | .complete (m, t) r => finishBody m t r
  | .incomplete => .incomplete
  | .malformed => .malformed
  | .outOfModel => .outOfModel

/-- `strings.Cut(resp.Status, " ")`: the status code as written. -/
def codeOf (status : Bytes) : Bytes :=
  match cut 32 status with
  | some (c, _) => c
  | none => status

/-- `http.ReadResponse(r, req)` with `req.Method = reqMethod`: status line and header section. -/
def readResponseHead (reqMethod : Bytes) (inp : Bytes) : R (Msg × Transfer) :=
  match readLine inp with
  | none => .incomplete
  | some (line, r1) =>
    match cut 32 line with
    | none => .malformed
    | some (proto, status0) =>
      let status := status0.dropWhile (· == 32)
      let codeB := codeOf status
      if codeB.length != 3 then .malformed else
      if !codeB.all isDigit then .outOfModel else
      match parseHTTPVersion proto with
      | none => .malformed
      | some (major, minor) =>
        let code := digitsVal codeB 0
        match readHeader r1 with
        | .incomplete => .incomplete
        | .malformed => .malformed
        | .outOfModel => .outOfModel
        | .complete hs r2 =>
          let hs1 := fixPragma hs
          let close0 := shouldClose major minor hs1
          -- shouldClose(…, removeCloseHeader = true)
          let hs2 := if major ≥ 1 && !(major == 1 && minor == 0) && close0 then del hs1 connKey else hs1
          liftE (readTransfer true reqMethod code major minor close0 hs2) fun t =>
            .complete (resSkeleton major minor code status, t) r2

/-- `http.ReadResponse` followed by `io.ReadAll(res.Body)`. -/
def readResponse (reqMethod : Bytes) (inp : Bytes) : R Parsed :=
  match readResponseHead reqMethod inp with
  | .complete (m, t) r => finishBody m t r
  | .incomplete => .incomplete
  | .malformed => .malformed
  | .outOfModel => .outOfModel

/-! ### streams: pipelined requests, responses on a kept-alive connection -/

/-- Outcome of reading messages until the input is used up: the messages, and how it ended
(`none` = cleanly at a message boundary). -/
structure Stream where
  msgs : List Parsed
  stop : Option (R Unit)
  deriving DecidableEq, Repr

def stopOf {α} : R α → R Unit
  | .complete _ r => .complete () r
  | .incomplete => .incomplete
  | .malformed => .malformed
  | .outOfModel => .outOfModel

def readRequests : Nat → Bytes → Stream
  | 0, _ => ⟨[], some .outOfModel⟩
  | fuel + 1, inp =>
    if inp.isEmpty then ⟨[], none⟩ else
    match readRequest inp with
    | .complete p rest =>
      -- a message cannot be empty: `rest` is strictly shorter
      if rest.length ≥ inp.length then ⟨[p], some .outOfModel⟩ else
      let s := readRequests fuel rest
      ⟨p :: s.msgs, s.stop⟩
    | e => ⟨[], some (stopOf e)⟩

/-- All pipelined requests of a connection's input. -/
def readAllRequests (inp : Bytes) : Stream := readRequests (inp.length + 1) inp

/-- Responses to the given request methods, read one after the other from an upstream connection;
reading stops after a response that closes the connection. -/
def readResponses : List Bytes → Bytes → Stream
  | [], inp => ⟨[], if inp.isEmpty then none else some (.complete () inp)⟩
  | m :: ms, inp =>
    match readResponse m inp with
    | .complete p rest =>
      if p.close then ⟨[p], if rest.isEmpty then none else some (.complete () rest)⟩ else
      let s := readResponses ms rest
      ⟨p :: s.msgs, s.stop⟩
    | e => ⟨[], some (stopOf e)⟩

/-! ### the relay: what `martian.Proxy.handle` + `http.Transport` / `Request.write` send to the origin,
and what `Response.Write` sends back to the client

`handle` reads the request with `http.ReadRequest`, sets `URL.Scheme` / `URL.Host`, and (no-op
modifiers) hands it to `Transport.RoundTrip`, which serialises it with `Request.write(w,
usingProxy = false)`: origin-form target, `Host`, `User-Agent`, then `transferWriter.writeHeader`
(`Connection: close`, `Content-Length` / `Transfer-Encoding`, `Trailer`), then the other fields.
The response comes from `http.ReadResponse`; `handle` sets `res.Close` when either side or the
proxy asked to close and calls `res.Write`.

Out of model (`none`): targets with bytes outside unreserved / sub-delims / `:@/%?` (the `net/url`
round trip may re-escape them), requests without any host, responses with a status below 200 (the
transport swallows 1xx; `%03d` and `Itoa` disagree below 100). -/

def postTok : Bytes := strBytes "POST"
def putTok : Bytes := strBytes "PUT"
def patchTok : Bytes := strBytes "PATCH"
def defaultUA : Bytes := strBytes "Go-http-client/1.1"

def isSafeTargetByte (c : UInt8) : Bool :=
  isAlnum c || (strBytes "-._~!$&'()*+,;=:@/%?").contains c

/-- `URL.RequestURI()` of a parsed request target in the modelled domain. -/
def originForm (u : Bytes) : Bytes :=
  if u == [42] || u.head? == some 47 then u
  else
    let afterScheme := if httpScheme.isPrefixOf u then u.drop httpScheme.length else u.drop httpsScheme.length
    let r := afterScheme.dropWhile fun c => c != 47 && c != 63
    if r.isEmpty then [47] else if r.head? == some 63 then 47 :: r else r

def isTokenBoundary (c : UInt8) : Bool := c == 32 || c == 44 || c == 9

/-- `http.hasToken(v, token)` for a lower-case ASCII token. -/
def hasTokenFrom (prevBoundary : Bool) (v tok : Bytes) : Bool :=
  match v with
  | [] => false
  | c :: r =>
    (prevBoundary && tok.length ≤ v.length && toLower (v.take tok.length) == tok &&
      (match v.drop tok.length with | [] => true | d :: _ => isTokenBoundary d))
    || hasTokenFrom (isTokenBoundary c) r tok

def hasToken (v tok : Bytes) : Bool := !tok.isEmpty && hasTokenFrom true v tok

/-- `headerNewlineToSpace` then `textproto.TrimString`. -/
def cleanValue (v : Bytes) : Bytes := trimLWS (v.map fun c => if c == 10 || c == 13 then 32 else c)

def connCloseField (close : Bool) (hdr : List KV) : List KV :=
  if close && !hasToken ((vals hdr connKey).headD []) closeTok then [(connKey, closeTok)] else []

def trailerField (chunked : Bool) (decl : Option (List Bytes)) : List KV :=
  match decl with
  | some ks => if chunked && !ks.isEmpty then [(trailerKey, join (sortedKeys ks) [44])] else []
  | none => []

/-- A relayed message: the message to serialise and whether its body is suppressed. -/
structure Relayed where
  msg : Msg
  noBody : Bool
  deriving DecidableEq, Repr

/-- `transferWriter.writeBody` with a nil body (answer to HEAD) still ends a chunked message: the
trailer fields and one CRLF follow the head. -/
def Relayed.wire (x : Relayed) : Bytes :=
  if x.noBody then
    headSection x.msg ++
      (if isChunked x.msg.te then fields (sortKV (x.msg.trailer.getD [])) ++ crlf else [])
  else MessageView.wire x.msg

/-- The request as the origin receives it. -/
def relayRequest (p : Parsed) : Option Relayed :=
  let m := p.msg
  if !m.url.all isSafeTargetByte || m.host.isEmpty then none else
  let ua : List KV :=
    match vals m.hdr uaKey with
    | [] => [(uaKey, defaultUA)]
    | v :: _ => if (cleanValue v).isEmpty then [] else [(uaKey, cleanValue v)]
  let chunked := isChunked m.te
  -- outgoingLength: http.NoBody counts as 0; shouldSendContentLength
  let sendCL := !chunked && (m.cl > 0 || (m.cl == 0 && (m.method == postTok || m.method == putTok || m.method == patchTok)))
  let others := m.hdr.filter fun kv => !([hostKey, uaKey, clKey, teKey, trailerKey].contains kv.1)
  some { msg := { m with url := originForm m.url, major := 1, minor := 1,
                         te := if chunked then [chunkedTok] else [],
                         cl := if sendCL then m.cl else -1,
                         hdr := ua ++ connCloseField p.close m.hdr ++ trailerField chunked p.decl ++ others,
                         trailer := if chunked && p.decl.isSome then m.trailer else none },
         noBody := false }

/-- `Response.Write`'s status text: `Status` without its leading "code ". -/
def statusText (code3 status : Bytes) : Bytes :=
  if (code3 ++ [32]).isPrefixOf status then status.drop 4 else status

/-- The response as the client receives it; `reqMethod` is the request's method, `closing` is
`req.Close || p.Closing()`. -/
def relayResponse (reqMethod : Bytes) (closing : Bool) (p : Parsed) : Option Relayed :=
  let m := p.msg
  if m.code < 200 then none else
  let code3 := codeOf m.status
  let head := reqMethod == headTok
  let chunked := isChunked m.te
  let atLeast11 := m.major > 1 || (m.major == 1 && m.minor ≥ 1)
  -- handle(): res.Close = true when anybody asked; Response.Write: unknown length without chunking closes
  let close := p.close || closing || (m.cl == -1 && !chunked && atLeast11)
  let sendCL := !chunked && (m.cl > 0 ||
    (m.cl == 0 && (reqMethod == postTok || reqMethod == putTok || reqMethod == patchTok || bodyAllowedForStatus m.code)))
  let others := m.hdr.filter fun kv => !([clKey, teKey, trailerKey].contains kv.1)
  some { msg := { m with status := code3 ++ [32] ++ statusText code3 m.status,
                         te := if chunked then [chunkedTok] else [],
                         cl := if sendCL then m.cl else -1,
                         hdr := connCloseField close m.hdr ++ trailerField chunked p.decl ++ others,
                         body := if head then some [] else m.body,
                         trailer := if chunked && p.decl.isSome then m.trailer else none },
         noBody := head }

end Martian.Http1
