import Martian.Util
/-!
HPACK dynamic-table state as far as the h2 relay depends on it (C08): the decoder each relay keeps
for the header blocks of its source endpoint, and the size signalling of the encoder it keeps for
its destination endpoint. Transcribed from the pinned `golang.org/x/net/http2/hpack`
(`dynamicTable.setMaxSize / add / evict`, `Decoder.at`, `parseFieldIndexed`, `parseFieldLiteral`,
`parseDynamicTableSizeUpdate`, `Encoder.SetMaxDynamicTableSize / SetMaxDynamicTableSizeLimit /
WriteField`), at the level of representations (RFC 7541 section 6): the byte syntax (prefix integers,
Huffman) and the static table are not modelled, a block is a list of `Rep`.

The tie to the real decoder / encoder is differential (`hp.*` ops of `go/internal/h2relay`).
-/
namespace Martian.H2Hpack
open Martian

structure Ent where
  name : Bytes
  value : Bytes
deriving DecidableEq, Repr

/-- `HeaderField.Size`: RFC 7541 section 4.1. -/
def Ent.size (e : Ent) : Nat := e.name.length + e.value.length + 32

def tabSize : List Ent → Nat
  | [] => 0
  | e :: es => e.size + tabSize es

/-- `dynamicTable.evict` on `ents` (oldest first, as `headerFieldTable.ents`): drop the oldest
entries while the table is larger than `max`. -/
def evict (max : Nat) : List Ent → List Ent
  | [] => []
  | e :: es => if tabSize (e :: es) > max then evict max es else e :: es

structure DynTab where
  ents : List Ent := []      -- oldest first
  maxSize : Nat := 4096
deriving DecidableEq, Repr

/-- `dynamicTable.setMaxSize`. -/
def DynTab.setMax (t : DynTab) (v : Nat) : DynTab := { ents := evict v t.ents, maxSize := v }

/-- `dynamicTable.add`: append, then evict (an entry larger than the table empties it). -/
def DynTab.add (t : DynTab) (e : Ent) : DynTab := { t with ents := evict t.maxSize (t.ents ++ [e]) }

/-- `Decoder.at` for a dynamic index: `k = 0` is the newest entry. -/
def DynTab.at? (t : DynTab) (k : Nat) : Option Ent :=
  if k < t.ents.length then t.ents[t.ents.length - 1 - k]? else none

/-- One representation of a header block. Dynamic entries only; `k = 0` is the newest. -/
inductive Rep
  | sizeUpdate (n : Nat)                  -- 6.3 dynamic table size update
  | indexed (k : Nat)                     -- 6.1 indexed header field
  | litInc (name value : Bytes)           -- 6.2.1 literal with incremental indexing, new name
  | litIncRef (k : Nat) (value : Bytes)   -- 6.2.1 … name taken from entry `k`
  | lit (name value : Bytes)              -- 6.2.2 literal without indexing, new name
deriving DecidableEq, Repr

/-- `hpack.Decoder`: the table and `allowedMaxSize` (`SetAllowedMaxDynamicTableSize`). -/
structure Dec where
  tab : DynTab := {}
  allowed : Nat := 4096
deriving DecidableEq, Repr

/-- `parseHeaderFieldRepr`. `first` = `d.firstField`: no representation of this block has been
parsed yet (x/net clears it after ANY representation, a size update included, so a second size
update is only accepted when the table is empty). `none` = `DecodingError`. -/
def decRep (d : Dec) (first : Bool) : Rep → Option (Dec × List Ent)
  | .sizeUpdate n =>
    if !first && tabSize d.tab.ents > 0 then none
    else if n > d.allowed then none
    else some ({ d with tab := d.tab.setMax n }, [])
  | .indexed k => (d.tab.at? k).map fun e => (d, [e])
  | .litInc n v => some ({ d with tab := d.tab.add ⟨n, v⟩ }, [⟨n, v⟩])
  | .litIncRef k v => (d.tab.at? k).map fun e => ({ d with tab := d.tab.add ⟨e.name, v⟩ }, [⟨e.name, v⟩])
  | .lit n v => some (d, [⟨n, v⟩])

def decBlock (d : Dec) (first : Bool) : List Rep → Option (Dec × List Ent)
  | [] => some (d, [])
  | r :: rs =>
    match decRep d first r with
    | none => none
    | some (d1, f1) =>
      match decBlock d1 false rs with
      | none => none
      | some (d2, f2) => some (d2, f1 ++ f2)

/-- `Decoder.DecodeFull` of one block. -/
def Dec.decodeFull (d : Dec) (rs : List Rep) : Option (Dec × List Ent) := decBlock d true rs

/-- The size signalling of `hpack.Encoder`: `dynTab.maxSize`, `minSize` (`none` = `uint32Max`),
`tableSizeUpdate`, `maxSizeLimit`. What the encoder indexes is not modelled. -/
structure EncSig where
  maxSize : Nat := 4096
  minSize : Option Nat := none
  pending : Bool := false
  limit : Nat := 4096
deriving DecidableEq, Repr

/-- `Encoder.SetMaxDynamicTableSize`. -/
def EncSig.setMax (e : EncSig) (v : Nat) : EncSig :=
  let v := if v > e.limit then e.limit else v
  { e with maxSize := v, pending := true,
           minSize := match e.minSize with
             | none => some v
             | some m => if v < m then some v else some m }

/-- `Encoder.SetMaxDynamicTableSizeLimit`. -/
def EncSig.setLimit (e : EncSig) (v : Nat) : EncSig :=
  if e.maxSize > v then { e with limit := v, pending := true, maxSize := v } else { e with limit := v }

/-- The size updates the next `WriteField` writes before the field: the smallest size set since
the last block if it is below the final one, then the final one. -/
def EncSig.flush (e : EncSig) : EncSig × List Nat :=
  if e.pending then
    ({ e with pending := false, minSize := none },
     (match e.minSize with
      | some m => if m < e.maxSize then [m] else []
      | none => []) ++ [e.maxSize])
  else (e, [])

/-- HPACK state of one relay: the decoder for its source, the encoder signalling for its
destination. `newRelay`: decoder 4096 with `SetAllowedMaxDynamicTableSize(math.MaxUint32)`,
encoder with `SetMaxDynamicTableSizeLimit(math.MaxUint32)`. -/
structure Hp where
  dec : Dec := { allowed := 4294967295 }
  enc : EncSig := { limit := 4294967295 }
deriving DecidableEq, Repr

/-- `relay.updateTableSize(v)`, called by the peer relay when the relay's DESTINATION endpoint
advertises SETTINGS_HEADER_TABLE_SIZE = v: the encoder towards that endpoint follows at once.
The decoder is NOT touched: the size of its table changes when the SOURCE endpoint's encoder says
so in a header block (RFC 7541 4.2), which it does after it has seen and acknowledged the SETTINGS
the relay forwards to it. -/
def Hp.updateTableSize (h : Hp) (v : Nat) : Hp := { h with enc := h.enc.setMax v }

/-- The code before the F08e repair: the decoder's table was resized immediately as well. -/
def Hp.updateTableSizeOld (h : Hp) (v : Nat) : Hp :=
  { dec := { h.dec with tab := h.dec.tab.setMax v }, enc := h.enc.setMax v }

/-- Canonical serialisation of a field list (= `LitEncode` of the harness: literal without
indexing, new name, no Huffman), the identity under which the relay model carries decoded lists. -/
def int7 (n : Nat) : Bytes :=
  if n < 127 then [UInt8.ofNat n]
  else
    let rec go (fuel m : Nat) : Bytes :=
      match fuel with
      | 0 => [UInt8.ofNat m]
      | fuel + 1 => if m ≥ 128 then UInt8.ofNat (m % 128 + 128) :: go fuel (m / 128) else [UInt8.ofNat m]
    127 :: go 10 (n - 127)

def litEncode : List Ent → Bytes
  | [] => []
  | e :: es => (0 : UInt8) :: (int7 e.name.length ++ e.name ++ int7 e.value.length ++ e.value) ++ litEncode es

end Martian.H2Hpack
