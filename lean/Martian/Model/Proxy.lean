import Martian.Util
/-!
The per-connection exchange machine of `proxy.go` (`handleLoop` / `handle` /
`handleConnectRequest`), transcribed from the current source (after the `fix:` commits):
one `Item` per request the proxy reads from a client connection; the machine emits the ordered
list of observable events. Parsed messages are records; HTTP/1 parsing and serialisation
(`net/http`) is identity on records and is trusted (differentially exercised by the harness).
Shared by C01, C02, C03 and C05.
-/
namespace Martian.Proxy

/-- The error VALUE a modifier returns. `proxy.go` tests error values in one place only
(`isCloseable`, on what `handle` returns to the serving loop); a modifier's error must never get
there, whatever it is - including the values that are closeable when they come from the connection
(a body-parsing modifier returns `io.EOF`, one that calls a slow backend a deadline error). -/
inductive ErrVal
  | plain          -- errors.New
  | wrapped        -- fmt.Errorf("…: %w", io.EOF)
  | multi          -- *martian.MultiError of ordinary errors
  | multiEof       -- *martian.MultiError holding io.EOF and io.ErrClosedPipe
  | unexpectedEof  -- io.ErrUnexpectedEOF
  | canceled       -- context.Canceled
  | refused        -- *net.OpError, not a timeout
  | eof            -- io.EOF
  | closedPipe     -- io.ErrClosedPipe
  | timeout        -- a net.Error with Timeout() = true
  | opTimeout      -- *net.OpError wrapping one
  | deadline       -- os.ErrDeadlineExceeded
  | ctxDeadline    -- context.DeadlineExceeded
  | dnsTimeout     -- *net.DNSError{IsTimeout: true}
  | controlText    -- an ordinary error whose TEXT has CR LF, NUL, ESC, quotes and a backslash in it
  | nonAsciiText   -- … or bytes outside ASCII
  deriving Repr, DecidableEq

/-- `isCloseable` of proxy.go on these values: `err.(net.Error)` with `Timeout()`, or identical to
`io.EOF` / `io.ErrClosedPipe` (`errClose` is unexported: no modifier can return it). -/
def ErrVal.closeable : ErrVal → Bool
  | .eof | .closedPipe | .timeout | .opTimeout | .deadline | .ctxDeadline | .dnsTimeout => true
  | _ => false

/-- What the request modifier does on this exchange. -/
inductive ReqB
  | pass | err (v : ErrVal) | skip | errSkip (v : ErrVal) | hijack
  | insecure   -- returns nil after calling the public `Session.MarkInsecure()` (any code holding the session can)
  deriving Repr, DecidableEq
/-- What the response modifier does. -/
inductive ResB | pass | err (v : ErrVal) | hijack
  deriving Repr, DecidableEq

/-- What the origin (or the dial) does. -/
inductive Org
  | ok (status : Nat) (close : Bool)   -- a complete response; `close` = it makes `res.Close` true
  | fail                               -- refused / closed before a complete head / not HTTP: `RoundTrip` error
  | trunc (status : Nat)               -- complete head, body cut short: `res.Write` fails
  deriving Repr, DecidableEq

/-- One request read from the client connection. -/
inductive Item
  | x (reqClose : Bool) (rq : ReqB) (rs : ResB) (org : Org)           -- non-CONNECT exchange
  | connectMitm (tls : Bool) (rq : ReqB) (rs : ResB)                  -- CONNECT with MITM configured; first tunnel byte is (not) a TLS handshake
  | connectBlind (dialOk : Bool) (rq : ReqB) (rs : ResB)              -- CONNECT without MITM
  | connectMitmFail (rq : ReqB) (rs : ResB)                           -- CONNECT with MITM configured; the first tunnel byte is a TLS
                                                                      -- handshake record and the handshake FAILS (the client rejects the
                                                                      -- forged certificate, no common version, …) without closing TCP
  deriving Repr, DecidableEq

/-- Per-connection state threaded through the loop. -/
structure St where
  secure : Bool := false      -- `session.IsSecure()` (sticky)
  connTls : Bool := false     -- the `conn` argument `handle` receives is the decrypted TLS connection
  sessTls : Bool := false     -- `session.conn` (what a hijacker is handed) is the decrypted connection
  tlsId : Nat := 0            -- which TLS session `conn` is: 0 none, 1 the listener's, `j + 2` the one
                              -- negotiated inside the tunnel of the CONNECT with index `j`
  stored : Nat := 0           -- how many values modifiers have put into the session's value map so far (the
                              -- recording request modifier stores one per request it sees); `setConn` keeps the map
  deriving Repr, DecidableEq

inductive Ev
  | read (i : Nat)
  | link (c : Nat)
  | unlink (c : Nat)
  | reqmod (i c : Nat) (https secure tls : Bool) (tid : Nat)  -- what the request modifier sees; `tid` = whose
                                                              -- `tls.ConnectionState` is in `req.TLS` (0: nil)
  | warnReq (i : Nat)
  | dial (i : Nat) (ok : Bool)
  | upstream (i : Nat) (tls : Bool)
  | warnRt (i : Nat)                                  -- Warning on the synthetic 502
  | resmod (i c : Nat) (status : Nat)
  | warnRes (i : Nat)
  | write (i : Nat) (status : Nat) (closeMark complete : Bool)
  | tunnel (i : Nat)                                  -- blind tunnel ran to completion
  | hijacked (i : Nat) (tlsConn : Bool) (tid : Nat)   -- modifier took the connection; `tlsConn` = it got the decrypted
                                                      -- one, `tid` = of which TLS session (0: a raw connection)
  | closeConn
  deriving Repr, DecidableEq

inductive Next | again (s : St) | close | hijack
  deriving Repr, DecidableEq

def rqErr : ReqB → Bool | .err _ => true | .errSkip _ => true | _ => false
def rqSkip : ReqB → Bool | .skip => true | .errSkip _ => true | _ => false
def rsErr : ResB → Bool | .err _ => true | _ => false

/-- The common head of `handle`: read, link, security marking, request modifier, Warning. -/
def pre (s : St) (i c : Nat) (rq : ReqB) : List Ev :=
  let secure := s.secure || s.connTls
  -- `req.TLS` is taken from the connection `handle` was given (`conn.(*tls.Conn).ConnectionState()`),
  -- on every request anew
  [.read i, .link c, .reqmod i c secure secure s.connTls (if s.connTls then s.tlsId else 0)] ++
    (if rqErr rq then [.warnReq i] else [])

/-- What `Session.Hijack()` hands out: `session.conn`, which `setConn` re-points to the decrypted
connection of the innermost tunnel. -/
def hijTid (s : St) : Nat := if s.sessTls then s.tlsId else 0

def stAfter (s : St) : St := { s with secure := s.secure || s.connTls, stored := s.stored + 1 }

/-- What a request modifier's use of the public session API leaves behind: `MarkInsecure()` clears
the flag - until `handle` looks at the connection it is given for the next request. -/
def afterReq (rq : ReqB) (s : St) : St := if rq = .insecure then { s with secure := false } else s

/-- One call of `handle` for a non-CONNECT request. `shutdown` = `p.Closing()` at the close decision. -/
def handleX (shutdown : Bool) (s : St) (i c : Nat) (reqClose : Bool) (rq : ReqB) (rs : ResB) (org : Org) :
    List Ev × Next :=
  let s' := stAfter s
  let p := pre s i c rq
  if rq = .hijack then (p ++ [.hijacked i s.sessTls (hijTid s), .unlink c], .hijack) else
  -- round trip
  let (up, status, resClose, complete) : List Ev × Nat × Bool × Bool :=
    if rqSkip rq then ([], 200, false, true) else
    match org with
    | .ok st cl => ([.upstream i s'.secure], st, cl, true)
    | .fail => ([.upstream i s'.secure, .warnRt i], 502, false, true)
    | .trunc st => ([.upstream i s'.secure], st, false, false)
  let post := [Ev.resmod i c status] ++ (if rsErr rs then [Ev.warnRes i] else [])
  if rs = .hijack then (p ++ up ++ post ++ [.hijacked i s.sessTls (hijTid s), .unlink c], .hijack) else
  let closing := reqClose || resClose || shutdown
  (p ++ up ++ post ++ [.write i status closing complete, .unlink c],
    if closing || !complete then .close else .again (afterReq rq s'))

/-- CONNECT with MITM configured. -/
def handleMitm (s : St) (i c : Nat) (tls : Bool) (rq : ReqB) (rs : ResB) : List Ev × Next :=
  let s' := stAfter s
  let p := pre s i c rq
  if rq = .hijack then (p ++ [.hijacked i s.sessTls (hijTid s), .unlink c], .hijack) else
  let post := [Ev.resmod i c 200] ++ (if rsErr rs then [Ev.warnRes i] else [])
  if rs = .hijack then (p ++ post ++ [.hijacked i s.sessTls (hijTid s), .unlink c], .hijack) else
  -- the CONNECT request stays linked while its tunnel is served (`defer unlink` runs at return);
  -- the trace records the unlink at the point the tunnel's requests start (see `run`).
  (p ++ post ++ [.write i 200 false true],
    -- a handshake inside the tunnel is a TLS session of its own (`tls.Server` over whatever `conn` is),
    -- and from here on `handle` is given that connection
    .again (if tls then { secure := true, connTls := true, sessTls := true, tlsId := i + 2, stored := s'.stored }
            else afterReq rq s'))

/-- CONNECT with MITM configured whose TLS handshake fails: `tlsconn.Handshake()` returns an error,
the callback runs, `handle` returns that error - which is not closeable, so the serving loop (of the
listener connection, or of the enclosing tunnel) goes on with the connection it had. Nothing was
re-pointed (`brw.Reset`, `session.setConn` come after the handshake) and nothing was marked: the
session state is exactly what a request leaves behind. The CONNECT's context is unlinked at once
(`defer unlink` runs when `handle` returns; no tunnel is being served). -/
def handleMitmFail (s : St) (i c : Nat) (rq : ReqB) (rs : ResB) : List Ev × Next :=
  let s' := stAfter s
  let p := pre s i c rq
  if rq = .hijack then (p ++ [.hijacked i s.sessTls (hijTid s), .unlink c], .hijack) else
  let post := [Ev.resmod i c 200] ++ (if rsErr rs then [Ev.warnRes i] else [])
  if rs = .hijack then (p ++ post ++ [.hijacked i s.sessTls (hijTid s), .unlink c], .hijack) else
  (p ++ post ++ [.write i 200 false true, .unlink c], .again (afterReq rq s'))

/-- CONNECT without MITM. -/
def handleBlind (s : St) (i c : Nat) (dialOk : Bool) (rq : ReqB) (rs : ResB) : List Ev × Next :=
  let s' := stAfter s
  let p := pre s i c rq
  if rq = .hijack then (p ++ [.hijacked i s.sessTls (hijTid s), .unlink c], .hijack) else
  let status := if dialOk then 200 else 502
  let d := [Ev.dial i dialOk] ++ (if dialOk then [] else [Ev.warnRt i])
  let post := [Ev.resmod i c status] ++ (if rsErr rs then [Ev.warnRes i] else [])
  if rs = .hijack then (p ++ d ++ post ++ [.hijacked i s.sessTls (hijTid s), .unlink c], .hijack) else
  -- `res.ContentLength = -1`: net/http marks such a response `Connection: close`
  if dialOk then (p ++ d ++ post ++ [.write i 200 true true, .tunnel i, .unlink c], .close)
  else (p ++ d ++ post ++ [.write i 502 false true, .unlink c], .again (afterReq rq s'))

def handleItem (shutdown : Bool) (s : St) (i c : Nat) : Item → List Ev × Next
  | .x rc rq rs org => handleX shutdown s i c rc rq rs org
  | .connectMitm tls rq rs => handleMitm s i c tls rq rs
  | .connectBlind ok rq rs => handleBlind s i c ok rq rs
  | .connectMitmFail rq rs => handleMitmFail s i c rq rs

/-- A MITM CONNECT whose tunnel is being served keeps its context linked (`defer unlink`). -/
def nextOpen (c : Nat) (opn : List Nat) : Item → List Nat
  | .connectMitm _ _ _ => c :: opn
  | _ => opn

/-- `handleLoop`: requests are numbered from `i`; context ids are fresh per request (`base + i`).
The pending MITM CONNECT contexts (linked until their tunnel ends) are in `open`. When the client
has nothing more to send the read fails and the connection is closed. -/
def run (shutdown : Bool) (base : Nat) : St → Nat → List Nat → List Item → List Ev
  | _, _, opn, [] => opn.map .unlink ++ [.closeConn]
  | s, i, opn, it :: rest =>
    let (evs, nxt) := handleItem shutdown s i (base + i) it
    match nxt with
    | .again s' => evs ++ run shutdown base s' (i + 1) (nextOpen (base + i) opn it) rest
    | .close => evs ++ opn.map .unlink ++ [.closeConn]
    | .hijack => evs ++ opn.map .unlink ++ [.closeConn]

def runConn (shutdown : Bool) (base : Nat) (items : List Item) : List Ev :=
  run shutdown base {} 0 [] items

/-- A connection accepted on a transparent TLS listener: `handle` receives the TLS connection from
the first request on, and the session holds it. -/
def tlsListenerState : St := { secure := false, connTls := true, sessTls := true, tlsId := 1 }

def runConnOn (s0 : St) (shutdown : Bool) (base : Nat) (items : List Item) : List Ev :=
  run shutdown base s0 0 [] items

/-! ### Projections used by the theorems and by the driver -/

def servedCount : List Ev → Nat
  | [] => 0
  | .read _ :: r => servedCount r + 1
  | _ :: r => servedCount r

def countP (p : Ev → Bool) (l : List Ev) : Nat := (l.filter p).length

def isReqmod (i : Nat) : Ev → Bool | .reqmod j _ _ _ _ _ => j == i | _ => false
def isResmod (i : Nat) : Ev → Bool | .resmod j _ _ => j == i | _ => false
def isUpstream (i : Nat) : Ev → Bool | .upstream j _ => j == i | .dial j _ => j == i | _ => false
def isWrite (i : Nat) : Ev → Bool | .write j _ _ _ => j == i | _ => false
def isWarnReq (i : Nat) : Ev → Bool | .warnReq j => j == i | _ => false
def isWarnRes (i : Nat) : Ev → Bool | .warnRes j => j == i | _ => false
def isWarnRt (i : Nat) : Ev → Bool | .warnRt j => j == i | _ => false
def isHijacked (i : Nat) : Ev → Bool | .hijacked j _ _ => j == i | _ => false

end Martian.Proxy
