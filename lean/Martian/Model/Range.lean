import Martian.Go.Strings
import Martian.Go.Strconv
import Martian.Go.Path
/-!
C20 — Range handling of `body.Modifier.ModifyResponse` / `static.Modifier.ModifyResponse`
(identical pipeline in both files) and the static modifier's path resolution.
Transcribed statement by statement; Go's slice-bounds rule is explicit so that a panic is a
value of the model, not an impossibility by construction.
-/
namespace Martian.Range
open Martian Martian.Go

/-- Outcome of one `for _, rng := range sranges` iteration. -/
inductive One
  | ok (s e : Int)
  | unsat            -- `res.StatusCode = 416; return nil`
  | err              -- `return err` (strconv error)
  deriving Repr, DecidableEq

def minus : UInt8 := 45
def comma : UInt8 := 44
def bytesEq : Bytes := strBytes "bytes="

def parseOne (size : Nat) (rng : Bytes) : One :=
  let rng' := if hasSuffix rng [minus] then rng ++ itoa ((size : Int) - 1) else rng
  match split rng' minus with
  | [a, b] =>
    match atoi (trimSpace a) with
    | none => .err
    | some s =>
      match atoi (trimSpace b) with
      | none => .err
      | some e =>
        if s > e ∨ s ≥ (size : Int) then .unsat
        else .ok s (if e ≥ (size : Int) then (size : Int) - 1 else e)
  | _ => .unsat

inductive Parsed
  | ok (rs : List (Int × Int))
  | unsat
  | err
  deriving Repr, DecidableEq

def parseAll (size : Nat) : List Bytes → List (Int × Int) → Parsed
  | [], acc => .ok acc.reverse
  | r :: rest, acc =>
    match parseOne size r with
    | .ok s e => parseAll size rest ((s, e) :: acc)
    | .unsat => .unsat
    | .err => .err

/-- Go's `b[lo:hi]` on a slice with `len = cap`: `none` is the run-time panic. -/
def goSlice (b : Bytes) (lo hi : Int) : Option Bytes :=
  if 0 ≤ lo ∧ lo ≤ hi ∧ hi ≤ (b.length : Int) then some ((b.drop lo.toNat).take (hi.toNat - lo.toNat))
  else none

inductive Res
  | full (body : Bytes)
  | single (s e : Int) (total : Nat) (body : Bytes)
  | multi (total : Nat) (parts : List (Int × Int × Bytes))
  | unsat
  | err
  | panic
  deriving Repr, DecidableEq

def sliceParts (content : Bytes) : List (Int × Int) → Option (List (Int × Int × Bytes))
  | [] => some []
  | (s, e) :: rest =>
    match goSlice content s (e + 1) with
    | none => none
    | some seg => (sliceParts content rest).map fun ps => (s, e, seg) :: ps

/-- `hdr = none` or empty: `Header.Get("Range") == ""`. -/
def respond (content : Bytes) (hdr : Option Bytes) : Res :=
  match hdr with
  | none => .full content
  | some h =>
    if h.isEmpty then .full content else
    match parseAll content.length (split (trimLeft (toLower h) bytesEq) comma) [] with
    | .unsat => .unsat
    | .err => .err
    | .ok [(s, e)] =>
      match goSlice content s (e + 1) with
      | none => .panic
      | some seg => .single s e content.length seg
    | .ok rs =>
      match sliceParts content rs with
      | none => .panic
      | some ps => .multi content.length ps

/-- Path resolution of the static modifier: `filepath.Join(path.Clean(root), filepath.Clean(urlPath))`. -/
def resolve (root urlPath : Bytes) : Bytes := join2 (clean root) (clean urlPath)

/-- `static.Modifier` with one explicit path mapping `key ↦ value` (`SetExplicitPathMappings`): the
mapping applies when the *cleaned* request path is exactly the key; the file is then the value joined
under the root, whatever else the request says. Otherwise the request path is resolved as usual. -/
def resolveMapped (root key value urlPath : Bytes) : Bytes :=
  if clean urlPath = key then join2 (clean root) value else resolve root urlPath

/-! ### One modifier instance serving a file whose content changes between requests

`static.Modifier` opens and stats the file on every request and keeps nothing about it, so the state
that matters is what is on disk now. -/

/-- what happens to one served path: the file is rewritten, or a request for it (with this `Range`
header, if any) is answered -/
inductive FileOp
  | write (content : Bytes)
  | get (hdr : Option Bytes)

/-- state: the bytes on disk; output: the answer of a `get` -/
def fileStep (disk : Bytes) : FileOp → Bytes × Option Res
  | .write c => (c, none)
  | .get h => (disk, some (respond disk h))

def fileRun (disk : Bytes) : List FileOp → Bytes
  | [] => disk
  | op :: ops => fileRun (fileStep disk op).1 ops

/-- the content most recently written in a history (the initial content if none) -/
def lastWritten (disk : Bytes) : List FileOp → Bytes
  | [] => disk
  | .write c :: ops => lastWritten c ops
  | .get _ :: ops => lastWritten disk ops

end Martian.Range
