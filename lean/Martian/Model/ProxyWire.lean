import Martian.Model.Proxy
import Martian.Go.Strings
import Martian.Go.Header
/-!
Wire-level attributes of a non-CONNECT exchange, in front of the exchange machine: what decides
`req.Close` and `res.Close` (the two inputs of `handle`'s close decision besides shutdown) and how
the response that `handle` writes is delimited and marked.

Transcribed from net/http (Go 1.23) for exactly the inputs the proxy relays:
* `shouldClose(major, minor, header, _)` (transfer.go) with `httpguts.HeaderValuesContainsToken`
  (`headerValueContainsToken`, `trimOWS`, `tokenEqual`);
* `readTransfer` for a response: `Close = shouldClose(…)`, and an unbounded body (neither
  Content-Length nor chunked, status allows a body) sets `Close`; `Transfer-Encoding` is ignored
  below HTTP/1.1; `shouldClose` with `removeCloseHeader` deletes the Connection header when it
  lists `close`;
* `proxyutil.NewResponse` for the synthetic 200 (skip round trip) and 502: the request's protocol
  version, empty body;
* `Response.Write` / `newTransferWriter` / `transferWriter.writeHeader`: status line with the
  response's own version, `Connection: close` added when `Close`, `Content-Length` or
  `Transfer-Encoding: chunked` from the sanitised triple, otherwise the body runs to the end of
  the connection - and only an HTTP/1.1 response of unknown length gets `Close` forced.
The functions are run against the real net/http on every check (ops `h1.reqclose`, `h1.reswrite`)
and end to end through the proxy (`pv=`/`fr=`/`cm=` fields of every exchange).
-/
namespace Martian.Proxy.Wire
open Martian Martian.Go

/-! ### Connection tokens -/

def isOWS (b : UInt8) : Bool := b == 32 || b == 9

/-- `httpguts.trimOWS`. -/
def trimOWS (v : Bytes) : Bytes := ((v.dropWhile isOWS).reverse.dropWhile isOWS).reverse

/-- `httpguts.tokenEqual` against an ASCII token: same length, no byte ≥ 0x80, equal after ASCII
lower-casing. -/
def tokenEqual (t token : Bytes) : Bool :=
  t.length == token.length && isAscii t && toLower t == toLower token

/-- `httpguts.headerValueContainsToken`: the comma separated elements, white space trimmed. -/
def valueContainsToken (v token : Bytes) : Bool :=
  (split v 44).any fun el => tokenEqual (trimOWS el) token

/-- `httpguts.HeaderValuesContainsToken` over the lines of one header. -/
def containsToken (values : List Bytes) (token : Bytes) : Bool :=
  values.any fun v => valueContainsToken v token

def tokClose : Bytes := strBytes "close"
def tokKeepAlive : Bytes := strBytes "keep-alive"

/-- net/http `shouldClose(major, minor, header, _)` on the lines of the Connection header. -/
def shouldClose (major minor : Nat) (conn : List Bytes) : Bool :=
  if major < 1 then true
  else if major == 1 && minor == 0 then
    containsToken conn tokClose || !containsToken conn tokKeepAlive
  else containsToken conn tokClose

/-! ### The attributes of one exchange -/

/-- How the origin delimits its response body. -/
inductive OFraming | cl | chunked | eof
  deriving Repr, DecidableEq

/-- How the response that reaches the client is delimited. -/
inductive WFraming | contentLength | chunked | untilClose | noBody
  deriving Repr, DecidableEq

structure XW where
  reqMinor : Nat := 1            -- the client speaks HTTP/1.<reqMinor>
  reqConn : List Bytes := []     -- lines of its Connection header
  head : Bool := false           -- the request method is HEAD
  status : Nat := 200            -- the origin's status
  resMinor : Nat := 1            -- the origin answers HTTP/1.<resMinor>
  resConn : List Bytes := []     -- lines of its Connection header
  framing : OFraming := .cl
  deriving Repr

/-- `bodyAllowedForStatus` and `noResponseBodyExpected`. -/
def bodyAllowed (x : XW) : Bool :=
  !(x.head || (100 ≤ x.status && x.status < 200) || x.status == 204 || x.status == 304)

/-- `Request.Close` as `http.ReadRequest` sets it. -/
def reqClose (x : XW) : Bool := shouldClose 1 x.reqMinor x.reqConn

/-- The origin's framing as `http.ReadResponse` understands it: chunked only from HTTP/1.1 on. -/
def effFraming (x : XW) : OFraming :=
  if x.framing = .chunked && x.resMinor == 0 then .eof else x.framing

/-- `Response.Close` as the transport's `http.ReadResponse` sets it. -/
def resClose (x : XW) : Bool :=
  shouldClose 1 x.resMinor x.resConn || (decide (effFraming x = .eof) && bodyAllowed x)

/-- The exchange as the machine sees it. -/
def toItem (x : XW) (rq : ReqB) (rs : ResB) (org : Org) : Item :=
  .x (reqClose x) rq rs (match org with | .ok st _ => .ok st (resClose x) | o => o)

/-- What `handle` writes. `synthetic` = the response was made by `proxyutil.NewResponse` (skip round
trip, 502); `closing` = `req.Close || res.Close || p.Closing()` at the close decision. -/
structure Written where
  minor : Nat               -- version on the status line
  framing : WFraming
  saysClose : Bool          -- what a client parsing the response takes for "will be closed"
  deriving Repr, DecidableEq

/-- The Connection lines of the response header as written: the origin's (deleted as a whole by
`ReadResponse` when they list `close`), and `close` in front when `Close` is set. -/
def writtenConn (x : XW) (synthetic closing : Bool) : List Bytes :=
  let fwd := if synthetic then [] else if containsToken x.resConn tokClose then [] else x.resConn
  if closing then tokClose :: fwd else fwd

/-- The version on the status line: the response's own - the origin's for a relayed response, the
request's for one made by `proxyutil.NewResponse`. -/
def writtenMinor (x : XW) (synthetic : Bool) : Nat := if synthetic then x.reqMinor else x.resMinor

/-- How `Response.Write` delimits the body (sanitised Body / ContentLength / TransferEncoding triple). -/
def writtenFraming (x : XW) (synthetic : Bool) : WFraming :=
  if synthetic then (if x.head then .noBody else .contentLength)  -- 200 / 502, empty body: `Content-Length: 0`
  else if !bodyAllowed x then .noBody
  else match effFraming x with
    | .cl => .contentLength
    | .chunked => if x.resMinor ≥ 1 then .chunked else .untilClose   -- `!atLeastHTTP11` drops the coding
    | .eof => .untilClose

def written (x : XW) (synthetic closing : Bool) : Written :=
  let minor := writtenMinor x synthetic
  let fr := writtenFraming x synthetic
  -- `Response.Write`: unknown length, not chunked, HTTP/1.1 → `Close` is forced on the copy it writes
  let close' := closing || (decide (fr = .untilClose) && decide (minor ≥ 1))
  { minor := minor, framing := fr,
    saysClose := shouldClose 1 minor (writtenConn x synthetic close') || decide (fr = .untilClose) }

/-! ### `proxyutil.Warning` -/

def kDate : Bytes := strBytes "Date"
def kWarning : Bytes := strBytes "Warning"

/-- `proxyutil.Warning(header, err)`: the warn-date is the message's Date (`header.Get("Date")`, the
first line whatever it holds) or, when that is empty, the current time; then the value is ADDED -
always. `value msg date` stands for `fmt.Sprintf("199 \"martian\" %q %q", msg, date)`. -/
def puWarning (value : Bytes → Bytes → Bytes) (h : Go.Header) (msg now : Bytes) : Go.Header :=
  let date := Go.Header.get h kDate
  Go.Header.add h kWarning (value msg (if date == [] then now else date))

/-! ### The idle deadline of the serving loop -/

/-- `handleLoop`: before every call of `handle` the deadline of the client connection is set to
now + timeout; an exchange that takes `lat` to serve is done at now + lat, and its response can be
written iff that is not after the deadline. Returns how many exchanges of the batch are served
(however they arrived: one at a time or all buffered already). -/
def serveTimed (timeout : Nat) : Nat → List Nat → Nat
  | _, [] => 0
  | now, lat :: rest =>
    let deadline := now + timeout
    if now + lat ≤ deadline then 1 + serveTimed timeout (now + lat) rest else 0

/-- The same loop with the deadline armed only once, before the first exchange (what "re-arm only
when nothing is buffered" amounts to for a pipelined batch). -/
def serveTimedOnce (deadline : Nat) : Nat → List Nat → Nat
  | _, [] => 0
  | now, lat :: rest => if now + lat ≤ deadline then 1 + serveTimedOnce deadline (now + lat) rest else 0

/-- The serving loop on a connection that is kept busy: before every `handle` both deadlines (read AND
write: `SetDeadline`) are set to now + timeout; the next request arrives after an idle `gap`, serving
it takes `lat`; the request can be read iff it arrives by the deadline and the response written iff
that is by the same deadline. Returns how many exchanges are served. -/
def serveBusy (timeout : Nat) : Nat → List (Nat × Nat) → Nat
  | _, [] => 0
  | now, (gap, lat) :: rest =>
    let deadline := now + timeout
    if now + gap + lat ≤ deadline then 1 + serveBusy timeout (now + gap + lat) rest else 0

/-- The same loop when only the READ deadline is re-armed and the write deadline is the one set when
the connection was accepted (`accepted + timeout`). -/
def serveBusyReadOnly (timeout writeDeadline : Nat) : Nat → List (Nat × Nat) → Nat
  | _, [] => 0
  | now, (gap, lat) :: rest =>
    if now + gap ≤ now + timeout && now + gap + lat ≤ writeDeadline then
      1 + serveBusyReadOnly timeout writeDeadline (now + gap + lat) rest
    else 0

/-! ### The per-exchange context flags -/

/-- The three flags of a `martian.Context` and the public calls that set them (`context.go`): each call
sets its own flag, nothing ever clears one. -/
structure Flags where
  skipRoundTrip : Bool := false
  skipLogging : Bool := false
  apiRequest : Bool := false
  deriving Repr, DecidableEq

inductive CtxCall | skipRoundTrip | skipLogging | apiRequest
  deriving Repr, DecidableEq

def Flags.call (f : Flags) : CtxCall → Flags
  | .skipRoundTrip => { f with skipRoundTrip := true }
  | .skipLogging => { f with skipLogging := true }
  | .apiRequest => { f with apiRequest := true }

def Flags.calls (f : Flags) (cs : List CtxCall) : Flags := cs.foldl Flags.call f

end Martian.Proxy.Wire
