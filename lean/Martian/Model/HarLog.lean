/-
C17 — the HAR log (`har.Logger`, /repo/har/har.go).

Two levels, both executable:

* L1 `Spec`: the log is `List Ent` in request-arrival order (what the property speaks about).
* L0 `Heap`: a transcription, statement by statement, of `RecordRequest`, `RecordResponse`,
  `Export`, `ExportAndReset`, `Reset` over a pointer heap: addresses are `Nat` (0 = nil),
  pointer/data fields of `Entry` are functions (`nx` = `next`, `ident` = `ID`, `rq` = the request,
  `rs` = the `Response` pointer, `none` = nil), `entries` is a Go map (`GoMap`: lookup + `len`),
  `tail` is the tail pointer of the circular singly linked list.

A request / response is identified by the index of the operation that recorded it (`t`): the
harness puts that index into the request URL / response status so that "each response attached to
its own request" is observable.  Core Lean only (linked into the driver).
-/
namespace Martian.HarLog

/-- One exported entry: ID, tag of the recorded request, tag of the attached response (if any). -/
structure Ent where
  id : String
  rq : Nat
  rs : Option Nat
deriving DecidableEq, Repr

def Ent.done (e : Ent) : Bool := e.rs.isSome

inductive Op where
  | req (id : String)      -- RecordRequest(id, _)
  | res (id : String)      -- RecordResponse(id, _)
  | exp                    -- Export()
  | xreset                 -- ExportAndReset()
  | reset                  -- Reset()
deriving DecidableEq, Repr

inductive Obs where
  | ok
  | dup                    -- "Duplicate request ID" error
  | log (es : List Ent)    -- the Entries slice of the returned HAR
  | panic                  -- nil dereference (unreachable from `init`, proved)
  | diverge                -- loop fuel exhausted (unreachable from `init`, proved)
deriving DecidableEq, Repr

/-! ## L1: abstract specification -/

abbrev Log := List Ent

namespace Spec

def hasId (l : Log) (id : String) : Bool := l.any (fun e => e.id == id)

def req (l : Log) (id : String) (t : Nat) : Log × Obs :=
  if hasId l id then (l, .dup) else (l ++ [⟨id, t, none⟩], .ok)

def res (l : Log) (id : String) (t : Nat) : Log :=
  l.map fun e => if e.id = id then { e with rs := some t } else e

def step (l : Log) (t : Nat) : Op → Log × Obs
  | .req id => req l id t
  | .res id => (res l id t, .ok)
  | .exp => (l, .log l)
  | .xreset => (l.filter (fun e => !e.done), .log (l.filter (fun e => e.done)))
  | .reset => ([], .ok)

/-- Run a history from clock `t`; the i-th operation carries tag `t + i`. -/
def run (l : Log) (t : Nat) : List Op → List Obs
  | [] => []
  | o :: os => (step l t o).2 :: run (step l t o).1 (t + 1) os

/-- The log after a history. -/
def after (l : Log) (t : Nat) : List Op → Log
  | [] => l
  | o :: os => after (step l t o).1 (t + 1) os

end Spec

/-! ## L0: pointer-level transcription -/

def upd {β : Type} (f : Nat → β) (a : Nat) (v : β) : Nat → β := fun x => if x = a then v else f x

/-- A Go `map[string]*Entry`: lookup and `len`. `insert`/`delete` keep `len` as Go does. -/
structure GoMap where
  get : String → Option Nat
  len : Nat

namespace GoMap
def empty : GoMap := ⟨fun _ => none, 0⟩
def insert (m : GoMap) (k : String) (v : Nat) : GoMap :=
  ⟨fun x => if x = k then some v else m.get x, if (m.get k).isSome then m.len else m.len + 1⟩
def delete (m : GoMap) (k : String) : GoMap :=
  ⟨fun x => if x = k then none else m.get x, if (m.get k).isSome then m.len - 1 else m.len⟩
end GoMap

structure Heap where
  nx : Nat → Nat            -- Entry.next (0 = nil)
  ident : Nat → String      -- Entry.ID
  rq : Nat → Nat            -- Entry.Request (its tag)
  rs : Nat → Option Nat     -- Entry.Response (none = nil)
  entries : GoMap           -- l.entries
  tail : Nat                -- l.tail (0 = nil)
  alloc : Nat               -- next fresh address

def init : Heap :=
  { nx := fun _ => 0, ident := fun _ => "", rq := fun _ => 0, rs := fun _ => none,
    entries := GoMap.empty, tail := 0, alloc := 1 }

def entOf (h : Heap) (a : Nat) : Ent := ⟨h.ident a, h.rq a, h.rs a⟩

/-- `RecordRequest` (har.go:488-517). -/
def recordRequest (h : Heap) (id : String) (t : Nat) : Heap × Obs :=
  -- entry := &Entry{ID: id, Request: hreq, …}   (next = nil, Response = nil)
  let a := h.alloc
  let h := { h with alloc := a + 1, ident := upd h.ident a id, rq := upd h.rq a t,
                    rs := upd h.rs a none, nx := upd h.nx a 0 }
  -- if _, exists := l.entries[id]; exists { return error }
  if (h.entries.get id).isSome then (h, .dup) else
  -- l.entries[id] = entry
  let h := { h with entries := h.entries.insert id a }
  -- if l.tail == nil { l.tail = entry }
  let h := if h.tail = 0 then { h with tail := a } else h
  -- entry.next = l.tail.next
  let h := { h with nx := upd h.nx a (h.nx h.tail) }
  -- l.tail.next = entry
  let h := { h with nx := upd h.nx h.tail a }
  -- l.tail = entry
  ({ h with tail := a }, .ok)

/-- `RecordResponse` (har.go:566-581). -/
def recordResponse (h : Heap) (id : String) (t : Nat) : Heap :=
  match h.entries.get id with
  | some a => { h with rs := upd h.rs a (some t) }
  | none => h

/-- The loop of `Export`: `curr = curr.next; es = append(es, curr); if curr == l.tail { break }`. -/
def walk (nx : Nat → Nat) (tail : Nat) : Nat → Nat → List Nat → Option (List Nat)
  | 0, _, _ => none
  | f + 1, curr, es =>
    let c := nx curr
    let es := es ++ [c]
    if c = tail then some es
    else if c = 0 then some es      -- `for curr != nil` ends the loop (a nil entry was appended)
    else walk nx tail f c es

/-- `Export` (har.go:630-645). -/
def exportLog (h : Heap) : Obs :=
  if h.tail = 0 then .log [] else
  match walk h.nx h.tail h.entries.len h.tail [] with
  | some es => .log (es.map (entOf h))
  | none => .diverge

/-- Loop state of `ExportAndReset`. -/
structure XS where
  h : Heap
  curr : Nat
  prev : Nat
  first : Nat
  es : List Nat

/-- One iteration of the `ExportAndReset` loop (without the `break` test). -/
def xbody (s : XS) : XS :=
  -- curr = curr.next
  let c := s.h.nx s.curr
  if (s.h.rs c).isSome then
    -- es = append(es, curr); delete(l.entries, curr.ID)
    { s with curr := c, es := s.es ++ [c],
             h := { s.h with entries := s.h.entries.delete (s.h.ident c) } }
  else
    -- if first == nil { first = curr }; prev.next = curr; prev = curr
    { curr := c, first := if s.first = 0 then c else s.first, es := s.es, prev := c,
      h := { s.h with nx := upd s.h.nx s.prev c } }

inductive LoopRes where
  | fin (s : XS)
  | panic          -- `curr.Response` with `curr == nil`
  | fuel           -- model fuel exhausted

def xloop (tail : Nat) : Nat → XS → LoopRes
  | 0, _ => .fuel
  | f + 1, s =>
    if s.h.nx s.curr = 0 then .panic else
    let s' := xbody s
    if s'.curr = tail then .fin s' else xloop tail f s'

/-- `ExportAndReset` (har.go:648-680). -/
def exportAndReset (h : Heap) : Heap × Obs :=
  if h.tail = 0 then
    -- loop not entered; `l.tail = prev (= nil); l.tail.next = first` would dereference nil
    if h.entries.len = 0 then (h, .log []) else (h, .panic)
  else
  match xloop h.tail h.entries.len ⟨h, h.tail, h.tail, 0, []⟩ with
  | .fuel => (h, .diverge)
  | .panic => (h, .panic)
  | .fin s =>
    let out := Obs.log (s.es.map (entOf h))
    if s.h.entries.len = 0 then ({ s.h with tail := 0 }, out)
    else ({ s.h with tail := s.prev, nx := upd s.h.nx s.prev s.first }, out)

/-- `Reset` (har.go:693-699). -/
def reset (h : Heap) : Heap := { h with entries := GoMap.empty, tail := 0 }

def step (h : Heap) (t : Nat) : Op → Heap × Obs
  | .req id => recordRequest h id t
  | .res id => (recordResponse h id t, .ok)
  | .exp => (h, exportLog h)
  | .xreset => exportAndReset h
  | .reset => (reset h, .ok)

def run (h : Heap) (t : Nat) : List Op → List Obs
  | [] => []
  | o :: os => (step h t o).2 :: run (step h t o).1 (t + 1) os

/-- The heap after a history. -/
def after (h : Heap) (t : Nat) : List Op → Heap
  | [] => h
  | o :: os => after (step h t o).1 (t + 1) os

end Martian.HarLog
