/-
C17 — the HAR log (`har.Logger`, /repo/har/har.go).

Two levels, both executable:

* L1 `Spec`: the log is `List Ent` in request-arrival order (what the property speaks about).
* L0 `Heap`: a transcription, statement by statement, of `RecordRequest`, `RecordResponse`,
  `Export`, `ExportAndReset`, `Reset` over a pointer heap: addresses are `Nat` (0 = nil),
  pointer/data fields of `Entry` are functions (`nx` = `next`, `ident` = `ID`, `rq` = the request,
  `rs` = the `Response` pointer, `none` = nil), `entries` is a Go map (`GoMap`: lookup + `len`),
  `tail` is the tail pointer of the circular singly linked list.

* API level (`Logger`, `Call`, end of the file): the logging options and the `NewRequest` /
  `NewResponse` failure paths; a call = thread-local prelude + at most one critical section (`Op`;
  `Op.idle` = returned before the lock).  `Model/HarLogConc.lean` runs such calls concurrently.

A request / response is identified by the index of the operation that recorded it (`t`): the
harness puts that index into the request URL / response status so that "each response attached to
its own request" is observable.  Core Lean only (linked into the driver).
-/
namespace Martian.HarLog

/-- One exported entry: ID, tag of the recorded request, tag of the attached response (if any). -/
structure Ent where
  id : String
  rq : Nat
  rs : Option Nat
deriving DecidableEq, Repr

def Ent.done (e : Ent) : Bool := e.rs.isSome

inductive Op where
  | req (id : String)      -- RecordRequest(id, _)
  | res (id : String)      -- RecordResponse(id, _)
  | exp                    -- Export()
  | xreset                 -- ExportAndReset()
  | reset                  -- Reset()
  | idle (failed : Bool)   -- a call that never reaches `l.mu.Lock()`: `RecordRequest`/`RecordResponse`
                           -- returning the `NewRequest`/`NewResponse` error (`failed`), or `SetOption`
deriving DecidableEq, Repr

inductive Obs where
  | ok
  | dup                    -- "Duplicate request ID" error
  | err                    -- the error of `NewRequest` / `NewResponse` (message could not be logged)
  | log (es : List Ent)    -- the Entries slice of the returned HAR
  | panic                  -- nil dereference (unreachable from `init`, proved)
  | diverge                -- loop fuel exhausted (unreachable from `init`, proved)
deriving DecidableEq, Repr

/-! ## L1: abstract specification -/

abbrev Log := List Ent

namespace Spec

def hasId (l : Log) (id : String) : Bool := l.any (fun e => e.id == id)

def req (l : Log) (id : String) (t : Nat) : Log × Obs :=
  if hasId l id then (l, .dup) else (l ++ [⟨id, t, none⟩], .ok)

def res (l : Log) (id : String) (t : Nat) : Log :=
  l.map fun e => if e.id = id then { e with rs := some t } else e

def step (l : Log) (t : Nat) : Op → Log × Obs
  | .req id => req l id t
  | .res id => (res l id t, .ok)
  | .exp => (l, .log l)
  | .xreset => (l.filter (fun e => !e.done), .log (l.filter (fun e => e.done)))
  | .reset => ([], .ok)
  | .idle f => (l, if f then .err else .ok)

/-- Run a history from clock `t`; the i-th operation carries tag `t + i`. -/
def run (l : Log) (t : Nat) : List Op → List Obs
  | [] => []
  | o :: os => (step l t o).2 :: run (step l t o).1 (t + 1) os

/-- The log after a history. -/
def after (l : Log) (t : Nat) : List Op → Log
  | [] => l
  | o :: os => after (step l t o).1 (t + 1) os

end Spec

/-! ## L0: pointer-level transcription -/

def upd {β : Type} (f : Nat → β) (a : Nat) (v : β) : Nat → β := fun x => if x = a then v else f x

/-- A Go `map[string]*Entry`: lookup and `len`. `insert`/`delete` keep `len` as Go does. -/
structure GoMap where
  get : String → Option Nat
  len : Nat

namespace GoMap
def empty : GoMap := ⟨fun _ => none, 0⟩
def insert (m : GoMap) (k : String) (v : Nat) : GoMap :=
  ⟨fun x => if x = k then some v else m.get x, if (m.get k).isSome then m.len else m.len + 1⟩
def delete (m : GoMap) (k : String) : GoMap :=
  ⟨fun x => if x = k then none else m.get x, if (m.get k).isSome then m.len - 1 else m.len⟩
end GoMap

structure Heap where
  nx : Nat → Nat            -- Entry.next (0 = nil)
  ident : Nat → String      -- Entry.ID
  rq : Nat → Nat            -- Entry.Request (its tag)
  rs : Nat → Option Nat     -- Entry.Response (none = nil)
  entries : GoMap           -- l.entries
  tail : Nat                -- l.tail (0 = nil)
  alloc : Nat               -- next fresh address

def init : Heap :=
  { nx := fun _ => 0, ident := fun _ => "", rq := fun _ => 0, rs := fun _ => none,
    entries := GoMap.empty, tail := 0, alloc := 1 }

def entOf (h : Heap) (a : Nat) : Ent := ⟨h.ident a, h.rq a, h.rs a⟩

/-- `RecordRequest` (har.go:488-517). -/
def recordRequest (h : Heap) (id : String) (t : Nat) : Heap × Obs :=
  -- entry := &Entry{ID: id, Request: hreq, …}   (next = nil, Response = nil)
  let a := h.alloc
  let h := { h with alloc := a + 1, ident := upd h.ident a id, rq := upd h.rq a t,
                    rs := upd h.rs a none, nx := upd h.nx a 0 }
  -- if _, exists := l.entries[id]; exists { return error }
  if (h.entries.get id).isSome then (h, .dup) else
  -- l.entries[id] = entry
  let h := { h with entries := h.entries.insert id a }
  -- if l.tail == nil { l.tail = entry }
  let h := if h.tail = 0 then { h with tail := a } else h
  -- entry.next = l.tail.next
  let h := { h with nx := upd h.nx a (h.nx h.tail) }
  -- l.tail.next = entry
  let h := { h with nx := upd h.nx h.tail a }
  -- l.tail = entry
  ({ h with tail := a }, .ok)

/-- `RecordResponse` (har.go:566-581). -/
def recordResponse (h : Heap) (id : String) (t : Nat) : Heap :=
  match h.entries.get id with
  | some a => { h with rs := upd h.rs a (some t) }
  | none => h

/-- The loop of `Export`: `curr = curr.next; es = append(es, curr); if curr == l.tail { break }`. -/
def walk (nx : Nat → Nat) (tail : Nat) : Nat → Nat → List Nat → Option (List Nat)
  | 0, _, _ => none
  | f + 1, curr, es =>
    let c := nx curr
    let es := es ++ [c]
    if c = tail then some es
    else if c = 0 then some es      -- `for curr != nil` ends the loop (a nil entry was appended)
    else walk nx tail f c es

/-- `Export` (har.go:630-645). -/
def exportLog (h : Heap) : Obs :=
  if h.tail = 0 then .log [] else
  match walk h.nx h.tail h.entries.len h.tail [] with
  | some es => .log (es.map (entOf h))
  | none => .diverge

/-- Loop state of `ExportAndReset`. -/
structure XS where
  h : Heap
  curr : Nat
  prev : Nat
  first : Nat
  es : List Nat

/-- One iteration of the `ExportAndReset` loop (without the `break` test). -/
def xbody (s : XS) : XS :=
  -- curr = curr.next
  let c := s.h.nx s.curr
  if (s.h.rs c).isSome then
    -- es = append(es, curr); delete(l.entries, curr.ID)
    { s with curr := c, es := s.es ++ [c],
             h := { s.h with entries := s.h.entries.delete (s.h.ident c) } }
  else
    -- if first == nil { first = curr }; prev.next = curr; prev = curr
    { curr := c, first := if s.first = 0 then c else s.first, es := s.es, prev := c,
      h := { s.h with nx := upd s.h.nx s.prev c } }

inductive LoopRes where
  | fin (s : XS)
  | panic          -- `curr.Response` with `curr == nil`
  | fuel           -- model fuel exhausted

def xloop (tail : Nat) : Nat → XS → LoopRes
  | 0, _ => .fuel
  | f + 1, s =>
    if s.h.nx s.curr = 0 then .panic else
    let s' := xbody s
    if s'.curr = tail then .fin s' else xloop tail f s'

/-- `ExportAndReset` (har.go:648-680). -/
def exportAndReset (h : Heap) : Heap × Obs :=
  if h.tail = 0 then
    -- loop not entered; `l.tail = prev (= nil); l.tail.next = first` would dereference nil
    if h.entries.len = 0 then (h, .log []) else (h, .panic)
  else
  match xloop h.tail h.entries.len ⟨h, h.tail, h.tail, 0, []⟩ with
  | .fuel => (h, .diverge)
  | .panic => (h, .panic)
  | .fin s =>
    let out := Obs.log (s.es.map (entOf h))
    if s.h.entries.len = 0 then ({ s.h with tail := 0 }, out)
    else ({ s.h with tail := s.prev, nx := upd s.h.nx s.prev s.first }, out)

/-- `Reset` (har.go:693-699). -/
def reset (h : Heap) : Heap := { h with entries := GoMap.empty, tail := 0 }

def step (h : Heap) (t : Nat) : Op → Heap × Obs
  | .req id => recordRequest h id t
  | .res id => (recordResponse h id t, .ok)
  | .exp => (h, exportLog h)
  | .xreset => exportAndReset h
  | .reset => (reset h, .ok)
  | .idle f => (h, if f then .err else .ok)      -- returns before the lock: no access to the log

def run (h : Heap) (t : Nat) : List Op → List Obs
  | [] => []
  | o :: os => (step h t o).2 :: run (step h t o).1 (t + 1) os

/-- The heap after a history. -/
def after (h : Heap) (t : Nat) : List Op → Heap
  | [] => h
  | o :: os => after (step h t o).1 (t + 1) os

/-- Tagged histories: every call carries its own tag (concurrent runs: the harness's call number). -/
def runT (h : Heap) : List (Nat × Op) → List Obs
  | [] => []
  | (t, o) :: os => (step h t o).2 :: runT (step h t o).1 os

def afterT (h : Heap) : List (Nat × Op) → Heap
  | [] => h
  | (t, o) :: os => afterT (step h t o).1 os

/-! ## The API level: `har.Logger` with its options and the `NewRequest` / `NewResponse` failure paths

`RecordRequest` and `RecordResponse` build the HAR message from the HTTP message BEFORE taking the
lock; when that fails they return the error and never touch the log.  A call is therefore a
thread-local prelude (`Call.critical`: options, message → which critical section runs, if any)
followed by at most one critical section (`Op`, above). -/

/-- What can go wrong while the HAR message is built. -/
inductive Fault where
  | none
  | read      -- the body reader returns an error (`mv.SnapshotRequest` / `mv.SnapshotResponse`)
  | decode    -- the body is read but is not what the headers declare: multipart / urlencoded
              -- form that does not parse (request), Content-Encoding that does not decode (response)
deriving DecidableEq, Repr

/-- The parts of an HTTP message the logger's control flow depends on. -/
structure Msg where
  /-- request only: `ContentLength > 0 || len(TransferEncoding) > 0` (else `postData` returns early) -/
  framed : Bool
  /-- the Content-Type header (the per-content-type options look at it) -/
  ctype : String
  fault : Fault
  /-- everything else about the message — status code, method, URL, header and cookie shapes,
      body bytes — as an index into the harness's table of message shapes.  Nothing below looks
      at it (`Props.C17.attachment_independent_of_message_content`). -/
  content : Nat
deriving DecidableEq, Repr

/-- a bodiless GET / a `http.NoBody` response -/
def Msg.plain : Msg := ⟨false, "", .none, 0⟩

/-- The three option families of har.go:363-452, for post data (request) and body (response). -/
inductive LogOpt where
  | all (enabled : Bool)           -- PostDataLogging / BodyLogging
  | only (cts : List String)       -- …LoggingForContentTypes
  | skip (cts : List String)       -- Skip…LoggingForContentTypes
deriving DecidableEq, Repr

def lowerChars (s : String) : List Char := s.toList.map Char.toLower

/-- `strings.HasPrefix(strings.ToLower(rct), strings.ToLower(ct))` (ASCII). -/
def ctMatch (rct ct : String) : Bool := (lowerChars ct).isPrefixOf (lowerChars rct)

def LogOpt.eval : LogOpt → String → Bool
  | .all b, _ => b
  | .only cts, rct => cts.any (ctMatch rct)
  | .skip cts, rct => !cts.any (ctMatch rct)

/-- `l.postDataLogging`, `l.bodyLogging`; `NewLogger` sets both to "always". -/
structure Cfg where
  postLog : LogOpt
  bodyLog : LogOpt
deriving DecidableEq, Repr

def Cfg.default : Cfg := ⟨.all true, .all true⟩

/-- `NewRequest(req, withBody)` returns an error (har.go:523-551, `postData` 745-…): only a framed
    request whose body is logged is read and parsed. -/
def newRequestFails (withBody : Bool) (m : Msg) : Bool :=
  m.framed && withBody && m.fault != .none

/-- `NewResponse(res, withBody)` returns an error (har.go:587-627). -/
def newResponseFails (withBody : Bool) (m : Msg) : Bool :=
  withBody && m.fault != .none

inductive Call where
  | req (id : String) (m : Msg)    -- RecordRequest(id, req)
  | res (id : String) (m : Msg)    -- RecordResponse(id, res)
  | exp | xreset | reset
  | setPost (o : LogOpt)           -- SetOption(PostDataLogging… )
  | setBody (o : LogOpt)           -- SetOption(BodyLogging… )
deriving DecidableEq, Repr

structure Logger where
  cfg : Cfg
  heap : Heap

def Logger.init : Logger := ⟨Cfg.default, HarLog.init⟩

/-- `Logger.RecordRequest` (har.go:488-517), whole method. -/
def Logger.recordRequest (l : Logger) (id : String) (t : Nat) (m : Msg) : Logger × Obs :=
  -- hreq, err := NewRequest(req, l.postDataLogging(req)); if err != nil { return err }
  if newRequestFails (l.cfg.postLog.eval m.ctype) m then (l, .err) else
  -- entry := …; l.mu.Lock(); defer l.mu.Unlock(); …
  let (h, o) := HarLog.recordRequest l.heap id t
  ({ l with heap := h }, o)

/-- `Logger.RecordResponse` (har.go:566-581), whole method. -/
def Logger.recordResponse (l : Logger) (id : String) (t : Nat) (m : Msg) : Logger × Obs :=
  -- hres, err := NewResponse(res, l.bodyLogging(res)); if err != nil { return err }
  if newResponseFails (l.cfg.bodyLog.eval m.ctype) m then (l, .err) else
  -- l.mu.Lock(); defer l.mu.Unlock(); if e, ok := l.entries[id]; ok { e.Response = hres; … }; return nil
  ({ l with heap := HarLog.recordResponse l.heap id t }, .ok)

def Logger.step (l : Logger) (t : Nat) : Call → Logger × Obs
  | .req id m => l.recordRequest id t m
  | .res id m => l.recordResponse id t m
  | .exp => (l, exportLog l.heap)
  | .xreset => let (h, o) := exportAndReset l.heap; ({ l with heap := h }, o)
  | .reset => ({ l with heap := HarLog.reset l.heap }, .ok)
  | .setPost o => ({ l with cfg := { l.cfg with postLog := o } }, .ok)
  | .setBody o => ({ l with cfg := { l.cfg with bodyLog := o } }, .ok)

def Logger.run (l : Logger) (t : Nat) : List Call → List Obs
  | [] => []
  | c :: cs => (l.step t c).2 :: Logger.run (l.step t c).1 (t + 1) cs

def Logger.after (l : Logger) (t : Nat) : List Call → Logger
  | [] => l
  | c :: cs => Logger.after (l.step t c).1 (t + 1) cs

/-- The prelude of a call (everything before `l.mu.Lock()`): which critical section it runs. -/
def Call.critical (c : Cfg) : Call → Op
  | .req id m => if newRequestFails (c.postLog.eval m.ctype) m then .idle true else .req id
  | .res id m => if newResponseFails (c.bodyLog.eval m.ctype) m then .idle true else .res id
  | .exp => .exp
  | .xreset => .xreset
  | .reset => .reset
  | .setPost _ => .idle false
  | .setBody _ => .idle false

def Cfg.next (c : Cfg) : Call → Cfg
  | .setPost o => { c with postLog := o }
  | .setBody o => { c with bodyLog := o }
  | _ => c

/-- The critical sections of a history of calls, in order (same length: tags stay aligned). -/
def criticals (c : Cfg) : List Call → List Op
  | [] => []
  | x :: xs => x.critical c :: criticals (c.next x) xs

/-- L1 at the API level: the list specification with the same failure rule. -/
structure SLogger where
  cfg : Cfg
  log : Log

def SLogger.step (l : SLogger) (t : Nat) : Call → SLogger × Obs
  | .req id m =>
    if newRequestFails (l.cfg.postLog.eval m.ctype) m then (l, .err) else
    let (g, o) := Spec.req l.log id t; ({ l with log := g }, o)
  | .res id m =>
    if newResponseFails (l.cfg.bodyLog.eval m.ctype) m then (l, .err) else
    ({ l with log := Spec.res l.log id t }, .ok)
  | .exp => (l, .log l.log)
  | .xreset => ({ l with log := l.log.filter (fun e => !e.done) }, .log (l.log.filter (fun e => e.done)))
  | .reset => ({ l with log := [] }, .ok)
  | .setPost o => ({ l with cfg := { l.cfg with postLog := o } }, .ok)
  | .setBody o => ({ l with cfg := { l.cfg with bodyLog := o } }, .ok)

def SLogger.run (l : SLogger) (t : Nat) : List Call → List Obs
  | [] => []
  | c :: cs => (l.step t c).2 :: SLogger.run (l.step t c).1 (t + 1) cs

end Martian.HarLog
