import Martian.Go.Strings
import Martian.Go.Strconv
/-!
C18 — traffic shaping.  Transcribed from `trafficshape/utils.go` (`parseShapes`,
`getActionsFromThrottles`), `trafficshape/handler.go` (`ServeHTTP`), `trafficshape/conn.go`
(`GetNextActionFromByte/Index`, `GetCurrentThrottle`, `Write`), `trafficshape/listener.go`
(`GetTrafficShapedConn`, `CheckExistenceAndValidity`) and the context set-up in `proxy.go`.

Time is a logical clock (`LastModifiedTime`, `Established`); delays are events; token buckets are
an adversary that hands the write loop any remaining capacity ≥ 1 in every round.
-/
namespace Martian.Shape
open Martian Martian.Go

/-! ## Configuration as decoded from JSON -/

inductive RegexId
  | valid (n : Nat)      -- one of the harness' disjoint patterns
  | empty                -- ""
  | bad                  -- does not compile
  deriving Repr, DecidableEq

structure RawThrottle where
  bytes : Bytes
  bw : Int
  deriving Repr, DecidableEq

structure RawHalt where
  byte : Int
  dur : Int
  count : Int
  deriving Repr, DecidableEq

structure RawClose where
  byte : Int
  count : Int
  deriving Repr, DecidableEq

structure RawShape where
  regex : RegexId
  maxBw : Int
  throttles : List (Option RawThrottle)   -- `none` = JSON null
  halts : List (Option RawHalt)
  closes : List (Option RawClose)
  deriving Repr, DecidableEq

structure RawDefaults where
  up : Int
  down : Int
  lat : Int
  deriving Repr, DecidableEq

structure RawConfig where
  defaults : Option RawDefaults
  shapes : List (Option RawShape)
  deriving Repr, DecidableEq

/-! ## Validated shapes -/

inductive Kind
  | halt (dur : Int)
  | close
  | bw (b : Int)
  deriving Repr, DecidableEq

structure Action where
  byte : Int
  count : Int      -- -1 = infinite
  kind : Kind
  orig : Nat       -- position in `halts ++ closes` (reporting only)
  deriving Repr, DecidableEq

/-- `decrementCount`. -/
def Action.dec (a : Action) : Action :=
  match a.kind with
  | .bw _ => a
  | _ => if a.count > 0 then { a with count := a.count - 1 } else a

structure Throttle where
  start : Int
  stop : Int       -- -1 = to the end
  bw : Int
  deriving Repr, DecidableEq

structure Shape where
  maxBw : Int
  throttles : List Throttle   -- sorted by start
  actions : List Action       -- sorted by byte
  deriving Repr, DecidableEq

inductive Err
  | defaults | nilshape | noregex | badregex | negmax | nilthrottle | badbw | badbytes
  | nilhalt | badhalt | zerohalt | nilclose | badclose | zeroclose | overlap
  deriving Repr, DecidableEq

structure Reject where
  err : Err
  shape : Option Nat
  item : Option Nat
  deriving Repr, DecidableEq

def defaultBw : Int := 62500000000   -- DefaultBitrate / 8

def minusB : UInt8 := 45

/-- The `strings.Split(throttle.Bytes, "-")` block of `parseShapes`; `none` = "invalid bytes". -/
def parseThrottleBytes (b : Bytes) : Option (Int × Int) :=
  match split b minusB with
  | [a, e] =>
    match (if a.isEmpty then some 0 else atoi a) with
    | none => none
    | some st =>
      if e.isEmpty then (if st = -1 then none else some (st, -1))
      else match atoi e with
        | none => none
        | some en => if en < st then none else if st = en then none else some (st, en)
  | _ => none

def parseThrottles (si : Nat) : Nat → List (Option RawThrottle) → Except Reject (List Throttle)
  | _, [] => .ok []
  | i, none :: _ => .error ⟨.nilthrottle, some si, some i⟩
  | i, some t :: rest =>
    if t.bw ≤ 0 then .error ⟨.badbw, some si, some i⟩
    else match parseThrottleBytes t.bytes with
      | none => .error ⟨.badbytes, some si, some i⟩
      | some (st, en) =>
        match parseThrottles si (i + 1) rest with
        | .error e => .error e
        | .ok ts => .ok (⟨st, en, t.bw⟩ :: ts)

def parseHalts (si : Nat) : Nat → List (Option RawHalt) → Except Reject (List Action)
  | _, [] => .ok []
  | i, none :: _ => .error ⟨.nilhalt, some si, some i⟩
  | i, some h :: rest =>
    if h.dur < 0 ∨ h.byte < 0 then .error ⟨.badhalt, some si, some i⟩
    else if h.count = 0 then .error ⟨.zerohalt, some si, some i⟩
    else match parseHalts si (i + 1) rest with
      | .error e => .error e
      | .ok as => .ok (⟨h.byte, h.count, .halt h.dur, i⟩ :: as)

def parseCloses (si off : Nat) : Nat → List (Option RawClose) → Except Reject (List Action)
  | _, [] => .ok []
  | i, none :: _ => .error ⟨.nilclose, some si, some i⟩
  | i, some c :: rest =>
    if c.byte < 0 then .error ⟨.badclose, some si, some i⟩
    else if c.count = 0 then .error ⟨.zeroclose, some si, some i⟩
    else match parseCloses si off (i + 1) rest with
      | .error e => .error e
      | .ok as => .ok (⟨c.byte, c.count, .close, off + i⟩ :: as)

/-- Stable insertion (what `sort.SliceStable` guarantees): `x` goes before the first element whose
key is not smaller.  Used with `foldr`, so that equal keys keep their input order. -/
def insertBy {α : Type} (key : α → Int) (x : α) : List α → List α
  | [] => [x]
  | y :: ys => if key x ≤ key y then x :: y :: ys else y :: insertBy key x ys

def stableSort {α : Type} (key : α → Int) (l : List α) : List α := l.foldr (insertBy key) []

def bwAct (byte b : Int) : Action := ⟨byte, -1, .bw b, 1000000⟩

/-- `getActionsFromThrottles` on the sorted throttles; `none` = "overlapping throttle intervals". -/
def actionsFromThrottles (dflt : Int) : List Throttle → Option (List Action)
  | [] => some []
  | [t] => if t.stop = -1 then some [bwAct t.start t.bw] else some [bwAct t.start t.bw, bwAct t.stop dflt]
  | t :: t2 :: rest =>
    if t.stop > t2.start ∨ t.stop = -1 then none
    else match actionsFromThrottles dflt (t2 :: rest) with
      | none => none
      | some as =>
        if t.stop = t2.start then some (bwAct t.start t.bw :: as)
        else some (bwAct t.start t.bw :: bwAct t.stop dflt :: as)

/-- One iteration of the `for shapeIndex, shape := range ts.Shapes` loop. -/
def parseShape (si : Nat) : Option RawShape → Except Reject (Nat × Shape)
  | none => .error ⟨.nilshape, some si, none⟩
  | some s =>
    match s.regex with
    | .empty => .error ⟨.noregex, some si, none⟩
    | .bad => .error ⟨.badregex, some si, none⟩
    | .valid r =>
      if s.maxBw < 0 then .error ⟨.negmax, some si, none⟩
      else
        let maxBw := if s.maxBw = 0 then defaultBw else s.maxBw
        match parseThrottles si 0 s.throttles with
        | .error e => .error e
        | .ok ts =>
          match parseHalts si 0 s.halts with
          | .error e => .error e
          | .ok hs =>
            match parseCloses si s.halts.length 0 s.closes with
            | .error e => .error e
            | .ok cs =>
              let sorted := stableSort Throttle.start ts
              match actionsFromThrottles maxBw sorted with
              | none => .error ⟨.overlap, some si, none⟩
              | some tas => .ok (r, ⟨maxBw, sorted, stableSort Action.byte (hs ++ cs ++ tas)⟩)

def parseShapes : Nat → List (Option RawShape) → Except Reject (List (Nat × Shape))
  | _, [] => .ok []
  | i, s :: rest =>
    match parseShape i s with
    | .error e => .error e
    | .ok p =>
      match parseShapes (i + 1) rest with
      | .error e => .error e
      | .ok ps => .ok (p :: ps)

/-! ## Listener state -/

/-- Go map assignment on an association list kept in key order. -/
def mapSet {β : Type} (k : Nat) (v : β) : List (Nat × β) → List (Nat × β)
  | [] => [(k, v)]
  | (k', v') :: rest =>
    if k = k' then (k, v) :: rest
    else if k < k' then (k, v) :: (k', v') :: rest
    else (k', v') :: mapSet k v rest

def mapGet {β : Type} (k : Nat) : List (Nat × β) → Option β
  | [] => none
  | (k', v) :: rest => if k = k' then some v else mapGet k rest

structure Ctx where
  shaping : Bool := false
  regex : Option Nat := none
  off : Int := 0
  headerLen : Int := 0
  headerWritten : Int := 0
  next : Option (Nat × Int) := none
  fast : Option Int := none    -- capacity of a bucket substituted by the harness
  deriving Repr, DecidableEq

structure Conn where
  established : Nat
  locals : List (Nat × Int)    -- regex ↦ capacity of the connection's own write bucket
  ctx : Ctx := {}
  closed : Bool := false
  deriving Repr, DecidableEq

structure Listener where
  shapes : List (Nat × Shape) := []
  lastMod : Nat := 0
  clock : Nat := 1
  up : Int := defaultBw
  down : Int := defaultBw
  latency : Int := 0
  deriving Repr, DecidableEq

/-- `Handler.ServeHTTP` after JSON decoding: `.error` = HTTP 400, state untouched. -/
def configure (l : Listener) (c : RawConfig) : Except Reject Listener :=
  let d := c.defaults.getD ⟨0, 0, 0⟩
  if d.up < 0 ∨ d.down < 0 ∨ d.lat < 0 then .error ⟨.defaults, none, none⟩
  else match parseShapes 0 c.shapes with
    | .error e => .error e
    | .ok ps =>
      .ok { shapes := ps.foldl (fun m p => mapSet p.1 p.2 m) []
            lastMod := l.clock
            clock := l.clock + 1
            up := if d.up = 0 then defaultBw else d.up
            down := if d.down = 0 then defaultBw else d.down
            latency := d.lat }

/-- The observable result of a configuration request. -/
def configureSt (l : Listener) (c : RawConfig) : Listener × Option Reject :=
  match configure l c with
  | .ok l' => (l', none)
  | .error e => (l, some e)

/-- `GetTrafficShapedConn`. -/
def accept (l : Listener) : Listener × Conn :=
  ({ l with clock := l.clock + 1 },
   { established := l.clock, locals := l.shapes.map fun p => (p.1, p.2.maxBw) })

/-- `CheckExistenceAndValidity` followed by the map lookup. -/
def validShape (l : Listener) (c : Conn) (regex : Nat) : Option Shape :=
  if l.lastMod < c.established then mapGet regex l.shapes else none

/-! ## Searches -/

/-- `sort.Search`. -/
def searchGo (f : Nat → Bool) (i j : Nat) : Nat :=
  if i < j then
    let h := (i + j) / 2
    if !f h then searchGo f (h + 1) j else searchGo f i h
  else i
termination_by j - i
decreasing_by all_goals omega

/-- The linear definition: the first index in `[i, i+k)` at which `f` holds, else `i+k`. -/
def linSearch (f : Nat → Bool) : Nat → Nat → Nat
  | 0, i => i
  | k + 1, i => if f i then i else linSearch f k (i + 1)

def byteAt (acts : List Action) (i : Nat) : Int := (acts[i]?.map Action.byte).getD 0
def countAt (acts : List Action) (i : Nat) : Int := (acts[i]?.map Action.count).getD 0

def nextFromFuel (acts : List Action) : Nat → Nat → Option (Nat × Int)
  | 0, _ => none
  | k + 1, i =>
    match acts[i]? with
    | none => none
    | some a => if a.count = 0 then nextFromFuel acts k (i + 1) else some (i, a.byte)

/-- `GetNextActionFromIndex`: skip the actions whose count is exhausted
(`for ind < l && actions[ind].getCount() == 0 { ind++ }`; at most `l - ind` iterations). -/
def nextFromIndex (acts : List Action) (i : Nat) : Option (Nat × Int) :=
  nextFromFuel acts (acts.length - i) i

/-- `GetNextActionFromByte` (binary search as in the code). -/
def nextFromByte (acts : List Action) (start : Int) : Option (Nat × Int) :=
  nextFromIndex acts (searchGo (fun i => decide (byteAt acts i ≥ start)) 0 acts.length)

/-- The same with the linear search (specification). -/
def nextFromByteLin (acts : List Action) (start : Int) : Option (Nat × Int) :=
  nextFromIndex acts (linSearch (fun i => decide (byteAt acts i ≥ start)) acts.length 0)

def startAt (ts : List Throttle) (i : Nat) : Int := (ts[i]?.map Throttle.start).getD 0

/-- `GetCurrentThrottle` after the search: `ind` = first index with `ByteStart > start`. -/
def throttleAt (ts : List Throttle) (start : Int) (ind : Nat) : Option Int :=
  if ts.length = 0 then none
  else if ind = 0 then none
  else match ts[ind - 1]? with
    | none => none
    | some t =>
      if ind = ts.length then (if t.stop > start ∨ t.stop = -1 then some t.bw else none)
      else if t.stop > start then some t.bw else none

def currentThrottle (ts : List Throttle) (start : Int) : Option Int :=
  throttleAt ts start (searchGo (fun i => decide (startAt ts i > start)) 0 ts.length)

def currentThrottleLin (ts : List Throttle) (start : Int) : Option Int :=
  throttleAt ts start (linSearch (fun i => decide (startAt ts i > start)) ts.length 0)

/-! ## The context set by `Proxy.handle` before the response is written -/

def fastCap (f : Option Int) : Option Int := f.map fun n => if n < 1 then 1 else n

/-- `u` = the pattern the request URL matches (`none`: no pattern matches), `rs` = range start
(`-1`: multipart or invalid range), `hl` = length of the dumped head. -/
def setContext (l : Listener) (c : Conn) (u : Option Nat) (rs hl : Int) (fast : Option Int) : Conn :=
  match u with
  | none => { c with ctx := {} }
  | some r =>
    match mapGet r c.locals with
    | none => { c with ctx := {} }
    | some _ =>
      if rs > -1 then
        let sh := validShape l c r
        let next := match sh with
          | some s => nextFromByte s.actions rs
          | none => none
        let thr := match sh with
          | some s => currentThrottle s.throttles rs
          | none => none
        let locals := match thr with
          | some b => mapSet r b c.locals
          | none => c.locals
        { c with locals := locals,
                 ctx := { shaping := true, regex := some r, off := rs, headerLen := hl,
                          headerWritten := 0, next := next, fast := fastCap fast } }
      else { c with ctx := {} }

/-! ## The shaped write loop -/

inductive Ev
  | sleep (d : Int) (off : Int)
  | setCap (b : Int) (off : Int)
  | forceClose (off : Int)
  deriving Repr, DecidableEq

inductive Status
  | ok | closed | panic | fuel
  deriving Repr, DecidableEq

/-- State of one `Write` call's body loop. -/
structure Loop where
  off : Int
  next : Option (Nat × Int)
  acts : List Action
  shaping : Bool := true
  cap : Option Int := none        -- last `SetCapacity` of the local bucket in this call
  delivered : Bytes := []
  evs : List Ev := []
  deriving Repr, DecidableEq

/-- `amountToWrite`. -/
def amount (len : Nat) (off : Int) (next : Option (Nat × Int)) : Int :=
  match next with
  | some (_, nb) => if nb - off ≤ (len : Int) then nb - off else len
  | none => len

/-- Result of one round of the loop. -/
inductive StepRes
  | cont (s : Loop) (b : Bytes)
  | done (s : Loop) (st : Status)
  deriving Repr, DecidableEq

/-- One round of the `for len(b) > 0` loop of `Conn.Write` (`b` non-empty).  `valid` is the result
of `CheckExistenceAndValidity` (constant during one call in a sequential history); `cap + 1` is the
smaller of the two buckets' remaining capacities in this round — the connection's own and the one
shared by the shape; each only calls back with a remaining capacity ≥ 1, and the inner closure
reassigns `max = min(rem, max)` before `conn.Write(b[:max])` and the loop's `b = b[max:]` (fact
`facts_write_chunk_is_what_is_skipped`), so one `m` is both written and skipped. -/
def stepLoop (valid : Bool) (cap : Nat) (s : Loop) (b : Bytes) : StepRes :=
  let amt := amount b.length s.off s.next
  if amt < 0 then .done s .panic       -- `b[:max]` with a negative bound
  else
    let m := min (cap + 1) amt.toNat
    let s1 := { s with off := s.off + (m : Int), delivered := s.delivered ++ b.take m }
    let b' := b.drop m
    match s.next with
    | none => .cont s1 b'
    | some (ind, nb) =>
      if s1.off ≥ nb then
        if !valid then
          -- the shapes were replaced: the rest goes through the default buckets, unshaped
          .done { s1 with shaping := false, delivered := s1.delivered ++ b' } .ok
        else
          match s1.acts[ind]? with
          | none => .done s1 .panic
          | some a =>
            if a.count ≠ 0 then
              let acts' := s1.acts.set ind a.dec
              match a.kind with
              | .halt d =>
                .cont { s1 with acts := acts', evs := s1.evs ++ [.sleep d s1.off],
                                next := nextFromIndex acts' (ind + 1) } b'
              | .close =>
                .done { s1 with acts := acts', evs := s1.evs ++ [.forceClose s1.off] } .closed
              | .bw x =>
                .cont { s1 with acts := acts', evs := s1.evs ++ [.setCap x s1.off], cap := some x,
                                next := nextFromIndex acts' (ind + 1) } b'
            else
              .cont { s1 with next := nextFromIndex s1.acts (ind + 1) } b'
      else .cont s1 b'

/-- The loop: round `r` gets the capacity `caps r`. -/
def bodyLoop (valid : Bool) (caps : Nat → Nat) : Nat → Nat → Loop → Bytes → Loop × Status
  | 0, _, s, _ => (s, .fuel)
  | fuel + 1, r, s, b =>
    if b.isEmpty then (s, .ok)
    else match stepLoop valid (caps r) s b with
      | .cont s' b' => bodyLoop valid caps fuel (r + 1) s' b'
      | .done s' st => (s', st)

/-- Enough fuel for every run (theorem `write_loop_terminates`). -/
def fuelFor (b : Bytes) (acts : List Action) : Nat := b.length + acts.length + 1

/-- Result of one `Conn.Write` on a shaped context. -/
structure WriteRes where
  ctx : Ctx
  acts : List Action
  cap : Option Int
  delivered : Bytes
  evs : List Ev
  status : Status
  deriving Repr, DecidableEq

/-- `Conn.Write` with `Context.Shaping = true`: the head is written unshaped, the body goes
through the loop. -/
def shapedWrite (valid : Bool) (caps : Nat → Nat) (c : Ctx) (acts : List Action) (b : Bytes) : WriteRes :=
  let toWrite := c.headerLen - c.headerWritten
  let h : Nat := if toWrite > 0 then min b.length toWrite.toNat else 0
  let c1 := { c with headerWritten := c.headerWritten + (h : Int) }
  let body := b.drop h
  let (s, st) := bodyLoop valid caps (fuelFor body acts) 0
    { off := c.off, next := c.next, acts := acts, delivered := b.take h } body
  { ctx := { c1 with off := s.off, next := s.next, shaping := s.shaping },
    acts := s.acts, cap := s.cap, delivered := s.delivered, evs := s.evs, status := st }

/-! ## One connection writing, inside the listener state -/

def setShapeActions (l : Listener) (r : Nat) (acts : List Action) : Listener :=
  match mapGet r l.shapes with
  | some s => { l with shapes := mapSet r { s with actions := acts } l.shapes }
  | none => l

/-- `Conn.Write` on connection `c` (any context). -/
def connWrite (caps : Nat → Nat) (l : Listener) (c : Conn) (b : Bytes) : Listener × Conn × WriteRes :=
  if c.ctx.shaping then
    match c.ctx.regex with
    | none => (l, c, ⟨c.ctx, [], none, b, [], .ok⟩)
    | some r =>
      let sh := validShape l c r
      let acts := match sh with
        | some s => s.actions
        | none => []
      let res := shapedWrite sh.isSome caps c.ctx acts b
      let l' := if sh.isSome then setShapeActions l r res.acts else l
      let ctx' := match res.cap, res.ctx.fast with
        | some x, some _ => { res.ctx with fast := some x }
        | _, _ => res.ctx
      let locals := match res.cap, res.ctx.fast with
        | some x, none => mapSet r x c.locals
        | _, _ => c.locals
      (l', { c with ctx := ctx', locals := locals }, res)
  else (l, c, ⟨c.ctx, [], none, b, [], .ok⟩)

/-! ## Interleaved histories: one `Write` call as a sequence of rounds

Between two rounds of its loop a `Write` holds no lock of the shape map, so configuration requests,
accepts and rounds of other connections (which share the action counts) may happen there.  The
working state of the loop lives where the code keeps it: `Context.ByteOffset` / `NextActionInfo` in
the connection, the counts in the listener's shape map; each round re-reads the map
(`CheckExistenceAndValidity`). -/

/-- What is left of a `Write` call between two rounds. -/
structure Pending where
  rest : Bytes
  delivered : Bytes := []     -- of this call
  evs : List Ev := []         -- of this call
  round : Nat := 0
  deriving Repr, DecidableEq

/-- Entry of `Conn.Write`: the head part goes out unshaped. -/
def beginWrite (c : Conn) (b : Bytes) : Conn × Pending :=
  if c.ctx.shaping then
    let toWrite := c.ctx.headerLen - c.ctx.headerWritten
    let h : Nat := if toWrite > 0 then min b.length toWrite.toNat else 0
    ({ c with ctx := { c.ctx with headerWritten := c.ctx.headerWritten + (h : Int) } },
     { rest := b.drop h, delivered := b.take h })
  else (c, { rest := b })

/-- `SetCapacity` of the connection's write bucket for pattern `r`. -/
def applyCap (c : Conn) (r : Nat) (cap : Option Int) : Conn :=
  match cap, c.ctx.fast with
  | some x, some _ => { c with ctx := { c.ctx with fast := some x } }
  | some x, none => { c with locals := mapSet r x c.locals }
  | none, _ => c

/-- One round of the pending call against the listener as it is *now*; `some st` = the call
returned.  An unshaped context is `WriteDefaultBuckets`: everything goes out. -/
def roundStep (cap : Nat) (l : Listener) (c : Conn) (pd : Pending) :
    Listener × Conn × Pending × Option Status :=
  if pd.rest.isEmpty then (l, c, pd, some .ok)
  else
    let flush : Listener × Conn × Pending × Option Status :=
      (l, c, { pd with rest := [], delivered := pd.delivered ++ pd.rest, round := pd.round + 1 }, some .ok)
    if !c.ctx.shaping then flush
    else match c.ctx.regex with
      | none => flush
      | some r =>
        let sh := validShape l c r
        let acts := match sh with
          | some s => s.actions
          | none => []
        let s : Loop := { off := c.ctx.off, next := c.ctx.next, acts := acts, delivered := pd.delivered, evs := pd.evs }
        let fin (s' : Loop) (rest : Bytes) (st : Option Status) : Listener × Conn × Pending × Option Status :=
          (if sh.isSome then setShapeActions l r s'.acts else l,
           applyCap { c with ctx := { c.ctx with off := s'.off, next := s'.next, shaping := s'.shaping } } r s'.cap,
           { rest := rest, delivered := s'.delivered, evs := s'.evs, round := pd.round + 1 }, st)
        match stepLoop sh.isSome cap s pd.rest with
        | .cont s' b' => fin s' b' none
        | .done s' st => fin s' [] (some st)

/-- Run the pending call to its end with nothing in between (round `r` gets `caps r`). -/
def runRounds (caps : Nat → Nat) : Nat → Listener → Conn → Pending → Listener × Conn × Pending × Status
  | 0, l, c, pd => (l, c, pd, .fuel)
  | fuel + 1, l, c, pd =>
    match roundStep (caps pd.round) l c pd with
    | (l', c', pd', some st) => (l', c', pd', st)
    | (l', c', pd', none) => runRounds caps fuel l' c' pd'

/-- The world of interleaved histories: one listener, its connections, at most one `Write` in
progress per connection (the proxy serves a connection from one goroutine). -/
structure IConn where
  c : Conn
  pend : Option Pending := none
  written : Bytes := []       -- everything handed to `Write` so far
  out : Bytes := []           -- delivered by the calls that returned
  evs : List Ev := []         -- actions performed by the calls that returned
  dead : Bool := false        -- a call did not return `ok` (cut by a close action)
  panicked : Bool := false    -- a round ended in a Go panic (theorem `interleaved_rounds_never_panic`: never)
  deriving Repr, DecidableEq

def IConn.delivered (ic : IConn) : Bytes :=
  ic.out ++ (match ic.pend with | some pd => pd.delivered | none => [])

def IConn.events (ic : IConn) : List Ev :=
  ic.evs ++ (match ic.pend with | some pd => pd.evs | none => [])

def IConn.rest (ic : IConn) : Bytes :=
  match ic.pend with | some pd => pd.rest | none => []

structure World where
  l : Listener := {}
  conns : List IConn := []
  deriving Repr, DecidableEq

inductive Step
  | configure (cfg : RawConfig)                                       -- the swap inside `ServeHTTP`
  | accept                                                            -- `GetTrafficShapedConn`
  | setCtx (i : Nat) (u : Option Nat) (rs hl : Int) (fast : Option Int)  -- `Proxy.handle`, per response
  | begin (i : Nat) (b : Bytes)                                       -- entry of `Conn.Write`
  | round (i : Nat) (cap : Nat)                                       -- one round of conn `i`'s loop
  deriving Repr, DecidableEq

def World.step (w : World) : Step → World
  | .configure cfg => { w with l := (configureSt w.l cfg).1 }
  | .accept => { l := (accept w.l).1, conns := w.conns ++ [{ c := (accept w.l).2 }] }
  | .setCtx i u rs hl f =>
    match w.conns[i]? with
    | none => w
    | some ic =>
      if ic.dead ∨ ic.pend.isSome then w
      else
        let ic' : IConn := { ic with c := setContext w.l ic.c u rs hl f }
        { w with conns := w.conns.set i ic' }
  | .begin i b =>
    match w.conns[i]? with
    | none => w
    | some ic =>
      if ic.dead ∨ ic.pend.isSome then w
      else
        let ic' : IConn := { ic with c := (beginWrite ic.c b).1, pend := some (beginWrite ic.c b).2, written := ic.written ++ b }
        { w with conns := w.conns.set i ic' }
  | .round i cap =>
    match w.conns[i]? with
    | none => w
    | some ic =>
      match ic.pend with
      | none => w
      | some pd =>
        match roundStep cap w.l ic.c pd with
        | (l', c', pd', none) =>
          let ic' : IConn := { ic with c := c', pend := some pd' }
          { l := l', conns := w.conns.set i ic' }
        | (l', c', pd', some st) =>
          let ic' : IConn := { ic with c := c', pend := none, out := ic.out ++ pd'.delivered, evs := ic.evs ++ pd'.evs,
                                       dead := ic.dead || decide (st ≠ .ok),
                                       panicked := ic.panicked || decide (st = .panic) }
          { l := l', conns := w.conns.set i ic' }

def World.run (w : World) (steps : List Step) : World := steps.foldl World.step w

end Martian.Shape
