/-!
# Process/channel/mutex model of one HTTP/2 relay session (`relay.relayFrames` ×2, h2/relay.go)

One session = the goroutines started by `Config.Proxy` (h2/h2.go) after the preface has been
forwarded and by the two calls of `relayFrames` (h2/relay.go), transcribed as a small-step system.
(The stages of `Config.Proxy` before that — dial, preface — are in `Model/H2Proxy.lean`, which
embeds this machine as its `running` stage.)  Frame *contents* are abstracted to what matters for
termination and for the locks: which mutexes `processFrame` takes for a received frame, which
connection it writes to directly, and how many frames it pushes into which `output` channel.

For each direction `d` (c2s: client→server, s2c: server→client), relay `d`:
* the reader (the goroutine running `relayFrames`, states `Rd`):
  - in the `select` with the `ReadFrame` goroutine still blocked (`selReading`) or with the
    `frameReady` token present (`selReady r`);
  - inside `processFrame`:
    `mWait t k` — at `destMu.Lock()` of relay `t` (t = d: SETTINGS / SETTINGS ack / PING / GOAWAY
    forwarded directly; t = d.other: `peer.sendWindowUpdates` for a DATA frame);
    `mHold t k` — holds that `destMu`, inside the connection write (`WritePing`, `WriteSettings`,
    `WriteSettingsAck`, `WriteGoAway`, `WriteWindowUpdate`×2); `k = some n`: a DATA frame, the
    payload is processed afterwards (`n` frames pushed into the own `output`);
    `lockWait t n wr` — at `flowMu.Lock()` of relay `t`; `pushing t n wr` — holds it and pushes the
    remaining `n` frames into `t`'s `output` (`emitEligibleFrames`: `output <- f` blocks while the
    channel is full, with `flowMu` held); `wr = true`: a SETTINGS frame, `WriteSettings` follows;
  - at the deferred `readerDone <- struct{}{}` (`exiting`); returned (`gone`);
* the writer goroutine (`Wr`): in its `select` (`idle`), at `r.destMu.Lock()` with a frame taken
  from `output` (`want`), inside `f.send(r.dest)` holding `destMu` (`hold`).  It leaves only
  through the `readerDone` rendez-vous, so it is alive exactly as long as the reader is not `gone`;
  `failed` = its `err` variable is non-nil (it drains without writing); `werr` = the token in
  `writerErr` (cap 1);
* `out` = number of frames in `output` (cap 15);
* `dmu` = the owner of relay `d`'s `destMu` (explicit, `none` = unlocked);
* `leak` = an abandoned `ReadFrame` goroutine is still blocked in the read (the reader left the
  `select` through `writerErr`/`closing` while no frame was ready);
* environment state of the connection relay `d` writes to: `stalled` (the peer does not take bytes:
  a connection write blocks) and `wfail` (writes toward it fail, from now on; a blocked one too).
* `fmu` = the owner of relay `d`'s `flowMu` (explicit: the direction of the reader that holds it, `none` =
  unlocked); `Good` states that it is exactly the reader in state `pushing d _ _`.

Session level: `done` (the channel closed by `stop()`), `closing` (the proxy's channel), the watcher
goroutine (`select { <-closing: stop(); <-done }`), `returned` (`wg.Wait()` passed, the deferred
`sc.Close()` ran), `scClosed`, `ccClosed` (the caller closes the client connection after `Proxy`
returns, as `Proxy.handleLoop` does).
-/
namespace Martian.H2Session

inductive Dir | c2s | s2c
deriving DecidableEq, Repr

def Dir.other : Dir → Dir
  | .c2s => .s2c
  | .s2c => .c2s

/-- What `processFrame` does with a received frame, as far as termination and locks are concerned. -/
inductive Work
  /-- HEADERS, PRIORITY, RST_STREAM, PUSH_PROMISE, CONTINUATION, DATA without payload: under this
      relay's `flowMu` `n` frames become eligible and are pushed into this relay's `output`
      (`n = 0`: queued behind a closed window) -/
  | own (n : Nat)
  /-- DATA with payload: first `peer.sendWindowUpdates` — two WINDOW_UPDATEs written to this relay's
      SOURCE connection under the PEER relay's `destMu` — then as `own n` -/
  | data (n : Nat)
  /-- WINDOW_UPDATE: under the PEER relay's `flowMu`, `n` frames queued there are pushed into the
      PEER's `output` (`peer.updateWindow`) -/
  | peer (n : Nat)
  /-- SETTINGS (not an ack): `peer.updateInitialWindowSize` (as `peer n`), then `WriteSettings`
      to this relay's destination under its own `destMu` -/
  | settings (n : Nat)
  /-- SETTINGS ack / PING / GOAWAY: one write to this relay's destination under its own `destMu` -/
  | direct
  /-- `processFrame` returns an error without having taken a lock (HPACK decoding, unknown type) -/
  | bad
  /-- a fragment of a split header block that does not complete it (HEADERS / PUSH_PROMISE without
      END_HEADERS, CONTINUATION without END_HEADERS): buffered, no lock, nothing emitted.  The reader
      goes back to its `select` with a fresh `ReadFrame` goroutine exactly as after any other frame:
      "inside a header block" is NOT a reader state of its own (`Props/C10/MidBlock.lean`) -/
  | frag
deriving DecidableEq, Repr

/-- Result of one `ReadFrame` call. -/
inductive Res
  | frame (w : Work)
  | eof
  | err
deriving DecidableEq, Repr

inductive Rd
  | selReading
  | selReady (r : Res)
  | lockWait (t : Dir) (n : Nat) (wr : Bool)
  | pushing (t : Dir) (n : Nat) (wr : Bool)
  | mWait (t : Dir) (k : Option Nat)
  | mHold (t : Dir) (k : Option Nat)
  | exiting
  | gone
deriving DecidableEq, Repr

/-- The writer goroutine of a relay. -/
inductive Wr | idle | want | hold
deriving DecidableEq, Repr

/-- Who owns a relay's `destMu`: its writer goroutine, its own reader (directly forwarded control
    frame), or the peer relay's reader (window acknowledgement of a DATA frame). -/
inductive Holder | writer | own | peer
deriving DecidableEq, Repr

structure Side where
  r : Rd := .selReading
  w : Wr := .idle
  failed : Bool := false
  out : Nat := 0
  werr : Bool := false
  leak : Bool := false
  stalled : Bool := false
  wfail : Bool := false
  dmu : Option Holder := none
  fmu : Option Dir := none
deriving DecidableEq, Repr

structure Sys where
  c : Side := {}
  s : Side := {}
  done : Bool := false
  closing : Bool := false
  watcher : Bool := true
  returned : Bool := false
  scClosed : Bool := false
  ccClosed : Bool := false
deriving DecidableEq, Repr

/-- State right after `Proxy` has started both relays. -/
def init : Sys := {}

/-- `outputChannelSize` (pinned to the source by `Props/C10/Facts.lean`). -/
def cap : Nat := 15

def Sys.side (s : Sys) : Dir → Side
  | .c2s => s.c
  | .s2c => s.s

def Sys.setSide (s : Sys) (d : Dir) (x : Side) : Sys :=
  match d with
  | .c2s => { s with c := x }
  | .s2c => { s with s := x }

def Rd.isPushing : Rd → Dir → Bool
  | .pushing t _ _, u => t == u
  | _, _ => false

/-- `flowMu` of relay `t` is held (explicit owner). -/
def lockHeld (s : Sys) (t : Dir) : Bool := (s.side t).fmu.isSome

/-- The reader is inside a connection write under `destMu` of relay `t`. -/
def Rd.holdsDest : Rd → Dir → Bool
  | .mHold t _, u => t == u
  | _, _ => false

/-- The reader is somewhere inside `processFrame`. -/
def Rd.inProcessFrame : Rd → Bool
  | .lockWait _ _ _ | .pushing _ _ _ | .mWait _ _ | .mHold _ _ => true
  | _ => false

def Rd.inSelect : Rd → Bool
  | .selReading | .selReady _ => true
  | _ => false

def Rd.isReading : Rd → Bool
  | .selReading => true
  | _ => false

/-- Which of the three possible owners of relay `t`'s `destMu` are, by their control state, inside
    the critical section (`Good` states that this list is exactly the explicit owner `dmu`). -/
def destUsers (s : Sys) (t : Dir) : List Holder :=
  (if (s.side t).w == .hold then [Holder.writer] else []) ++
  (if (s.side t).r.holdsDest t then [Holder.own] else []) ++
  (if (s.side t.other).r.holdsDest t then [Holder.peer] else [])

/-- The connection `d`'s reader reads from has been closed locally. -/
def srcClosed (s : Sys) : Dir → Bool
  | .c2s => s.ccClosed
  | .s2c => s.scClosed

inductive Label
  -- environment
  | deliver (d : Dir) (r : Res)   -- the blocked ReadFrame of direction d completes with r
  | closing                       -- the proxy closes its `closing` channel
  | callerClose                   -- the caller of Proxy closes the client connection (after return)
  | stall (d : Dir)
  | unstall (d : Dir)
  | failWrites (d : Dir)          -- from now on writes to relay d's destination fail
  -- processes
  | rTake (d : Dir)               -- select arm frameReady
  | rWerr (d : Dir)               -- select arm writerErr
  | rDone (d : Dir)               -- select arm closing (= done)
  | acquire (d : Dir)             -- flowMu.Lock()
  | push (d : Dir)                -- output <- f
  | release (d : Dir)             -- flowMu.Unlock(); back to the select (new ReadFrame goroutine) or on to WriteSettings
  | mAcquire (d : Dir)            -- reader d: destMu.Lock() (own or peer's)
  | mDone (d : Dir)               -- reader d: the write completes or fails, destMu.Unlock(), processFrame goes on / returns the error
  | handshake (d : Dir)           -- readerDone rendez-vous, relayFrames returns, stop(), wg.Done()
  | wTake (d : Dir)               -- writer: f := <-r.output (dropped when err != nil)
  | wLock (d : Dir)               -- writer: r.destMu.Lock()
  | wDone (d : Dir)               -- writer: f.send completes or fails, r.destMu.Unlock(), writerErr <- err
  | watchClosing                  -- watcher: <-closing → stop()
  | watchDone                     -- watcher: <-done
  | ret                           -- wg.Wait() passes, deferred sc.Close(), Proxy returns
  | rfClosed (d : Dir)            -- abandoned ReadFrame fails because its connection was closed
deriving DecidableEq, Repr

def Label.isProc : Label → Bool
  | .deliver _ _ | .closing | .callerClose | .stall _ | .unstall _ | .failWrites _ => false
  | _ => true

/-- All process labels (finite). -/
def procLabels : List Label :=
  [.rTake .c2s, .rTake .s2c, .rWerr .c2s, .rWerr .s2c, .rDone .c2s, .rDone .s2c,
   .acquire .c2s, .acquire .s2c, .push .c2s, .push .s2c, .release .c2s, .release .s2c,
   .mAcquire .c2s, .mAcquire .s2c, .mDone .c2s, .mDone .s2c,
   .handshake .c2s, .handshake .s2c,
   .wTake .c2s, .wTake .s2c, .wLock .c2s, .wLock .s2c, .wDone .c2s, .wDone .s2c,
   .watchClosing, .watchDone, .ret, .rfClosed .c2s, .rfClosed .s2c]

/-- Where the reader goes after taking the `frameReady` token. -/
def afterTake (d : Dir) : Res → Rd
  | .frame (.own n) => .lockWait d n false
  | .frame (.data n) => .mWait d.other (some n)
  | .frame (.peer n) => .lockWait d.other n false
  | .frame (.settings n) => .lockWait d.other n true
  | .frame .direct => .mWait d none
  | .frame .bad => .exiting
  | .frame .frag => .selReading
  | .eof => .exiting
  | .err => .exiting

/-- Where the reader goes when its direct connection write has completed (`fail = false`) or failed:
    the error is returned by `processFrame` (after the unlock), a DATA frame's payload is processed,
    any other frame is done. -/
def afterWrite (d : Dir) : Option Nat → Bool → Rd
  | _, true => .exiting
  | some n, false => .lockWait d n false
  | none, false => .selReading

/-- Which owner a reader of relay `d` is for `destMu` of relay `t`. -/
def holderOf (d t : Dir) : Holder := if d == t then .own else .peer

def step (s : Sys) : Label → Option Sys
  | .deliver d r =>
    let x := s.side d
    match x.r with
    | .selReading => if !srcClosed s d then some (s.setSide d { x with r := .selReady r }) else none
    | _ => if !srcClosed s d && x.leak then some (s.setSide d { x with leak := false }) else none
  | .closing => some { s with closing := true }
  | .callerClose => if s.returned then some { s with ccClosed := true } else none
  | .stall d => some (s.setSide d { s.side d with stalled := true })
  | .unstall d => some (s.setSide d { s.side d with stalled := false })
  | .failWrites d => some (s.setSide d { s.side d with wfail := true })
  | .rTake d =>
    let x := s.side d
    match x.r with
    | .selReady r => some (s.setSide d { x with r := afterTake d r })
    | _ => none
  | .rWerr d =>
    let x := s.side d
    if x.r.inSelect && x.werr then
      some (s.setSide d { x with r := .exiting, werr := false, leak := x.leak || x.r.isReading })
    else none
  | .rDone d =>
    let x := s.side d
    if x.r.inSelect && s.done then
      some (s.setSide d { x with r := .exiting, leak := x.leak || x.r.isReading })
    else none
  | .acquire d =>
    let x := s.side d
    match x.r with
    | .lockWait t n wr =>
      if (s.side t).fmu.isNone then
        let s1 := s.setSide d { x with r := .pushing t n wr }
        let y := s1.side t
        some (s1.setSide t { y with fmu := some d })
      else none
    | _ => none
  | .push d =>
    let x := s.side d
    match x.r with
    | .pushing t (n+1) wr =>
      if Nat.blt (s.side t).out cap then
        let s1 := s.setSide d { x with r := .pushing t n wr }
        let y := s1.side t
        some (s1.setSide t { y with out := y.out + 1 })
      else none
    | _ => none
  | .release d =>
    let x := s.side d
    match x.r with
    | .pushing t 0 true =>
      let s1 := s.setSide d { x with r := .mWait d none }
      let y := s1.side t
      some (s1.setSide t { y with fmu := none })
    | .pushing t 0 false =>
      let s1 := s.setSide d { x with r := .selReading }
      let y := s1.side t
      some (s1.setSide t { y with fmu := none })
    | _ => none
  | .mAcquire d =>
    let x := s.side d
    match x.r with
    | .mWait t k =>
      if (s.side t).dmu.isNone then
        let s1 := s.setSide d { x with r := .mHold t k }
        let y := s1.side t
        some (s1.setSide t { y with dmu := some (holderOf d t) })
      else none
    | _ => none
  | .mDone d =>
    let x := s.side d
    match x.r with
    | .mHold t k =>
      let y := s.side t
      if !y.stalled || y.wfail then
        let s1 := s.setSide d { x with r := afterWrite d k y.wfail }
        let y1 := s1.side t
        some (s1.setSide t { y1 with dmu := none })
      else none
    | _ => none
  | .handshake d =>
    let x := s.side d
    match x.r with
    | .exiting =>
      -- the writer receives from readerDone only in its select
      if x.w == .idle then some { s.setSide d { x with r := .gone } with done := true } else none
    | _ => none
  | .wTake d =>
    let x := s.side d
    if x.r != .gone && x.w == .idle && x.out > 0 then
      if x.failed then some (s.setSide d { x with out := x.out - 1 })
      else some (s.setSide d { x with out := x.out - 1, w := .want })
    else none
  | .wLock d =>
    let x := s.side d
    if x.w == .want && x.dmu.isNone then some (s.setSide d { x with w := .hold, dmu := some .writer }) else none
  | .wDone d =>
    let x := s.side d
    if x.w == .hold && (!x.stalled || x.wfail) then
      if x.wfail then some (s.setSide d { x with w := .idle, dmu := none, failed := true, werr := true })
      else some (s.setSide d { x with w := .idle, dmu := none })
    else none
  | .watchClosing =>
    if s.watcher && s.closing then some { s with done := true, watcher := false } else none
  | .watchDone =>
    if s.watcher && s.done then some { s with watcher := false } else none
  | .ret =>
    if s.c.r == .gone && s.s.r == .gone && !s.returned then some { s with returned := true, scClosed := true }
    else none
  | .rfClosed d =>
    let x := s.side d
    if x.leak && srcClosed s d then some (s.setSide d { x with leak := false }) else none

def exec (s : Sys) : List Label → Option Sys
  | [] => some s
  | l :: ls => match step s l with
    | some s' => exec s' ls
    | none => none

def procOnly (ls : List Label) : Bool := ls.all Label.isProc

/-- No process can take a step. -/
def quiescent (s : Sys) : Bool := procLabels.all fun l => (step s l).isNone

/-- The canonical scheduler used by the driver: the first enabled process label. -/
def pick (s : Sys) : Option Label := procLabels.find? fun l => (step s l).isSome

/-- Ranking function: strictly decreases on every process step. -/
def Rd.wt : Rd → Nat
  | .gone => 0
  | .exiting => 1
  | .selReading => 4
  | .mHold _ none => 5
  | .mWait _ none => 6
  | .pushing _ n false => 5 + 4 * n
  | .pushing _ n true => 7 + 4 * n
  | .lockWait _ n false => 6 + 4 * n
  | .lockWait _ n true => 8 + 4 * n
  | .mHold _ (some n) => 7 + 4 * n
  | .mWait _ (some n) => 8 + 4 * n
  | .selReady (.frame (.own n)) => 7 + 4 * n
  | .selReady (.frame (.peer n)) => 7 + 4 * n
  | .selReady (.frame (.data n)) => 9 + 4 * n
  | .selReady (.frame (.settings n)) => 9 + 4 * n
  | .selReady (.frame .direct) => 7
  | .selReady (.frame .frag) => 5
  | .selReady _ => 3

def Wr.wt : Wr → Nat
  | .idle => 0
  | .hold => 1
  | .want => 2

def Side.wt (x : Side) : Nat := x.r.wt + 3 * x.out + x.w.wt + (if x.leak then 1 else 0)

def mu (s : Sys) : Nat :=
  s.c.wt + s.s.wt + (if s.watcher then 1 else 0) + (if s.returned then 0 else 1)

/-- A terminating event has been seen by the session (state-based). -/
def Rd.terminal : Rd → Bool
  | .exiting | .gone => true
  | .selReady .eof | .selReady .err => true
  | .selReady (.frame .bad) => true
  | _ => false

def termed (s : Sys) : Bool :=
  s.closing || s.done || s.c.werr || s.s.werr || s.c.r.terminal || s.s.r.terminal

def unstalled (s : Sys) : Bool := !s.c.stalled && !s.s.stalled

/-- F10c: reader `d` holds the peer's `flowMu` and is blocked on `peer.output <- f`, the channel is
    full and the peer's writer has already left. -/
def f10cBlockedAt (s : Sys) (d : Dir) : Bool :=
  match (s.side d).r with
  | .pushing t (_+1) _ => t == d.other && (s.side t).r == .gone && (s.side t).out ≥ cap
  | _ => false

def f10cBlocked (s : Sys) : Bool := f10cBlockedAt s .c2s || f10cBlockedAt s .s2c

/-- No reader is (about to be) pushing into the other relay's output. -/
def Rd.noPeer (d : Dir) : Rd → Bool
  | .lockWait t _ _ | .pushing t _ _ => t == d
  | .selReady (.frame (.peer _)) | .selReady (.frame (.settings _)) => false
  | _ => true

def noPeer (s : Sys) : Bool := s.c.r.noPeer .c2s && s.s.r.noPeer .s2c

/-- Goroutines of the session that still exist (kinds, as a goroutine dump shows them). -/
inductive Proc | main | reader | writer | readframe | watcher
deriving DecidableEq, Repr

def Side.alive (x : Side) : List Proc :=
  (if x.r != .gone then [.reader, .writer] else []) ++
  (if x.r.isReading || x.leak then [.readframe] else [])

def alive (s : Sys) : List Proc :=
  (if s.returned then [] else [.main]) ++ s.c.alive ++ s.s.alive ++ (if s.watcher then [.watcher] else [])

inductive Reach : Sys → Prop
  | init : Reach init
  | step {s s' : Sys} (l : Label) : Reach s → step s l = some s' → Reach s'

end Martian.H2Session
