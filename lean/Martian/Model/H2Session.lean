/-!
# Process/channel model of one HTTP/2 relay session (`h2.Config.Proxy`, `relay.relayFrames`)

One session = the goroutines started by `Config.Proxy` (h2/h2.go) and by the two calls of
`relayFrames` (h2/relay.go), transcribed as a small-step system.  Frame *contents* are abstracted
to what matters for termination: how many frames a received frame makes the reader push into which
`output` channel.

For each direction `d` (c2s: client→server, s2c: server→client):
* the reader (the goroutine running `relayFrames`, states `Rd`): in the `select` with the
  `ReadFrame` goroutine still blocked (`selReading`) or with the `frameReady` token present
  (`selReady r`); inside `processFrame` waiting for `flowMu` of relay `t` (`lockWait t n`) or holding
  it and pushing the remaining `n` frames into `t`'s `output` (`pushing t n`, the loop of
  `emitEligibleFrames`: `output <- f` blocks while the channel is full, with `flowMu` held);
  at the deferred `readerDone <- struct{}{}` (`exiting`); returned (`gone`);
* the writer goroutine: alive exactly as long as the reader is not `gone` (it leaves only through
  the `readerDone` rendez-vous); `failed` = its `err` variable is non-nil (it drains without
  writing); `werr` = the token in `writerErr` (cap 1);
* `out` = number of frames in `output` (cap 15);
* `leak` = an abandoned `ReadFrame` goroutine is still blocked in the read (the reader left the
  `select` through `writerErr`/`closing` while no frame was ready);
* `stalled` = the destination's peer does not take bytes: a connection write of the writer blocks.
* `flowMu` of relay `t` is held exactly by a reader in state `pushing t _` (derived, `lockHeld`).

Session level: `done` (the channel closed by `stop()`), `closing` (the proxy's channel), the watcher
goroutine (`select { <-closing: stop(); <-done }`), `returned` (`wg.Wait()` passed, the deferred
`sc.Close()` ran), `scClosed`, `ccClosed` (the caller closes the client connection after `Proxy`
returns, as `Proxy.handleLoop` does).
-/
namespace Martian.H2Session

inductive Dir | c2s | s2c
deriving DecidableEq, Repr

def Dir.other : Dir → Dir
  | .c2s => .s2c
  | .s2c => .c2s

/-- What `processFrame` does with a received frame, as far as termination is concerned. -/
inductive Work
  /-- stream frame (HEADERS, DATA, PRIORITY, RST_STREAM, PUSH_PROMISE): under this relay's `flowMu`
      `n` frames become eligible and are pushed into this relay's `output` (`n = 0`: queued behind a
      zero window) -/
  | own (n : Nat)
  /-- WINDOW_UPDATE / SETTINGS(initial window): under the PEER relay's `flowMu`, `n` frames queued
      there are pushed into the PEER's `output` (`peer.updateWindow`, `peer.updateInitialWindowSize`) -/
  | peer (n : Nat)
  /-- PING / SETTINGS / GOAWAY / window acknowledgement written straight to a connection under
      `destMu`; `false` = the write failed -/
  | direct (ok : Bool)
  /-- `processFrame` returns an error (HPACK decoding, unknown frame type) -/
  | bad
deriving DecidableEq, Repr

/-- Result of one `ReadFrame` call. -/
inductive Res
  | frame (w : Work)
  | eof
  | err
deriving DecidableEq, Repr

inductive Rd
  | selReading
  | selReady (r : Res)
  | lockWait (t : Dir) (n : Nat)
  | pushing (t : Dir) (n : Nat)
  | exiting
  | gone
deriving DecidableEq, Repr

structure Side where
  r : Rd := .selReading
  failed : Bool := false
  out : Nat := 0
  werr : Bool := false
  leak : Bool := false
  stalled : Bool := false
deriving DecidableEq, Repr

structure Sys where
  c : Side := {}
  s : Side := {}
  done : Bool := false
  closing : Bool := false
  watcher : Bool := true
  returned : Bool := false
  scClosed : Bool := false
  ccClosed : Bool := false
deriving DecidableEq, Repr

/-- State right after `Proxy` has started both relays. -/
def init : Sys := {}

/-- `outputChannelSize` -/
def cap : Nat := 15

def Sys.side (s : Sys) : Dir → Side
  | .c2s => s.c
  | .s2c => s.s

def Sys.setSide (s : Sys) (d : Dir) (x : Side) : Sys :=
  match d with
  | .c2s => { s with c := x }
  | .s2c => { s with s := x }

def Rd.isPushing : Rd → Dir → Bool
  | .pushing t _, u => t == u
  | _, _ => false

/-- `flowMu` of relay `t` is held. -/
def lockHeld (s : Sys) (t : Dir) : Bool := s.c.r.isPushing t || s.s.r.isPushing t

def Rd.inSelect : Rd → Bool
  | .selReading | .selReady _ => true
  | _ => false

def Rd.isReading : Rd → Bool
  | .selReading => true
  | _ => false

/-- The connection `d`'s reader reads from has been closed locally. -/
def srcClosed (s : Sys) : Dir → Bool
  | .c2s => s.ccClosed
  | .s2c => s.scClosed

inductive Label
  -- environment
  | deliver (d : Dir) (r : Res)   -- the blocked ReadFrame of direction d completes with r
  | closing                       -- the proxy closes its `closing` channel
  | callerClose                   -- the caller of Proxy closes the client connection (after return)
  | stall (d : Dir)
  | unstall (d : Dir)
  -- processes
  | rTake (d : Dir)               -- select arm frameReady
  | rWerr (d : Dir)               -- select arm writerErr
  | rDone (d : Dir)               -- select arm closing (= done)
  | acquire (d : Dir)             -- flowMu.Lock()
  | push (d : Dir)                -- output <- f
  | release (d : Dir)             -- flowMu.Unlock(), back to the select, new ReadFrame goroutine
  | handshake (d : Dir)           -- readerDone rendez-vous, relayFrames returns, stop(), wg.Done()
  | wSend (d : Dir) (ok : Bool)   -- writer takes a frame from output and writes it (ok) / fails
  | watchClosing                  -- watcher: <-closing → stop()
  | watchDone                     -- watcher: <-done
  | ret                           -- wg.Wait() passes, deferred sc.Close(), Proxy returns
  | rfClosed (d : Dir)            -- abandoned ReadFrame fails because its connection was closed
deriving DecidableEq, Repr

def Label.isProc : Label → Bool
  | .deliver _ _ | .closing | .callerClose | .stall _ | .unstall _ => false
  | _ => true

/-- All process labels (finite). -/
def procLabels : List Label :=
  [.rTake .c2s, .rTake .s2c, .rWerr .c2s, .rWerr .s2c, .rDone .c2s, .rDone .s2c,
   .acquire .c2s, .acquire .s2c, .push .c2s, .push .s2c, .release .c2s, .release .s2c,
   .handshake .c2s, .handshake .s2c, .wSend .c2s true, .wSend .c2s false, .wSend .s2c true, .wSend .s2c false,
   .watchClosing, .watchDone, .ret, .rfClosed .c2s, .rfClosed .s2c]

/-- Where the reader goes after taking the `frameReady` token. -/
def afterTake (d : Dir) : Res → Rd
  | .frame (.own n) => .lockWait d n
  | .frame (.peer n) => .lockWait d.other n
  | .frame (.direct true) => .selReading
  | .frame (.direct false) => .exiting
  | .frame .bad => .exiting
  | .eof => .exiting
  | .err => .exiting

def step (s : Sys) : Label → Option Sys
  | .deliver d r =>
    let x := s.side d
    match x.r with
    | .selReading => if !srcClosed s d then some (s.setSide d { x with r := .selReady r }) else none
    | _ => if !srcClosed s d && x.leak then some (s.setSide d { x with leak := false }) else none
  | .closing => some { s with closing := true }
  | .callerClose => if s.returned then some { s with ccClosed := true } else none
  | .stall d => some (s.setSide d { s.side d with stalled := true })
  | .unstall d => some (s.setSide d { s.side d with stalled := false })
  | .rTake d =>
    let x := s.side d
    match x.r with
    | .selReady r => some (s.setSide d { x with r := afterTake d r })
    | _ => none
  | .rWerr d =>
    let x := s.side d
    if x.r.inSelect && x.werr then
      some (s.setSide d { x with r := .exiting, werr := false, leak := x.leak || x.r.isReading })
    else none
  | .rDone d =>
    let x := s.side d
    if x.r.inSelect && s.done then
      some (s.setSide d { x with r := .exiting, leak := x.leak || x.r.isReading })
    else none
  | .acquire d =>
    let x := s.side d
    match x.r with
    | .lockWait t n => if lockHeld s t then none else some (s.setSide d { x with r := .pushing t n })
    | _ => none
  | .push d =>
    let x := s.side d
    match x.r with
    | .pushing t (n+1) =>
      if Nat.blt (s.side t).out cap then
        let s1 := s.setSide d { x with r := .pushing t n }
        let y := s1.side t
        some (s1.setSide t { y with out := y.out + 1 })
      else none
    | _ => none
  | .release d =>
    let x := s.side d
    match x.r with
    | .pushing _ 0 => some (s.setSide d { x with r := .selReading })
    | _ => none
  | .handshake d =>
    let x := s.side d
    match x.r with
    | .exiting =>
      -- the writer receives from readerDone only when it is not blocked inside a write
      if !x.stalled || x.failed || x.out == 0 then
        some { s.setSide d { x with r := .gone } with done := true }
      else none
    | _ => none
  | .wSend d ok =>
    let x := s.side d
    if x.r != .gone && x.out > 0 && (!x.stalled || x.failed) then
      if !x.failed && !ok then some (s.setSide d { x with out := x.out - 1, failed := true, werr := true })
      else some (s.setSide d { x with out := x.out - 1 })
    else none
  | .watchClosing =>
    if s.watcher && s.closing then some { s with done := true, watcher := false } else none
  | .watchDone =>
    if s.watcher && s.done then some { s with watcher := false } else none
  | .ret =>
    if s.c.r == .gone && s.s.r == .gone && !s.returned then some { s with returned := true, scClosed := true }
    else none
  | .rfClosed d =>
    let x := s.side d
    if x.leak && srcClosed s d then some (s.setSide d { x with leak := false }) else none

def exec (s : Sys) : List Label → Option Sys
  | [] => some s
  | l :: ls => match step s l with
    | some s' => exec s' ls
    | none => none

def procOnly (ls : List Label) : Bool := ls.all Label.isProc

/-- No process can take a step. -/
def quiescent (s : Sys) : Bool := procLabels.all fun l => (step s l).isNone

/-- The canonical scheduler used by the driver: the first enabled process label. -/
def pick (s : Sys) : Option Label := procLabels.find? fun l => (step s l).isSome

/-- Ranking function: strictly decreases on every process step. -/
def Rd.wt : Rd → Nat
  | .gone => 0
  | .exiting => 1
  | .selReading => 4
  | .selReady (.frame (.own n)) => 7 + 2 * n
  | .selReady (.frame (.peer n)) => 7 + 2 * n
  | .selReady (.frame (.direct true)) => 5
  | .selReady _ => 3
  | .lockWait _ n => 6 + 2 * n
  | .pushing _ n => 5 + 2 * n

def Side.wt (x : Side) : Nat := x.r.wt + x.out + (if x.leak then 1 else 0)

def mu (s : Sys) : Nat :=
  s.c.wt + s.s.wt + (if s.watcher then 1 else 0) + (if s.returned then 0 else 1)

/-- A terminating event has happened (state-based). -/
def Rd.terminal : Rd → Bool
  | .exiting | .gone => true
  | .selReady .eof | .selReady .err => true
  | .selReady (.frame .bad) | .selReady (.frame (.direct false)) => true
  | _ => false

def termed (s : Sys) : Bool :=
  s.closing || s.done || s.c.werr || s.s.werr || s.c.r.terminal || s.s.r.terminal

def unstalled (s : Sys) : Bool := !s.c.stalled && !s.s.stalled

/-- F10c: reader `d` holds the peer's `flowMu` and is blocked on `peer.output <- f`, the channel is
    full and the peer's writer has already left. -/
def f10cBlockedAt (s : Sys) (d : Dir) : Bool :=
  match (s.side d).r with
  | .pushing t (_+1) => t == d.other && (s.side t).r == .gone && (s.side t).out ≥ cap
  | _ => false

def f10cBlocked (s : Sys) : Bool := f10cBlockedAt s .c2s || f10cBlockedAt s .s2c

/-- No reader is (about to be) pushing into the other relay's output. -/
def Rd.noPeer (d : Dir) : Rd → Bool
  | .lockWait t _ | .pushing t _ => t == d
  | .selReady (.frame (.peer _)) => false
  | _ => true

def noPeer (s : Sys) : Bool := s.c.r.noPeer .c2s && s.s.r.noPeer .s2c

/-- Goroutines of the session that still exist (kinds, as a goroutine dump shows them). -/
inductive Proc | main | reader | writer | readframe | watcher
deriving DecidableEq, Repr

def Side.alive (x : Side) : List Proc :=
  (if x.r != .gone then [.reader, .writer] else []) ++
  (if x.r.isReading || x.leak then [.readframe] else [])

def alive (s : Sys) : List Proc :=
  (if s.returned then [] else [.main]) ++ s.c.alive ++ s.s.alive ++ (if s.watcher then [.watcher] else [])

inductive Reach : Sys → Prop
  | init : Reach init
  | step {s s' : Sys} (l : Label) : Reach s → step s l = some s' → Reach s'

end Martian.H2Session
