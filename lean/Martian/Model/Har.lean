import Martian.Model.MessageView
/-!
Executable model of HAR entry construction (`har.NewRequest`, `har.NewResponse`, `postData`,
`proxyutil.Header.Map`, the content-type capture options) and of the JSON text-or-base64 choice of
`PostData` / `Content` (`MarshalJSON` / `UnmarshalJSON`).

Trusted parameters (never modelled): `mime.ParseMediaType`, `url.ParseQuery`, `mime/multipart`
(passed in as the parsed media type and a parameter parser), gzip/flate (as in MessageView),
`encoding/json` string escaping (`enc`/`dec` with the round-trip hypothesis on valid UTF-8).
Base64 (`StdEncoding`) and `utf8.Valid` are modelled concretely.
-/
namespace Martian.Har
open Martian Martian.Go Martian.MessageView

/-! ### `proxyutil.Header.Map`: the header map plus Host / Content-Length / Transfer-Encoding -/

def setKey (h : List KV) (k : Bytes) (vs : Option (List Bytes)) : List KV :=
  match vs with
  | none => h
  | some vs => h.filter (fun kv => kv.1 != k) ++ vs.map fun v => (k, v)

def headerMap (m : Msg) : List KV :=
  let h := m.hdr
  let h := setKey h hostKey (if m.isReq && !m.host.isEmpty then some [m.host] else none)
  let h := setKey h clKey (if 0 < m.cl then some [itoa m.cl] else none)
  setKey h teKey (if m.te.isEmpty then none else some m.te)

/-- The HAR header list, canonically ordered (Go iterates a map). -/
def harHeaders (m : Msg) : List KV := sortKV (headerMap m)

/-- `proxyutil.Header.All` for the three keys that `net/http` keeps in struct fields: the values the
field stands for, `none` when the field is absent (empty `Host` or a response, `ContentLength ≤ 0`,
nil `TransferEncoding`) or the key is an ordinary one. -/
def fieldOf (m : Msg) (k : Bytes) : Option (List Bytes) :=
  if k == hostKey then (if m.isReq && !m.host.isEmpty then some [m.host] else none)
  else if k == clKey then (if 0 < m.cl then some [itoa m.cl] else none)
  else if k == teKey then (if m.te.isEmpty then none else some m.te)
  else none

/-- The field lines of the head as an HTTP/1 peer sends them (`headSection` without start line and
blank line): Host, Transfer-Encoding (one joined line), Content-Length from the struct fields, then
the header map without those keys. -/
def wireFields (m : Msg) : List KV :=
  (if m.isReq && !m.host.isEmpty then [(hostKey, m.host)] else [])
  ++ (if m.te.isEmpty then [] else [(teKey, join m.te (strBytes ", "))])
  ++ (if !isChunked m.te && 0 ≤ m.cl then [(clKey, itoa m.cl)] else [])
  ++ (sortKV m.hdr).filter fun kv => !(if m.isReq then [hostKey, clKey, teKey] else [clKey, teKey]).contains kv.1

/-! ### post data -/

structure Param where
  name : Bytes
  value : Bytes
  fileName : Bytes
  contentType : Bytes
  deriving DecidableEq, Repr

structure PostData where
  mime : Bytes
  params : List Param
  text : Bytes
  deriving DecidableEq, Repr

def multipartTok : Bytes := strBytes "multipart/form-data"
def formTok : Bytes := strBytes "application/x-www-form-urlencoded"

/-- `postData(req, logBody)`. `mt` = media type as parsed by `mime.ParseMediaType` (or the raw
header when that fails); `parseParams mt raw` = what `multipart.Reader` / `url.ParseQuery` make of
the body (`none` = error). Outer `none` = the function returns an error. -/
def postData (parseParams : Bytes → Bytes → Option (List Param)) (mt : Bytes) (logBody : Bool)
    (m : Msg) : Option (Option PostData) :=
  if m.cl ≤ 0 && m.te.isEmpty then some none
  else if !logBody then some (some { mime := mt, params := [], text := [] })
  else
    -- SnapshotRequest replaces req.Body by the bytes it read; postData reads *that* (F16 fix)
    let raw := (snapshotMsg noOpts m).body.getD []
    if mt == multipartTok || mt == formTok then
      (parseParams mt raw).map fun ps => some { mime := mt, params := ps, text := [] }
    else some (some { mime := mt, params := [], text := raw })

structure Request where
  method : Bytes
  url : Bytes
  httpVersion : Bytes
  headers : List KV
  bodySize : Int
  postData : Option PostData
  deriving DecidableEq, Repr

def newRequest (parseParams : Bytes → Bytes → Option (List Param)) (mt : Bytes) (withBody : Bool)
    (m : Msg) : Option Request :=
  (postData parseParams mt withBody m).map fun pd =>
    { method := m.method, url := m.url, httpVersion := protoBytes m.major m.minor,
      headers := harHeaders m, bodySize := m.cl, postData := pd }

/-! ### response content -/

structure Content where
  size : Nat
  mime : Bytes
  text : Bytes
  base64 : Bool        -- Encoding == "base64" (NewResponse always sets it)
  deriving DecidableEq, Repr

structure Response where
  status : Nat
  httpVersion : Bytes
  headers : List KV
  redirectURL : Bytes
  bodySize : Int
  content : Content
  deriving DecidableEq, Repr

def locationKey : Bytes := strBytes "Location"

def newResponse (inflate : Bytes → Bytes → Option Bytes) (withBody : Bool) (m : Msg) : Option Response :=
  let base : Content := { size := 0, mime := headerGet m.hdr ctKey, text := [], base64 := true }
  let content : Option Content :=
    if withBody then
      (decodeBody inflate (snapshot noOpts m)).map fun b => { base with text := b, size := b.length }
    else some base
  content.map fun c =>
    { status := m.code, httpVersion := protoBytes m.major m.minor, headers := harHeaders m,
      redirectURL := if 300 ≤ m.code && m.code < 400 then headerGet m.hdr locationKey else [],
      bodySize := m.cl, content := c }

/-- What the logger does with the configured options. -/
def logRequest (parseParams : Bytes → Bytes → Option (List Param)) (mt : Bytes) (c : Capture) (m : Msg) :
    Option Request :=
  newRequest parseParams mt (c.decide (headerGet m.hdr ctKey)) m

def logResponse (inflate : Bytes → Bytes → Option Bytes) (c : Capture) (m : Msg) : Option Response :=
  newResponse inflate (c.decide (headerGet m.hdr ctKey)) m

/-! ### `utf8.Valid` (RFC 3629 well-formed sequences; Go's `first`/`acceptRanges` tables) -/

def isCont (b : UInt8) : Bool := 0x80 ≤ b && b ≤ 0xBF

def utf8Valid : Bytes → Bool
  | [] => true
  | b0 :: rest =>
    if b0 < 0x80 then utf8Valid rest
    else if 0xC2 ≤ b0 && b0 ≤ 0xDF then
      match rest with
      | b1 :: r => isCont b1 && utf8Valid r
      | _ => false
    else if 0xE0 ≤ b0 && b0 ≤ 0xEF then
      match rest with
      | b1 :: b2 :: r =>
        (if b0 == 0xE0 then 0xA0 ≤ b1 && b1 ≤ 0xBF
         else if b0 == 0xED then 0x80 ≤ b1 && b1 ≤ 0x9F
         else isCont b1) && isCont b2 && utf8Valid r
      | _ => false
    else if 0xF0 ≤ b0 && b0 ≤ 0xF4 then
      match rest with
      | b1 :: b2 :: b3 :: r =>
        (if b0 == 0xF0 then 0x90 ≤ b1 && b1 ≤ 0xBF
         else if b0 == 0xF4 then 0x80 ≤ b1 && b1 ≤ 0x8F
         else isCont b1) && isCont b2 && isCont b3 && utf8Valid r
      | _ => false
    else false

/-! ### `base64.StdEncoding` -/

def b64Char (i : Nat) : UInt8 :=
  if i < 26 then UInt8.ofNat (65 + i)
  else if i < 52 then UInt8.ofNat (71 + i)
  else if i < 62 then UInt8.ofNat (i - 4)
  else if i = 62 then 43 else 47

def b64Val (c : UInt8) : Option Nat :=
  if 65 ≤ c ∧ c ≤ 90 then some (c.toNat - 65)
  else if 97 ≤ c ∧ c ≤ 122 then some (c.toNat - 71)
  else if 48 ≤ c ∧ c ≤ 57 then some (c.toNat + 4)
  else if c = 43 then some 62
  else if c = 47 then some 63
  else none

def pad : UInt8 := 61

def b64Encode : Bytes → Bytes
  | [] => []
  | [a] => [b64Char (a.toNat / 4), b64Char (a.toNat % 4 * 16), pad, pad]
  | [a, b] => [b64Char (a.toNat / 4), b64Char (a.toNat % 4 * 16 + b.toNat / 16), b64Char (b.toNat % 16 * 4), pad]
  | a :: b :: c :: rest =>
    b64Char (a.toNat / 4) :: b64Char (a.toNat % 4 * 16 + b.toNat / 16) ::
      b64Char (b.toNat % 16 * 4 + c.toNat / 64) :: b64Char (c.toNat % 64) :: b64Encode rest

/-- `DecodeString` on input without line breaks: quanta of four, padding only in the last. -/
def b64Decode : Bytes → Option Bytes
  | [] => some []
  | [c0, c1, c2, c3] =>
    match b64Val c0, b64Val c1 with
    | some i0, some i1 =>
      if c2 == pad && c3 == pad then some [UInt8.ofNat (i0 * 4 + i1 / 16)]
      else match b64Val c2 with
        | none => none
        | some i2 =>
          if c3 == pad then some [UInt8.ofNat (i0 * 4 + i1 / 16), UInt8.ofNat (i1 % 16 * 16 + i2 / 4)]
          else match b64Val c3 with
            | none => none
            | some i3 => some [UInt8.ofNat (i0 * 4 + i1 / 16), UInt8.ofNat (i1 % 16 * 16 + i2 / 4), UInt8.ofNat (i2 % 4 * 64 + i3)]
    | _, _ => none
  | c0 :: c1 :: c2 :: c3 :: rest =>
    match b64Val c0, b64Val c1, b64Val c2, b64Val c3, b64Decode rest with
    | some i0, some i1, some i2, some i3, some r =>
      some (UInt8.ofNat (i0 * 4 + i1 / 16) :: UInt8.ofNat (i1 % 16 * 16 + i2 / 4) :: UInt8.ofNat (i2 % 4 * 64 + i3) :: r)
    | _, _, _, _, _ => none
  | _ => none

/-! ### JSON forms of `PostData` and `Content`

A JSON string token is `enc s`; `dec` reads it back. `encoding/json` is trusted to satisfy
`dec (enc s) = some s` for valid UTF-8 (invalid bytes are replaced by U+FFFD — that is why the
code switches to base64). -/

structure ParamJson where
  name : Bytes
  value : Bytes
  fileName : Bytes
  contentType : Bytes

structure PdJson where
  mime : Bytes
  params : List ParamJson
  text : Bytes
  encoding : Option Bytes

def base64Tok : Bytes := strBytes "base64"

def marshalParam (enc : Bytes → Bytes) (p : Param) : ParamJson :=
  { name := enc p.name, value := enc p.value, fileName := enc p.fileName, contentType := enc p.contentType }

def unmarshalParam (dec : Bytes → Option Bytes) (j : ParamJson) : Option Param := do
  let n ← dec j.name; let v ← dec j.value; let f ← dec j.fileName; let c ← dec j.contentType
  pure { name := n, value := v, fileName := f, contentType := c }

/-- `(*PostData).MarshalJSON`: plain when the text is valid UTF-8, else `pdBinary` (base64). -/
def marshalPD (enc : Bytes → Bytes) (p : PostData) : PdJson :=
  if utf8Valid p.text then
    { mime := enc p.mime, params := p.params.map (marshalParam enc), text := enc p.text, encoding := none }
  else
    { mime := enc p.mime, params := p.params.map (marshalParam enc), text := enc (b64Encode p.text),
      encoding := some (enc base64Tok) }

/-- `(*PostData).UnmarshalJSON`. -/
def unmarshalPD (dec : Bytes → Option Bytes) (j : PdJson) : Option PostData := do
  let mime ← dec j.mime
  let params ← j.params.mapM (unmarshalParam dec)
  let t ← dec j.text
  let e ← match j.encoding with
    | none => some []
    | some e => dec e
  if e == base64Tok then
    let raw ← b64Decode t
    pure { mime := mime, params := params, text := raw }
  else pure { mime := mime, params := params, text := t }

structure ContentJson where
  size : Nat
  mime : Bytes
  text : Bytes
  encoding : Option Bytes

def marshalContent (enc : Bytes → Bytes) (c : Content) : ContentJson :=
  if c.base64 then { size := c.size, mime := enc c.mime, text := enc (b64Encode c.text), encoding := some (enc base64Tok) }
  else { size := c.size, mime := enc c.mime, text := enc c.text, encoding := none }

def unmarshalContent (dec : Bytes → Option Bytes) (j : ContentJson) : Option Content := do
  let mime ← dec j.mime
  let t ← dec j.text
  match j.encoding with
  | none => pure { size := j.size, mime := mime, text := t, base64 := false }
  | some e =>
    let e ← dec e
    if e == base64Tok then
      let raw ← b64Decode t
      pure { size := j.size, mime := mime, text := raw, base64 := true }
    else none

end Martian.Har
