import Martian.Model.Verify
/-!
C13 — lock discipline of the verification machinery, from facts regenerated out of the source.

`Generated.Verify.lockFacts` says, per method of `martianhttp.Modifier`, `fifo.Group`,
`filter.Filter` and the seven verifiers, which fields of the receiver the method reads or writes and
which walk methods it calls (a child's `Modify*/Verify*/Reset*`, a `MultiError`'s
`Add/Empty/Errors/Reset`), each with the receiver's mutexes held at that point and whether they are
held for writing; `multiErrorLockFacts` the same for `MultiError`'s methods.

From these facts `T.acc` computes, for a tree, an operation kind (`modify` = one exchange passing,
`verify` = a query, `reset`) and a wiring, every ACCESS to mutable verifier state the operation can
make, with the set of mutexes held: the mutexes of the ancestors (held across the call into the
child, as the facts say), the verifier's own, the `MultiError`'s own.
Mutable = written by one of the walk methods (fields only written by constructors and setters —
expectation, children, conditions — are configuration and not part of the operations considered;
`martianhttp.Modifier` swaps its children under its write lock on reconfiguration).

`raceFreeB` is the lockset discipline: any two accesses (of the same or of different operations, i.e.
of two goroutines) to the same field of the same object, one of them a write, hold a common
mutex, one of them for writing. With `sync.RWMutex` that excludes their overlapping
(`rwmutex_exclusion` in `Props/C13/Locks.lean`), so by the Go memory model they are ordered.
-/
namespace Martian.Verify
open Martian

inductive OpK | modify | verify | reset
deriving Repr, DecidableEq

def methName : Side → OpK → String
  | .req, .modify => "ModifyRequest"
  | .res, .modify => "ModifyResponse"
  | .req, .verify => "VerifyRequests"
  | .res, .verify => "VerifyResponses"
  | .req, .reset => "ResetRequestVerifications"
  | .res, .reset => "ResetResponseVerifications"

/-- One extracted fact: name (field or called method), is it a call, is it a write, mutexes held
(name, held for writing). -/
abbrev Fact := String × Bool × Bool × List (String × Bool)

def Fact.name (f : Fact) : String := f.1
def Fact.isCall (f : Fact) : Bool := f.2.1
def Fact.write (f : Fact) : Bool := f.2.2.1
def Fact.held (f : Fact) : List (String × Bool) := f.2.2.2

def factsOf (typ : String) (side : Side) (k : OpK) : List Fact :=
  (Generated.Verify.lockFacts.lookup (typ ++ "." ++ methName side k)).getD []

def meFactsOf (method : String) : List Fact :=
  (Generated.Verify.multiErrorLockFacts.lookup method).getD []

/-- Mutexes a container's walk method holds while it calls the same walk method of a child. -/
def heldAtChildCall (typ : String) (side : Side) (k : OpK) : List (String × Bool) :=
  match (factsOf typ side k).find? (fun f => f.isCall && f.name == methName side k) with
  | some f => f.held
  | none => []

/-- Objects that own fields and mutexes: the `martianhttp.Modifier`, a node of the tree (by path),
the `*MultiError` of the verifier at a path. -/
inductive Owner
  | root
  | node (p : List Nat)
  | cell (p : List Nat)
deriving Repr, DecidableEq

structure Held where
  owner : Owner
  mu : String
  w : Bool
deriving Repr, DecidableEq

structure Access where
  k : OpK
  owner : Owner
  typ : String
  field : String
  write : Bool
  held : List Held
deriving Repr

def mkHeld (o : Owner) (hs : List (String × Bool)) : List Held := hs.map fun h => ⟨o, h.1, h.2⟩

/-- A field is mutable when one of the walk methods of this side writes it. -/
def isMutable (typ : String) (side : Side) (field : String) : Bool :=
  [OpK.modify, .verify, .reset].any fun k =>
    (factsOf typ side k).any fun f => !f.isCall && f.write && f.name == field

/-- Accesses of a `MultiError` method called with the mutexes `ctx` held. -/
def meAcc (k : OpK) (p : List Nat) (ctx : List Held) (method : String) : List Access :=
  (meFactsOf method).filterMap fun g =>
    if g.isCall then none
    else some ⟨k, .cell p, "MultiError", g.name, g.write, ctx ++ mkHeld (.cell p) g.held⟩

/-- Accesses of one verifier (type name `typ`, at path `p`) during operation `k`, its ancestors
holding `ctx`. A verify walk hands the live `*MultiError` to its caller, which reads it with
`Errors()` later, possibly after the ancestors' locks are gone: that read is listed with no
context. -/
def leafAcc (typ : String) (side : Side) (k : OpK) (p : List Nat) (ctx : List Held) : List Access :=
  ((factsOf typ side k).flatMap fun f =>
    let own := ctx ++ mkHeld (.node p) f.held
    if f.isCall then meAcc k p own f.name
    else if isMutable typ side f.name then [⟨k, .node p, typ, f.name, f.write, own⟩] else []) ++
  (if k = .verify then meAcc k p [] "Errors" else [])

def Kind.typ : Kind → String
  | .status _ => "status.Verifier"
  | .header _ _ => "header.Verifier"
  | .method _ => "method.Verifier"
  | .url .. => "url.Verifier"
  | .qs .. => "querystring.Verifier"
  | .failure _ => "failure.Verifier"

mutual
def T.acc (side : Side) (k : OpK) (ctx : List Held) (p : List Nat) : T → List Access
  | .ver kind _ => leafAcc kind.typ side k p ctx
  | .ping .. => leafAcc "pingback.Verifier" side k p ctx
  | .nop => []
  | .fail => []
  | .group _ ms => ms.acc side k (ctx ++ mkHeld (.node p) (heldAtChildCall "fifo.Group" side k)) p 0
  | .filter _ t f =>
    let ctx' := ctx ++ mkHeld (.node p) (heldAtChildCall "filter.Filter" side k)
    t.acc side k ctx' (p ++ [0]) ++ f.acc side k ctx' (p ++ [1])
  | .hide t =>
    -- priority.Group: exchanges pass through (under its shared lock); verify and reset walks never enter
    if k = .modify then t.acc side k (ctx ++ mkHeld (.node p) (heldAtChildCall "priority.Group" side k)) (p ++ [0]) else []
def TL.acc (side : Side) (k : OpK) (ctx : List Held) (p : List Nat) (i : Nat) : TL → List Access
  | .nil => []
  | .cons t l => t.acc side k ctx (p ++ [i]) ++ l.acc side k ctx p (i + 1)
end

/-- How the tree is attached to the handlers: behind `martianhttp.Modifier` (cmd/proxy) or the
parse result directly. -/
inductive Wiring | martianhttp | direct
deriving Repr, DecidableEq

def rootCtx (w : Wiring) (side : Side) (k : OpK) : List Held :=
  match w with
  | .martianhttp => mkHeld .root (heldAtChildCall "martianhttp.Modifier" side k)
  | .direct => []

def T.accesses (w : Wiring) (side : Side) (k : OpK) (t : T) : List Access :=
  t.acc side k (rootCtx w side k) []

/-- The two accesses hold a common mutex, one of them for writing. -/
def excl (a b : Access) : Bool :=
  a.held.any fun h1 => b.held.any fun h2 => h1.owner == h2.owner && h1.mu == h2.mu && (h1.w || h2.w)

def sameLoc (a b : Access) : Bool := a.owner == b.owner && a.typ == b.typ && a.field == b.field

def pairOk (a b : Access) : Bool := !(sameLoc a b && (a.write || b.write)) || excl a b

def allOps : List OpK := [.modify, .verify, .reset]

/-- Lockset discipline for all pairs of accesses of all pairs of operations. -/
def raceFreeB (w : Wiring) (side : Side) (t : T) : Bool :=
  allOps.all fun k1 => allOps.all fun k2 =>
    (t.accesses w side k1).all fun a => (t.accesses w side k2).all fun b => pairOk a b

/-! ### the facts the theorems need, as decidable statements over the generated lists -/

/-- An access made with the object's own mutex `mu` held, for writing if it writes. -/
def Fact.ownGuarded (f : Fact) : Bool := f.held.any fun h => h.1 == "mu" && (!f.write || h.2)

/-- F1: every `MultiError` method touches its fields with `mu` held, writes with `mu` write-held. -/
def factMultiErrorLocked : Bool :=
  Generated.Verify.multiErrorLockFacts.all fun e => e.2.all fun (g : Fact) => g.isCall || g.ownGuarded

/-- Every access of a verifier type to a mutable field is made under the verifier's own mutex. -/
def typOwnGuarded (typ : String) (side : Side) : Bool :=
  allOps.all fun k => (factsOf typ side k).all fun f => f.isCall || !isMutable typ side f.name || f.ownGuarded

/-- A field of a verifier type is disciplined when either every access to it is made under the
verifier's own mutex, or it is written by the reset walk only (then an exclusive lock held by an
ancestor during reset walks is what orders the accesses). -/
def fieldOk (typ : String) (side : Side) (field : String) : Bool :=
  (allOps.all fun k => (factsOf typ side k).all fun f => f.isCall || f.name != field || f.ownGuarded) ||
  (allOps.all fun k => (factsOf typ side k).all fun f => f.isCall || f.name != field || !f.write || k == .reset)

def typFieldsOk (typ : String) (side : Side) : Bool :=
  allOps.all fun k => (factsOf typ side k).all fun f => f.isCall || !isMutable typ side f.name || fieldOk typ side f.name

def verifierTyps : List String :=
  ["status.Verifier", "header.Verifier", "method.Verifier", "url.Verifier", "querystring.Verifier",
   "failure.Verifier", "pingback.Verifier"]

/-- F4 (after `fix: verifiers clear their MultiError in place on reset`): no verifier touches a
mutable field outside its own mutex. False while F13c-swap is open. -/
def factNoUnguardedField : Bool :=
  verifierTyps.all fun typ => typOwnGuarded typ .req && typOwnGuarded typ .res

/-- F4′ (holds before and after the fix): every mutable field of every verifier is disciplined. -/
def factFieldsDisciplined : Bool :=
  verifierTyps.all fun typ => typFieldsOk typ .req && typFieldsOk typ .res

/-- A container holds one of its mutexes for writing across the child call of its reset walk and
holds the same mutex (shared or exclusive) across the child calls of its modify and verify walks. -/
def exclusiveReset (typ : String) (side : Side) : Bool :=
  (heldAtChildCall typ side .reset).any fun h =>
    h.2 && (heldAtChildCall typ side .modify).any (fun h' => h'.1 == h.1) &&
      (heldAtChildCall typ side .verify).any (fun h' => h'.1 == h.1)

/-- F2: `martianhttp.Modifier`. F3: `fifo.Group`. -/
def factRootExclusiveReset : Bool := exclusiveReset "martianhttp.Modifier" .req && exclusiveReset "martianhttp.Modifier" .res
def factGroupExclusiveReset : Bool := exclusiveReset "fifo.Group" .req && exclusiveReset "fifo.Group" .res

/-- F3′: a `fifo.Group`'s verify walk holds for writing a mutex its modify walk holds (shared): a
query is atomic with respect to the exchanges passing through the group (phases of
`Model/VerifyConc.lean`). -/
def factGroupExclusiveVerify : Bool :=
  [Side.req, .res].all fun side =>
    (heldAtChildCall "fifo.Group" side .verify).any fun h =>
      h.2 && (heldAtChildCall "fifo.Group" side .modify).any (fun h' => h'.1 == h.1)

/-- Every verifier of the tree sits below a `fifo.Group`. -/
def T.covered : T → Bool
  | .ver .. => false
  | .ping .. => true
  | .nop => true
  | .fail => true
  | .group .. => true
  | .filter _ t f => t.covered && f.covered
  | .hide _ => true   -- only exchanges reach the verifiers below a priority.Group: nothing ever resets them

/-! ### `sync.RWMutex`, abstractly: who holds what -/

/-- A lock table: the holders (thread, held for writing) of each mutex. -/
abbrev LockTable := List (Nat × Held)

/-- `Lock`/`RLock` succeeds only when compatible with the current holders. -/
def LockTable.canAcquire (lt : LockTable) (tid : Nat) (o : Owner) (mu : String) (w : Bool) : Bool :=
  lt.all fun e => !(e.2.owner == o && e.2.mu == mu) || (e.1 != tid && !w && !e.2.w)

/-- Invariant of `sync.RWMutex`: a writer excludes every other holder. -/
def LockTable.wf (lt : LockTable) : Prop :=
  ∀ e1 ∈ lt, ∀ e2 ∈ lt, e1.2.owner = e2.2.owner → e1.2.mu = e2.2.mu → (e1.2.w = true ∨ e2.2.w = true) → e1 = e2

inductive LockEv
  | acquire (tid : Nat) (o : Owner) (mu : String) (w : Bool)
  | release (tid : Nat) (o : Owner) (mu : String) (w : Bool)

/-- One step of the lock table; `none` = the step is not enabled (the goroutine blocks). -/
def LockTable.step (lt : LockTable) : LockEv → Option LockTable
  | .acquire tid o mu w => if lt.canAcquire tid o mu w then some ((tid, ⟨o, mu, w⟩) :: lt) else none
  | .release tid o mu w => some (lt.erase (tid, ⟨o, mu, w⟩))

def LockTable.run : LockTable → List LockEv → Option LockTable
  | lt, [] => some lt
  | lt, e :: es => match lt.step e with
    | some lt' => LockTable.run lt' es
    | none => none

end Martian.Verify
