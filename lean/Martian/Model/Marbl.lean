import Martian.Util
/-!
C19 — marbl streams (`marbl/marbl.go`, `marbl/reader.go`), transcribed statement by statement.

* `encode`        : byte layout produced by `newFrame` + `sendHeader` / `sendData`
* `readFrameWith` : `Reader.ReadFrame` over the remaining bytes of the stream, every error outcome
                    of `io.ReadFull` and the place where Go would panic (slice bounds) explicit.
                    The expression that sizes the name/value buffer is a parameter so that the
                    repaired code (`int(nl)+int(vl)`, `sumInt`) and the code before the F19 fix
                    (`int(nl+vl)` on `uint32`, `sumU32`) are both models.
* `readAll`       : a consumer calling `ReadFrame` until the first error
* `bodyRead`/`bodyRun` : `bodyLogger.Read` over the list of results of the underlying body
* `requestHeaders`/`responseHeaders` : the (name, value) pairs `LogRequest`/`LogResponse` send
* `Shuffle`       : interleavings of whole frames of concurrently logged messages

Assumptions of the model (stated in manifest.d/C19.json): `int` is 64 bit; `make([]byte, n)`
succeeds for every n < 2^33 (allocation failure is a fatal error, not a panic, and is outside
the model); the underlying body honours the `io.Reader` contract `0 ≤ n ≤ len(b)`.
-/
namespace Martian.Marbl
open Martian

/-! ## frames -/

inductive Frame
  | header (mt : UInt8) (id : Bytes) (name value : Bytes)
  | data (mt : UInt8) (id : Bytes) (index : Nat) (terminal : Bool) (payload : Bytes)
  deriving DecidableEq, Repr

/-- (message id, message type): the key frames are grouped by on the reading side. -/
def Frame.key : Frame → Bytes × UInt8
  | .header mt id _ _ => (id, mt)
  | .data mt id _ _ _ => (id, mt)

def Frame.isData : Frame → Bool
  | .data .. => true
  | _ => false

def Frame.index : Frame → Nat
  | .data _ _ i _ _ => i
  | _ => 0

def Frame.terminal : Frame → Bool
  | .data _ _ _ t _ => t
  | _ => false

def Frame.payload : Frame → Bytes
  | .data _ _ _ _ p => p
  | _ => []

def Frame.nameValue : Frame → Bytes × Bytes
  | .header _ _ n v => (n, v)
  | _ => ([], [])

def two32 : Nat := 4294967296

/-- `byte(x>>24), byte(x>>16), byte(x>>8), byte(x)` for `x` a `uint32(n)` (or an `int` n ≥ 0). -/
def be32 (n : Nat) : Bytes :=
  [UInt8.ofNat (n / 16777216 % 256), UInt8.ofNat (n / 65536 % 256), UInt8.ofNat (n / 256 % 256), UInt8.ofNat (n % 256)]

/-- `binary.BigEndian.Uint32` of a 4-byte slice (Horner form: small literals keep `whnf` cheap). -/
def rd32 : Bytes → Nat
  | [a, b, c, d] => ((a.toNat * 256 + b.toNat) * 256 + c.toNat) * 256 + d.toNat
  | _ => 0

/-- `newFrame`: frame type, message type, `id[:8]`. (`id[:8]` panics for a shorter id: `idOk`.) -/
def frameHead (ft mt : UInt8) (id : Bytes) : Bytes := ft :: mt :: id.take 8

/-- `id[:8]` is in range. -/
def idOk (id : Bytes) : Bool := 8 ≤ id.length

/-- Byte layout written by `sendHeader` / `sendData` for one frame. `kl := uint32(len(key))`,
`key[:kl]`; for data `bl` is an `int` whose low 32 bits are written while `b[:bl]` is whole. -/
def encode : Frame → Bytes
  | .header mt id n v =>
    frameHead 1 mt id ++ (be32 n.length ++ be32 v.length) ++ (n.take (n.length % two32) ++ v.take (v.length % two32))
  | .data mt id i t p =>
    frameHead 2 mt id ++ (be32 i ++ [if t then 1 else 0] ++ be32 p.length) ++ p

def encodeAll (fs : List Frame) : Bytes := (fs.map encode).flatten

/-! ## reader -/

inductive RErr
  | eof             -- io.EOF
  | unexpectedEOF   -- io.ErrUnexpectedEOF
  | unknownType     -- "marbl: unknown type of frame"
  deriving DecidableEq, Repr

inductive Res
  | ok (f : Frame) (rest : Bytes)
  | err (e : RErr)
  | panic
  deriving DecidableEq, Repr

/-- `n ≤ bs.length`, looking at no more than `n` cells (the driver runs this on MiB streams). -/
def hasAtLeast : Nat → Bytes → Bool
  | 0, _ => true
  | _ + 1, [] => false
  | n + 1, _ :: t => hasAtLeast n t

/-- `io.ReadFull(r, make([]byte, n))` on a reader holding `bs`: all `n` bytes, or `io.EOF` when
nothing could be read, or `io.ErrUnexpectedEOF` when fewer than `n`. `n = 0` always succeeds. -/
def readFull (n : Nat) (bs : Bytes) : Except RErr (Bytes × Bytes) :=
  if hasAtLeast n bs then .ok (bs.take n, bs.drop n)
  else if bs.isEmpty then .error .eof
  else .error .unexpectedEOF

/-- `int(nl)+int(vl)` with 64-bit `int` (the code as it is now). -/
def sumInt (nl vl : Nat) : Nat := nl + vl
/-- `int(nl+vl)` with `nl, vl : uint32` (the code before the F19 repair). -/
def sumU32 (nl vl : Nat) : Nat := (nl + vl) % two32

/-- `case HeaderFrame:` — `r1` is what follows the 10-byte frame header. -/
def readHeaderBody (sum : Nat → Nat → Nat) (mt : UInt8) (id r1 : Bytes) : Res :=
  match readFull 8 r1 with
  | .error e => .err e
  | .ok (lens, r2) =>
    let nl := rd32 (lens.take 4)
    let vl := rd32 (lens.drop 4)
    match readFull (sum nl vl) r2 with        -- nv := make([]byte, …); io.ReadFull(r.r, nv)
    | .error e => .err e
    | .ok (nv, r3) =>
      if nl ≤ nv.length then .ok (.header mt id (nv.take nl) (nv.drop nl)) r3   -- nv[:nl], nv[nl:]
      else .panic                                                                -- slice bounds out of range

/-- `case DataFrame:` -/
def readDataBody (mt : UInt8) (id r1 : Bytes) : Res :=
  match readFull 9 r1 with
  | .error e => .err e
  | .ok (desc, r2) =>
    let idx := rd32 (desc.take 4)
    let term := (desc.drop 4).headD 0 == 1
    let dl := rd32 (desc.drop 5)
    match readFull dl r2 with
    | .error e => .err e
    | .ok (d, r3) => .ok (.data mt id idx term d) r3

def readFrameWith (sum : Nat → Nat → Nat) (bs : Bytes) : Res :=
  match readFull 10 bs with
  | .error e => .err e
  | .ok (fh, r1) =>
    let ft := fh.headD 0
    let mt := (fh.drop 1).headD 0
    let id := fh.drop 2
    if ft = 1 then readHeaderBody sum mt id r1
    else if ft = 2 then readDataBody mt id r1
    else .err .unknownType

/-- `Reader.ReadFrame` as it is in `/repo` now. -/
def readFrame (bs : Bytes) : Res := readFrameWith sumInt bs

inductive Stop
  | err (e : RErr)
  | panic
  | fuel        -- never produced by `readAll` (theorem `readAll_stop`)
  deriving DecidableEq, Repr

def readAllFuel : Nat → Bytes → List Frame × Stop
  | 0, _ => ([], .fuel)
  | fuel + 1, bs =>
    match readFrame bs with
    | .ok f rest => let r := readAllFuel fuel rest; (f :: r.1, r.2)
    | .err e => ([], .err e)
    | .panic => ([], .panic)

/-- Call `ReadFrame` until it fails; the frames and the terminating outcome. -/
def readAll (bs : Bytes) : List Frame × Stop := readAllFuel (bs.length + 1) bs

/-! ## body logger -/

inductive RdErr
  | none | eof | other
  deriving DecidableEq, Repr

/-- Result of one `body.Read(b)` of the wrapped body: the `n` bytes put into `b`, and `err`. -/
structure ReadRes where
  data : Bytes
  err : RdErr
  deriving DecidableEq, Repr

/-- One `bodyLogger.Read`: (what the caller gets back, the frame sent, the new index counter).
`atomic.AddUint32(&bl.index, 1)-1` is the old counter value; the counter is a `uint32`. -/
def bodyRead (mt : UInt8) (id : Bytes) (ctr : Nat) (r : ReadRes) : ReadRes × Frame × Nat :=
  let terminal := r.err == .eof
  (r, .data mt id ctr terminal r.data, (ctr + 1) % two32)

/-- A consumer performing the reads whose underlying results are `rs`, counter starting at `ctr`. -/
def bodyRun (mt : UInt8) (id : Bytes) : Nat → List ReadRes → List ReadRes × List Frame
  | _, [] => ([], [])
  | ctr, r :: rs =>
    let (ret, f, ctr') := bodyRead mt id ctr r
    let rest := bodyRun mt id ctr' rs
    (ret :: rest.1, f :: rest.2)

/-! ### every sequence of calls on the wrapper

The consumer may do anything an `io.ReadCloser` allows: `Close` before end-of-file and read on (a body installed
by a modifier is often an `ioutil.NopCloser` over an in-memory reader and stays readable), `Close` twice, `Read`
after EOF, zero-length reads, `Close` without any `Read`. A call is given with what the WRAPPED body returns for
it. `bodyLogger.Close` is `return bl.body.Close()`: no frame, no state. `sticky = true` is the defective variant
(a closed flag: every `Read` after a `Close` returns `(0, error)` without touching the body or sending a frame),
kept for the counterexample. -/

inductive Call
  | read (r : ReadRes)     -- `Read(b)`; `r` = what the wrapped body returns for this call
  | close (e : RdErr)      -- `Close()`; `e` = what the wrapped body's `Close` returns
  deriving DecidableEq, Repr

/-- the reads among the calls, in order -/
def Call.reads : List Call → List ReadRes
  | [] => []
  | .read r :: cs => r :: Call.reads cs
  | .close _ :: cs => Call.reads cs

/-- (what the consumer gets back call by call, the frames sent, in order) -/
def callRun (sticky : Bool) (mt : UInt8) (id : Bytes) : Nat → Bool → List Call → List Call × List Frame
  | _, _, [] => ([], [])
  | ctr, closed, .read r :: cs =>
    if sticky && closed then
      let rest := callRun sticky mt id ctr closed cs
      (.read ⟨[], .other⟩ :: rest.1, rest.2)        -- `return 0, http.ErrBodyReadAfterClose`
    else
      let (ret, f, ctr') := bodyRead mt id ctr r
      let rest := callRun sticky mt id ctr' closed cs
      (.read ret :: rest.1, f :: rest.2)
  | ctr, _, .close e :: cs =>
    let rest := callRun sticky mt id ctr true cs
    (.close e :: rest.1, rest.2)

/-! ## the headers of a logged message -/

/-- `proxyutil.Header.Map()`: the header map with `Host`, `Content-Length`, `Transfer-Encoding`
replaced by the message's own fields when those are set. -/
structure Fields where
  hdr : List (Bytes × List Bytes)     -- the Go map (distinct keys), in one iteration order
  host : Bytes                        -- req.Host ("" for responses)
  cl : Int                            -- ContentLength
  clText : Bytes                      -- strconv.FormatInt(cl, 10)
  te : Option (List Bytes)            -- TransferEncoding (nil / slice)

def kHost : Bytes := strBytes "Host"
def kCL : Bytes := strBytes "Content-Length"
def kTE : Bytes := strBytes "Transfer-Encoding"

def Fields.overrides (f : Fields) : List (Bytes × List Bytes) :=
  (if f.host ≠ [] then [(kHost, [f.host])] else []) ++
  (if f.cl > 0 then [(kCL, [f.clText])] else []) ++
  (match f.te with | some vs => [(kTE, vs)] | none => [])

def Fields.map (f : Fields) : List (Bytes × List Bytes) :=
  let ov := f.overrides
  (f.hdr.filter fun kv => !(ov.any fun o => o.1 == kv.1)) ++ ov

def flattenHdr (m : List (Bytes × List Bytes)) : List (Bytes × Bytes) :=
  m.flatMap fun kv => kv.2.map fun v => (kv.1, v)

/-- Pairs sent by `LogRequest`, in sending order (map part in the given iteration order). -/
def requestHeaders (method scheme authority path query proto remote ts : Bytes) (api : Bool) (f : Fields) :
    List (Bytes × Bytes) :=
  [(strBytes ":method", method), (strBytes ":scheme", scheme), (strBytes ":authority", authority),
   (strBytes ":path", path), (strBytes ":query", query), (strBytes ":proto", proto),
   (strBytes ":remote", remote), (strBytes ":timestamp", ts)] ++
  (if api then [(strBytes ":api", strBytes "true")] else []) ++ flattenHdr f.map

/-- Pairs sent by `LogResponse`. -/
def responseHeaders (proto status reason ts : Bytes) (api : Bool) (f : Fields) : List (Bytes × Bytes) :=
  [(strBytes ":proto", proto), (strBytes ":status", status), (strBytes ":reason", reason),
   (strBytes ":timestamp", ts)] ++
  (if api then [(strBytes ":api", strBytes "true")] else []) ++ flattenHdr f.map

/-- All frames one logged message puts on the stream, in the order its goroutine sends them:
one header frame per pair, then one data frame per `Read` of the consumer. The id on the wire is
`id[:8]`. -/
def messageFrames (mt : UInt8) (id : Bytes) (hdrs : List (Bytes × Bytes)) (reads : List ReadRes) : List Frame :=
  hdrs.map (fun kv => Frame.header mt (id.take 8) kv.1 kv.2) ++ (bodyRun mt (id.take 8) 0 reads).2

/-- A logged message as `marbl.Modifier` logs it: under the ID of the martian context of its exchange
(`ctx.ID()`, allocated by the proxy: `newSession` per connection, `withSession` per exchange). A frame keeps
`id[:8]` only, so on the reading side a message is known by `key`. -/
structure LoggedMsg where
  mt : UInt8
  id : Bytes
  hdrs : List (Bytes × Bytes)
  reads : List ReadRes

def LoggedMsg.key (m : LoggedMsg) : Bytes × UInt8 := (m.id.take 8, m.mt)
def LoggedMsg.frames (m : LoggedMsg) : List Frame := messageFrames m.mt m.id m.hdrs m.reads

/-- `LogRequest` as it is now (commit "marbl does not wrap http.NoBody"): when `req.Body == http.NoBody`
the body is left alone and `sendData(id, Request, 0, true, nil, 0)` is sent at once — the frame a
single read of the empty body to EOF would have produced; later reads of `http.NoBody` by the
consumer go to it directly and emit nothing. (`LogResponse` has no such branch.) -/
def noBodyReads : List ReadRes := [⟨[], .eof⟩]

def requestFrames (id : Bytes) (hdrs : List (Bytes × Bytes)) (noBody : Bool) (reads : List ReadRes) : List Frame :=
  messageFrames 1 id hdrs (if noBody then noBodyReads else reads)

/-! ## interleavings -/

/-- `Shuffle ms l`: `l` is produced by repeatedly removing the head of one of the lists `ms`
(the single writer goroutine receives whole frames, each sender sends its frames in order). -/
inductive Shuffle {α : Type} : List (List α) → List α → Prop
  | nil {ms : List (List α)} : (∀ m ∈ ms, m = []) → Shuffle ms []
  | cons {ms : List (List α)} {l : List α} (i : Nat) (x : α) (m : List α) :
      ms[i]? = some (x :: m) → Shuffle (ms.set i m) l → Shuffle ms (x :: l)

/-- Well-formedness of a frame for the round trip: what `newFrame`/`send*` need so that the
32-bit length and index fields hold the true values. -/
def Frame.Valid : Frame → Prop
  | .header _ id n v => id.length = 8 ∧ n.length < two32 ∧ v.length < two32
  | .data _ id i _ p => id.length = 8 ∧ i < two32 ∧ p.length < two32

instance (f : Frame) : Decidable f.Valid := by
  cases f <;> simp only [Frame.Valid] <;> exact inferInstance

/-! ## the buffers handed to the stream's writer (aliasing)

`Stream.loop` hands the frame slice itself to `w.Write`. `io.Writer` implementations are not supposed to
keep it, but the writer marbl is wired to in `cmd/proxy` does: `marbl.Handler.Write` puts `b` (not a
copy) into every subscriber's channel and a goroutine sends it over the websocket later. The model
therefore distinguishes what a copying writer stored at `Write` time from what a retaining writer
finds behind the references it kept. Frames are written once into a buffer obtained by `newFrame`;
`Alloc.fresh` is the code (`make([]byte, 0, 10+plen)`: a buffer nobody else refers to, never handed
out again), `Alloc.pooled` is the defective variant that recycles a buffer once `Write` returned. -/

/-- byte buffers by address (index) -/
abbrev Heap := List Bytes

inductive Alloc
  | fresh    -- `make` per frame (the code)
  | pooled   -- buffers go back to a free list after `w.Write(f)` returned
  deriving DecidableEq, Repr

structure WState where
  heap : Heap := []
  free : List Nat := []       -- recycled buffers (stays empty with `Alloc.fresh`)
  kept : List Nat := []       -- references a retaining writer holds (marbl.Handler: subscriber channel)
  copied : List Bytes := []   -- what a copying writer stored inside `Write`
  deriving Repr

/-- One frame: `newFrame` obtains a buffer, `send*` fills it, the writer goroutine calls `w.Write` with
it (the retaining writer keeps the reference, the copying writer the contents). -/
def sendFrame (a : Alloc) (s : WState) (f : Bytes) : WState :=
  match a, s.free with
  | .pooled, j :: rest =>
    { heap := s.heap.set j f, free := rest ++ [j], kept := s.kept ++ [j], copied := s.copied ++ [f] }
  | .pooled, [] =>
    { heap := s.heap ++ [f], free := [s.heap.length], kept := s.kept ++ [s.heap.length], copied := s.copied ++ [f] }
  | .fresh, _ =>
    { heap := s.heap ++ [f], free := s.free, kept := s.kept ++ [s.heap.length], copied := s.copied ++ [f] }

def sendAll (a : Alloc) (fs : List Bytes) : WState := fs.foldl (sendFrame a) {}

/-- what a writer that retained the slices reads from them afterwards (websocket sender goroutine) -/
def WState.retained (s : WState) : List Bytes := s.kept.map fun i => (s.heap[i]?).getD []

/-- the byte stream a subscriber of the retaining writer receives -/
def subscriberStream (a : Alloc) (fs : List Frame) : Bytes := (sendAll a (fs.map encode)).retained.flatten

/-! ## the goroutines of a stream: logging goroutines, the unbuffered channel `framec`, the writer goroutine

`NewStream` starts ONE goroutine running `Stream.loop`: `select { case f := <-s.framec: s.w.Write(f); case <-s.closec: return }`.
`framec` is unbuffered, so a send `s.framec <- f` of a logging goroutine completes exactly when the writer goroutine,
sitting in its `select`, receives `f`; the writer then is inside `Write(f)` until that returns and only then comes back
to the `select`. Every other sender stays blocked in its own send meanwhile. `Close()` is a rendezvous on `closec`, which
the writer also only takes in its `select`.

The state below is what this needs: per logging goroutine the sequence of channel sends it still has to make (its
program order: `sendHeader`…`sendHeader`, then one `sendData` per `Read`), the writer goroutine's program counter, and
the arguments of the `Write` calls that have returned. `α` is what ONE channel send carries (`Bytes` for the code; the
theorems about orders are parametric in it). Which sender the writer meets next is not determined (Go's `select`/run
queue, blocked senders are served in arrival order): `Step.take i` for any `i` whose goroutine has a send pending. -/

inductive WPc (α : Type)
  | idle                -- in `select`
  | writing (c : α)     -- received `c` from `framec`, inside `s.w.Write(c)`
  | exited              -- received from `closec` and returned
  deriving DecidableEq, Repr

/-- the slice the writer goroutine holds and has not finished writing -/
def WPc.inflight {α : Type} : WPc α → List α
  | .writing c => [c]
  | _ => []

structure Sys (α : Type) where
  senders : List (List α)
  writer : WPc α
  out : List α
  deriving DecidableEq

inductive Step
  | take (i : Nat)    -- rendezvous on `framec` between logging goroutine `i` and the writer
  | write             -- `s.w.Write(f)` returns, the writer is back in `select`
  | close             -- `Close()`: rendezvous on `closec`
  deriving DecidableEq, Repr

def Sys.init {α : Type} (senders : List (List α)) : Sys α := ⟨senders, .idle, []⟩

/-- `take i`: enabled when the writer is in `select` and goroutine `i` has a send pending -/
def Sys.take {α : Type} (s : Sys α) (i : Nat) : Option (Sys α) :=
  match s.writer, s.senders[i]? with
  | .idle, some (c :: m) => some { s with senders := s.senders.set i m, writer := .writing c }
  | _, _ => none

def Sys.write {α : Type} (s : Sys α) : Option (Sys α) :=
  match s.writer with
  | .writing c => some { s with writer := .idle, out := s.out ++ [c] }
  | _ => none

def Sys.close {α : Type} (s : Sys α) : Option (Sys α) :=
  match s.writer with
  | .idle => some { s with writer := .exited }
  | _ => none

/-- one transition; `none` = the step is not enabled in `s` -/
def Sys.step {α : Type} (s : Sys α) : Step → Option (Sys α)
  | .take i => s.take i
  | .write => s.write
  | .close => s.close

def Sys.exec {α : Type} (s : Sys α) : List Step → Option (Sys α)
  | [] => some s
  | st :: rest =>
    match s.step st with
    | some s' => s'.exec rest
    | none => none

/-- every logging goroutine has made all its sends and the writer is not inside `Write` -/
def Sys.quiescent {α : Type} (s : Sys α) : Bool := s.senders.all List.isEmpty && s.writer.inflight.isEmpty

/-- the steps of a run in which the writes were, in order, for the senders `ord` -/
def schedSteps (ord : List Nat) : List Step := ord.flatMap fun i => [.take i, .write]

/-- Replay an observed order of writes (harness: which message each `Write` belonged to), then `Close()`:
the written slices, or `none` when that order is not a run of the system to quiescence. -/
def replayWrites {α : Type} (senders : List (List α)) (ord : List Nat) : Option (List α) :=
  match (Sys.init senders).exec (schedSteps ord ++ [.close]) with
  | some s => if s.quiescent then some s.out else none
  | none => none

/-- What one `sendHeader` / `sendData` call puts on the channel. `whole = true` is the code (regenerated fact
`Generated.Marbl.framecSendsWhole`: each of these functions makes ONE send, of the buffer it built with `newFrame` and
filled completely). `whole = false` is the variant that hands a data frame over as descriptor and payload in two
sends; it is kept to show what the fact is needed for (`split_send_tears_counterexample`). -/
def chunksOf (whole : Bool) (f : Frame) : List Bytes :=
  if whole then [encode f] else
  match f with
  | .data mt id i t p => [frameHead 2 mt id ++ (be32 i ++ [if t then 1 else 0] ++ be32 p.length), p]
  | h => [encode h]

def senderChunks (whole : Bool) (m : List Frame) : List Bytes := m.flatMap (chunksOf whole)

end Martian.Marbl
