import Martian.Model.MessageView
/-!
Two aspects of logging that the per-message model `MessageView.logMsg` abstracts from:

* **the context flags** of an exchange (`martian.Context`: `SkipRoundTrip`, `SkipLogging`,
  `APIRequest`). Setting a flag is idempotent; an exchange may be marked any number of times, by
  several modifiers (`api.Forwarder` marks `APIRequest` and `SkipLogging`), from the request side
  and from the response side;
* **where the body bytes live** once a logger has read the body and re-installed it. Several
  messages are in flight through the same logger (request and response of one exchange, concurrent
  exchanges): a message is logged, held, and written out later, after other messages have been
  logged. `Snapshot*` drains the body into a buffer and installs a reader over that buffer on the
  message. The code allocates a fresh buffer per snapshot (`ioutil.ReadAll`); the model is
  parameterised by the allocation discipline so that the theorem has content: with buffers recycled
  through a pool the same events corrupt a held message (`Alloc.pooled`, counterexample in
  `Props/C15/Isolation.lean`).
-/
namespace Martian.Logging
open Martian Martian.MessageView

/-! ### context flags -/

structure Flags where
  skipRoundTrip : Bool
  skipLogging : Bool
  apiRequest : Bool
  deriving DecidableEq, Repr

def Flags.init : Flags := ⟨false, false, false⟩

/-- One flag operation on the context of an exchange. `forwarder` = `api.Forwarder.ModifyRequest`
(`ctx.APIRequest(); ctx.SkipLogging()`). -/
inductive Mark where
  | skipRoundTrip | skipLogging | apiRequest | forwarder
  deriving DecidableEq, Repr

/-- `ctx.skipX = true` under the mutex: setting, never toggling. -/
def Flags.apply (f : Flags) : Mark → Flags
  | .skipRoundTrip => { f with skipRoundTrip := true }
  | .skipLogging => { f with skipLogging := true }
  | .apiRequest => { f with apiRequest := true }
  | .forwarder => { f with apiRequest := true, skipLogging := true }

def Flags.applyAll (f : Flags) (ms : List Mark) : Flags := ms.foldl Flags.apply f

def Mark.setsSkipLogging : Mark → Bool
  | .skipLogging | .forwarder => true
  | _ => false

def Mark.setsSkipRoundTrip : Mark → Bool
  | .skipRoundTrip => true
  | _ => false

def Mark.setsApiRequest : Mark → Bool
  | .apiRequest | .forwarder => true
  | _ => false

/-- One logger over one exchange: `pre` are the marks made before the request side of the logger
runs, `post` those made between request side and response side. -/
def logExchange (l : Logger) (f0 : Flags) (pre post : List Mark) (req res : Msg) :
    (Msg × Option Record) × (Msg × Option Record) :=
  let f1 := f0.applyAll pre
  let f2 := f1.applyAll post
  (logMsg l f1.skipLogging req, logMsg l f2.skipLogging res)

/-! ### buffers -/

/-- The heap: buffer `a` holds `heap[a]`. -/
abbrev Heap := List Bytes

/-- A message in flight: its fields (`m.body.isSome` = the `Body` is non-nil; the bytes in `m.body`
are not used) and the address of the buffer its body reader reads from. -/
structure Held where
  m : Msg
  ref : Nat
  deriving DecidableEq, Repr

/-- The message as it would be written out now. -/
def deref (h : Heap) (s : Held) : Msg :=
  { s.m with body := s.m.body.map fun _ => (h[s.ref]?).getD [] }

structure World where
  heap : Heap
  /-- the buffer waiting in the pool (only used by `Alloc.pooled`) -/
  pool : Option Nat
  slots : List Held
  deriving DecidableEq, Repr

/-- Where a drained body is put. `fresh` = `ioutil.ReadAll` (the code). `pooled` = a scratch buffer
taken from a pool and handed back when the snapshot returns. -/
inductive Alloc where
  | fresh | pooled
  deriving DecidableEq, Repr

/-- One "drain the body, install a reader over the copy" step on slot `i`. -/
def install (al : Alloc) (w : World) (i : Nat) : World :=
  match w.slots[i]? with
  | none => w
  | some s =>
    let data := (w.heap[s.ref]?).getD []
    match al, w.pool with
    | .pooled, some a =>
      { w with heap := w.heap.set a data, slots := w.slots.set i { s with ref := a } }
    | .pooled, none =>
      { heap := w.heap ++ [data], pool := some w.heap.length,
        slots := w.slots.set i { s with ref := w.heap.length } }
    | .fresh, _ =>
      { w with heap := w.heap ++ [data], slots := w.slots.set i { s with ref := w.heap.length } }

/-- The re-install steps a logger performs on a message, in order: `true` = through the snapshot's
buffer (`Snapshot*`), `false` = a plain `ioutil.ReadAll` (always a fresh buffer: `har.postData`
reads the body the snapshot installed once more). They happen before any error return. -/
def installs (l : Logger) (skipLogging : Bool) (m : Msg) : List Bool :=
  match l with
  | .snapshot o => if captures o m then [true] else []
  | .marbl => []
  | .har post body =>
    if skipLogging then [] else
    let ct := headerGet m.hdr ctKey
    if m.isReq then
      if harHasPostData m && post.decide ct then (if captures noOpts m then [true, false] else [])
      else []
    else (if body.decide ct && captures noOpts m then [true] else [])
  | .text headersOnly _ =>
    if skipLogging then [] else
    if captures { skipBody := headersOnly, cts := [] } m then [true] else []

def applyInstalls (al : Alloc) (w : World) (i : Nat) : List Bool → World
  | [] => w
  | viaSnapshot :: rest => applyInstalls al (install (if viaSnapshot then al else .fresh) w i) i rest

inductive Ev where
  | log (i : Nat) (l : Logger) (skipLogging : Bool)
  | write (i : Nat)
  deriving DecidableEq, Repr

/-- Run the events; the result lists, in order, every message written out (slot, message). -/
def run (al : Alloc) (w : World) : List Ev → World × List (Nat × Msg)
  | [] => (w, [])
  | .log i l skip :: rest =>
    match w.slots[i]? with
    | none => run al w rest
    | some s => run al (applyInstalls al w i (installs l skip (deref w.heap s))) rest
  | .write i :: rest =>
    match w.slots[i]? with
    | none => run al w rest
    | some s =>
      let r := run al w rest
      (r.1, (i, deref w.heap s) :: r.2)

/-- Messages as they arrive: message `i` reads from buffer `i`. -/
def World.ofMsgs (ms : List Msg) : World :=
  { heap := ms.map fun m => m.body.getD [], pool := none,
    slots := ms.zipIdx.map fun (m, i) => { m := m, ref := i } }

/-! ### faults while the logger reads the body

The body of a message whose peer went away yields some bytes and then an error (an origin dropping
the connection inside a chunked response, a client half-closing inside a chunked upload). The proxy
forwards a message whatever its modifiers return, so what matters is what the body still yields
after the logger has seen the message. -/

/-- What a body reader yields when read to its end: `data`, then a clean end or (`err`) an error. -/
structure FBody where
  data : Bytes
  err : Bool
  deriving DecidableEq, Repr

structure FOutcome where
  body : FBody
  record : Option Record
  err : Bool
  deriving DecidableEq, Repr

/-- Does the snapshot hand back the bytes it had already consumed when `ReadAll` fails? Since /repo
5291428 it does: the body is replaced by a reader over the consumed bytes that then fails with the
same error (`brokenBody`): `true`. Before that fix (`if err != nil { return err }`: the body reader
left where the error struck, its error sticky) it did not: `false`, kept as the variant `logFaultK false`. -/
def snapshotKeepsPrefix : Bool := true

/-- One logger on a message whose body yields `b`. A logger that drains the body (`installs` is
non-empty: its first step is the snapshot's `ReadAll`) fails on a failing body before it parses,
decodes or records anything, and returns the read error. Otherwise this is `logMsgT`. -/
def logFaultK (keep : Bool) (t : Trusted) (l : Logger) (skipLogging : Bool) (m : Msg) (b : FBody) : FOutcome :=
  let m' := { m with body := some b.data }
  if b.err && !(installs l skipLogging m').isEmpty then
    { body := { data := if keep then b.data else [], err := true }, record := none, err := true }
  else
    let o := logMsgT t l skipLogging m'
    { body := b, record := o.record, err := o.err }

def logFault := logFaultK snapshotKeepsPrefix

end Martian.Logging
