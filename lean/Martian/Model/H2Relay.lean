import Martian.Util
import Martian.Model.H2Hpack
/-!
Executable model of `h2/relay.go` + `h2/queued_frames.go` (one relay = one direction of a proxied
HTTP/2 session), shared by C08 (frame fidelity) and C09 (flow control).

Layers, following the code:
* `dispatch`   — `relay.processFrame`: frame type switch, CONTINUATION reassembly
                 (`headerBuffer`, `continuationState`); produces the sink / peer calls.
* `rstep`      — what one relay does for one call: the sinks `data/header/priority/rstStream/
                 pushPromise` (`enqueue` + `emitEligibleFrames`), the direct writes (SETTINGS, PING,
                 GOAWAY, WINDOW_UPDATE credit), and the calls its peer makes on it
                 (`updateWindow`, `updateInitialWindowSize`, `updateMaxFrameSize`).
* `sysStep`    — the two relays wired as in `Config.Proxy` (`cToS.peer = sToC` and back).

Choices of the implementation that the model takes as arguments (theorems quantify over them):
* the iteration order of the Go map `outputBuffers` in `sendQueuedFramesUnderWindowSize`;
* the bytes the HPACK encoder returns for a field list (only their length matters here).
HPACK is abstracted on the way out: a decoded field list is identified with its canonical literal
block, and every encoded block carries the encoder's sequence number (`stamp`); the peer can
decode blocks only in stamp order (dynamic-table dependency). On the way in, a header block is
either opaque (literal-only blocks, which neither read nor write the dynamic table) or a list of
HPACK representations (`Frame.headersRep`) decoded by the relay's decoder (`Model/H2Hpack.lean`:
dynamic table, size updates); SETTINGS_HEADER_TABLE_SIZE drives the encoder's size signalling.
Go `int` is 64-bit: window arithmetic is modelled in `Int` without overflow.
-/
namespace Martian.H2Relay
open Martian
open Martian.H2Hpack (Rep Hp)

structure Prio where
  dep : Nat
  excl : Bool
  weight : Nat
deriving DecidableEq, Repr, Inhabited

def Prio.zero : Prio := ⟨0, false, 0⟩
/-- `http2.PriorityParam.IsZero`: `p == PriorityParam{}`. -/
def Prio.isZero (p : Prio) : Bool := decide (p = Prio.zero)

/-- Frames as returned by `src.ReadFrame()`. `padLen = some n`: PADDED flag with `n` padding bytes. -/
inductive Frame
  | data (sid : Nat) (es : Bool) (payload : Bytes) (padLen : Option Nat)
  | headers (sid : Nat) (es eh : Bool) (prio : Option Prio) (frag : Bytes)
  | headersRep (sid : Nat) (es : Bool) (prio : Option Prio) (reps : List Rep)  -- END_HEADERS set; block given as representations
  | pushPromise (sid promised : Nat) (eh : Bool) (frag : Bytes)
  | continuation (sid : Nat) (eh : Bool) (frag : Bytes)
  | priority (sid : Nat) (p : Prio)
  | rst (sid code : Nat)
  | settings (kvs : List (Nat × Nat))
  | settingsAck
  | ping (ack : Bool) (data : Bytes)
  | goaway (last code : Nat) (debug : Bytes)
  | windowUpdate (sid inc : Nat)
deriving DecidableEq, Repr

/-- Flow-controlled length of a DATA frame = `f.Header().Length`: data, padding and the pad-length octet. -/
def flowLen (payload : Bytes) : Option Nat → Nat
  | none => payload.length
  | some n => payload.length + n + 1

/-! ## processFrame: dispatch and CONTINUATION reassembly -/

inductive Cont
  | none
  | hdr (prio : Prio) (es : Bool)
  | push (promised : Nat)
deriving DecidableEq, Repr

structure DState where
  hbuf : Bytes := []
  cont : Cont := .none
deriving DecidableEq, Repr

/-- What `processFrame` does with a frame, in terms of the sinks and the peer. A decoded field
list is represented by the header block it came from. -/
inductive Call
  | data (sid flow : Nat) (payload : Bytes) (es : Bool)   -- peer.sendWindowUpdates(f); Data sink
  | header (sid : Nat) (fields : Bytes) (es : Bool) (prio : Prio)
  | headerRep (sid : Nat) (reps : List Rep) (es : Bool) (prio : Prio)   -- `decodeFull` still to be done
  | pushPromise (sid promised : Nat) (fields : Bytes)
  | priority (sid : Nat) (p : Prio)
  | rst (sid code : Nat)
  | settings (kvs : List (Nat × Nat))
  | settingsAck
  | ping (ack : Bool) (data : Bytes)
  | goaway (last code : Nat) (debug : Bytes)
  | windowUpdate (sid inc : Nat)
  | nilContinuation     -- `r.continuationState.complete` on a nil interface: Go panics
deriving DecidableEq, Repr

def dispatch (d : DState) : Frame → DState × List Call
  | .data sid es payload pad => (d, [.data sid (flowLen payload pad) payload es])
  | .headers sid es eh prio frag =>
    if eh then (d, [.header sid frag es (prio.getD Prio.zero)])
    else ({ hbuf := frag, cont := .hdr (prio.getD Prio.zero) es }, [])
  | .headersRep sid es prio reps => (d, [.headerRep sid reps es (prio.getD Prio.zero)])
  | .pushPromise sid promised eh frag =>
    if eh then (d, [.pushPromise sid promised frag])
    else ({ hbuf := frag, cont := .push promised }, [])
  | .continuation sid eh frag =>
    let d' : DState := { d with hbuf := d.hbuf ++ frag }
    if eh then
      match d.cont with
      | .hdr prio es => (d', [.header sid d'.hbuf es prio])
      | .push promised => (d', [.pushPromise sid promised d'.hbuf])
      | .none => (d', [.nilContinuation])
    else (d', [])
  | .priority sid p => (d, [.priority sid p])
  | .rst sid code => (d, [.rst sid code])
  | .settings kvs => (d, [.settings kvs])
  | .settingsAck => (d, [.settingsAck])
  | .ping ack data => (d, [.ping ack data])
  | .goaway last code debug => (d, [.goaway last code debug])
  | .windowUpdate sid inc => (d, [.windowUpdate sid inc])

def dispatchAll : DState → List Frame → DState × List Call
  | d, [] => (d, [])
  | d, f :: fs =>
    let r := dispatch d f
    let rest := dispatchAll r.1 fs
    (rest.1, r.2 ++ rest.2)

/-! ## Queued frames and `emitEligibleFrames` -/

inductive QFrame
  | data (sid : Nat) (es : Bool) (payload : Bytes)
  | headers (sid : Nat) (es : Bool) (prio : Prio) (stamp : Nat) (fields : Bytes) (chunks : List Bytes)
  | push (sid promised : Nat) (stamp : Nat) (fields : Bytes) (chunks : List Bytes)
  | priority (sid : Nat) (p : Prio)
  | rst (sid code : Nat)
deriving DecidableEq, Repr

def QFrame.sid : QFrame → Nat
  | .data s _ _ => s | .headers s _ _ _ _ _ => s | .push s _ _ _ _ => s | .priority s _ => s | .rst s _ => s

/-- `flowControlSize`: non-zero only for DATA. -/
def QFrame.size : QFrame → Nat
  | .data _ _ p => p.length
  | _ => 0

/-- Encoder sequence number of a header block. -/
def QFrame.stamp? : QFrame → Option Nat
  | .headers _ _ _ st _ _ => some st
  | .push _ _ st _ _ => some st
  | _ => none

/-- Largest frame payload this queued frame puts on the wire (`send`): DATA payload; first chunk
plus priority / promised-id fields; CONTINUATION chunks. -/
def QFrame.wireMax : QFrame → Nat
  | .data _ _ p => p.length
  | .headers _ _ prio _ _ chunks =>
    match chunks with
    | [] => 0
    | c :: cs => (cs.map List.length).foldl max (c.length + (if prio.isZero then 0 else 5))
  | .push _ _ _ _ chunks =>
    match chunks with
    | [] => 0
    | c :: cs => (cs.map List.length).foldl max (c.length + 4)
  | _ => 0

def fits (conn w : Int) (f : QFrame) : Bool :=
  decide ((f.size : Int) ≤ conn) && decide ((f.size : Int) ≤ w)

/-- `outputBuffer.emitEligibleFrames`: pop the longest prefix of the queue whose frames fit both
windows; returns the new connection window, stream window, queue, and the frames put on `output`. -/
def emit : Int → Int → List QFrame → Int × Int × List QFrame × List QFrame
  | conn, w, [] => (conn, w, [], [])
  | conn, w, f :: q =>
    if fits conn w f then
      let r := emit (conn - f.size) (w - f.size) q
      (r.1, r.2.1, r.2.2.1, f :: r.2.2.2)
    else (conn, w, f :: q, [])

/-- `splitIntoChunks(firstChunkMax, continuationMax, data)`. The Go loop does not terminate when
`continuationMax = 0` and data remain; `fuel` makes that explicit (callers pass `data.length`). -/
def chunkRest (contMax : Nat) : Nat → Bytes → List Bytes
  | 0, _ => []
  | fuel + 1, rem =>
    if rem.isEmpty then [] else rem.take contMax :: chunkRest contMax fuel (rem.drop contMax)

def splitIntoChunks (firstMax contMax : Nat) (data : Bytes) : List Bytes :=
  data.take firstMax :: chunkRest contMax data.length (data.drop firstMax)

/-- The loop of `relay.data`: payloads of the DATA frames one `Data` call is split into. -/
def dataChunks (max : Nat) : Nat → Bytes → List Bytes
  | 0, d => [d.take max]
  | fuel + 1, d =>
    if (d.drop max).isEmpty then [d.take max] else d.take max :: dataChunks max fuel (d.drop max)

/-- DATA frames for the chunks: `streamEnded && len(data) == 0` — only the last one may end the stream. -/
def mkData (sid : Nat) (es : Bool) : List Bytes → List QFrame
  | [] => []
  | [c] => [.data sid es c]
  | c :: cs => .data sid false c :: mkData sid es cs

/-! ## One relay -/

structure OB where
  win : Int
  q : List QFrame
deriving Repr

/-- Frames written to `dest` directly (not through the per-stream queues). -/
inductive Ctl
  | settings (kvs : List (Nat × Nat))
  | settingsAck
  | ping (ack : Bool) (data : Bytes)
  | goaway (last code : Nat) (debug : Bytes)
  | windowUpdate (sid inc : Nat)
deriving DecidableEq, Repr

structure Relay where
  maxFrame : Nat := 16384
  initWin : Nat := 65535
  connWin : Int := 65535
  keys : List Nat := []                 -- streams that have an outputBuffer, in creation order
  ob : Nat → OB := fun _ => ⟨0, []⟩     -- meaningful on `keys`
  nextStamp : Nat := 0                  -- number of header blocks HPACK-encoded so far
  emitted : List QFrame := []           -- everything put on the `output` channel, in order
  wrote : List Ctl := []                -- everything written to `dest` directly, in order
  -- ghost state (never read by the transitions)
  accepted : List QFrame := []          -- everything ever enqueued
  wu : Nat → Int := fun _ => 0          -- sum of WINDOW_UPDATE increments applied per stream
  wuConn : Int := 0                     -- … and to the connection window
  lowered : Nat := 0                    -- sum of the decreases of INITIAL_WINDOW_SIZE
  creditDue : List (Nat × Nat) := []    -- (stream, flow-controlled length) of DATA the peer accepted

def setOB (ob : Nat → OB) (s : Nat) (o : OB) : Nat → OB := fun t => if t = s then o else ob t

/-- `relay.outputBuffer(id)`: create on first use with the current initial window. -/
def getOB (r : Relay) (s : Nat) : Relay :=
  if s ∈ r.keys then r
  else { r with keys := r.keys ++ [s], ob := setOB r.ob s ⟨r.initWin, []⟩ }

def emitStream (r : Relay) (s : Nat) : Relay :=
  let res := emit r.connWin (r.ob s).win (r.ob s).q
  { r with connWin := res.1, ob := setOB r.ob s ⟨res.2.1, res.2.2.1⟩, emitted := r.emitted ++ res.2.2.2 }

def push (r : Relay) (f : QFrame) : Relay :=
  { r with ob := setOB r.ob f.sid ⟨(r.ob f.sid).win, (r.ob f.sid).q ++ [f]⟩, accepted := r.accepted ++ [f] }

/-- `enqueueFrame` (and one iteration of the loop in `data`). -/
def enqueue (r : Relay) (f : QFrame) : Relay := emitStream (push (getOB r f.sid) f) f.sid

/-- `sendQueuedFramesUnderWindowSize`, the map iteration order being `order`. -/
def sendQueued (r : Relay) (order : List Nat) : Relay := order.foldl emitStream r

def addWin (r : Relay) (s : Nat) (inc : Int) : Relay :=
  { r with ob := setOB r.ob s ⟨(r.ob s).win + inc, (r.ob s).q⟩,
           wu := fun t => if t = s then r.wu t + inc else r.wu t }

/-- Inputs of one relay: sink calls and direct writes of its own direction, and the calls the
peer relay makes on it. -/
inductive RIn
  | data (sid : Nat) (payload : Bytes) (es : Bool)
  | header (sid : Nat) (fields : Bytes) (es : Bool) (prio : Prio) (encoded : Bytes)
  | push (sid promised : Nat) (fields : Bytes) (encoded : Bytes)
  | priority (sid : Nat) (p : Prio)
  | rst (sid code : Nat)
  | ctl (c : Ctl)
  | credit (sid flow : Nat)                           -- peer: `sendWindowUpdates`
  | windowUpdate (sid inc : Nat) (order : List Nat)   -- peer: `updateWindow`
  | initWin (v : Nat) (order : List Nat)              -- peer: `updateInitialWindowSize`
  | maxFrame (v : Nat)                                -- peer: `updateMaxFrameSize`
deriving Repr

def rstep (r : Relay) : RIn → Relay
  | .data sid payload es =>
    (mkData sid es (dataChunks r.maxFrame payload.length payload)).foldl enqueue (getOB r sid)
  | .header sid fields es prio encoded =>
    let first := r.maxFrame - (if prio.isZero then 0 else 5)
    let f := QFrame.headers sid es prio r.nextStamp fields (splitIntoChunks first r.maxFrame encoded)
    enqueue { r with nextStamp := r.nextStamp + 1 } f
  | .push sid promised fields encoded =>
    let f := QFrame.push sid promised r.nextStamp fields (splitIntoChunks (r.maxFrame - 4) r.maxFrame encoded)
    enqueue { r with nextStamp := r.nextStamp + 1 } f
  | .priority sid p => enqueue r (.priority sid p)
  | .rst sid code => enqueue r (.rst sid code)
  | .ctl c => { r with wrote := r.wrote ++ [c] }
  | .credit sid flow =>
    if flow = 0 then r
    else { r with wrote := r.wrote ++ [.windowUpdate 0 flow, .windowUpdate sid flow],
                  creditDue := r.creditDue ++ [(sid, flow)] }
  | .windowUpdate sid inc order =>
    let r1 := if sid = 0 then sendQueued { r with connWin := r.connWin + inc, wuConn := r.wuConn + inc } order else r
    emitStream (addWin (getOB r1 sid) sid inc) sid
  | .initWin v order =>
    let delta : Int := (v : Int) - r.initWin
    let r1 := { r with initWin := v,
                       ob := fun t => if t ∈ r.keys then ⟨(r.ob t).win + delta, (r.ob t).q⟩ else r.ob t,
                       lowered := r.lowered + (-delta).toNat }
    sendQueued r1 order
  | .maxFrame v => { r with maxFrame := v }

def run (r : Relay) (is : List RIn) : Relay := is.foldl rstep r

/-! ## The two relays of a session -/

inductive Dir | c2s | s2c
deriving DecidableEq, Repr

structure Sys where
  c2s : Relay := {}
  s2c : Relay := {}
  dc : DState := {}
  ds : DState := {}
  hc : Hp := {}            -- HPACK state of the client-to-server relay (decoder: client's blocks)
  hs : Hp := {}
  flushC : List (List Nat) := []   -- size updates written in front of each block the c2s encoder produced
  flushS : List (List Nat) := []
  errC : Bool := false     -- `processFrame` of that direction returned an error: the direction ends
  errS : Bool := false

def Sys.relay (s : Sys) : Dir → Relay | .c2s => s.c2s | .s2c => s.s2c
def Sys.setRelay (s : Sys) : Dir → Relay → Sys
  | .c2s, r => { s with c2s := r } | .s2c, r => { s with s2c := r }
def Dir.peer : Dir → Dir | .c2s => .s2c | .s2c => .c2s
def Sys.on (s : Sys) (d : Dir) (i : RIn) : Sys := s.setRelay d (rstep (s.relay d) i)
def Sys.hp (s : Sys) : Dir → Hp | .c2s => s.hc | .s2c => s.hs
def Sys.setHp (s : Sys) : Dir → Hp → Sys
  | .c2s, h => { s with hc := h } | .s2c, h => { s with hs := h }
def Sys.flushLog (s : Sys) : Dir → List (List Nat) | .c2s => s.flushC | .s2c => s.flushS
def Sys.setErr (s : Sys) : Dir → Sys
  | .c2s => { s with errC := true } | .s2c => { s with errS := true }

/-- `encodeFull`: the encoder writes its pending size updates in front of the block. -/
def Sys.encodeBlock (s : Sys) (d : Dir) : Sys :=
  let r := (s.hp d).enc.flush
  let s1 := s.setHp d { (s.hp d) with enc := r.1 }
  match d with
  | .c2s => { s1 with flushC := s1.flushC ++ [r.2] }
  | .s2c => { s1 with flushS := s1.flushS ++ [r.2] }

/-- `encodeFull` of an EMPTY field list: `hpack.Encoder` writes its pending size updates in front of
the first field it encodes, so without a field nothing is written and the updates stay pending. The
block is empty; it is still enqueued (one HEADERS frame with an empty fragment). -/
def Sys.encodeEmpty (s : Sys) (d : Dir) : Sys :=
  match d with
  | .c2s => { s with flushC := s.flushC ++ [[]] }
  | .s2c => { s with flushS := s.flushS ++ [[]] }

def Sys.encodeFull (s : Sys) (d : Dir) (empty : Bool) : Sys :=
  if empty then s.encodeEmpty d else s.encodeBlock d

/-- Last value a SETTINGS frame carries for an identifier (`none`: it does not occur). -/
def lastOf (id : Nat) : List (Nat × Nat) → Option Nat
  | [] => none
  | (i, v) :: rest =>
    match lastOf id rest with
    | some w => some w
    | none => if i = id then some v else none

/-- The `ForeachSetting` loop of the SETTINGS case of `processFrame`: HEADER_TABLE_SIZE and
MAX_FRAME_SIZE are handed to the peer relay value by value in the order they appear; the
INITIAL_WINDOW_SIZE values are only remembered (the last one wins). -/
def settingsLoop (s : Sys) (peer : Dir) : List (Nat × Nat) → Sys
  | [] => s
  | (id, v) :: rest =>
    let s' := if id = 5 then s.on peer (.maxFrame v)
              else if id = 1 then s.setHp peer ((s.hp peer).updateTableSize v)
              else s
    settingsLoop s' peer rest

/-- The SETTINGS case of `processFrame` up to the forwarding write: the loop, then
`updateInitialWindowSize` once, with the last INITIAL_WINDOW_SIZE of the frame, if there is one
(RFC 7540 6.5.3: no other processing between the values of one frame; `order` = map iteration
order of the single pass this triggers). -/
def applySettings (s : Sys) (peer : Dir) (order : List Nat) (kvs : List (Nat × Nat)) : Sys :=
  let s1 := settingsLoop s peer kvs
  match lastOf 4 kvs with
  | some v => s1.on peer (.initWin v order)
  | none => s1

/-- Effect of one call of `processFrame` of direction `d`. `enc`: what the HPACK encoder returns
for this block; `order`: map iteration order of the pass this call triggers, if any.
`none` = Go panic. A decoding error sets the direction's error flag (`processFrame` returns it). -/
def applyCall (s : Sys) (d : Dir) (enc : Bytes) (order : List Nat) : Call → Option Sys
  | .data sid flow payload es => some ((s.on d.peer (.credit sid flow)).on d (.data sid payload es))
  | .header sid fields es prio => some ((s.encodeFull d fields.isEmpty).on d (.header sid fields es prio enc))
  | .headerRep sid reps es prio =>
    match (s.hp d).dec.decodeFull reps with
    | none => some (s.setErr d)
    | some (dec', fields) =>
      let s1 := s.setHp d { (s.hp d) with dec := dec' }
      some ((s1.encodeFull d fields.isEmpty).on d (.header sid (H2Hpack.litEncode fields) es prio enc))
  | .pushPromise sid promised fields => some ((s.encodeFull d fields.isEmpty).on d (.push sid promised fields enc))
  | .priority sid p => some (s.on d (.priority sid p))
  | .rst sid code => some (s.on d (.rst sid code))
  | .settings kvs => some ((applySettings s d.peer order kvs).on d (.ctl (.settings kvs)))
  | .settingsAck => some (s.on d (.ctl .settingsAck))
  | .ping ack data => some (s.on d (.ctl (.ping ack data)))
  | .goaway last code debug => some (s.on d (.ctl (.goaway last code debug)))
  | .windowUpdate sid inc => some (s.on d.peer (.windowUpdate sid inc order))
  | .nilContinuation => none

def sysStep (s : Sys) (d : Dir) (f : Frame) (enc : Bytes) (order : List Nat) : Option Sys :=
  let ds := match d with | .c2s => s.dc | .s2c => s.ds
  let r := dispatch ds f
  let s1 : Sys := match d with | .c2s => { s with dc := r.1 } | .s2c => { s with ds := r.1 }
  r.2.foldlM (fun s c => applyCall s d enc order c) s1

end Martian.H2Relay
