import Martian.Util
import Martian.Generated.Grpc
/-!
Executable model of `h2/grpc/grpc.go` (property C11): the `adapter` (gRPC length-prefixed
message reassembly over HTTP/2 DATA frames, decompression), the `emitter` (recompression and
re-prefixing) and the stream-level dispatch built by `AsStreamProcessorFactory`.

Transcribed statement by statement from the code as it is now (after the fixes F11a "zero-length
message whose prefix ends a DATA frame" and F11c "snappy framing format"; F11b, the
`Message(nil, true)` call for an END_STREAM on an empty DATA frame, is still in the code and
therefore in the model).

Compression is abstract: a `Codec` gives, per encoding, the function the emitter applies and the
partial function the adapter applies. Nothing is assumed about them here; theorems that need it
state `Codec.RoundTrip` explicitly.

Core Lean only (linked into the driver).
-/
namespace Martian.Grpc
open Martian

/-- `grpc.Encoding` -/
inductive Enc where
  | identity | gzip | deflate | snappy
deriving DecidableEq, Repr, Inhabited

/-- The compression library, abstract. `comp e` is what `emitter.Message` applies for encoding
`e` (gzip.Writer / flate.Writer level -1 / snappy.NewBufferedWriter), `decomp e` what
`adapter.Data` applies (gzip.Reader / flate.Reader / snappy.NewReader); `none` = the reader
returned an error. The `identity` entries are never consulted (the Go `switch` has an empty
`case Identity`). -/
structure Codec where
  comp : Enc → Bytes → Bytes
  decomp : Enc → Bytes → Option Bytes

/-- Explicit hypothesis used by the wire round-trip theorems: what the emitter writes, the
adapter (of the next hop, or an independent reader) reads back. -/
def Codec.RoundTrip (cd : Codec) : Prop := ∀ e x, cd.decomp e (cd.comp e x) = some x

/-- big-endian uint32 at the head of `b` (`binary.Read(&a.buffer, binary.BigEndian, &a.length)`) -/
def be32 (b : Bytes) : Nat :=
  (b.getD 0 0).toNat * 16777216 + (b.getD 1 0).toNat * 65536 + (b.getD 2 0).toNat * 256 + (b.getD 3 0).toNat

/-- `binary.Write(&buf, binary.BigEndian, uint32(n))` (truncating conversion, as in Go) -/
def putBe32 (n : Nat) : Bytes :=
  [UInt8.ofNat (n / 16777216 % 256), UInt8.ofNat (n / 65536 % 256), UInt8.ofNat (n / 256 % 256), UInt8.ofNat (n % 256)]

/-- Go's `uint32(n)` of a non-negative `int` (64-bit): truncation modulo 2^32. Used where the code
writes `uint32(len(data))` (the emitter's prefix). -/
def u32 (n : Nat) : Nat := n % 4294967296

/-- Per-direction `adapter` fields that the data interpreter reads and writes.
`reading = true` is `state == readingMessageData`. `length` is the Go `uint32` field: every value
the loop stores in it is a `be32`, hence `< 2^32` (`be32_lt`). -/
structure Adapter where
  enc : Enc := .identity
  buf : Bytes := []
  reading : Bool := false
  compressed : Bool := false
  length : Nat := 0
deriving Repr, DecidableEq

/-- One `processor.Message(data, streamEnded)` call, together with the value of
`adapter.compressed` at the time of the call (the emitter reads it through its back pointer). -/
structure Call where
  compressed : Bool
  data : Bytes
  es : Bool
deriving Repr, DecidableEq

/-- Result of one `adapter.Data` call: the `Message` calls made, in order, and the adapter
afterwards; `next = none` = Data returned an error (decompression failed). The relay stops
relaying the connection on any processor error (`relay.relayFrames`), so no state is kept. -/
structure Res where
  calls : List Call
  next : Option Adapter
deriving Repr, DecidableEq

/-- the decompression `switch` of adapter.Data -/
def decode (cd : Codec) (e : Enc) (compressed : Bool) (raw : Bytes) : Option Bytes :=
  if compressed then
    match e with
    | .identity => some raw
    | e => cd.decomp e raw
  else some raw

/-- the compression `switch` of emitter.Message -/
def encode (cd : Codec) (e : Enc) (compressed : Bool) (data : Bytes) : Bytes :=
  if compressed then
    match e with
    | .identity => data
    | e => cd.comp e data
  else data

def Adapter.measure (a : Adapter) : Nat := 2 * a.buf.length + (if a.reading then 1 else 0)

def Res.cons (c : Call) (r : Res) : Res := ⟨c :: r.calls, r.next⟩

/-- The `for { switch a.state { … } }` loop of `adapter.Data`, after `a.buffer.Write(data)`.
Well-founded on `2·|buffer| + [state = readingMessageData]`: the Go loop terminates. -/
def loop (cd : Codec) (es : Bool) (a : Adapter) : Res :=
  if a.reading then
    -- case readingMessageData
    -- `if uint64(a.buffer.Len()) < uint64(a.length) { return nil }`: both sides widened, no
    -- truncation (fix ba75971; before it the buffer length was converted to uint32 and wrapped)
    if a.buf.length < a.length then ⟨[], some a⟩
    else
      match decode cd a.enc a.compressed (a.buf.take a.length) with
      | none => ⟨[], none⟩
      | some d =>
        let a2 : Adapter := { a with buf := a.buf.drop a.length, reading := false }
        let c : Call := ⟨a.compressed, d, es && a2.buf.isEmpty⟩
        -- `if a.buffer.Len() == 0 && !(a.state == readingMessageData && a.length == 0) { return nil }`
        if a2.buf.isEmpty then ⟨[c], some a2⟩
        else Res.cons c (loop cd es a2)
  else
    -- case readingMetadata
    -- "gRPC may send empty DATA frames to end a stream": `a.processor.Message(nil, true)`
    let pre : List Call := if es && a.buf.isEmpty then [⟨a.compressed, [], true⟩] else []
    if a.buf.length < 5 then ⟨pre, some a⟩
    else
      let a1 : Adapter := { a with compressed := a.buf.getD 0 0 > 0, length := be32 (a.buf.drop 1),
                                   buf := a.buf.drop 5, reading := true }
      if a1.buf.isEmpty && !(a1.length == 0) then ⟨pre, some a1⟩
      else
        let r := loop cd es a1
        ⟨pre ++ r.calls, r.next⟩
termination_by a.measure
decreasing_by
  all_goals simp_all [Adapter.measure, List.length_drop]
  all_goals omega

/-- `a.buffer.Write(data)` -/
def Adapter.app (a : Adapter) (d : Bytes) : Adapter := { a with buf := a.buf ++ d }

/-- `adapter.Data(data, streamEnded)` on a gRPC-enabled stream -/
def data (cd : Codec) (a : Adapter) (d : Bytes) (es : Bool) : Res := loop cd es (a.app d)

/-- run `f` on the adapter left by `r` unless `r` ended in an error -/
def Res.andThen (r : Res) (f : Adapter → Res) : Res :=
  match r.next with
  | none => r
  | some a => ⟨r.calls ++ (f a).calls, (f a).next⟩

/-- A DATA frame sequence of one direction: END_STREAM (`es`) is on the last frame only. -/
def runFrames (cd : Codec) (a : Adapter) : List Bytes → Bool → Res
  | [], _ => ⟨[], some a⟩
  | [f], es => data cd a f es
  | f :: g :: fs, es => (data cd a f false).andThen (fun a' => runFrames cd a' (g :: fs) es)

/-- `emitter.Message(data, streamEnded)`: the one `sink.Data` call it makes. -/
def emit (cd : Codec) (e : Enc) (c : Call) : Bytes × Bool :=
  let p := encode cd e c.compressed c.data
  ((if c.compressed then (1 : UInt8) else 0) :: (putBe32 p.length ++ p), c.es)

/-- DATA frames reaching the sink when the processor is a pass-through
(`processor.Message(d, es)` calls `emitter.Message(d, es)` and nothing else). -/
def sinkFrames (cd : Codec) (e : Enc) (r : Res) : List (Bytes × Bool) := r.calls.map (emit cd e)

/-! ### Specification vocabulary (used by the theorems, not by the driver) -/

/-- One gRPC message as the sender put it on the wire: the compressed flag, the payload bytes
that follow the 5-byte prefix, and the message they stand for. -/
structure GMsg where
  compressed : Bool
  wire : Bytes
  plain : Bytes
deriving Repr, DecidableEq

/-- length-prefixed message: flag byte, big-endian uint32 length, payload -/
def GMsg.frame (m : GMsg) : Bytes :=
  (if m.compressed then (1 : UInt8) else 0) :: (putBe32 m.wire.length ++ m.wire)

/-- the byte stream of a message sequence -/
def stream (ms : List GMsg) : Bytes := (ms.map GMsg.frame).flatten

/-- `m.wire` really is `m.plain` under encoding `e` (as the library reads it), and fits a uint32 -/
def GMsg.ok (cd : Codec) (e : Enc) (m : GMsg) : Prop :=
  decode cd e m.compressed m.wire = some m.plain ∧ m.wire.length < 4294967296

/-- The `Message` calls a processor must see for `ms`: the decompressed messages in order,
end-of-stream (`es`) on the last one only. -/
def expCalls : List GMsg → Bool → List Call
  | [], _ => []
  | [m], es => [⟨m.compressed, m.plain, es⟩]
  | m :: m' :: ms, es => ⟨m.compressed, m.plain, false⟩ :: expCalls (m' :: ms) es

/-- what the emitter makes of a message: same flag, same message, payload recompressed -/
def GMsg.reenc (cd : Codec) (e : Enc) (m : GMsg) : GMsg :=
  ⟨m.compressed, encode cd e m.compressed m.plain, m.plain⟩

/-- a new adapter of a gRPC stream whose header block selected encoding `e` -/
def fresh (e : Enc) : Adapter := { enc := e }

/-- an adapter between messages with an empty buffer (in particular a new one) -/
def Adapter.atRest (a : Adapter) : Prop := a.reading = false ∧ a.buf = []

/-- the adapter after message `m` has been delivered with `rest` still buffered -/
def Adapter.afterDelivery (a : Adapter) (m : GMsg) (rest : Bytes) : Adapter :=
  { enc := a.enc, buf := rest, reading := false, compressed := m.compressed, length := m.wire.length }

/-! ### Headers and the stream-level dispatch -/

abbrev Header := Bytes × Bytes

/-! The literals come from the source on every check (`vextract` → `Generated/Grpc.lean`): the
two header names adapter.Header compares for equality, in source order (`facts_grpc_header_tests`),
the base media type and the separators of `isGRPCContentType` (`facts_grpc_content_type_test`) and
the `grpc-encoding` value table of its `switch`. -/
def ctName : Bytes := strBytes (Generated.Grpc.headerTests.getD 0 ("", "")).2
def geName : Bytes := strBytes (Generated.Grpc.headerTests.getD 1 ("", "")).2
/-- `const base = "application/grpc"` of `isGRPCContentType` -/
def ctGrpc : Bytes := strBytes (Generated.Grpc.ctLiterals.getD 0 "")
/-- the bytes that may follow it: `'+'` (subtype) and `';'` (parameter) -/
def ctSeps : List UInt8 := Generated.Grpc.ctSeparators.filterMap fun c => (strBytes c).head?

def encOfConst : String → Option Enc
  | "Identity" => some .identity
  | "Gzip" => some .gzip
  | "Deflate" => some .deflate
  | "Snappy" => some .snappy
  | _ => none

def encOfName (v : Bytes) : Option Enc :=
  match Generated.Grpc.encodingNames.find? (fun p => strBytes p.1 = v) with
  | some p => encOfConst p.2
  | none => none

/-- which wire format a library call reads or writes -/
def formatOf (c : String) : Option String :=
  if c = "gzip.NewReader" ∨ c = "gzip.NewWriter" ∨ c = "gzip.NewWriterLevel" then some "gzip"
  else if c = "flate.NewReader" ∨ c = "flate.NewWriter" then some "deflate"
  else if c = "snappy.NewReader" ∨ c = "snappy.NewBufferedWriter" ∨ c = "snappy.NewWriter" then some "snappy-framed"
  else if c = "snappy.Encode" ∨ c = "snappy.Decode" then some "snappy-block"
  else none

/-- formats chosen by a list of calls, looking through the helpers `gunzip` / `deflate` -/
def formatsOf (cs : List String) : List String :=
  (cs.flatMap fun c => match Generated.Grpc.helperCalls.find? (·.1 = c) with
    | some r => r.2
    | none => [c]).filterMap formatOf

/-- the `grpc-encoding` loop of adapter.Header: `none` = "unrecognized grpc-encoding"; the
encoding chosen by earlier header fields stays assigned (as in Go). -/
def scanEncoding : Enc → List Header → Enc × Bool
  | e, [] => (e, true)
  | e, (n, v) :: hs =>
    if n = geName then
      match encOfName v with
      | some e' => scanEncoding e' hs
      | none => (e, false)
    else scanEncoding e hs

/-- `isGRPCContentType(v)`: `strings.HasPrefix(v, base)` and then
`len(v) == len(base) || v[len(base)] == '+' || v[len(base)] == ';'` (fix 1b6fe6f; before it the
value was compared for equality with `base`). -/
def isGrpcCT (v : Bytes) : Bool :=
  ctGrpc.isPrefixOf v && (v.length == ctGrpc.length || ctSeps.contains (v.getD ctGrpc.length 0))

def isGrpcHeaders (hs : List Header) : Bool := hs.any fun h => h.1 = ctName && isGrpcCT h.2

inductive Dir where
  | c2s | s2c
deriving DecidableEq, Repr

/-- What the recording pass-through processor and the recording sink of one direction see. -/
inductive Ev where
  | procHeader (hs : List Header) (es : Bool)   -- processor.Header
  | procMessage (d : Bytes) (es : Bool)         -- processor.Message
  | sinkHeader (hs : List Header) (es : Bool)   -- sink.Header
  | sinkData (d : Bytes) (es : Bool)            -- sink.Data
  | sinkPriority
  | sinkRst (code : Nat)
  | sinkPush (id : Nat) (hs : List Header)
  | error (what : String)                       -- the h2.Processor method returned an error
deriving Repr, DecidableEq

/-- One bidirectional stream as built by `AsStreamProcessorFactory`: `enabled` is shared by the
two adapters. `dead d` = the adapter of direction `d` has returned an error. -/
structure Stream where
  enabled : Bool := false
  c2s : Adapter := {}
  s2c : Adapter := {}
deriving Repr, DecidableEq

def Stream.get (s : Stream) : Dir → Adapter
  | .c2s => s.c2s
  | .s2c => s.s2c

def Stream.set (s : Stream) (d : Dir) (a : Adapter) : Stream :=
  match d with
  | .c2s => { s with c2s := a }
  | .s2c => { s with s2c := a }

/-- `adapter.Header` with a pass-through processor -/
def Stream.header (s : Stream) (d : Dir) (hs : List Header) (es : Bool) : Stream × List Ev :=
  let en := s.enabled || isGrpcHeaders hs
  if !en then (s, [.sinkHeader hs es])
  else
    let s1 := { s with enabled := true }
    let (e, ok) := scanEncoding (s.get d).enc hs
    let s2 := s1.set d { s1.get d with enc := e }
    if ok then (s2, [.procHeader hs es, .sinkHeader hs es])
    else (s2, [.error "encoding"])

def callEvents (cd : Codec) (e : Enc) (c : Call) : List Ev :=
  [.procMessage c.data c.es, .sinkData (emit cd e c).1 (emit cd e c).2]

/-- `adapter.Data` with a pass-through processor. `none` in the first component = the adapter
returned an error (the relay then stops). -/
def Stream.data (cd : Codec) (s : Stream) (d : Dir) (b : Bytes) (es : Bool) : Option Stream × List Ev :=
  if !s.enabled then (some s, [.sinkData b es])
  else
    let a := s.get d
    let r := Grpc.data cd a b es
    let evs := r.calls.flatMap (callEvents cd a.enc)
    match r.next with
    | some a' => (some (s.set d a'), evs)
    | none => (none, evs ++ [.error "decompress"])

/-- A frame of either direction, and the run of a whole frame sequence (stops at an error). -/
inductive Frame where
  | headers (d : Dir) (hs : List Header) (es : Bool)
  | data (d : Dir) (b : Bytes) (es : Bool)
deriving Repr, DecidableEq

def Frame.announcesGrpc : Frame → Bool
  | .headers _ hs _ => isGrpcHeaders hs
  | .data _ _ _ => false

/-- the frame as the destination sees it when it is forwarded untouched -/
def Frame.forwarded : Frame → Dir × Ev
  | .headers d hs es => (d, .sinkHeader hs es)
  | .data d b es => (d, .sinkData b es)

def Stream.run (cd : Codec) : Stream → List Frame → List (Dir × Ev)
  | _, [] => []
  | s, .headers d hs es :: fs =>
    let r := s.header d hs es
    r.2.map (fun e => (d, e)) ++ (if r.2.any (fun e => match e with | .error _ => true | _ => false) then [] else Stream.run cd r.1 fs)
  | s, .data d b es :: fs =>
    let r := Stream.data cd s d b es
    r.2.map (fun e => (d, e)) ++ (match r.1 with | some s' => Stream.run cd s' fs | none => [])

/-! ### Several streams through one `AsStreamProcessorFactory` value

`h2.Config` holds one factory value and calls it once per HTTP/2 stream (`h2.go`); every call
builds its own `enabled` flag, its own two adapters and emitters. The model: a table from stream id
to that stream's state; `none` = an adapter of the stream returned an error. -/

/-- one frame on one stream: the new state (`none` after an error) and what its processors and
sinks see -/
def Stream.step (cd : Codec) (s : Stream) : Frame → Option Stream × List (Dir × Ev)
  | .headers d hs es =>
    let r := s.header d hs es
    (if r.2.any (fun e => match e with | .error _ => true | _ => false) then none else some r.1,
     r.2.map (fun e => (d, e)))
  | .data d b es =>
    let r := Stream.data cd s d b es
    (r.1, r.2.map (fun e => (d, e)))

/-- `Stream.run` written with `step` (and a possibly dead start state) -/
def Stream.runO (cd : Codec) : Option Stream → List Frame → List (Dir × Ev)
  | none, _ => []
  | some _, [] => []
  | some s, f :: fs => (Stream.step cd s f).2 ++ Stream.runO cd (Stream.step cd s f).1 fs

/-- stream id ↦ state; an id not in the table is a stream the factory has not been called for yet -/
abbrev Multi := List (Nat × Option Stream)

def Multi.get (m : Multi) (sid : Nat) : Option Stream :=
  match m.lookup sid with
  | some s => s
  | none => some {}

def Multi.set (m : Multi) (sid : Nat) (s : Option Stream) : Multi := (sid, s) :: m

/-- frames of several streams, in the order they arrive, through one factory value -/
def Multi.run (cd : Codec) : Multi → List (Nat × Frame) → List (Nat × Dir × Ev)
  | _, [] => []
  | m, (sid, f) :: fs =>
    match m.get sid with
    | none => Multi.run cd m fs
    | some s =>
      (Stream.step cd s f).2.map (fun e => (sid, e)) ++ Multi.run cd (m.set sid (Stream.step cd s f).1) fs

end Martian.Grpc
