import Martian.Model.Config
/-!
C12 — from a JSON value to the configuration tree: what `encoding/json` (go1.23) and the
`*FromJSON` functions of `parse`, `fifo`, `priority`, the five filters and the harness' `verif.Probe`
make of a JSON value.

Modelled (the corner cases that decide acceptance and meaning):
* `parse.FromJSON` decodes into a `map[string]json.RawMessage`: keys are exact, a repeated key keeps
  its last value, the map must end up with exactly one key; `null` gives an empty map; any other
  non-object is a type error.
* A struct member is found by exact name, else by case-folded name (`foldName`: ASCII upper case,
  `ſ` → `S`, `K` (Kelvin) → `K`); unknown members are skipped whatever their value.
* Members are decoded in order INTO what is there: a repeated key decodes into what the earlier one
  left. `null` leaves strings, numbers, booleans and structs as they are and makes a slice nil; an
  array decodes element-wise into the existing backing array of the slice (`Sl`: visible elements and
  the stale ones behind them), `[]` makes a fresh empty slice; a `json.RawMessage` takes any value
  (also `null`) verbatim.
* An `int64`/`int` member takes a number literal without fraction and exponent that fits 64 bits.
* Any value of the wrong JSON type makes `json.Unmarshal` return an error (after decoding the rest):
  the body is rejected — node `malformed`.

Not modelled (trusted: `encoding/json`'s scanner): the text level — white space, string escapes,
number lexing (the driver turns a literal into `NumLit`), invalid UTF-8, nesting limits.
-/
namespace Martian.Config
open Martian Martian.Go

/-- A JSON number literal: sign, value of the integer digits, and whether a fraction or exponent follows. -/
structure NumLit where
  neg : Bool
  int : Nat
  fracExp : Bool
  deriving DecidableEq, Repr

inductive JVal
  | null
  | bool (b : Bool)
  | num (n : NumLit)
  | str (s : Bytes)
  | arr (xs : List JVal)
  | obj (kvs : List (Bytes × JVal))
  deriving Repr

/-- A JSON value in which every object also carries what it says when read as a modifier
(`parse.FromJSON` of that object's text). -/
inductive DV
  | null
  | bool (b : Bool)
  | num (n : NumLit)
  | str (s : Bytes)
  | arr (xs : List DV)
  | obj (kvs : List (Bytes × DV)) (asNode : Node)

/-- `parse.FromJSON` on a `json.RawMessage` holding this value: a non-object is rejected
(`null` leaves the map empty, everything else is a type error). -/
def DV.node : DV → Node
  | .obj _ n => n
  | _ => .malformed

/-! ### struct member lookup -/

/-- `encoding/json.foldName`, exact for the purpose of comparing with ASCII member names. -/
def foldName : Bytes → Bytes
  | [] => []
  | 0xC5 :: 0xBF :: r => 83 :: foldName r
  | 0xE2 :: 0x84 :: 0xAA :: r => 75 :: foldName r
  | c :: r => toUpperB c :: foldName r

/-- The struct member (by position in `fields`) a JSON key selects: exact name first, else the first
member with the same folded name. -/
def fieldIdx (fields : List Bytes) (key : Bytes) : Option Nat :=
  match fields.findIdx? (· == key) with
  | some i => some i
  | none => fields.findIdx? (fun f => foldName f == foldName key)

/-! ### decoding into Go values -/

/-- A Go slice as the decoder sees it: nil-ness, the visible elements, and the elements still in the
backing array behind them. -/
structure Sl (α : Type) where
  isNil : Bool
  vis : List α
  stale : List α

def Sl.nil {α : Type} : Sl α := ⟨true, [], []⟩

/-- The element loop of `decodeState.array`: element `i` is decoded into `mem[i]` (zero beyond). -/
def decElems {α : Type} (elem : α → DV → Option α) (zero : α) : List DV → List α → Option (List α)
  | [], _ => some []
  | x :: xs, mem =>
    match elem (mem.headD zero) x, decElems elem zero xs mem.tail with
    | some e, some es => some (e :: es)
    | _, _ => none

/-- `decodeState.array` / `literalStore(null)` on a slice. `none` = `UnmarshalTypeError`. -/
def decSlice {α : Type} (elem : α → DV → Option α) (zero : α) (old : Sl α) : DV → Option (Sl α)
  | .null => some Sl.nil
  | .arr [] => some ⟨false, [], []⟩
  | .arr xs => (decElems elem zero xs (old.vis ++ old.stale)).map fun vis => ⟨false, vis, (old.vis ++ old.stale).drop xs.length⟩
  | _ => none

def decString (old : Bytes) : DV → Option Bytes
  | .str s => some s
  | .null => some old
  | _ => none

def decBool (old : Bool) : DV → Option Bool
  | .bool b => some b
  | .null => some old
  | _ => none

/-- `strconv.ParseInt(literal, 10, 64)`: no fraction, no exponent, in range (`-0` is 0). -/
def int64Of (n : NumLit) : Option Int :=
  if n.fracExp then none
  else
    let v : Int := if n.neg then -(n.int : Int) else (n.int : Int)
    if minInt64 ≤ v ∧ v ≤ maxInt64 then some v else none

def decInt (old : Int) : DV → Option Int
  | .num n => int64Of n
  | .null => some old
  | _ => none

/-- a `json.RawMessage` element or member: any value, verbatim -/
def decRaw (_ : DV) (v : DV) : Option DV := some v

/-- The member loop of `decodeState.object` on a struct. -/
def decMembers {σ : Type} (fields : List Bytes) (set : σ → Nat → DV → Option σ) : List (Bytes × DV) → σ → Option σ
  | [], s => some s
  | (k, v) :: rest, s =>
    match fieldIdx fields k with
    | none => decMembers fields set rest s
    | some f =>
      match set s f v with
      | some s' => decMembers fields set rest s'
      | none => none

/-- `json.Unmarshal(b, &struct)`: `null` leaves the zero struct, a non-object is a type error. -/
def decStruct {σ : Type} (fields : List Bytes) (set : σ → Nat → DV → Option σ) (zero : σ) : DV → Option σ
  | .null => some zero
  | .obj kvs _ => decMembers fields set kvs zero
  | _ => none

/-! ### the registered `*FromJSON` functions -/

def fScope := strBytes "scope"
def fModifiers := strBytes "modifiers"
def fAgg := strBytes "aggregateErrors"
def fPriority := strBytes "priority"
def fModifier := strBytes "modifier"
def fElse := strBytes "else"
def fName := strBytes "name"
def fValue := strBytes "value"
def fMethod := strBytes "method"
def fScheme := strBytes "scheme"
def fHost := strBytes "host"
def fPath := strBytes "path"
def fQuery := strBytes "query"
def fLabel := strBytes "label"
def fCaps := strBytes "caps"
def fFailReq := strBytes "failReq"
def fFailRes := strBytes "failRes"
def fPort := strBytes "port"
def fEtext := strBytes "etext"

def tokOf (s : Bytes) : Tok :=
  if s == strBytes "request" then .request else if s == strBytes "response" then .response else .other

/-- `[]parse.ModifierType` → the model's scope -/
def scopeOfSl (s : Sl Bytes) : Scope := if s.isNil then none else some (s.vis.map tokOf)

def decScope (old : Sl Bytes) (v : DV) : Option (Sl Bytes) := decSlice decString [] old v

structure FifoSt where
  scope : Sl Bytes := Sl.nil
  agg : Bool := false
  mods : Sl DV := Sl.nil

def fifoFields : List Bytes := [fScope, fAgg, fModifiers]

def fifoSet (s : FifoSt) (f : Nat) (v : DV) : Option FifoSt :=
  match f with
  | 0 => (decScope s.scope v).map fun x => { s with scope := x }
  | 1 => (decBool s.agg v).map fun x => { s with agg := x }
  | _ => (decSlice decRaw .null s.mods v).map fun x => { s with mods := x }

/-- `fifo.groupFromJSON` up to the children's own parsing. -/
def fifoNode (body : DV) : Node :=
  match decStruct fifoFields fifoSet {} body with
  | none => .malformed
  | some s => .fifo (scopeOfSl s.scope) s.agg (s.mods.vis.map DV.node)

structure PrioElem where
  prio : Int := 0
  mod : Option DV := none

def prioElemFields : List Bytes := [fPriority, fModifier]

def prioElemSet (e : PrioElem) (f : Nat) (v : DV) : Option PrioElem :=
  match f with
  | 0 => (decInt e.prio v).map fun x => { e with prio := x }
  | _ => some { e with mod := some v }

/-- one element of `[]modifierJSON`, decoded into what the backing array holds at that index -/
def decPrioElem (old : PrioElem) (v : DV) : Option PrioElem := decStruct prioElemFields prioElemSet old v

structure PrioSt where
  scope : Sl Bytes := Sl.nil
  mods : Sl PrioElem := Sl.nil

def prioFields : List Bytes := [fScope, fModifiers]

def prioSet (s : PrioSt) (f : Nat) (v : DV) : Option PrioSt :=
  match f with
  | 0 => (decScope s.scope v).map fun x => { s with scope := x }
  | _ => (decSlice decPrioElem {} s.mods v).map fun x => { s with mods := x }

/-- `parse.FromJSON(m.Modifier)` on a possibly nil `json.RawMessage` -/
def rawNode : Option DV → Node
  | none => .malformed
  | some d => d.node

def prioNode (body : DV) : Node :=
  match decStruct prioFields prioSet {} body with
  | none => .malformed
  | some s => .prio (scopeOfSl s.scope) (s.mods.vis.map fun e => (e.prio, rawNode e.mod))

/-- The five `filterFromJSON`: up to four string parameters, `modifier`, `else`, `scope`. -/
structure FilterSt where
  a : Bytes := []
  b : Bytes := []
  c : Bytes := []
  d : Bytes := []
  mod : Option DV := none
  els : Option DV := none
  scope : Sl Bytes := Sl.nil

/-- members: `modifier`, `else`, `scope`, then the string parameters a b c d -/
def filterSet (s : FilterSt) (f : Nat) (v : DV) : Option FilterSt :=
  match f with
  | 0 => some { s with mod := some v }
  | 1 => some { s with els := some v }
  | 2 => (decScope s.scope v).map fun x => { s with scope := x }
  | 3 => (decString s.a v).map fun x => { s with a := x }
  | 4 => (decString s.b v).map fun x => { s with b := x }
  | 5 => (decString s.c v).map fun x => { s with c := x }
  | _ => (decString s.d v).map fun x => { s with d := x }

/-- `len(msg.ElseModifier) > 0` (cookie: `!= nil`): the member appeared at all -/
def elseNode : Option DV → Option Node
  | none => none
  | some d => some d.node

def filterNode (params : List Bytes) (mk : FilterSt → Cond) (body : DV) : Node :=
  match decStruct ([fModifier, fElse, fScope] ++ params) filterSet {} body with
  | none => .malformed
  | some s => .filter (mk s) (scopeOfSl s.scope) (rawNode s.mod) (elseNode s.els)

structure ProbeSt where
  label : Int := 0
  caps : Bytes := []
  fq : Bool := false
  fs : Bool := false
  scope : Sl Bytes := Sl.nil
  /-- class of the error TEXT (the model has no texts: errors are values identified by the leaf) -/
  etext : Int := 0

def probeFields : List Bytes := [fLabel, fCaps, fFailReq, fFailRes, fScope, fEtext]

def probeSet (s : ProbeSt) (f : Nat) (v : DV) : Option ProbeSt :=
  match f with
  | 0 => (decInt s.label v).map fun x => { s with label := x }
  | 1 => (decString s.caps v).map fun x => { s with caps := x }
  | 2 => (decBool s.fq v).map fun x => { s with fq := x }
  | 3 => (decBool s.fs v).map fun x => { s with fs := x }
  | 4 => (decScope s.scope v).map fun x => { s with scope := x }
  | _ => (decInt s.etext v).map fun x => { s with etext := x }

def capsOfStr (s : Bytes) : Caps :=
  if s == strBytes "q" then ⟨true, false⟩ else if s == strBytes "s" then ⟨false, true⟩
  else if s == strBytes "z" then ⟨false, false⟩ else ⟨true, true⟩

/-- the harness' `probeFromJSON` (negative labels are refused) -/
def probeNode (body : DV) : Node :=
  match decStruct probeFields probeSet {} body with
  | none => .malformed
  | some s => if s.label < 0 then .malformed else .leaf s.label.toNat (capsOfStr s.caps) s.fq s.fs (scopeOfSl s.scope)

/-- `port.filterFromJSON`: `port`, `modifier`, `scope`; there is no `else` (an `"else"` member is unknown). -/
structure PortSt where
  port : Int := 0
  mod : Option DV := none
  scope : Sl Bytes := Sl.nil

def portFields : List Bytes := [fModifier, fScope, fPort]

def portSet (s : PortSt) (f : Nat) (v : DV) : Option PortSt :=
  match f with
  | 0 => some { s with mod := some v }
  | 1 => (decScope s.scope v).map fun x => { s with scope := x }
  | _ => (decInt s.port v).map fun x => { s with port := x }

def portNode (body : DV) : Node :=
  match decStruct portFields portSet {} body with
  | none => .malformed
  | some s => .filter (.port s.port) (scopeOfSl s.scope) (rawNode s.mod) none

/-- The registry (`parseFuncs`) restricted to the modelled names; any other name is unknown
(registered names outside the model are excluded by the driver). -/
def bodyNode (name : Bytes) (body : DV) : Node :=
  if name == strBytes "fifo.Group" then fifoNode body
  else if name == strBytes "priority.Group" then prioNode body
  else if name == strBytes "url.Filter" then filterNode [fScheme, fHost, fPath, fQuery] (fun s => .url s.a s.b s.c s.d) body
  else if name == strBytes "header.Filter" then filterNode [fName, fValue] (fun s => .header s.a s.b) body
  else if name == strBytes "querystring.Filter" then filterNode [fName, fValue] (fun s => .query s.a s.b) body
  else if name == strBytes "method.Filter" then filterNode [fMethod] (fun s => .method s.a) body
  else if name == strBytes "cookie.Filter" then filterNode [fName, fValue] (fun s => .cookie s.a s.b) body
  else if name == strBytes "verif.Probe" then probeNode body
  else if name == strBytes "port.Filter" then portNode body
  else .unknown

/-- The value a `map[string]json.RawMessage` holds for `name` after decoding the members in order. -/
def lastValue (kvs : List (Bytes × DV)) (name : Bytes) : Option DV := (kvs.reverse.find? (·.1 == name)).map (·.2)

/-- `parse.FromJSON` on an object with these members: exactly one distinct key, looked up in the registry. -/
def nodeFromKvs (kvs : List (Bytes × DV)) : Node :=
  match (kvs.map (·.1)).eraseDups with
  | [name] =>
    match lastValue kvs name with
    | some body => bodyNode name body
    | none => .malformed
  | _ => .malformed

mutual
def annot : JVal → DV
  | .null => .null
  | .bool b => .bool b
  | .num n => .num n
  | .str s => .str s
  | .arr xs => .arr (annotList xs)
  | .obj kvs => .obj (annotKvs kvs) (nodeFromKvs (annotKvs kvs))
def annotList : List JVal → List DV
  | [] => []
  | x :: xs => annot x :: annotList xs
def annotKvs : List (Bytes × JVal) → List (Bytes × DV)
  | [] => []
  | (k, v) :: r => (k, annot v) :: annotKvs r
end

/-- **`parse.FromJSON` on a JSON value**: the configuration tree it says. -/
def fromJSON (j : JVal) : Node := (annot j).node

/-- `servePOST` with a body given as a JSON value. -/
def servePOSTJ (s : Active) (j : JVal) : Active × Except PErr Unit := servePOST s (fromJSON j)

/-! ### the plain JSON value of a tree (what a configuration author writes) -/

def jstr (s : String) : Bytes := strBytes s

def tokName : Tok → Bytes
  | .request => strBytes "request"
  | .response => strBytes "response"
  | .other => strBytes "x"

def renderScope : Scope → List (Bytes × JVal)
  | none => []
  | some ts => [(fScope, .arr (ts.map fun t => .str (tokName t)))]

def renderInt (i : Int) : JVal := .num ⟨decide (i < 0), i.natAbs, false⟩

def renderCaps (c : Caps) : Bytes :=
  match c.req, c.res with
  | true, true => strBytes "b"
  | true, false => strBytes "q"
  | false, true => strBytes "s"
  | false, false => strBytes "z"

def renderCond : Cond → Bytes × List (Bytes × JVal)
  | .method m => (strBytes "method.Filter", [(fMethod, .str m)])
  | .url s h p q => (strBytes "url.Filter", [(fScheme, .str s), (fHost, .str h), (fPath, .str p), (fQuery, .str q)])
  | .query n v => (strBytes "querystring.Filter", [(fName, .str n), (fValue, .str v)])
  | .header n v => (strBytes "header.Filter", [(fName, .str n), (fValue, .str v)])
  | .cookie n v => (strBytes "cookie.Filter", [(fName, .str n), (fValue, .str v)])
  | .port p => (strBytes "port.Filter", [(fPort, renderInt p)])

def Cond.isPort : Cond → Bool
  | .port _ => true
  | _ => false

mutual
def render : Node → JVal
  | .leaf l caps fq fs scope =>
    .obj [(strBytes "verif.Probe", .obj ([(fLabel, renderInt l), (fCaps, .str (renderCaps caps)), (fFailReq, .bool fq), (fFailRes, .bool fs)] ++ renderScope scope))]
  | .unknown => .obj [(strBytes "nosuch.Modifier", .obj [])]
  | .malformed => .null
  | .fifo scope agg cs =>
    .obj [(strBytes "fifo.Group", .obj ([(fAgg, .bool agg), (fModifiers, .arr (renderList cs))] ++ renderScope scope))]
  | .prio scope cs =>
    .obj [(strBytes "priority.Group", .obj ([(fModifiers, .arr (renderPList cs))] ++ renderScope scope))]
  | .filter c scope t e =>
    .obj [((renderCond c).1, .obj ((renderCond c).2 ++ [(fModifier, render t)] ++ renderElse e ++ renderScope scope))]
def renderList : List Node → List JVal
  | [] => []
  | c :: cs => render c :: renderList cs
def renderPList : List (Int × Node) → List JVal
  | [] => []
  | (p, c) :: cs => .obj [(fPriority, renderInt p), (fModifier, render c)] :: renderPList cs
def renderElse : Option Node → List (Bytes × JVal)
  | none => []
  | some e => [(fElse, render e)]
end

/-! ### trees whose numbers a JSON text can carry into Go's `int64` (port filters, which have no
`else` member, are left out of the round trip; their decoding is `portNode`) -/

mutual
def fits : Node → Bool
  | .leaf l _ _ _ _ => decide ((l : Int) ≤ maxInt64)
  | .unknown => true
  | .malformed => true
  | .fifo _ _ cs => fitsList cs
  | .prio _ cs => fitsPList cs
  | .filter c _ t e => !c.isPort && fits t && fitsOpt e
def fitsList : List Node → Bool
  | [] => true
  | c :: cs => fits c && fitsList cs
def fitsPList : List (Int × Node) → Bool
  | [] => true
  | (p, c) :: cs => decide (minInt64 ≤ p ∧ p ≤ maxInt64) && fits c && fitsPList cs
def fitsOpt : Option Node → Bool
  | none => true
  | some e => fits e
end

end Martian.Config
