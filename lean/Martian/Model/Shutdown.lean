/-
C07 — process model of `Proxy.Serve` / `handleLoop` / `handle` / `readRequest` / `Close`
(`/repo/proxy.go`), as an interleaving system.

Processes
* the acceptor (`Serve`): loop top `Closing()` check, `Accept`, the statements between `Accept` and
  `go p.handleLoop(conn)` (the debug log evaluates `conn.RemoteAddr()` there), the `go` statement;
* one handler per accepted connection (`handleLoop` + `handle`), program counter `Pc`;
* the caller of `Close()`: `close(p.closing)`, `connsMu.Lock()`, `conns.Wait()` (passes iff the
  counter is 0), `connsMu.Unlock()` + return.

Shared state: the `closing` channel (a Bool: closed or not), the wait-group counter `wg`, and the
mutex `connsMu` (held by `Close` exactly while its pc is `locked`/`zeroSeen`; handlers hold it only
inside the atomic step `add`, which is therefore disabled while `Close` holds it).

A *schedule* is an arbitrary `List Label`; `run` folds `step` over it (`none` = the label was not
enabled). Every theorem quantifies over all schedules, hence over any number of connections and
any placement of `Close`.

Fields marked *ghost* are history variables: `step` never branches on them.
Core-only (no Mathlib): the driver links this file.

Round 3 additions (all of `handle` / `handleConnectRequest` that matters for shutdown):
* CONNECT exchanges (`gotConnect`; `Handler.conn` says which path `handleConnectRequest` took): blind
  tunnels (`dialStart`/`dialEnd ok` = `p.connect`, `cwriteStart`/`cwriteEnd` = the 200/502, `tunnel` = the
  two `copySync` pumps, left only by `tunnelEnd` = both peers done — an ENVIRONMENT move, the proxy never
  tears a tunnel down); MITM (`mitmAccept` = the synthesised 200, `mitmPeek` = the blocking one-byte
  `brw.Read`, `mitmHandshake`, then either the ordinary serving loop on the decrypted connection
  (`secure := true`) or an HTTP/2 session `h2session`, which `h2.Config.Proxy(p.closing, …)` leaves on
  its own once `closing` is closed (`h2Stop`) or when a peer ends it (`h2PeerEnd`); after either the
  handler is back in `readRequest` (`handle` returned nil, `handleLoop` iterates);
* hijacking (`hijack`: `session.Hijack()` called inside a modifier; when the modifier returns `handle`
  returns nil, `handleLoop` sees `Hijacked()` and returns — the deferred `conn.Close()` runs, no response);
* write failures (`writeErr`: `res.Write`/`Flush` failed because the CLIENT went away or the per-iteration
  idle deadline `p.timeout` expired — an environment move; the handler closes the connection);
* further callers of `Close()` (`closeCall2`; the caller whose `close(p.closing)` executes first is the
  one tracked by `cpc`; every other caller's `close(p.closing)` panics: `closeChan2`).
-/
namespace Martian.Shutdown

/-- Program counter of one connection handler. -/
inductive Pc where
  | accepted        -- returned by `Accept`; `Serve` has not executed `go handleLoop` yet
  | spawned         -- goroutine exists; before `conns.Add(1)`
  | added           -- counted; before the `Closing()` check of `handleLoop`
  | idleRead        -- in `readRequest`, no byte of the next request has arrived
  | midHead         -- in `readRequest`, part of a request head has arrived
  | haveReq         -- `readRequest` returned a request; before `reqmod.ModifyRequest`
  | inReqmod
  | postReqmod
  | inRoundTrip
  | postRoundTrip
  | inResmod
  | postResmod      -- before the close decision
  | decided (close : Bool)
  | writing (close : Bool)
  | dialing         -- CONNECT, no MITM: in `p.connect` (`p.dial`)
  | cwriting        -- CONNECT: writing the 200 / 502 of `handleConnectRequest`
  | tunnel          -- blind tunnel: both `copySync` pumps running, handler waits for both
  | mitmPeek        -- MITM: 200 written; blocking `brw.Read` of the first tunnel byte
  | mitmHandshake   -- MITM: `tlsconn.Handshake()`
  | h2session       -- MITM, ALPN h2: inside `h2.Config.Proxy(p.closing, …)`
  | drainBody (close : Bool) -- response written; `handle` is returning and its deferred `req.Body.Close()` reads what the client has not yet sent of the request body
  | closingConn     -- `handleLoop` is returning; deferred `conn.Close()` pending
  | closed          -- connection closed; deferred `conns.Done()` pending
  | done
  deriving DecidableEq, Repr

/-- Program counter of the (single) caller of `Close()`. -/
inductive ClosePc where
  | idle | called | chanClosed | locked | zeroSeen | returned
  deriving DecidableEq, Repr

/-- Program counter of `Serve`. -/
inductive AccPc where
  | top                 -- loop top, before `if p.Closing()`
  | accepting           -- saw "not closing"; blocked in / about to call `Accept`
  | holding (k : Nat)   -- `Accept` returned connection k; before `go handleLoop`
  | stopped             -- returned (listener closed)
  deriving DecidableEq, Repr

/-- Which path of `handleConnectRequest` the current exchange is on (`no`: not a CONNECT). -/
inductive ConnKind where
  | no | pending | dialOk | dialFail | mitm
  deriving DecidableEq, Repr

/-- Outcome of the MITM TLS handshake. -/
inductive Hs where
  | fail | h1 | h2
  deriving DecidableEq, Repr

structure Handler where
  pc : Pc
  reqClose : Bool := false      -- `req.Close` of the current request
  resClose : Bool := false      -- `res.Close` after round trip / response modifier
  conn : ConnKind := .no        -- CONNECT path of the current exchange
  secure : Bool := false        -- serving the decrypted side of a MITM'd tunnel (writes are not observable in clear)
  -- ghost --
  late : Bool := false          -- `closing` was already signalled when this connection was accepted
  entered : Bool := false       -- passed the `Closing()` check of `handleLoop` with "not closing"
  reqs : Nat := 0               -- requests returned by `readRequest`
  started : Nat := 0            -- request-modifier starts
  completed : Nat := 0          -- responses completely written
  obsAtDecision : Bool := false -- was `closing` observable at the last close decision
  marks : List (Bool × Bool × Bool) := []  -- per completed response: (closing observable at decision, close asked by request/response, marked close)
  startedAfterReturn : Bool := false -- a request modifier started after `Close` had returned
  servedAfterMark : Bool := false    -- a request was read after a response marked close
  hijacked : Nat := 0           -- exchanges handed over to a hijacking modifier (no response from the proxy)
  aborted : Nat := 0            -- responses whose write failed (client gone / idle deadline)
  cresps : Nat := 0             -- completed responses to CONNECT (not recorded in `marks`)
  rtFailed : Nat := 0           -- round trips that returned an error (answered with a 502)
  bodyOpen : Bool := false      -- the current request announced a body the client has not finished sending, and the deferred `req.Body.Close()` will read it to the end (net/http does not when the request said `Connection: close` and the body has no trailer)
  deriving DecidableEq, Repr

structure Sys where
  closing : Bool := false
  wg : Nat := 0
  cpc : ClosePc := .idle
  acc : AccPc := .top
  hs : List Handler := []
  /-- ghost: some handler was still not `done` (or not even counted) when `Close` returned -/
  returnedEarly : Bool := false
  /-- further `Close()` calls that have not yet executed their `close(p.closing)` -/
  extra : Nat := 0
  /-- ghost: further `Close()` calls made so far -/
  calls2 : Nat := 0
  /-- `close of closed channel` panics raised in callers of `Close()` -/
  panics : Nat := 0
  deriving DecidableEq, Repr

def init : Sys := {}

/-- Handler-local labels. -/
inductive HL where
  | spawn | add | checkClosing
  | firstByte | gotReq (reqClose : Bool) | closingSeen | readErr
  | reqmodStart | reqmodEnd | rtStart | rtEnd (resClose : Bool) | resmodStart | resmodEnd
  | decide | writeStart | writeEnd | closeConn | finish
  -- round 3
  | gotConnect | hijack | dialStart | dialEnd (ok : Bool) | mitmAccept | cwriteStart | cwriteEnd
  | writeErr | tunnelEnd | peeked (tls : Bool) | handshakeEnd (r : Hs) | h2Stop | h2PeerEnd
  -- round 4: the upstream round trip returns an ERROR (dial refused, reset, truncated head, timeout):
  -- `handle` builds a 502 with a Warning header and goes on exactly as with an origin response
  | rtFail
  -- round 5: `readRequest` returned a request whose announced body (Content-Length / chunked / behind
  -- `Expect: 100-continue`) has not been received completely; `bodyDone`: the client sent the rest or went away
  | gotReqOpen (reqClose : Bool) | bodyDone
  deriving DecidableEq, Repr

inductive Label where
  | serveCheck | accept
  | h (k : Nat) (l : HL)
  | closeCall | closeChan | lock | waitZero | ret
  | closeCall2 | closeChan2
  deriving DecidableEq, Repr

def ClosePc.holdsMu : ClosePc → Bool
  | .locked | .zeroSeen => true
  | _ => false

def Pc.readable : Pc → Bool
  | .idleRead | .midHead => true
  | _ => false

/-- Is the handler counted in the wait group (between `Add(1)` and `Done()`)? -/
def Pc.counted : Pc → Bool
  | .accepted | .spawned | .done => false
  | _ => true

/-- A started exchange (request modifier entered) whose response is not completely written. -/
def Pc.inExchange : Pc → Bool
  | .inReqmod | .postReqmod | .inRoundTrip | .postRoundTrip | .inResmod | .postResmod
  | .decided _ | .writing _ | .dialing | .cwriting => true
  | _ => false

/-- The handler waits for a peer (client or tunnel target), whatever the shutdown state: an open blind
tunnel, the first byte of a MITM'd tunnel, the TLS handshake. -/
def Pc.peerBlocked : Pc → Bool
  | .tunnel | .mitmPeek | .mitmHandshake | .drainBody _ => true
  | _ => false

/-- Some completed response was marked `Connection: close`. -/
def anyMarked (ms : List (Bool × Bool × Bool)) : Bool := ms.any (·.2.2)

/-- One step of a handler. `closing`: the channel is closed; `mu`: `Close` holds `connsMu`;
`returned`: `Close` has returned (only recorded in a ghost field). -/
def hstep (closing mu returned : Bool) (h : Handler) : HL → Option Handler
  | .spawn => if h.pc = .accepted then some { h with pc := .spawned } else none
  | .add => if h.pc = .spawned ∧ mu = false then some { h with pc := .added } else none
  | .checkClosing =>
    if h.pc = .added then some { h with pc := if closing then .closingConn else .idleRead, entered := !closing } else none
  | .firstByte => if h.pc = .idleRead then some { h with pc := .midHead } else none
  | .gotReq rc =>
    -- `select` in readRequest: the request arm may be taken whether or not `closing` is closed
    if h.pc.readable then
      some { h with pc := .haveReq, reqClose := rc, resClose := false, conn := .no, reqs := h.reqs + 1, bodyOpen := false,
                    servedAfterMark := h.servedAfterMark || anyMarked h.marks }
    else none
  | .gotReqOpen rc =>
    if h.pc.readable then
      some { h with pc := .haveReq, reqClose := rc, resClose := false, conn := .no, reqs := h.reqs + 1, bodyOpen := true,
                    servedAfterMark := h.servedAfterMark || anyMarked h.marks }
    else none
  -- the deferred `req.Body.Close()` of `handle` (it reads and discards the rest of the body) returns
  | .bodyDone =>
    match h.pc with
    | .drainBody b => some { h with pc := if b then .closingConn else .idleRead, bodyOpen := false }
    | _ => none
  | .gotConnect =>
    if h.pc.readable then
      some { h with pc := .haveReq, reqClose := false, resClose := false, conn := .pending, reqs := h.reqs + 1, bodyOpen := false,
                    servedAfterMark := h.servedAfterMark || anyMarked h.marks }
    else none
  | .closingSeen => if h.pc.readable ∧ closing then some { h with pc := .closingConn } else none
  | .readErr => if h.pc.readable then some { h with pc := .closingConn } else none
  | .reqmodStart =>
    if h.pc = .haveReq then
      some { h with pc := .inReqmod, started := h.started + 1,
                    startedAfterReturn := h.startedAfterReturn || returned }
    else none
  | .reqmodEnd => if h.pc = .inReqmod then some { h with pc := .postReqmod } else none
  | .rtStart => if h.pc = .postReqmod ∧ h.conn = .no then some { h with pc := .inRoundTrip } else none
  -- `session.Hijack()` was called inside the modifier that is running; when it returns, `handle` returns
  -- nil and `handleLoop` returns because the session is hijacked
  | .hijack =>
    if h.pc = .inReqmod ∨ h.pc = .inResmod then some { h with pc := .closingConn, hijacked := h.hijacked + 1 } else none
  | .dialStart => if h.pc = .postReqmod ∧ h.conn ≠ .no then some { h with pc := .dialing } else none
  | .dialEnd ok =>
    if h.pc = .dialing then some { h with pc := .postRoundTrip, conn := if ok then .dialOk else .dialFail } else none
  | .mitmAccept => if h.pc = .postReqmod ∧ h.conn ≠ .no then some { h with pc := .postRoundTrip, conn := .mitm } else none
  | .cwriteStart => if h.pc = .postResmod ∧ h.conn ≠ .no then some { h with pc := .cwriting } else none
  | .cwriteEnd =>
    if h.pc = .cwriting then
      some { h with pc := (match h.conn with
                           | .dialOk => .tunnel
                           | .mitm => .mitmPeek
                           | _ => .idleRead),
                    completed := h.completed + 1, cresps := h.cresps + 1 }
    else none
  -- ABSTRACTIONS (over-approximations that skip states without visible events): a failed write of a CONNECT's
  -- 200 goes straight to `closingConn` (the code logs it and starts the pumps, which end at once on the dead
  -- connection); a failed MITM handshake goes to `idleRead` (the code returns the error: `handleLoop` leaves
  -- if it is closeable, else reads the next request from the dead connection and leaves on `readErr`).
  | .writeErr =>
    match h.pc with
    | .writing _ => some { h with pc := .closingConn, aborted := h.aborted + 1 }
    | .cwriting => some { h with pc := .closingConn, aborted := h.aborted + 1 }
    | _ => none
  | .tunnelEnd => if h.pc = .tunnel then some { h with pc := .closingConn } else none
  | .peeked tls =>
    if h.pc = .mitmPeek then some { h with pc := if tls then .mitmHandshake else .idleRead } else none
  | .handshakeEnd r =>
    if h.pc = .mitmHandshake then
      some { h with pc := (match r with | .h2 => .h2session | _ => .idleRead),
                    secure := (match r with | .h1 => true | _ => h.secure) }
    else none
  | .h2Stop => if h.pc = .h2session ∧ closing then some { h with pc := .idleRead } else none
  | .h2PeerEnd => if h.pc = .h2session then some { h with pc := .idleRead } else none
  | .rtEnd rc => if h.pc = .inRoundTrip then some { h with pc := .postRoundTrip, resClose := rc } else none
  -- `proxyutil.NewResponse(502, nil, req)`: `res.Close = req.Close`, which the decision reads through `reqClose`
  | .rtFail =>
    if h.pc = .inRoundTrip then some { h with pc := .postRoundTrip, resClose := false, rtFailed := h.rtFailed + 1 } else none
  | .resmodStart => if h.pc = .postRoundTrip then some { h with pc := .inResmod } else none
  | .resmodEnd => if h.pc = .inResmod then some { h with pc := .postResmod } else none
  | .decide =>
    if h.pc = .postResmod ∧ h.conn = .no then
      some { h with pc := .decided (h.reqClose || h.resClose || closing), obsAtDecision := closing }
    else none
  | .writeStart =>
    match h.pc with
    | .decided b => some { h with pc := .writing b }
    | _ => none
  | .writeEnd =>
    match h.pc with
    | .writing b =>
      some { h with pc := if h.bodyOpen then .drainBody b else if b then .closingConn else .idleRead, completed := h.completed + 1,
                    marks := h.marks ++ [(h.obsAtDecision, h.reqClose || h.resClose, b)] }
    | _ => none
  | .closeConn => if h.pc = .closingConn then some { h with pc := .closed } else none
  | .finish => if h.pc = .closed then some { h with pc := .done } else none

def HL.wgAfter (wg : Nat) : HL → Nat
  | .add => wg + 1
  | .finish => wg - 1
  | _ => wg

def step (s : Sys) : Label → Option Sys
  | .serveCheck =>
    if s.acc = .top then some { s with acc := if s.closing then .stopped else .accepting } else none
  | .accept =>
    if s.acc = .accepting then
      some { s with acc := .holding s.hs.length, hs := s.hs ++ [{ pc := .accepted, late := s.closing }] }
    else none
  | .h k l =>
    match s.hs[k]? with
    | none => none
    | some h =>
      if l = .spawn ∧ s.acc ≠ .holding k then none else
      match hstep s.closing s.cpc.holdsMu (s.cpc = .returned) h l with
      | none => none
      | some h' =>
        some { s with hs := s.hs.set k h', wg := l.wgAfter s.wg,
                      acc := if l = .spawn then .top else s.acc }
  | .closeCall => if s.cpc = .idle then some { s with cpc := .called } else none
  | .closeChan => if s.cpc = .called then some { s with cpc := .chanClosed, closing := true } else none
  | .lock => if s.cpc = .chanClosed then some { s with cpc := .locked } else none
  | .waitZero => if s.cpc = .locked ∧ s.wg = 0 then some { s with cpc := .zeroSeen } else none
  | .ret =>
    if s.cpc = .zeroSeen then
      some { s with cpc := .returned, returnedEarly := s.hs.any (fun h => h.pc != .done) }
    else none
  | .closeCall2 => some { s with extra := s.extra + 1, calls2 := s.calls2 + 1 }
  | .closeChan2 =>
    -- `close(p.closing)` of a caller that is not the first to execute it: the channel is closed already
    if 0 < s.extra ∧ s.closing then some { s with extra := s.extra - 1, panics := s.panics + 1 } else none

def run (s : Sys) : List Label → Option Sys
  | [] => some s
  | l :: ls => match step s l with
    | none => none
    | some s' => run s' ls

/-- States reachable from the initial state under some schedule. -/
def Reachable (s : Sys) : Prop := ∃ sched, run init sched = some s

/-- Labels that are moves of the proxy itself (not of a client or of a parked gate's owner, and not the
decision of the application to call `Close`). Client moves: a new connection (`accept` fires when a
client connects), bytes of a request (`firstByte`, `gotReq`), client close / timeout (`readErr`). -/
def Label.internal : Label → Bool
  | .accept | .closeCall | .closeCall2 => false
  | .h _ (.firstByte) | .h _ (.gotReq _) | .h _ .readErr => false
  | .h _ (.gotReqOpen _) | .h _ .bodyDone
  | .h _ .gotConnect | .h _ .writeErr | .h _ .tunnelEnd | .h _ (.peeked _) | .h _ (.handshakeEnd _)
  | .h _ .h2PeerEnd => false
  | _ => true

/-- Moves of a peer that end the wait of a peer-blocked handler (tunnel peers closing, the client of a
MITM'd tunnel sending its first byte / finishing or failing the handshake — or the idle deadline). -/
def Label.peerMove : Label → Bool
  | .h _ .tunnelEnd | .h _ (.peeked _) | .h _ (.handshakeEnd _) | .h _ .bodyDone => true
  | _ => false

end Martian.Shutdown
