/-
C07 — process model of `Proxy.Serve` / `handleLoop` / `handle` / `readRequest` / `Close`
(`/repo/proxy.go`), as an interleaving system.

Processes
* the acceptor (`Serve`): loop top `Closing()` check, `Accept`, the statements between `Accept` and
  `go p.handleLoop(conn)` (the debug log evaluates `conn.RemoteAddr()` there), the `go` statement;
* one handler per accepted connection (`handleLoop` + `handle`), program counter `Pc`;
* the caller of `Close()`: `close(p.closing)`, `connsMu.Lock()`, `conns.Wait()` (passes iff the
  counter is 0), `connsMu.Unlock()` + return.

Shared state: the `closing` channel (a Bool: closed or not), the wait-group counter `wg`, and the
mutex `connsMu` (held by `Close` exactly while its pc is `locked`/`zeroSeen`; handlers hold it only
inside the atomic step `add`, which is therefore disabled while `Close` holds it).

A *schedule* is an arbitrary `List Label`; `run` folds `step` over it (`none` = the label was not
enabled). Every theorem quantifies over all schedules, hence over any number of connections and
any placement of `Close`.

Fields marked *ghost* are history variables: `step` never branches on them.
Core-only (no Mathlib): the driver links this file.
-/
namespace Martian.Shutdown

/-- Program counter of one connection handler. -/
inductive Pc where
  | accepted        -- returned by `Accept`; `Serve` has not executed `go handleLoop` yet
  | spawned         -- goroutine exists; before `conns.Add(1)`
  | added           -- counted; before the `Closing()` check of `handleLoop`
  | idleRead        -- in `readRequest`, no byte of the next request has arrived
  | midHead         -- in `readRequest`, part of a request head has arrived
  | haveReq         -- `readRequest` returned a request; before `reqmod.ModifyRequest`
  | inReqmod
  | postReqmod
  | inRoundTrip
  | postRoundTrip
  | inResmod
  | postResmod      -- before the close decision
  | decided (close : Bool)
  | writing (close : Bool)
  | closingConn     -- `handleLoop` is returning; deferred `conn.Close()` pending
  | closed          -- connection closed; deferred `conns.Done()` pending
  | done
  deriving DecidableEq, Repr

/-- Program counter of the (single) caller of `Close()`. -/
inductive ClosePc where
  | idle | called | chanClosed | locked | zeroSeen | returned
  deriving DecidableEq, Repr

/-- Program counter of `Serve`. -/
inductive AccPc where
  | top                 -- loop top, before `if p.Closing()`
  | accepting           -- saw "not closing"; blocked in / about to call `Accept`
  | holding (k : Nat)   -- `Accept` returned connection k; before `go handleLoop`
  | stopped             -- returned (listener closed)
  deriving DecidableEq, Repr

structure Handler where
  pc : Pc
  reqClose : Bool := false      -- `req.Close` of the current request
  resClose : Bool := false      -- `res.Close` after round trip / response modifier
  -- ghost --
  late : Bool := false          -- `closing` was already signalled when this connection was accepted
  entered : Bool := false       -- passed the `Closing()` check of `handleLoop` with "not closing"
  reqs : Nat := 0               -- requests returned by `readRequest`
  started : Nat := 0            -- request-modifier starts
  completed : Nat := 0          -- responses completely written
  obsAtDecision : Bool := false -- was `closing` observable at the last close decision
  marks : List (Bool × Bool × Bool) := []  -- per completed response: (closing observable at decision, close asked by request/response, marked close)
  startedAfterReturn : Bool := false -- a request modifier started after `Close` had returned
  servedAfterMark : Bool := false    -- a request was read after a response marked close
  deriving DecidableEq, Repr

structure Sys where
  closing : Bool := false
  wg : Nat := 0
  cpc : ClosePc := .idle
  acc : AccPc := .top
  hs : List Handler := []
  /-- ghost: some handler was still not `done` (or not even counted) when `Close` returned -/
  returnedEarly : Bool := false
  deriving DecidableEq, Repr

def init : Sys := {}

/-- Handler-local labels. -/
inductive HL where
  | spawn | add | checkClosing
  | firstByte | gotReq (reqClose : Bool) | closingSeen | readErr
  | reqmodStart | reqmodEnd | rtStart | rtEnd (resClose : Bool) | resmodStart | resmodEnd
  | decide | writeStart | writeEnd | closeConn | finish
  deriving DecidableEq, Repr

inductive Label where
  | serveCheck | accept
  | h (k : Nat) (l : HL)
  | closeCall | closeChan | lock | waitZero | ret
  deriving DecidableEq, Repr

def ClosePc.holdsMu : ClosePc → Bool
  | .locked | .zeroSeen => true
  | _ => false

def Pc.readable : Pc → Bool
  | .idleRead | .midHead => true
  | _ => false

/-- Is the handler counted in the wait group (between `Add(1)` and `Done()`)? -/
def Pc.counted : Pc → Bool
  | .accepted | .spawned | .done => false
  | _ => true

/-- A started exchange (request modifier entered) whose response is not completely written. -/
def Pc.inExchange : Pc → Bool
  | .inReqmod | .postReqmod | .inRoundTrip | .postRoundTrip | .inResmod | .postResmod
  | .decided _ | .writing _ => true
  | _ => false

/-- Some completed response was marked `Connection: close`. -/
def anyMarked (ms : List (Bool × Bool × Bool)) : Bool := ms.any (·.2.2)

/-- One step of a handler. `closing`: the channel is closed; `mu`: `Close` holds `connsMu`;
`returned`: `Close` has returned (only recorded in a ghost field). -/
def hstep (closing mu returned : Bool) (h : Handler) : HL → Option Handler
  | .spawn => if h.pc = .accepted then some { h with pc := .spawned } else none
  | .add => if h.pc = .spawned ∧ mu = false then some { h with pc := .added } else none
  | .checkClosing =>
    if h.pc = .added then some { h with pc := if closing then .closingConn else .idleRead, entered := !closing } else none
  | .firstByte => if h.pc = .idleRead then some { h with pc := .midHead } else none
  | .gotReq rc =>
    -- `select` in readRequest: the request arm may be taken whether or not `closing` is closed
    if h.pc.readable then
      some { h with pc := .haveReq, reqClose := rc, resClose := false, reqs := h.reqs + 1,
                    servedAfterMark := h.servedAfterMark || anyMarked h.marks }
    else none
  | .closingSeen => if h.pc.readable ∧ closing then some { h with pc := .closingConn } else none
  | .readErr => if h.pc.readable then some { h with pc := .closingConn } else none
  | .reqmodStart =>
    if h.pc = .haveReq then
      some { h with pc := .inReqmod, started := h.started + 1,
                    startedAfterReturn := h.startedAfterReturn || returned }
    else none
  | .reqmodEnd => if h.pc = .inReqmod then some { h with pc := .postReqmod } else none
  | .rtStart => if h.pc = .postReqmod then some { h with pc := .inRoundTrip } else none
  | .rtEnd rc => if h.pc = .inRoundTrip then some { h with pc := .postRoundTrip, resClose := rc } else none
  | .resmodStart => if h.pc = .postRoundTrip then some { h with pc := .inResmod } else none
  | .resmodEnd => if h.pc = .inResmod then some { h with pc := .postResmod } else none
  | .decide =>
    if h.pc = .postResmod then
      some { h with pc := .decided (h.reqClose || h.resClose || closing), obsAtDecision := closing }
    else none
  | .writeStart =>
    match h.pc with
    | .decided b => some { h with pc := .writing b }
    | _ => none
  | .writeEnd =>
    match h.pc with
    | .writing b =>
      some { h with pc := if b then .closingConn else .idleRead, completed := h.completed + 1,
                    marks := h.marks ++ [(h.obsAtDecision, h.reqClose || h.resClose, b)] }
    | _ => none
  | .closeConn => if h.pc = .closingConn then some { h with pc := .closed } else none
  | .finish => if h.pc = .closed then some { h with pc := .done } else none

def HL.wgAfter (wg : Nat) : HL → Nat
  | .add => wg + 1
  | .finish => wg - 1
  | _ => wg

def step (s : Sys) : Label → Option Sys
  | .serveCheck =>
    if s.acc = .top then some { s with acc := if s.closing then .stopped else .accepting } else none
  | .accept =>
    if s.acc = .accepting then
      some { s with acc := .holding s.hs.length, hs := s.hs ++ [{ pc := .accepted, late := s.closing }] }
    else none
  | .h k l =>
    match s.hs[k]? with
    | none => none
    | some h =>
      if l = .spawn ∧ s.acc ≠ .holding k then none else
      match hstep s.closing s.cpc.holdsMu (s.cpc = .returned) h l with
      | none => none
      | some h' =>
        some { s with hs := s.hs.set k h', wg := l.wgAfter s.wg,
                      acc := if l = .spawn then .top else s.acc }
  | .closeCall => if s.cpc = .idle then some { s with cpc := .called } else none
  | .closeChan => if s.cpc = .called then some { s with cpc := .chanClosed, closing := true } else none
  | .lock => if s.cpc = .chanClosed then some { s with cpc := .locked } else none
  | .waitZero => if s.cpc = .locked ∧ s.wg = 0 then some { s with cpc := .zeroSeen } else none
  | .ret =>
    if s.cpc = .zeroSeen then
      some { s with cpc := .returned, returnedEarly := s.hs.any (fun h => h.pc != .done) }
    else none

def run (s : Sys) : List Label → Option Sys
  | [] => some s
  | l :: ls => match step s l with
    | none => none
    | some s' => run s' ls

/-- States reachable from the initial state under some schedule. -/
def Reachable (s : Sys) : Prop := ∃ sched, run init sched = some s

/-- Labels that are moves of the proxy itself (not of a client or of a parked gate's owner, and not the
decision of the application to call `Close`). Client moves: a new connection (`accept` fires when a
client connects), bytes of a request (`firstByte`, `gotReq`), client close / timeout (`readErr`). -/
def Label.internal : Label → Bool
  | .accept | .closeCall => false
  | .h _ (.firstByte) | .h _ (.gotReq _) | .h _ .readErr => false
  | _ => true

end Martian.Shutdown
