import Martian.Util
import Martian.Model.ConfigCond
/-!
C12 — JSON modifier configuration trees: `parse.FromJSON`, `parse.NewResult`, `fifo.groupFromJSON`,
`priority.groupFromJSON` (with the insertion loop of `AddRequestModifier`/`AddResponseModifier`),
the five `filterFromJSON` (url/header/querystring/method/cookie — textually the same function up to
the condition), `fifo.Group.Modify*`, `priority.Group.Modify*`, `filter.Filter.Modify*`,
`MultiError.Add`, and `martianhttp.Modifier.servePOST` / `Modify*`.

The tree below is what the JSON text *says* after `encoding/json` decoding (`Model/ConfigJson.lean`
models that decoding on JSON values: field lookup, duplicate keys, `null`s, number literals); a text
that is not JSON, or a sub-value of the wrong JSON type, is the node `malformed`. Filter conditions are
the concrete `Cond` of `Model/ConfigCond.lean`; evaluation is parametric in a valuation `Cond → Bool`,
which a concrete exchange induces through the five matchers (`Message.val`).
-/
namespace Martian.Config

/-- One element of a JSON `"scope"` list: `"request"`, `"response"`, or any other string. -/
inductive Tok | request | response | other
  deriving DecidableEq, Repr

/-- `none` = key absent or `null` (Go: nil slice); `some []` = `[]` (Go: empty non-nil slice). -/
abbrev Scope := Option (List Tok)

/-- Which of `martian.RequestModifier` / `martian.ResponseModifier` a leaf's Go type implements. -/
structure Caps where
  req : Bool
  res : Bool
  deriving DecidableEq, Repr

def Caps.has (c : Caps) : Kind → Bool
  | .req => c.req
  | .res => c.res

def Caps.both : Caps := ⟨true, true⟩

def Kind.tok : Kind → Tok
  | .req => .request
  | .res => .response

/-- The configuration tree as the JSON text says it. -/
inductive Node
  /-- the harness-registered `verif.Probe`: appends `label` to the trace, fails if told to -/
  | leaf (label : Nat) (caps : Caps) (failReq failRes : Bool) (scope : Scope)
  /-- `{"<name not in the registry>": …}` -/
  | unknown
  /-- not a JSON object with exactly one key, or a body of the wrong JSON shape -/
  | malformed
  | fifo (scope : Scope) (agg : Bool) (cs : List Node)
  | prio (scope : Scope) (cs : List (Int × Node))
  | filter (cond : Cond) (scope : Scope) (thn : Node) (els : Option Node)
  deriving Repr

/-- Error returned by a modifier: nil, a leaf's own error, or a `*martian.MultiError`. -/
inductive Err
  | none
  | single (label : Nat)
  | multi (labels : List Nat)
  deriving DecidableEq, Repr

/-- Every leaf error contained in an error value, in order ("reported"). -/
def Err.flat : Err → List Nat
  | .none => []
  | .single l => [l]
  | .multi ls => ls

abbrev Trace := List Nat

/-- A compiled modifier, seen from one side (request side or response side). -/
inductive Mod
  | probe (label : Nat) (fail : Bool)
  | noop
  | fifo (agg : Bool) (ms : List Mod)
  | prio (ms : List (Int × Mod))
  | filter (cond : Cond) (t f : Mod)
  deriving Repr

/-- `parse.Result`: `reqmod`, `resmod` (Go nil = `none`). -/
structure Result where
  req : Option Mod
  res : Option Mod
  deriving Repr

def Result.side (r : Result) : Kind → Option Mod
  | .req => r.req
  | .res => r.res

inductive PErr | unknownModifier | invalidScope | malformed
  deriving DecidableEq, Repr

/-- The `for _, s := range scope` loop of `parse.NewResult`. -/
def scopeLoop (caps : Caps) (reqmod resmod : Mod) : List Tok → Result → Except PErr Result
  | [], r => .ok r
  | .request :: ts, r => if !caps.req then .error .invalidScope else scopeLoop caps reqmod resmod ts { r with req := some reqmod }
  | .response :: ts, r => if !caps.res then .error .invalidScope else scopeLoop caps reqmod resmod ts { r with res := some resmod }
  | .other :: _, _ => .error .invalidScope

/-- `parse.NewResult(mod, scope)`; `reqmod`/`resmod` are the two views of the one Go object. -/
def newResult (caps : Caps) (reqmod resmod : Mod) : Scope → Except PErr Result
  | none => .ok ⟨if caps.req then some reqmod else none, if caps.res then some resmod else none⟩
  | some ts => scopeLoop caps reqmod resmod ts ⟨none, none⟩

/-- `priority.Group.Add{Request,Response}Modifier`: insert before the first element whose
priority is ≤ the new one; append otherwise. -/
def ins {α : Type} (x : Int × α) : List (Int × α) → List (Int × α)
  | [] => [x]
  | m :: ms => if x.1 ≥ m.1 then x :: m :: ms else m :: ins x ms

/-- Calling `Add…Modifier` for the elements of `xs` in listed order, starting from an empty group. -/
def insertAll {α : Type} (xs : List (Int × α)) : List (Int × α) := xs.foldl (fun acc x => ins x acc) []

def sideP (k : Kind) (pr : Int × Result) : Option (Int × Mod) := (pr.2.side k).map (fun m => (pr.1, m))

def orNoop : Option Mod → Mod
  | some m => m
  | none => .noop

mutual
/-- `parse.FromJSON` on the (already JSON-decoded) tree. -/
def compile : Node → Except PErr Result
  | .leaf l caps fq fs scope => newResult caps (.probe l fq) (.probe l fs) scope
  | .unknown => .error .unknownModifier
  | .malformed => .error .malformed
  | .fifo scope agg cs =>
    match compileList cs with
    | .error e => .error e
    | .ok rs => newResult Caps.both (.fifo agg (rs.filterMap (·.req))) (.fifo agg (rs.filterMap (·.res))) scope
  | .prio scope cs =>
    match compilePList cs with
    | .error e => .error e
    | .ok rs => newResult Caps.both (.prio (insertAll (rs.filterMap (sideP .req)))) (.prio (insertAll (rs.filterMap (sideP .res)))) scope
  | .filter c scope t e =>
    match compile t with
    | .error e => .error e
    | .ok m =>
      match compileOpt e with
      | .error e => .error e
      | .ok em =>
        newResult Caps.both (.filter c (orNoop m.req) (orNoop (em.bind (·.req))))
          (.filter c (orNoop m.res) (orNoop (em.bind (·.res)))) scope
/-- `for _, m := range msg.Modifiers { r, err := parse.FromJSON(m); if err != nil { return nil, err } … }` -/
def compileList : List Node → Except PErr (List Result)
  | [] => .ok []
  | c :: cs =>
    match compile c with
    | .error e => .error e
    | .ok r =>
      match compileList cs with
      | .error e => .error e
      | .ok rs => .ok (r :: rs)
def compilePList : List (Int × Node) → Except PErr (List (Int × Result))
  | [] => .ok []
  | (p, c) :: cs =>
    match compile c with
    | .error e => .error e
    | .ok r =>
      match compilePList cs with
      | .error e => .error e
      | .ok rs => .ok ((p, r) :: rs)
/-- `if len(msg.ElseModifier) > 0 { em, err := parse.FromJSON(msg.ElseModifier) … }` -/
def compileOpt : Option Node → Except PErr (Option Result)
  | none => .ok none
  | some e =>
    match compile e with
    | .error err => .error err
    | .ok r => .ok (some r)
end

/-- `MultiError.Add`: a `*MultiError` is unwrapped, anything else appended. -/
def merrAdd (merr : List Nat) : Err → List Nat
  | .none => merr
  | .single l => merr ++ [l]
  | .multi ls => merr ++ ls

abbrev Outcome := Trace × Err

/-- The loop of `fifo.Group.ModifyRequest/ModifyResponse` over the children's outcomes
(a child that is not reached contributes nothing). `merr` is the `MultiError` under construction. -/
def fifoLoop (agg : Bool) : List Outcome → List Nat → Outcome
  | [], merr => ([], if merr.isEmpty then .none else .multi merr)
  | (t, .none) :: rest, merr => let r := fifoLoop agg rest merr; (t ++ r.1, r.2)
  | (t, e) :: rest, merr =>
    if agg then let r := fifoLoop agg rest (merrAdd merr e); (t ++ r.1, r.2)
    else (t, e)

/-- The loop of `priority.Group.ModifyRequest/ModifyResponse`. -/
def prioLoop : List Outcome → Outcome
  | [] => ([], .none)
  | (t, .none) :: rest => let r := prioLoop rest; (t ++ r.1, r.2)
  | (t, e) :: _ => (t, e)

mutual
/-- `ModifyRequest` / `ModifyResponse` of a compiled modifier on a message whose condition
valuation (for that message kind) is `v`. -/
def eval (v : Cond → Bool) : Mod → Outcome
  | .probe l fail => ([l], if fail then .single l else .none)
  | .noop => ([], .none)
  | .fifo agg ms => fifoLoop agg (evalList v ms) []
  | .prio ms => prioLoop (evalPList v ms)
  | .filter c t f => if v c then eval v t else eval v f
def evalList (v : Cond → Bool) : List Mod → List Outcome
  | [] => []
  | m :: ms => eval v m :: evalList v ms
def evalPList (v : Cond → Bool) : List (Int × Mod) → List Outcome
  | [] => []
  | (_, m) :: ms => eval v m :: evalPList v ms
end

/-- A message, abstractly: which conditions hold for its request side and its response side
(`Message.toMsg` gives the one a concrete exchange induces). -/
abbrev Msg := Kind → Cond → Bool

/-- The valuation a concrete exchange induces through the five matchers. -/
def Message.toMsg (m : Message) : Msg := fun k c => holds c k m

/-- `martianhttp.Modifier.ModifyRequest/ModifyResponse` with the active configuration `r`
(`setRequestModifier(nil)` installs the noop). -/
def run (r : Result) (k : Kind) (msg : Msg) : Outcome := eval (msg k) (orNoop (r.side k))

/-- One exchange through the active configuration: its request as the exchange is at request time
(`m1`), its response as the exchange is at response time (`m2`: the URL, method, headers … may have
been rewritten in between; the response side reads `res.Request.*` then). -/
def xrun (r : Result) (m1 m2 : Message) : Outcome × Outcome := (run r .req m1.toMsg, run r .res m2.toMsg)

/-- State of `martianhttp.Modifier`: the active pair (initially noop/noop). -/
abbrev Active := Result
def Active.init : Active := ⟨none, none⟩

/-- `servePOST`: parse first; on error answer 400 and return; otherwise swap both under the lock. -/
def servePOST (s : Active) (body : Node) : Active × Except PErr Unit :=
  match compile body with
  | .error e => (s, .error e)
  | .ok r => (r, .ok ())

/-- `SetRequestModifier` / `SetResponseModifier`: one side is replaced under the lock (`nil` installs the
noop); the other side and the stored configuration text are left alone. -/
def setSide (s : Active) (k : Kind) (m : Option Mod) : Active :=
  match k with
  | .req => { s with req := m }
  | .res => { s with res := m }

/-- What happens to the endpoint between two messages: a configuration body is POSTed, or one side is
installed through the Go API. -/
inductive EOp
  | post (body : Node)
  | set (k : Kind) (m : Option Mod)

def applyOp (s : Active) : EOp → Active
  | .post b => (servePOST s b).1
  | .set k m => setSide s k m

def afterOps (s : Active) (ops : List EOp) : Active := ops.foldl applyOp s

/-! ### The specification: depth-first evaluation of the tree -/

/-- Does a node with this scope (and these capabilities) act on messages of kind `k`? -/
def acts (scope : Scope) (caps : Caps) (k : Kind) : Bool :=
  match scope with
  | none => caps.has k
  | some ts => ts.contains k.tok

abbrev SOutcome := Trace × List Nat

/-- Children in listed order; the first child that reports an error ends the group. -/
def firstError : List SOutcome → SOutcome
  | [] => ([], [])
  | (t, []) :: rest => let r := firstError rest; (t ++ r.1, r.2)
  | (t, es) :: _ => (t, es)

/-- All children run; every error is reported once, in order. -/
def allErrors : List SOutcome → SOutcome
  | [] => ([], [])
  | (t, es) :: rest => let r := allErrors rest; (t ++ r.1, es ++ r.2)

/-- Stable insertion sort by descending priority (textbook: insert each element, from the right,
in front of the first element that is not greater). -/
def stableSortDesc {α : Type} : List (Int × α) → List (Int × α)
  | [] => []
  | x :: xs => ins x (stableSortDesc xs)

/-- Descending priority, later-listed first among equals. -/
def prioOrder {α : Type} (cs : List (Int × α)) : List (Int × α) := stableSortDesc cs.reverse

mutual
/-- Effect of the tree on a message of kind `k` with condition valuation `v`:
(labels of the leaves that ran, in order; errors reported). -/
def specEval (k : Kind) (v : Cond → Bool) : Node → SOutcome
  | .leaf l caps fq fs scope =>
    if acts scope caps k then ([l], if (match k with | .req => fq | .res => fs) then [l] else []) else ([], [])
  | .unknown => ([], [])
  | .malformed => ([], [])
  | .fifo scope agg cs =>
    if acts scope Caps.both k then (if agg then allErrors (specList k v cs) else firstError (specList k v cs)) else ([], [])
  | .prio scope cs =>
    if acts scope Caps.both k then firstError ((prioOrder (specPList k v cs)).map (·.2)) else ([], [])
  | .filter c scope t e =>
    if acts scope Caps.both k then (if v c then specEval k v t else specOpt k v e) else ([], [])
def specList (k : Kind) (v : Cond → Bool) : List Node → List SOutcome
  | [] => []
  | c :: cs => specEval k v c :: specList k v cs
def specPList (k : Kind) (v : Cond → Bool) : List (Int × Node) → List (Int × SOutcome)
  | [] => []
  | (p, c) :: cs => (p, specEval k v c) :: specPList k v cs
def specOpt (k : Kind) (v : Cond → Bool) : Option Node → SOutcome
  | none => ([], [])
  | some e => specEval k v e
end

/-- A scope name is acceptable for a node with capabilities `caps`. -/
def tokOk (caps : Caps) : Tok → Bool
  | .request => caps.req
  | .response => caps.res
  | .other => false

/-- A scope is acceptable for a node with capabilities `caps`. -/
def scopeOk (caps : Caps) : Scope → Bool
  | none => true
  | some ts => ts.all (tokOk caps)

mutual
/-- The tree names only registered modifiers, supported scopes, and is well-formed — everywhere. -/
def valid : Node → Bool
  | .leaf _ caps _ _ scope => scopeOk caps scope
  | .unknown => false
  | .malformed => false
  | .fifo scope _ cs => validList cs && scopeOk Caps.both scope
  | .prio scope cs => validPList cs && scopeOk Caps.both scope
  | .filter _ scope t e => valid t && validOpt e && scopeOk Caps.both scope
def validList : List Node → Bool
  | [] => true
  | c :: cs => valid c && validList cs
def validPList : List (Int × Node) → Bool
  | [] => true
  | (_, c) :: cs => valid c && validPList cs
def validOpt : Option Node → Bool
  | none => true
  | some e => valid e
end

/-- The node itself (not looking below it) is unacceptable: unregistered name, wrong JSON shape,
or a scope its modifier does not support / that is not a scope name. -/
def badHere : Node → Bool
  | .unknown => true
  | .malformed => true
  | .leaf _ caps _ _ scope => !scopeOk caps scope
  | .fifo scope _ _ => !scopeOk Caps.both scope
  | .prio scope _ => !scopeOk Caps.both scope
  | .filter _ scope _ _ => !scopeOk Caps.both scope

mutual
/-- `p` holds of the node or of some node anywhere below it. -/
def anyNode (p : Node → Bool) : Node → Bool
  | .leaf l caps fq fs scope => p (.leaf l caps fq fs scope)
  | .unknown => p .unknown
  | .malformed => p .malformed
  | .fifo scope agg cs => p (.fifo scope agg cs) || anyList p cs
  | .prio scope cs => p (.prio scope cs) || anyPList p cs
  | .filter c scope t e => p (.filter c scope t e) || anyNode p t || anyOpt p e
def anyList (p : Node → Bool) : List Node → Bool
  | [] => false
  | c :: cs => anyNode p c || anyList p cs
def anyPList (p : Node → Bool) : List (Int × Node) → Bool
  | [] => false
  | (_, c) :: cs => anyNode p c || anyPList p cs
def anyOpt (p : Node → Bool) : Option Node → Bool
  | none => false
  | some e => anyNode p e
end

end Martian.Config
