import Martian.Model.HarLog
/-!
C17 — concurrent executions of `har.Logger`.

Every connection (thread) makes its calls one after the other; calls of different threads overlap.
What the implementation guarantees is read off the source by `vextract` (Generated/HarLog.lean,
`lockTable`): for each method, how many critical sections of `l.mu` touching the log one execution
goes through.  The machine below gives a call a semantics ONLY when that table shows the method to
be at most one critical section with no access outside it (`atomicIn`); then the call is one atomic
transition of the shared heap (`HarLog.step`), taken at some instant between its invocation and
its return (`fire`).  A schedule is the order in which threads take the lock.

`SplitRequest` is the shape of the seeded defect C17-B (duplicate check and insertion in two
critical sections): the machine refuses it, and the concrete interleaving below shows why.
Core Lean only.
-/
namespace Martian.HarLog.Conc

/-- A row of the regenerated table: method, least / greatest number of critical sections touching
    the log on one execution, accesses outside any critical section, lock/unlock balanced. -/
abbrev LockRow := String × Nat × Nat × Nat × Bool
abbrev LockTable := List LockRow

/-- The Go method whose critical section an `Op` is; `idle` = the call returned before the lock. -/
def methodOf : Op → Option String
  | .req _ => some "RecordRequest"
  | .res _ => some "RecordResponse"
  | .exp => some "Export"
  | .xreset => some "ExportAndReset"
  | .reset => some "Reset"
  | .idle _ => none

/-- Methods that build a message first and may return its error without taking the lock. -/
def mayReturnEarly (m : String) : Bool := m == "RecordRequest" || m == "RecordResponse"

/-- One row is what the model assumes of its method: on every path at most one critical section
    touches the log, nothing touches it outside, the locking is balanced; for the two record
    methods some path (the message error) touches the log not at all, every other method goes
    through exactly one. -/
def rowOK (r : LockRow) : Bool :=
  r.2.2.1 == 1 && r.2.2.2.1 == 0 && r.2.2.2.2 && r.2.1 == (if mayReturnEarly r.1 then 0 else 1)

/-- The lock discipline the concurrent semantics depends on: the five modelled methods are in the
    table with an acceptable row, and so is everything else that touches the log. -/
def LockOK (tbl : LockTable) : Bool :=
  ["RecordRequest", "RecordResponse", "Export", "ExportAndReset", "Reset"].all
      (fun m => (tbl.lookup m).any (fun v => rowOK (m, v))) &&
    tbl.all (fun r => r.2.2.1 ≤ 1 && r.2.2.2.1 == 0 && r.2.2.2.2)

/-- A call is one atomic step iff its method's row says so (a call that never locks trivially is). -/
def atomicIn (tbl : LockTable) (o : Op) : Bool :=
  match methodOf o with
  | none => true
  | some m => (tbl.lookup m).any (fun v => rowOK (m, v))

/-- A thread's remaining program: (tag, critical section) in program order. -/
abbrev Prog := List (Nat × Op)

structure Conf where
  heap : Heap
  progs : List Prog

/-- An entry of the execution trace: thread, call, what the call returned. -/
structure Ev where
  thread : Nat
  tag : Nat
  op : Op
  obs : Obs
deriving DecidableEq, Repr

inductive Fired where
  | stuck                      -- the next call of the thread is not atomic: no semantics
  | none                       -- the thread has nothing left to do
  | ev (c : Conf) (e : Ev)

/-- Thread `i` takes `l.mu`, runs the critical section of its next call, releases. -/
def fire (tbl : LockTable) (c : Conf) (i : Nat) : Fired :=
  match c.progs[i]? with
  | some ((t, o) :: rest) =>
    if atomicIn tbl o then
      .ev ⟨(step c.heap t o).1, c.progs.set i rest⟩ ⟨i, t, o, (step c.heap t o).2⟩
    else .stuck
  | _ => .none

/-- Execute a schedule (the order in which threads get the lock). -/
def exec (tbl : LockTable) : Conf → List Nat → Option (Conf × List Ev)
  | c, [] => some (c, [])
  | c, i :: is =>
    match fire tbl c i with
    | .stuck => none
    | .none => exec tbl c is
    | .ev c' e => (exec tbl c' is).map fun r => (r.1, e :: r.2)

/-- The sequential history a trace stands for. -/
def callsOf (tr : List Ev) : List (Nat × Op) := tr.map fun e => (e.tag, e.op)

/-- The calls thread `i` made, in trace order. -/
def ofThread (i : Nat) (tr : List Ev) : List (Nat × Op) := callsOf (tr.filter fun e => e.thread == i)

/-! ### The seeded shape: check and insert in two critical sections -/

namespace SplitRequest

/-- first critical section: `_, exists := l.entries[id]` -/
def check (h : Heap) (id : String) : Bool := (h.entries.get id).isSome

/-- second critical section: the insertion of `RecordRequest`, without looking again. -/
def insert (h : Heap) (id : String) (t : Nat) : Heap :=
  let a := h.alloc
  let h := { h with alloc := a + 1, ident := upd h.ident a id, rq := upd h.rq a t,
                    rs := upd h.rs a none, nx := upd h.nx a 0 }
  let h := { h with entries := h.entries.insert id a }
  let h := if h.tail = 0 then { h with tail := a } else h
  let h := { h with nx := upd h.nx a (h.nx h.tail) }
  let h := { h with nx := upd h.nx h.tail a }
  { h with tail := a }

/-- Two threads record a request with the same ID; both run their first section before either
    runs its second. Returns (did thread 1 see a duplicate, did thread 2, what Export then lists). -/
def race (id : String) : Bool × Bool × Obs :=
  let h0 := HarLog.init
  let d1 := check h0 id
  let d2 := check h0 id
  let h1 := if d1 then h0 else insert h0 id 0
  let h2 := if d2 then h1 else insert h1 id 1
  -- Export's loop runs until it is back at the tail (the model's `exportLog` bounds it by
  -- `len(entries)`, which this broken heap no longer matches: the map has one key, the ring two nodes)
  (d1, d2, match walk h2.nx h2.tail 8 h2.tail [] with
           | some es => .log (es.map (entOf h2))
           | none => .diverge)

end SplitRequest

/-! ### The handler level (har_handlers.go)

A handler call = parse the request, ONE call of a log method, write that call's result.  Then it is
the same atomic step as the method (`Op.exp`, `Op.xreset`, `Op.reset`) plus thread-local work.  The
regenerated `handlerTable` says, per `ServeHTTP`, the least / greatest number of log-method calls on
one execution and which methods' results are encoded to the client. -/

abbrev HandlerRow := String × Nat × Nat × List String

def HandlersOK (tbl : List HandlerRow) : Bool :=
  tbl.all (fun r => r.2.2.1 ≤ 1) &&
  (tbl.lookup "exportHandler").any (fun v => v.2.1 == 1 && v.2.2 == ["Export"]) &&
  (tbl.lookup "resetHandler").any (fun v => v.2.1 == 1 && v.2.2 == ["ExportAndReset"])

namespace SplitResetHandler

/-- The seeded shape C17-H: the reset handler answers from an `Export()` snapshot (completed
    entries only) and clears with a later `ExportAndReset()` whose result it drops.  One entry is
    pending at the snapshot and completed by another connection before the clear.
    Returns (what the handler answered, what the dropped call removed, what a later Export shows). -/
def race (id : String) : Obs × Obs × Obs :=
  let h0 := (recordRequest HarLog.init id 0).1
  let answered := match exportLog h0 with
    | .log es => Obs.log (es.filter fun e => e.done)
    | o => o
  let h1 := recordResponse h0 id 1          -- the other connection
  let (h2, dropped) := exportAndReset h1
  (answered, dropped, exportLog h2)

end SplitResetHandler

end Martian.HarLog.Conc
