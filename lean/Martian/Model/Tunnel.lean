import Martian.Util
/-!
C04 — the blind CONNECT tunnel of `proxy.go` (`handleConnectRequest`, no MITM; `connect`).

Transcribed from the code as it is after the fixes F04 and C04-fix:

    res, cconn, cerr := p.connect(req)           -- direct dial, or CONNECT through the downstream proxy;
                                                 -- for a 2xx answer res.Body := the bytes read ahead with the head
    if cerr != nil { 502 + Warning; resmod; res.Write(brw); brw.Flush(); return err }
    defer cconn.Close()
    res.Write(brw); brw.Flush()                  -- head, then the read-ahead bytes
    go copySync(cconn, brw, cconn, donec)        -- io.Copy(cconn, brw);  closeWrite(cconn)
    go copySync(conn, cconn, conn, donec)        -- io.Copy(conn, cconn); closeWrite(conn)
    <-donec; <-donec; return errClose            -- handleLoop: defer conn.Close()

together with the dispatch rules of Go 1.23 `io.Copy`, `bufio.Reader.WriteTo`, `net.TCPConn.WriteTo/ReadFrom`
that decide which relay loop actually runs. Timing is not modelled: an event is "this side made
bytes readable / finished sending / broke", and after every event the pump runs until it blocks in
`Read` again (a quiescent point).

A copy goroutine ends for one of three reasons (`EndReason`): its `Read` returns `io.EOF`, its `Read`
fails (ECONNRESET after the peer's abortive close, a deadline), or its `Write` fails (the destination
is gone: EPIPE / ECONNRESET, a deadline). `copySync` does the same thing in all three cases: it logs,
calls `closeWrite(dst)` and signals `donec`. When both have ended the handler returns `errClose`
and both connections are closed with a plain `Close()`; no socket option (SO_LINGER, deadlines) is
set on either connection inside the tunnel branch (regenerated fact `tunnelSockopts = []`), so that
final close is graceful: the kernel still delivers what was written before it (`receive`).
-/
namespace Martian.Tunnel
open Martian

/-- What the source side of a pump does between two quiescent points. -/
inductive Ev where
  | data (bs : Bytes)   -- bytes become readable (and the destination takes them)
  | eof                 -- the side finished sending (CloseWrite or Close): `Read` returns `io.EOF`
  | rerr                -- `Read` fails: the side closed abortively (RST → ECONNRESET)
  | deadline            -- `Read` fails with a timeout: the deadline that handleLoop armed on the client
                        -- connection before this exchange (`conn.SetDeadline(now + p.timeout)`) has passed;
                        -- nothing in the tunnel branch re-arms or clears it
  | dataW (bs : Bytes) (n : Nat)
                        -- bytes become readable but the destination is gone (it closed, or reset the
                        -- connection): the writes accept only the first `n` bytes, then `Write` fails
  deriving Repr, DecidableEq

/-- Why a copy goroutine's `io.Copy` returned. -/
inductive EndReason where
  | eof        -- `Read` returned io.EOF (io.Copy returns nil)
  | readErr    -- `Read` returned another error
  | writeErr   -- `Write` returned an error (or a short write)
  deriving Repr, DecidableEq

/-- How a connection is closed: `graceful` = plain `Close()` (FIN after everything written; the
kernel keeps delivering), `abortive` = `Close()` after `SetLinger(0)` (RST; whatever has not yet
reached the peer is discarded). -/
inductive CloseKind where
  | graceful
  | abortive
  deriving Repr, DecidableEq

/-- What the proxy does to one of its two connections, in order. -/
inductive Act where
  | write (bs : Bytes)
  | closeWrite
  | close (k : CloseKind)
  deriving Repr, DecidableEq

/-- The facts about a `net.Conn` value that `io.Copy` and `bufio` look at. -/
structure ConnKind where
  writerTo : Bool      -- implements io.WriterTo  (*net.TCPConn since Go 1.22; not *tls.Conn, not a plain wrapper)
  readerFrom : Bool    -- implements io.ReaderFrom (*net.TCPConn)
  deriving Repr, DecidableEq

/-- The relay loop that ends up running. -/
inductive Loop where
  | splice    -- both ends TCP: the kernel moves whatever is readable
  | copy32k   -- io.Copy's generic loop: Read into a 32 KiB buffer, Write it
  | bufio4k   -- bufio.Reader.WriteTo's own loop: fill the 4096-byte buffer, writeBuf
  deriving Repr, DecidableEq

/-- `io.Copy(dst, src)` for two connections.
`src.WriteTo(dst)` (TCPConn: genericWriteTo = io.Copy(dst, srcWithoutWriteTo)) then `dst.ReadFrom`
(TCPConn: splice if the source is TCP, else genericReadFrom), else the generic loop. -/
def ioCopyLoop (dst src : ConnKind) : Loop :=
  if src.writerTo then (if dst.readerFrom then .splice else .copy32k)
  else .copy32k

/-- `io.Copy(dst, brw)` = `brw.Reader.WriteTo(dst)` after it has written out its buffer:
`b.rd.(io.WriterTo)` first, then `w.(io.ReaderFrom)`, else its own fill/writeBuf loop. -/
def readerWriteToLoop (dst rd : ConnKind) : Loop :=
  if rd.writerTo then ioCopyLoop dst rd
  else if dst.readerFrom then .copy32k
  else .bufio4k

/-- chunk size minus one (so that a chunk is never empty); `splice` takes all that is readable -/
def Loop.pred (l : Loop) (avail : Nat) : Nat :=
  match l with
  | .splice => avail
  | .copy32k => 32767
  | .bufio4k => 4095

/-- `for { n := Read(buf); Write(buf[:n]) }` over the readable bytes: chunks of `k+1`. -/
def chunks (k : Nat) (bs : Bytes) : List Bytes :=
  if bs.isEmpty then [] else bs.take (k + 1) :: chunks k (bs.drop (k + 1))
termination_by bs.length
decreasing_by
  cases bs with
  | nil => simp at *
  | cons b t => simp [List.length_drop]; omega

/-- One copy goroutine. `held`: bytes it has (found buffered or read) but not yet written;
`ended`: why its `io.Copy` returned, if it has. -/
structure Pump where
  held : Bytes
  ended : Option EndReason
  deriving Repr, DecidableEq

/-- `io.Copy` has returned, `closeWrite(dst)` was called and `donec` signalled. -/
def Pump.finished (p : Pump) : Bool := p.ended.isSome

/-- A pump that has not started: `held` is what its reader already has buffered. -/
def Pump.fresh (held : Bytes) : Pump := ⟨held, none⟩

/-- Before its first blocking `Read`: `bufio.Reader.WriteTo` writes out `buf[r:w]` (`writeBuf`). -/
def Pump.start (p : Pump) : Pump × List Act :=
  if p.held.isEmpty then (p, []) else ({ p with held := [] }, [.write p.held])

/-- Does the event end `io.Copy`, and why. -/
def Ev.ending : Ev → Option EndReason
  | .data _ => none
  | .eof => some .eof
  | .rerr => some .readErr
  | .deadline => some .readErr
  | .dataW _ _ => some .writeErr

/-- The bytes of the event that the destination accepted. -/
def Ev.accepted : Ev → Bytes
  | .data bs => bs
  | .eof => []
  | .rerr => []
  | .deadline => []
  | .dataW bs n => bs.take n

/-- React to one event and run to the next quiescent point. After `io.Copy` has returned — with
`nil` (EOF), a read error or a write error, `copySync` makes no difference — the goroutine calls
`closeWrite(dst)` and signals `donec`. -/
def Pump.step (l : Loop) (p : Pump) (e : Ev) : Pump × List Act :=
  if p.finished then (p, []) else
  let ws := (chunks (l.pred e.accepted.length) e.accepted).map Act.write
  match e.ending with
  | none => (p, ws)
  | some r => ({ p with ended := some r }, ws ++ [.closeWrite])

def Pump.runFrom (l : Loop) : Pump → List Ev → Pump × List Act
  | p, [] => (p, [])
  | p, e :: es =>
    let r1 := p.step l e
    let r2 := Pump.runFrom l r1.1 es
    (r2.1, r1.2 ++ r2.2)

/-- The whole life of a pump up to the quiescent point after the given events. -/
def Pump.run (l : Loop) (p : Pump) (evs : List Ev) : Pump × List Act :=
  let r0 := p.start
  let r := Pump.runFrom l r0.1 evs
  (r.1, r0.2 ++ r.2)

/-- Bytes written to a destination, in order. -/
def bytesOf : List Act → Bytes
  | [] => []
  | .write bs :: as => bs ++ bytesOf as
  | .closeWrite :: as => bytesOf as
  | .close _ :: as => bytesOf as

/-- Has the destination been told that no more bytes follow? -/
def eofSeen (as : List Act) : Bool := as.contains .closeWrite

/-- Why (and whether) the pump fed with these events has ended: the first ending event. -/
def endOf : List Ev → Option EndReason
  | [] => none
  | e :: es => match e.ending with
    | none => endOf es
    | some r => some r

/-- The bytes of a direction that the destination's connection accepted before the pump ended:
everything the side sent before it finished or broke, cut where the destination stopped taking bytes. -/
def sentBy : List Ev → Bytes
  | [] => []
  | e :: es => match e.ending with
    | none => e.accepted ++ sentBy es
    | some _ => e.accepted

def closes (evs : List Ev) : Bool := (endOf evs).isSome

/-- The final close performed on a connection, if any. -/
def finalClose : List Act → Option CloseKind
  | [] => none
  | .close k :: _ => some k
  | _ :: as => finalClose as

/-- How a stream ends for the application reading it. -/
inductive Ending where
  | stillOpen
  | eof
  | reset
  deriving Repr, DecidableEq

structure Rx where
  bytes : Bytes
  ending : Ending
  deriving Repr, DecidableEq

/-- The TCP contract the tunnel relies on (trusted; exercised by the harness with slow readers and
multi-MiB uploads): what the peer's application eventually reads from a connection on which the
proxy performed `acts`, when `lost` of the written bytes had not yet reached the peer at the moment
of the final close (a slow reader, a full window). Written bytes arrive in order; `CloseWrite` and a
graceful `Close` put end-of-stream behind them; an abortive close discards the `lost` bytes and
shows a reset instead — unless nothing was outstanding and end-of-stream had already been sent. -/
def receive (lost : Nat) (acts : List Act) : Rx :=
  let all := bytesOf acts
  match finalClose acts with
  | none => ⟨all, if eofSeen acts then .eof else .stillOpen⟩
  | some .graceful => ⟨all, .eof⟩
  | some .abortive =>
    if lost = 0 ∧ eofSeen acts = true then ⟨all, .eof⟩ else ⟨all.take (all.length - lost), .reset⟩

structure Cfg where
  client : ConnKind    -- the accepted connection `conn` (brw reads from and writes to it)
  target : ConnKind    -- `cconn`: what `p.dial` returned (to the target, or to the downstream proxy)
  deriving Repr, DecidableEq

/-- The kind of error `p.dial` (or reading the downstream proxy's answer) returned. The code does not
look at it: `cerr != nil` is all the failed branch tests, and the status is the constant 502. -/
inductive DialErr where
  | refused       -- ECONNREFUSED
  | timeout       -- a net.Error with Timeout() = true (i/o timeout, black-holed address)
  | eof           -- io.EOF / unexpected EOF (the downstream proxy hung up before answering)
  | dns           -- *net.DNSError: no such host
  | ctxDeadline   -- context.DeadlineExceeded (also a Timeout() error)
  | other         -- any other error value
  deriving Repr, DecidableEq

/-- Result of `p.connect(req)`. -/
inductive Connect where
  | failed (k : DialErr)    -- `cerr != nil`, whatever the error is
  | answered (status : Nat) (ahead : Bytes)
      -- a connection, and the response the handler goes on with. Direct dial: `answered 200 []`
      -- (proxyutil.NewResponse(200)). Downstream proxy: its own answer, status relayed as it is;
      -- for EVERY 2xx (`res.StatusCode/100 == 2`: 200, 201, 202, 204, 299 …, any reason phrase, any headers)
      -- `ahead` = the tunnel bytes read ahead together with the head (they become res.Body); for any
      -- other status `ahead` = the body of that answer as its framing delimits it. `handleConnectRequest`
      -- does not look at the status: head, `ahead`, then the two copies, in every case.
  deriving Repr, DecidableEq

/-- A tunnel is established: the direct dial succeeded, or the downstream proxy acknowledged with any 2xx. -/
def Connect.established : Connect → Bool
  | .answered st _ => st / 100 == 2
  | .failed _ => false

structure Out where
  status : Nat
  warning : Bool
  toClient : List Act    -- after the response head
  toTarget : List Act
  released : Bool        -- the handler returned errClose: deferred cconn.Close(), handleLoop's conn.Close()
  kept : Bool := false   -- the handler returned brw.Flush()'s nil: the serving loop reads the next request
  deriving Repr, DecidableEq

/-- `io.Copy(brw, res.Body)` inside `res.Write`: one write of the body if there is one. -/
def optWrite : Bytes → List Act
  | [] => []
  | b :: bs => [.write (b :: bs)]

/-- The handler's return: `defer cconn.Close()` here, `defer conn.Close()` in handleLoop. Neither
connection has had SO_LINGER touched, so both closes are graceful. -/
def releaseActs (released : Bool) (k : CloseKind) : List Act := if released then [.close k] else []

/-- The pump client → target: `go copySync(cconn, brw, cconn, donec)`; `early` is what `brw.Reader`
already holds behind the CONNECT head. -/
def upPump (cfg : Cfg) (early : Bytes) (up : List Ev) : Pump × List Act :=
  Pump.run (readerWriteToLoop cfg.target cfg.client) (.fresh early) up

/-- The pump target → client: `go copySync(conn, cconn, conn, donec)`. -/
def downPump (cfg : Cfg) (down : List Ev) : Pump × List Act :=
  Pump.run (ioCopyLoop cfg.client cfg.target) (.fresh []) down

/-- `linger`: how the outbound connection is closed at the end (`graceful` is the code as it is). -/
def handleConnectWith (linger : CloseKind) (cfg : Cfg) (c : Connect) (early : Bytes) (up down : List Ev) : Out :=
  match c with
  | .failed _ =>
    -- res = 502 (a constant: the error kind is only copied into the Warning header); proxyutil.Warning(res.Header, cerr); resmod; res.Write(brw); brw.Flush(); return err
    { status := 502, warning := true, toClient := [], toTarget := [], released := false, kept := true }
  | .answered st ahead =>
    -- res.Write(brw) writes the head and then res.Body (= ahead); brw.Flush()
    let pre := optWrite ahead
    let u := upPump cfg early up
    let d := downPump cfg down
    -- <-donec; <-donec; return errClose  (then the deferred Close of both connections)
    let rel := u.1.finished && d.1.finished
    { status := st, warning := false,
      toClient := pre ++ d.2 ++ releaseActs rel .graceful,
      toTarget := u.2 ++ releaseActs rel linger,
      released := rel }

/-- The blind branch of `handleConnectRequest` as it is. -/
def handleConnect (cfg : Cfg) (c : Connect) (early : Bytes) (up down : List Ev) : Out :=
  handleConnectWith .graceful cfg c early up down

/-! ### The previous forms of the client-bound pump (kept to state what was wrong with them) -/
namespace Legacy

/-- Net effect of `io.Copy(brw, cconn)` = `bufio.Writer.ReadFrom` on its buffered path (the client
connection is not an `io.ReaderFrom`, e.g. `*tls.Conn`): bytes accumulate in the 4096-byte buffer,
which is written out only each time it is full; the pump's final `brw.Flush()` empties it. -/
def bufferedStep (cap : Nat) (p : Pump) (e : Ev) : Pump × List Act :=
  if p.finished then (p, []) else
  match e.ending with
  | none =>
    let all := p.held ++ e.accepted
    let full := all.length / cap * cap
    ({ p with held := all.drop full }, if full = 0 then [] else [.write (all.take full)])
  | some r =>
    ({ held := [], ended := some r }, (if p.held.isEmpty then [] else [.write p.held]) ++ [.closeWrite])

def bufferedRun (cap : Nat) : Pump → List Ev → Pump × List Act
  | p, [] => (p, [])
  | p, e :: es =>
    let r1 := bufferedStep cap p e
    let r2 := bufferedRun cap r1.1 es
    (r2.1, r1.2 ++ r2.2)

end Legacy

end Martian.Tunnel
