import Martian.Util
/-!
C04 — the blind CONNECT tunnel of `proxy.go` (`handleConnectRequest`, no MITM; `connect`).

Transcribed from the code as it is after the fixes F04 and C04-fix:

    res, cconn, cerr := p.connect(req)           -- direct dial, or CONNECT through the downstream proxy;
                                                 -- for a 2xx answer res.Body := the bytes read ahead with the head
    if cerr != nil { 502 + Warning; resmod; res.Write(brw); brw.Flush(); return err }
    defer cconn.Close()
    res.Write(brw); brw.Flush()                  -- head, then the read-ahead bytes
    go copySync(cconn, brw, cconn, donec)        -- io.Copy(cconn, brw);  closeWrite(cconn)
    go copySync(conn, cconn, conn, donec)        -- io.Copy(conn, cconn); closeWrite(conn)
    <-donec; <-donec; return errClose            -- handleLoop: defer conn.Close()

together with the dispatch rules of Go 1.23 `io.Copy`, `bufio.Reader.WriteTo`, `net.TCPConn.WriteTo/ReadFrom`
that decide which relay loop actually runs. Timing is not modelled: an event is "this side made
bytes readable / finished sending", and after every event the pump runs until it blocks in `Read`
again (a quiescent point).
-/
namespace Martian.Tunnel
open Martian

/-- What the source side of a pump does between two quiescent points. -/
inductive Ev where
  | data (bs : Bytes)   -- bytes become readable
  | eof                 -- the side finished sending (CloseWrite or Close): `Read` returns `io.EOF`
  deriving Repr, DecidableEq

/-- What a pump does to its destination, in order. -/
inductive Act where
  | write (bs : Bytes)
  | closeWrite
  deriving Repr, DecidableEq

/-- The facts about a `net.Conn` value that `io.Copy` and `bufio` look at. -/
structure ConnKind where
  writerTo : Bool      -- implements io.WriterTo  (*net.TCPConn since Go 1.22; not *tls.Conn, not a plain wrapper)
  readerFrom : Bool    -- implements io.ReaderFrom (*net.TCPConn)
  deriving Repr, DecidableEq

/-- The relay loop that ends up running. -/
inductive Loop where
  | splice    -- both ends TCP: the kernel moves whatever is readable
  | copy32k   -- io.Copy's generic loop: Read into a 32 KiB buffer, Write it
  | bufio4k   -- bufio.Reader.WriteTo's own loop: fill the 4096-byte buffer, writeBuf
  deriving Repr, DecidableEq

/-- `io.Copy(dst, src)` for two connections.
`src.WriteTo(dst)` (TCPConn: genericWriteTo = io.Copy(dst, srcWithoutWriteTo)) then `dst.ReadFrom`
(TCPConn: splice if the source is TCP, else genericReadFrom), else the generic loop. -/
def ioCopyLoop (dst src : ConnKind) : Loop :=
  if src.writerTo then (if dst.readerFrom then .splice else .copy32k)
  else .copy32k

/-- `io.Copy(dst, brw)` = `brw.Reader.WriteTo(dst)` after it has written out its buffer:
`b.rd.(io.WriterTo)` first, then `w.(io.ReaderFrom)`, else its own fill/writeBuf loop. -/
def readerWriteToLoop (dst rd : ConnKind) : Loop :=
  if rd.writerTo then ioCopyLoop dst rd
  else if dst.readerFrom then .copy32k
  else .bufio4k

/-- chunk size minus one (so that a chunk is never empty); `splice` takes all that is readable -/
def Loop.pred (l : Loop) (avail : Nat) : Nat :=
  match l with
  | .splice => avail
  | .copy32k => 32767
  | .bufio4k => 4095

/-- `for { n := Read(buf); Write(buf[:n]) }` over the readable bytes: chunks of `k+1`. -/
def chunks (k : Nat) (bs : Bytes) : List Bytes :=
  if bs.isEmpty then [] else bs.take (k + 1) :: chunks k (bs.drop (k + 1))
termination_by bs.length
decreasing_by
  cases bs with
  | nil => simp at *
  | cons b t => simp [List.length_drop]; omega

/-- One copy goroutine. `held`: bytes it has (found buffered or read) but not yet written. -/
structure Pump where
  held : Bytes
  finished : Bool
  deriving Repr, DecidableEq

/-- Before its first blocking `Read`: `bufio.Reader.WriteTo` writes out `buf[r:w]` (`writeBuf`). -/
def Pump.start (p : Pump) : Pump × List Act :=
  if p.held.isEmpty then (p, []) else ({ p with held := [] }, [.write p.held])

/-- React to one event and run to the next quiescent point. After `io.Copy` has returned
(EOF) the goroutine calls `closeWrite(dst)` and signals `donec`. -/
def Pump.step (l : Loop) (p : Pump) : Ev → Pump × List Act
  | .data bs => if p.finished then (p, []) else (p, (chunks (l.pred bs.length) bs).map .write)
  | .eof => if p.finished then (p, []) else ({ p with finished := true }, [.closeWrite])

def Pump.runFrom (l : Loop) : Pump → List Ev → Pump × List Act
  | p, [] => (p, [])
  | p, e :: es =>
    let r1 := p.step l e
    let r2 := Pump.runFrom l r1.1 es
    (r2.1, r1.2 ++ r2.2)

/-- The whole life of a pump up to the quiescent point after the given events. -/
def Pump.run (l : Loop) (p : Pump) (evs : List Ev) : Pump × List Act :=
  let r0 := p.start
  let r := Pump.runFrom l r0.1 evs
  (r.1, r0.2 ++ r.2)

/-- Bytes written to a destination, in order. -/
def bytesOf : List Act → Bytes
  | [] => []
  | .write bs :: as => bs ++ bytesOf as
  | .closeWrite :: as => bytesOf as

/-- Has the destination been told that no more bytes follow? -/
def eofSeen (as : List Act) : Bool := as.contains .closeWrite

/-- The bytes a side sends before it finishes sending. -/
def sentBy : List Ev → Bytes
  | [] => []
  | .data bs :: es => bs ++ sentBy es
  | .eof :: _ => []

def closes : List Ev → Bool
  | [] => false
  | .data _ :: es => closes es
  | .eof :: _ => true

structure Cfg where
  client : ConnKind    -- the accepted connection `conn` (brw reads from and writes to it)
  target : ConnKind    -- `cconn`: what `p.dial` returned (to the target, or to the downstream proxy)
  deriving Repr, DecidableEq

/-- Result of `p.connect(req)`. -/
inductive Connect where
  | refused                 -- dial error (or an unreadable answer of the downstream proxy)
  | ok (ahead : Bytes)      -- connection; `ahead`: tunnel bytes read together with the downstream proxy's
                            -- 2xx head (they become res.Body); always empty for a direct dial
  deriving Repr, DecidableEq

structure Out where
  status : Nat
  warning : Bool
  toClient : List Act    -- after the response head
  toTarget : List Act
  released : Bool        -- the handler returned errClose: deferred cconn.Close(), handleLoop's conn.Close()
  deriving Repr, DecidableEq

/-- The pump client → target: `go copySync(cconn, brw, cconn, donec)`; `early` is what `brw.Reader`
already holds behind the CONNECT head. -/
def upPump (cfg : Cfg) (early : Bytes) (up : List Ev) : Pump × List Act :=
  Pump.run (readerWriteToLoop cfg.target cfg.client) ⟨early, false⟩ up

/-- The pump target → client: `go copySync(conn, cconn, conn, donec)`. -/
def downPump (cfg : Cfg) (down : List Ev) : Pump × List Act :=
  Pump.run (ioCopyLoop cfg.client cfg.target) ⟨[], false⟩ down

def handleConnect (cfg : Cfg) (c : Connect) (early : Bytes) (up down : List Ev) : Out :=
  match c with
  | .refused =>
    -- res = 502; proxyutil.Warning(res.Header, cerr); resmod; res.Write(brw); brw.Flush(); return err
    { status := 502, warning := true, toClient := [], toTarget := [], released := false }
  | .ok ahead =>
    -- res.Write(brw) writes the head and then res.Body (= ahead); brw.Flush()
    let pre := if ahead.isEmpty then [] else [Act.write ahead]
    let u := upPump cfg early up
    let d := downPump cfg down
    -- <-donec; <-donec; return errClose
    { status := 200, warning := false, toClient := pre ++ d.2, toTarget := u.2,
      released := u.1.finished && d.1.finished }

/-! ### The previous forms of the client-bound pump (kept to state what was wrong with them) -/
namespace Legacy

/-- Net effect of `io.Copy(brw, cconn)` = `bufio.Writer.ReadFrom` on its buffered path (the client
connection is not an `io.ReaderFrom`, e.g. `*tls.Conn`): bytes accumulate in the 4096-byte buffer,
which is written out only each time it is full; the pump's final `brw.Flush()` empties it. -/
def bufferedStep (cap : Nat) (p : Pump) : Ev → Pump × List Act
  | .data bs =>
    if p.finished then (p, []) else
    let all := p.held ++ bs
    let full := all.length / cap * cap
    ({ p with held := all.drop full }, if full = 0 then [] else [.write (all.take full)])
  | .eof =>
    if p.finished then (p, []) else
    ({ held := [], finished := true }, (if p.held.isEmpty then [] else [.write p.held]) ++ [.closeWrite])

def bufferedRun (cap : Nat) : Pump → List Ev → Pump × List Act
  | p, [] => (p, [])
  | p, e :: es =>
    let r1 := bufferedStep cap p e
    let r2 := bufferedRun cap r1.1 es
    (r2.1, r1.2 ++ r2.2)

end Legacy

end Martian.Tunnel
