import Martian.Model.Verify
/-!
C13 — concurrency model of the verification machinery (core Lean only).

The sequential model (`Model/Verify.lean`) runs `Modify*`, `Verify*`, `Reset*` as indivisible
functions on a tree `T`. Here every one of them is broken into the ATOMIC STEPS it really
consists of, and concurrent executions are interleavings of those steps.

* A **cell** is the state of one verifier: the error list of its `*MultiError` (`Cell.errs`) or
  the single `err` field of a `pingback.Verifier` (`Cell.ping`). `T.cells side t` lists the cells of
  (one side of) a tree in the order in which the verify walk reads them; the shape of the tree never
  changes, so a concurrent state is just this list.
* A **step** acts on ONE cell: `add i e` (`MultiError.Add` under `mu.Lock`), `pong i`
  (`pingback.Verifier.ModifyRequest` clearing `err` under `mu.Lock`), `clr i` (a verifier's
  `Reset*Verifications`). That these are indivisible is exactly what the lock facts of
  `Generated/Verify.lean` say (every access to `MultiError.errs` and to pingback's `err` is made
  with the object's own mutex held, in write mode for writes) — `Model/VerifyLocks.lean` and
  `Props/C13/Locks.lean` turn those facts into the race-freedom theorem.
* `T.mprog side m off t` is the list of steps `ModifyRequest/Response` performs for the exchange
  `m`, in order (filter condition picks the branch, a non-aggregating group halts at the first
  modifier error, API exchanges skipped per verifier); `T.rprog` the steps of a reset walk. Which
  steps an exchange performs depends on the shape of the tree and on the exchange only, never on
  the verifiers' state.
* A verification query reads the cells one after the other (`Empty()` and `Errors()` under
  `mu.RLock`; the two reads of one verifier are equivalent to a single read: if the list was empty
  at the first the verifier contributes nothing, which is its value then; otherwise its value at the
  second is used). Other goroutines' steps may fall between two reads: `Cells.qrun c i gaps` reads
  cell `i`, `i+1`, … with the foreign steps `gaps[k]` executed just before the k-th read.
* Where a parent holds an exclusive lock for the whole `Verify*`/`Reset*` walk and a shared lock
  for the whole `Modify*` walk (`fifo.Group`: `reqmu/resmu.Lock` vs `RLock`; for resets also
  `martianhttp.Modifier`), queries and resets cannot overlap an exchange: a concurrent history is a
  sequence of **phases** — batches of arbitrarily interleaved exchanges, separated by atomic
  queries and resets (`Phase`).
-/
namespace Martian.Verify
open Martian

/-- State of one verifier. -/
inductive Cell
  | errs (l : List Bytes)
  | ping (msg : Bytes) (pending : Bool)
deriving Repr, DecidableEq

def Cell.report : Cell → List Bytes
  | .errs l => l
  | .ping msg p => if p then [msg] else []

def Cell.add (e : Bytes) : Cell → Cell
  | .errs l => .errs (l ++ [e])
  | c => c

def Cell.pong : Cell → Cell
  | .ping msg _ => .ping msg false
  | c => c

def Cell.clear : Cell → Cell
  | .errs _ => .errs []
  | .ping msg _ => .ping msg true

abbrev Cells := List Cell

/-- Atomic steps; each acts on one cell. -/
inductive Step
  | add (i : Nat) (e : Bytes)
  | pong (i : Nat)
  | clr (i : Nat)
deriving Repr, DecidableEq

def Step.cell : Step → Nat
  | .add i _ => i
  | .pong i => i
  | .clr i => i

def Step.fn : Step → Cell → Cell
  | .add _ e => Cell.add e
  | .pong _ => Cell.pong
  | .clr _ => Cell.clear

/-- Steps of exchanges (as opposed to steps of a reset). -/
def Step.isMod : Step → Bool
  | .clr _ => false
  | _ => true

def modAt (f : Cell → Cell) : Nat → Cells → Cells
  | _, [] => []
  | 0, c :: cs => f c :: cs
  | n + 1, c :: cs => c :: modAt f n cs

def Cells.step (c : Cells) (s : Step) : Cells := modAt s.fn s.cell c

def Cells.run (c : Cells) (σ : List Step) : Cells := σ.foldl Cells.step c

/-- What an atomic verify walk over all cells reports. -/
def Cells.report (c : Cells) : List Bytes := c.flatMap Cell.report

/-- What a read of cell `i` contributes to a report. -/
def Cells.read (c : Cells) (i : Nat) : List Bytes :=
  match c[i]? with
  | some x => x.report
  | none => []

/-- A query that is NOT atomic: before its k-th read the steps `gaps[k]` of other goroutines run. -/
def Cells.qrun : Cells → Nat → List (List Step) → List Bytes
  | _, _, [] => []
  | c, i, g :: gs => (c.run g).read i ++ Cells.qrun (c.run g) (i + 1) gs

/-- The errors the steps `σ` add to cell `i`. -/
def adds (i : Nat) (σ : List Step) : List Bytes :=
  σ.filterMap fun s => match s with
    | .add j e => if j = i then some e else none
    | _ => none

/-- No step of `σ` resets cell `i`. -/
def noClr (i : Nat) (σ : List Step) : Bool := σ.all fun s => s != .clr i

/-- What a read of a cell yields when it held `x` at some earlier moment and the steps `σ`, none of
them a reset of this cell, ran in between: a verifier's list has only grown, by exactly the errors
added in between; a pingback is still pending iff it was and none of the steps satisfied it. -/
def Cell.grown (i : Nat) (σ : List Step) : Cell → List Bytes
  | .errs l => l ++ adds i σ
  | .ping msg p => if p && !(σ.any (· == .pong i)) then [msg] else []

/-- What a non-atomic query that began in state `c` reports when no reset overlaps it: `pre` = the
foreign steps since it began, `gs` the foreign steps before each of the remaining reads. -/
def Cells.qspec : Cells → Nat → List Step → List (List Step) → List Bytes
  | _, _, _, [] => []
  | c, i, pre, g :: gs =>
    (match c[i]? with | some x => x.grown i (pre ++ g) | none => []) ++ Cells.qspec c (i + 1) (pre ++ g) gs

/-- No reset of a cell falls between the beginning of the query and its read of that cell. -/
def qNoReset : Nat → List Step → List (List Step) → Bool
  | _, _, [] => true
  | i, pre, g :: gs => noClr i (pre ++ g) && qNoReset (i + 1) (pre ++ g) gs

/-! ### the cells and the step programs of a tree -/

mutual
/-- The cells of one side of a tree, in the order of the verify walk. -/
def T.cells (side : Side) : T → Cells
  | .ver _ errs => [.errs errs]
  | .ping s h p q pend => [.ping (pingErr s h p q) pend]
  | .nop => []
  | .fail => []
  | .group _ ms => ms.cells side
  | .filter _ t f => if elseFirst side then f.cells side ++ t.cells side else t.cells side ++ f.cells side
  | .hide _ => []     -- verifiers below a priority.Group are invisible to the handlers; not modelled
def TL.cells (side : Side) : TL → Cells
  | .nil => []
  | .cons t l => t.cells side ++ l.cells side
end

def T.size (side : Side) (t : T) : Nat := (t.cells side).length
def TL.size (side : Side) (l : TL) : Nat := (l.cells side).length

mutual
/-- The atomic steps of `ModifyRequest` / `ModifyResponse` for the exchange `m`, in order; the
cells of this subtree are numbered from `off`. -/
def T.mprog (side : Side) (m : Msg) (off : Nat) : T → List Step
  | .ver k _ =>
    if skipsApi (k.apiKey side) && m.api then []
    else match check side k m with
      | some e => [.add off e]
      | none => []
  | .ping s h p q _ =>
    if skipsApi "pingback.req" && m.api then []
    else if pingMatch s h p q m then [.pong off] else []
  | .nop => []
  | .fail => []
  | .group agg ms => ms.mprog side m agg off
  | .filter c t f =>
    if c.holds side m then t.mprog side m (if elseFirst side then off + f.size side else off)
    else f.mprog side m (if elseFirst side then off else off + t.size side)
  | .hide _ => []
def TL.mprog (side : Side) (m : Msg) (agg : Bool) (off : Nat) : TL → List Step
  | .nil => []
  | .cons t l =>
    t.mprog side m off ++
      (if t.errors side m && !agg then [] else l.mprog side m agg (off + t.size side))
end

mutual
/-- The atomic steps of `ResetRequestVerifications` / `ResetResponseVerifications`, in order. -/
def T.rprog (side : Side) (off : Nat) : T → List Step
  | .ver _ _ => [.clr off]
  | .ping .. => [.clr off]
  | .nop => []
  | .fail => []
  | .group _ ms => ms.rprog side off
  | .filter _ t f =>
    let pt := t.rprog side (if elseFirst side then off + f.size side else off)
    let pf := f.rprog side (if elseFirst side then off else off + t.size side)
    (resetVisits side).flatMap fun b => if b then pt else pf
  | .hide _ => []
def TL.rprog (side : Side) (off : Nat) : TL → List Step
  | .nil => []
  | .cons t l => t.rprog side off ++ l.rprog side (off + t.size side)
end

/-! ### phased concurrent histories (exclusive lock held by verify and reset walks) -/

/-- One phase of a concurrent history under an exclusive verify/reset lock: a batch of
exchanges running concurrently (`ps` their step programs, `σ` the interleaving that happened),
an atomic query, or an atomic reset with steps `r`. -/
inductive Phase
  | batch (ps : List (List Step)) (σ : List Step)
  | query
  | reset (r : List Step)

/-- What really happens in a phase. -/
def Phase.conc (c : Cells) : Phase → Cells × Option (List Bytes)
  | .batch _ σ => (c.run σ, none)
  | .query => (c, some c.report)
  | .reset r => (c.run r, none)

/-- The phase with its exchanges run one after the other, in the order listed. -/
def Phase.seq (c : Cells) : Phase → Cells × Option (List Bytes)
  | .batch ps _ => (c.run ps.flatten, none)
  | .query => (c, some c.report)
  | .reset r => (c.run r, none)

/-- Final cells and the reports of the queries, in order. -/
def runPhases (f : Cells → Phase → Cells × Option (List Bytes)) : Cells → List Phase → Cells × List (List Bytes)
  | c, [] => (c, [])
  | c, p :: ps =>
    let r := f c p
    let r' := runPhases f r.1 ps
    (r'.1, (match r.2 with | some x => [x] | none => []) ++ r'.2)

/-- Cell states that differ only in the order of the recorded failures. -/
def Cell.equiv : Cell → Cell → Prop
  | .errs l, .errs l' => l.Perm l'
  | .ping m p, .ping m' p' => m = m' ∧ p = p'
  | _, _ => False

def Cells.equiv : Cells → Cells → Prop
  | [], [] => True
  | a :: as, b :: bs => a.equiv b ∧ Cells.equiv as bs
  | _, _ => False

/-- `σ` is an interleaving of the programs `ps`: it is built by repeatedly taking the next step
of one of them. -/
inductive Interleaving : List (List Step) → List Step → Prop
  | done (ps : List (List Step)) : (∀ p ∈ ps, p = []) → Interleaving ps []
  | pick (ps : List (List Step)) (i : Nat) (a : Step) (p : List Step) (σ : List Step) :
      ps[i]? = some (a :: p) → Interleaving (ps.set i p) σ → Interleaving ps (a :: σ)

/-- A phase is well formed: a batch is an interleaving of its programs, which consist of steps of
exchanges only. -/
def Phase.ok : Phase → Prop
  | .batch ps σ => Interleaving ps σ ∧ ∀ p ∈ ps, ∀ s ∈ p, s.isMod = true
  | _ => True

/-- Two lists of reports agree report by report up to the order of the entries. -/
def permLists : List (List Bytes) → List (List Bytes) → Prop
  | [], [] => True
  | a :: as, b :: bs => a.Perm b ∧ permLists as bs
  | _, _ => False

/-! ### one side of the sequential model, op by op -/

def T.stepOp (side : Side) (t : T) : Op → T
  | .traffic m => (t.modify side m).1
  | .query => t
  | .reset => t.reset side

def T.runOps (side : Side) (t : T) (h : List Op) : T := h.foldl (T.stepOp side) t

/-- The reports of the queries of a sequential history, in order. -/
def T.reports (side : Side) : T → List Op → List (List Bytes)
  | _, [] => []
  | t, .query :: h => handlerErrors (t.verify side) :: T.reports side t h
  | t, .traffic m :: h => T.reports side (t.modify side m).1 h
  | t, .reset :: h => T.reports side (t.reset side) h

/-- The reports the property demands of the queries of a sequential history: for each query, the
specification `T.spec` of the exchanges since the last reset (`acc` = those before the history). -/
def specReports (side : Side) (t : T) : List Msg → List Op → List (List Bytes)
  | _, [] => []
  | acc, .query :: h => t.spec side acc :: specReports side t acc h
  | acc, .traffic m :: h => specReports side t (acc ++ [m]) h
  | _, .reset :: h => specReports side t [] h

/-- A concurrent history in phases, at the level of operations: `batch ms σ` = the exchanges `ms`
run concurrently and their steps happen in the order `σ`. -/
inductive COp
  | batch (ms : List Msg) (σ : List Step)
  | query
  | reset

def COp.phase (side : Side) (t : T) : COp → Phase
  | .batch ms σ => .batch (ms.map fun m => t.mprog side m 0) σ
  | .query => .query
  | .reset => .reset (t.rprog side 0)

/-- A sequential history of the same operations: the exchanges of a batch one after the other,
in the order listed (any order that respects the goroutines' own order can be listed). -/
def COp.linear : COp → List Op
  | .batch ms _ => ms.map .traffic
  | .query => [.query]
  | .reset => [.reset]

def COp.ok (side : Side) (t : T) : COp → Prop
  | .batch ms σ => Interleaving (ms.map fun m => t.mprog side m 0) σ
  | _ => True

end Martian.Verify
