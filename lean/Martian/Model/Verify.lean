import Martian.Util
import Martian.Go.Strings
import Martian.Go.Strconv
import Martian.Generated.Verify
/-!
C13 — executable model of martian's verification machinery.

Transcribed from (as the code is now, after the `fix:` commits F13a/F13b/F13c-Empty):
* `multierror.go`            `MultiError.Add` (unwraps one nested level), `Errors`, `Empty`
* `verify/verify_handlers.go` `Handler.ServeHTTP` / `appendError`, `ResetHandler.ServeHTTP`
* `martianhttp/martianhttp.go` the root wrapper: delegates when the root is a verifier
* `fifo/fifo_group.go`       `ModifyRequest/Response` (halt on first error unless aggregating),
                             `Verify*`, `Reset*` walks
* `filter/filter.go`         `Modify*` (condition chooses the branch), `Verify*`/`Reset*` walks —
                             WHICH branch fields they visit, in which order, comes from
                             `Generated.Verify` (go/ast facts regenerated on every run)
* the seven verifiers (`status`, `header`, `method`, `url`, `querystring`, `failure`, `pingback`):
  expectation, error text, API-request exemption (per verifier from `Generated.Verify.skipsApi`)

A configuration tree is compiled (scope projection, as `parse.NewResult` does) into two
one-sided trees: the request side and the response side. They share no state
(`header.verifier` keeps `reqerr` and `reserr` apart; every other verifier is one-sided).

Domain of the model (the driver answers `out-of-model` outside it): header names already in
canonical form and not Host/Content-Length/Transfer-Encoding; URL parts and query strings over
`[A-Za-z0-9._~-] and slash` plus `=&` in queries (so `url.URL.String`, `%q`, `url.ParseQuery` are the
simple functions below); hosts without `*`; message scheme and host non-empty.
-/
namespace Martian.Verify
open Martian Martian.Go

abbrev Hdr := List (Bytes × List Bytes)

/-- One exchange as the verifiers see it. -/
structure Msg where
  api : Bool
  method : Bytes
  scheme : Bytes
  host : Bytes
  path : Bytes
  query : Bytes
  frag : Bytes
  reqH : Hdr
  status : Nat
  resH : Hdr
deriving Repr, DecidableEq

inductive Side | req | res
deriving Repr, DecidableEq

/-- `url.URL.String()` for Scheme/Host/Path/RawQuery/Fragment over the unescaped alphabet. -/
def urlString (s h p q f : Bytes) : Bytes :=
  (if s ≠ [] then s ++ strBytes ":" else []) ++
  (if s ≠ [] ∨ h ≠ [] then (if h ≠ [] ∨ p ≠ [] then strBytes "//" else []) ++ h else []) ++
  (if p ≠ [] ∧ p.head? ≠ some 47 ∧ h ≠ [] then strBytes "/" else []) ++ p ++
  (if q ≠ [] then strBytes "?" ++ q else []) ++
  (if f ≠ [] then strBytes "#" ++ f else [])

def Msg.url (m : Msg) : Bytes := urlString m.scheme m.host m.path m.query m.frag

/-- `martianurl.MatchHost` for a pattern without `*`. -/
def matchHost (host pat : Bytes) : Bool := host ≠ [] && host == pat

/-- `url.ParseQuery` over `[A-Za-z0-9._~=&-] and slash`: key → values in order of appearance. -/
def queryPairs (q : Bytes) : List (Bytes × Bytes) :=
  ((split q 38).filter (· ≠ [])).map fun kv =>
    (kv.takeWhile (· ≠ 61), (kv.dropWhile (· ≠ 61)).drop 1)

def formValues (q k : Bytes) : Option (List Bytes) :=
  let vs := ((queryPairs q).filter (·.1 == k)).map (·.2)
  if vs.isEmpty then none else some vs

def quote (s : Bytes) : Bytes := [34] ++ s ++ [34]

/-- Verifier kinds with their configured expectation. -/
inductive Kind
  | status (code : Nat)
  | header (name value : Bytes)
  | method (m : Bytes)
  | url (s h p q : Bytes)
  | qs (k v : Bytes)
  | failure (msg : Bytes)
deriving Repr, DecidableEq

/-- Filter conditions (`header.Filter`, `url.Filter`, `method.Filter`, `querystring.Filter`). -/
inductive Cond
  | header (name value : Bytes)
  | url (s h p q : Bytes)
  | method (m : Bytes)
  | qs (k v : Bytes)                            -- `querystring.Filter`
deriving Repr, DecidableEq

def Side.name : Side → Bytes
  | .req => strBytes "request"
  | .res => strBytes "response"

def Side.hdr (m : Msg) : Side → Hdr
  | .req => m.reqH
  | .res => m.resH

def urlPart (label got want : Bytes) : Bytes :=
  strBytes "\t" ++ label ++ strBytes ": got " ++ quote got ++ strBytes ", want " ++ quote want

/-- The expectation of a verifier evaluated on one exchange: `none` = met, `some text` = the
error it records (`fmt.Errorf` texts of the seven verifier files). -/
def check (side : Side) (k : Kind) (m : Msg) : Option Bytes :=
  match k, side with
  | .status code, .res =>
    if m.status ≠ code then
      some (strBytes "response(" ++ m.url ++ strBytes ") status code verify failure: got " ++
        natDigits m.status ++ strBytes ", want " ++ natDigits code)
    else none
  | .status _, .req => none
  | .header name value, side =>
    match (side.hdr m).lookup name with
    | none => some (side.name ++ strBytes "(" ++ m.url ++ strBytes ") header verify failure: got no header, want " ++
        name ++ strBytes " header")
    | some vs =>
      if (value = [] ∧ vs ≠ []) ∨ vs.contains value then none
      else some (side.name ++ strBytes "(" ++ m.url ++ strBytes ") header verify failure: got " ++ name ++
        strBytes " with value " ++ join vs (strBytes ", ") ++ strBytes ", want value " ++ value)
  | .method want, .req =>
    if want ≠ [] ∧ want ≠ m.method then
      some (strBytes "request(" ++ m.url ++ strBytes ") method verification error: got " ++ want ++
        strBytes ", want " ++ m.method)
    else none
  | .url s h p q, .req =>
    let fs :=
      (if s ≠ [] ∧ s ≠ m.scheme then [urlPart (strBytes "Scheme") m.scheme s] else []) ++
      (if h ≠ [] ∧ ¬ matchHost m.host h then [urlPart (strBytes "Host") m.host h] else []) ++
      (if p ≠ [] ∧ p ≠ m.path then [urlPart (strBytes "Path") m.path p] else []) ++
      (if q ≠ [] ∧ q ≠ m.query then [urlPart (strBytes "Query") m.query q] else [])
    if fs.isEmpty then none
    else some (strBytes "request(" ++ m.url ++ strBytes ") url verify failure:\n" ++ join fs (strBytes "\n"))
  | .qs key value, .req =>
    match formValues m.query key with
    | none => some (strBytes "request(" ++ m.url ++ strBytes ") param verification error: key " ++ key ++
        strBytes " not found")
    | some vals =>
      if value = [] ∨ vals.contains value then none
      else some (strBytes "request(" ++ m.url ++ strBytes ") param verification error: got " ++
        join vals (strBytes ", ") ++ strBytes " for key " ++ key ++ strBytes ", want " ++ value)
  | .failure msg, .req => some (strBytes "request(" ++ m.url ++ strBytes ") verification error: " ++ msg)
  | _, .res => none

/-- Key of a verifier's Modify method in `Generated.Verify.skipsApi`. -/
def Kind.apiKey (side : Side) : Kind → String
  | .status _ => "status.res"
  | .header _ _ => match side with | .req => "header.req" | .res => "header.res"
  | .method _ => "method.req"
  | .url .. => "url.req"
  | .qs .. => "qs.req"
  | .failure _ => "failure.req"

def skipsApi (key : String) : Bool := (Generated.Verify.skipsApi.lookup key).getD false

def Cond.holds (side : Side) (m : Msg) : Cond → Bool
  | .header name value => match (side.hdr m).lookup name with
    | none => false
    | some vs => vs.contains value
  | .url s h p q =>
    !((s ≠ [] && s ≠ m.scheme) || (h ≠ [] && !matchHost m.host h) || (p ≠ [] && p ≠ m.path) || (q ≠ [] && q ≠ m.query))
  | .method want => equalFold m.method want
  | .qs k v => match formValues m.query k with
    | none => false
    | some vs => v = [] || vs.contains v

/-- `pingback.Verifier.ModifyRequest`: the `switch` falls to `default` when no configured part differs
(host compared with `!=`, not `MatchHost`). -/
def pingMatch (s h p q : Bytes) (m : Msg) : Bool :=
  !((s ≠ [] && s ≠ m.scheme) || (h ≠ [] && h ≠ m.host) || (p ≠ [] && p ≠ m.path) || (q ≠ [] && q ≠ m.query))

def pingErr (s h p q : Bytes) : Bytes :=
  strBytes "request(" ++ urlString s h p q [] ++ strBytes "): pingback never occurred"

/-- Go `error` values that reach the handler: a plain error or a `*MultiError`. -/
inductive Err
  | one (msg : Bytes)
  | multi (es : List Err)
deriving Repr

mutual
/-- `err.Error()`; a `*MultiError` joins its elements with newlines. -/
def Err.render : Err → Bytes
  | .one m => m
  | .multi es => renderL es
def renderL : List Err → Bytes
  | [] => []
  | [e] => e.render
  | e :: e' :: es => e.render ++ [10] ++ renderL (e' :: es)
end

/-- `MultiError.Add`: unwrap a nested `*MultiError` (iff the extracted fact says the code does). -/
def addErr (acc : List Err) (e : Err) : List Err :=
  match Generated.Verify.multiErrorAddFlattens, e with
  | true, .multi es => acc ++ es
  | _, e => acc ++ [e]

def addOpt (acc : List Err) : Option Err → List Err
  | none => acc
  | some e => addErr acc e

/-- Branch fields of `filter.Filter` as booleans: `true` = the when-true field. -/
def branchOf (f : String) : Option Bool :=
  if f = "treqmod" ∨ f = "tresmod" then some true
  else if f = "freqmod" ∨ f = "fresmod" then some false
  else none

def verifyVisits : Side → List Bool
  | .req => Generated.Verify.filterVerifyReq.filterMap branchOf
  | .res => Generated.Verify.filterVerifyRes.filterMap branchOf

def resetVisits : Side → List Bool
  | .req => Generated.Verify.filterResetReq.filterMap branchOf
  | .res => Generated.Verify.filterResetRes.filterMap branchOf

mutual
/-- One side of a compiled modifier tree, with the verifiers' state. -/
inductive T
  | ver (k : Kind) (errs : List Bytes)          -- a verifier with a `*MultiError`
  | ping (s h p q : Bytes) (pending : Bool)     -- `pingback.Verifier`: a single `error` field
  | nop                                         -- a modifier that is no verifier (also `martian.Noop`, nil)
  | fail                                        -- a modifier that is no verifier and returns an error
  | group (agg : Bool) (ms : TL)                -- `fifo.Group` (this side's list)
  | filter (c : Cond) (t f : T)                 -- `filter.Filter` (this side's two branch fields)
  | hide (t : T)                                -- `priority.Group`: runs its children, is no verifier
inductive TL
  | nil
  | cons (t : T) (l : TL)
end

mutual
/-- Does the node return an error for this exchange (independent of the verifiers' state). -/
def T.errors (side : Side) (m : Msg) : T → Bool
  | .ver _ _ => false
  | .ping .. => false
  | .nop => false
  | .fail => true
  | .group agg ms => ms.errors side m agg
  | .filter c t f => if c.holds side m then t.errors side m else f.errors side m
  | .hide t => t.errors side m
def TL.errors (side : Side) (m : Msg) (agg : Bool) : TL → Bool
  | .nil => false
  | .cons t l => if t.errors side m && !agg then true else (t.errors side m || l.errors side m agg)
end

mutual
/-- `ModifyRequest` / `ModifyResponse`: new state and whether an error was returned.
A `priority.Group` (`hide`) implements neither verify interface, so the verify and reset walks of its
parent skip it: whatever the verifiers below it record can never be observed through the handlers,
and the model does not keep it; all that matters is whether the group returns an error, which it
does iff one of its children does (it stops at the first), whatever the priorities. -/
def T.modify (side : Side) (m : Msg) : T → T × Bool
  | .ver k errs =>
    if skipsApi (k.apiKey side) && m.api then (.ver k errs, false)
    else match check side k m with
      | some e => (.ver k (errs ++ [e]), false)
      | none => (.ver k errs, false)
  | .ping s h p q pend =>
    if skipsApi "pingback.req" && m.api then (.ping s h p q pend, false)
    else if pingMatch s h p q m then (.ping s h p q false, false)
    else (.ping s h p q pend, false)
  | .nop => (.nop, false)
  | .fail => (.fail, true)
  | .group agg ms => let r := ms.modify side m agg; (.group agg r.1, r.2)
  | .filter c t f =>
    if c.holds side m then let r := t.modify side m; (.filter c r.1 f, r.2)
    else let r := f.modify side m; (.filter c t r.1, r.2)
  | .hide t => (.hide t, t.errors side m)
def TL.modify (side : Side) (m : Msg) (agg : Bool) : TL → TL × Bool
  | .nil => (.nil, false)
  | .cons t l =>
    let r := t.modify side m
    if r.2 && !agg then (.cons r.1 l, true)
    else let r' := l.modify side m agg; (.cons r.1 r'.1, r.2 || r'.2)
end

mutual
/-- `VerifyRequests` / `VerifyResponses`. A modifier that is no verifier contributes nothing
(the parent's type assertion fails). -/
def T.verify (side : Side) : T → Option Err
  | .ver _ errs => if errs.isEmpty then none else some (.multi (errs.map .one))
  | .ping s h p q pend => if pend then some (.one (pingErr s h p q)) else none
  | .nop => none
  | .fail => none
  | .group _ ms => let es := ms.verify side; if es.isEmpty then none else some (.multi es)
  | .filter _ t f =>
    let vt := t.verify side
    let vf := f.verify side
    let es := (verifyVisits side).foldl (fun acc b => addOpt acc (if b then vt else vf)) []
    if es.isEmpty then none else some (.multi es)
  | .hide _ => none
def TL.verify (side : Side) : TL → List Err
  | .nil => []
  | .cons t l => addOpt [] (t.verify side) ++ l.verify side
end

mutual
/-- `ResetRequestVerifications` / `ResetResponseVerifications`. Resetting is idempotent, so a
branch is reset iff the method visits its field at least once. -/
def T.reset (side : Side) : T → T
  | .ver k _ => .ver k []
  | .ping s h p q _ => .ping s h p q true
  | .nop => .nop
  | .fail => .fail
  | .group agg ms => .group agg (ms.reset side)
  | .filter c t f =>
    .filter c (if (resetVisits side).contains true then t.reset side else t)
              (if (resetVisits side).contains false then f.reset side else f)
  | .hide t => .hide t
def TL.reset (side : Side) : TL → TL
  | .nil => .nil
  | .cons t l => .cons (t.reset side) (l.reset side)
end

/-- `verify.appendError`: a `*MultiError` contributes one message per element, anything else one. -/
def handlerErrors : Option Err → List Bytes
  | none => []
  | some (.multi es) => es.map Err.render
  | some (.one m) => [m]

/-- Both sides of the tree wired to the handlers. -/
structure State where
  req : T
  res : T

/-- Body of `verify.Handler` (GET): request errors, then response errors. -/
def State.query (s : State) : List Bytes :=
  handlerErrors (s.req.verify .req) ++ handlerErrors (s.res.verify .res)

/-- `verify.ResetHandler` (POST). -/
def State.reset (s : State) : State := ⟨s.req.reset .req, s.res.reset .res⟩

/-- One exchange through the proxy: request modifiers, then response modifiers (a modifier error
is logged by the proxy, the exchange goes on). -/
def State.traffic (s : State) (m : Msg) : State := ⟨(s.req.modify .req m).1, (s.res.modify .res m).1⟩

inductive Op
  | traffic (m : Msg)
  | query
  | reset

def State.step (s : State) : Op → State
  | .traffic m => s.traffic m
  | .query => s
  | .reset => s.reset

def State.run (s : State) (h : List Op) : State := h.foldl State.step s

/-! ### Configuration trees and scope projection (`parse.NewResult`) -/

/-- JSON `scope`: absent, or a list that names request and/or response. -/
structure Scope where
  given : Bool
  req : Bool
  res : Bool
deriving Repr, DecidableEq

inductive Leaf
  | ver (k : Kind)
  | ping (s h p q : Bytes)
  | nop
  | fail
deriving Repr

mutual
inductive Cfg
  | leaf (l : Leaf) (sc : Scope)
  | group (agg : Bool) (sc : Scope) (ms : CfgL)
  | filter (c : Cond) (sc : Scope) (t : Cfg) (f : Cfg)
  | prio (sc : Scope) (ms : CfgL)                -- `priority.Group` (the priorities do not matter, see `T.modify`)
  | absent                                       -- a missing `else` entry
inductive CfgL
  | nil
  | cons (c : Cfg) (l : CfgL)
end

/-- Which interfaces a leaf implements (request modifier, response modifier). -/
def Leaf.sides : Leaf → Bool × Bool
  | .ver (.status _) => (false, true)
  | .ver (.header _ _) => (true, true)
  | .ver _ => (true, false)
  | .ping .. => (true, false)
  | .nop => (true, true)
  | .fail => (true, true)

/-- Constructor-time rejections: `method.NewVerifier("")`, `querystring.NewVerifier("", _)`. -/
def Leaf.valid : Leaf → Bool
  | .ver (.method m) => m ≠ []
  | .ver (.qs k _) => k ≠ []
  | _ => true

def Side.pick (p : Bool × Bool) : Side → Bool
  | .req => p.1
  | .res => p.2

/-- `parse.NewResult`: `none` = rejected (scope names an interface the modifier lacks); otherwise
whether the result carries a modifier for `side`. -/
def scopeSel (impl : Bool × Bool) (sc : Scope) (side : Side) : Option Bool :=
  if sc.given then
    if (sc.req && !impl.1) || (sc.res && !impl.2) then none
    else some (side.pick (sc.req, sc.res))
  else some (side.pick impl)

def Leaf.toT : Leaf → T
  | .ver k => .ver k []
  | .ping s h p q => .ping s h p q true
  | .nop => .nop
  | .fail => .fail

mutual
/-- The `side` projection of a configuration: `none` = the configuration is rejected,
`some none` = no modifier for this side (nil), `some (some t)` = the compiled tree. -/
def Cfg.compile (side : Side) : Cfg → Option (Option T)
  | .leaf l sc =>
    if !l.valid then none else
    match scopeSel l.sides sc side with
    | none => none
    | some false => some none
    | some true => some (some l.toT)
  | .group agg sc ms =>
    match ms.compile side with
    | none => none
    | some l =>
      match scopeSel (true, true) sc side with
      | none => none
      | some false => some none
      | some true => some (some (.group agg l))
  | .filter c sc t f =>
    match t.compile side with
    | none => none
    | some tt =>
      match f.compile side with
      | none => none
      | some ff =>
        match scopeSel (true, true) sc side with
        | none => none
        | some false => some none
        | some true => some (some (.filter c (tt.getD .nop) (ff.getD .nop)))
  | .prio sc ms =>
    match ms.compile side with
    | none => none
    | some l =>
      match scopeSel (true, true) sc side with
      | none => none
      | some false => some none
      | some true => some (some (.hide (.group false l)))
  | .absent => some none
/-- `fifo.groupFromJSON`: children without a modifier for this side are not added. -/
def CfgL.compile (side : Side) : CfgL → Option TL
  | .nil => some .nil
  | .cons c l =>
    match c.compile side, l.compile side with
    | some (some t), some l' => some (.cons t l')
    | some none, some l' => some l'
    | _, _ => none
end

/-- `martianhttp.Modifier.servePOST`: both sides must parse; nil becomes the no-op modifier. -/
def Cfg.install (c : Cfg) : Option State :=
  match c.compile .req, c.compile .res with
  | some q, some s => some ⟨q.getD .nop, s.getD .nop⟩
  | _, _ => none

/-- `martianhttp.Modifier.SetRequestModifier` / `SetResponseModifier` with that side of a configuration
(a rejected configuration changes nothing; nil becomes the no-op modifier). The handlers look the
verifier up in the pair in force at the time of the call: there is no other state. -/
def State.setSide (s : State) (side : Side) (c : Cfg) : State :=
  match c.compile side with
  | none => s
  | some o => match side with
    | .req => ⟨o.getD .nop, s.res⟩
    | .res => ⟨s.req, o.getD .nop⟩

/-- Re-POSTing a configuration: both sides are replaced, or nothing when it is rejected. -/
def State.post (s : State) (c : Cfg) : State := (c.install).getD s

/-- Histories that also reconfigure. -/
inductive EOp
  | op (o : Op)
  | post (c : Cfg)
  | set (side : Side) (c : Cfg)

def State.stepE (s : State) : EOp → State
  | .op o => s.step o
  | .post c => s.post c
  | .set side c => s.setSide side c

def State.runE (s : State) (h : List EOp) : State := h.foldl State.stepE s

/-! ### Specification side: initial state, and the report a history calls for

`T.spec side t ms` is the report the property demands of (one side of) a tree after the
exchanges `ms` (those since the last reset), written denotationally: an exchange *reaches* a
node iff the filter conditions on the path select the node's branch and, inside a group that
does not aggregate errors, no earlier sibling returned an error for it; a verifier reports, in
exchange order, every non-API exchange that reaches it and does not meet its expectation
(`check`); a pingback verifier reports once unless a matching non-API exchange reached it;
reports are concatenated in tree order, one entry per failure (depth one). -/

mutual
/-- The initial state of every verifier in the tree, on both branches of every filter. -/
def T.clear : T → T
  | .ver k _ => .ver k []
  | .ping s h p q _ => .ping s h p q true
  | .nop => .nop
  | .fail => .fail
  | .group agg ms => .group agg ms.clear
  | .filter c t f => .filter c t.clear f.clear
  | .hide t => .hide t
def TL.clear : TL → TL
  | .nil => .nil
  | .cons t l => .cons t.clear l.clear
end


def leafSpec (side : Side) (k : Kind) (ms : List Msg) : List Bytes :=
  (ms.filter (fun m => !m.api)).filterMap (check side k)

def pingSeen (s h p q : Bytes) (ms : List Msg) : Bool := ms.any (fun m => !m.api && pingMatch s h p q m)

def pingSpec (s h p q : Bytes) (ms : List Msg) : List Bytes :=
  if pingSeen s h p q ms then [] else [pingErr s h p q]

/-- Report order of a filter's two branches: the order in which the code visits them (the
property does not prescribe one). -/
def elseFirst (side : Side) : Bool := (verifyVisits side).head? == some false

mutual
def T.spec (side : Side) : T → List Msg → List Bytes
  | .ver k _, ms => leafSpec side k ms
  | .ping s h p q _, ms => pingSpec s h p q ms
  | .nop, _ => []
  | .fail, _ => []
  | .group agg l, ms => l.spec side agg ms
  | .filter c t f, ms =>
    let st := t.spec side (ms.filter (fun m => c.holds side m))
    let sf := f.spec side (ms.filter (fun m => !c.holds side m))
    if elseFirst side then sf ++ st else st ++ sf
  | .hide _, _ => []
def TL.spec (side : Side) (agg : Bool) : TL → List Msg → List Bytes
  | .nil, _ => []
  | .cons t l, ms => t.spec side ms ++ l.spec side agg (ms.filter (fun m => agg || !t.errors side m))
end

def State.clear (s : State) : State := ⟨s.req.clear, s.res.clear⟩

/-- The report demanded after the exchanges `ms`: request side, then response side. -/
def State.spec (s : State) (ms : List Msg) : List Bytes := s.req.spec .req ms ++ s.res.spec .res ms

/-- The exchanges of a history since its last reset. -/
def sinceStep (acc : List Msg) : Op → List Msg
  | .traffic m => acc ++ [m]
  | .query => acc
  | .reset => []

def sinceReset (h : List Op) : List Msg := h.foldl sinceStep []

end Martian.Verify
