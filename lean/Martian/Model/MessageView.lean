import Martian.Util
import Martian.Go.Strings
import Martian.Go.Strconv
/-!
Executable model of `messageview` (SnapshotRequest / SnapshotResponse, the section readers, the
`Decode` body reader) and of what the three loggers do to the message they are handed.

The abstract message `Msg` is the part of `*http.Request` / `*http.Response` the code reads:
start-line fields, `Host`, `TransferEncoding`, `ContentLength`, the `Header` map flattened to a list
(canonical keys; wire order inside one key), the body bytes (`none` = nil `Body`) and the `Trailer`
map as it is once the body has been read (`none` = nil map).

Domain (stated, not modelled): header names are valid tokens and values contain no CR/LF and no
leading/trailing blanks (`Header.WriteSubset` would drop/rewrite them); body lengths are below
2^64 (the chunked reader rejects longer size lines).
-/
namespace Martian.MessageView
open Martian Martian.Go

abbrev KV := Bytes × Bytes

structure Msg where
  isReq : Bool
  method : Bytes
  url : Bytes
  major : Nat
  minor : Nat
  code : Nat
  status : Bytes
  host : Bytes
  te : List Bytes
  cl : Int
  hdr : List KV
  body : Option Bytes
  trailer : Option (List KV)
  deriving DecidableEq, Repr

def crlf : Bytes := [13, 10]
def colonSp : Bytes := [58, 32]

def chunkedTok : Bytes := strBytes "chunked"

/-- `mv.chunked`: set only when `TransferEncoding` is non-empty, from its last element. -/
def isChunked (te : List Bytes) : Bool :=
  match te.getLast? with
  | some t => t == chunkedTok
  | none => false

/-! ### `http.Header.Write` / `WriteSubset`: keys sorted, values in order -/

def bytesLt : Bytes → Bytes → Bool
  | [], [] => false
  | [], _ :: _ => true
  | _ :: _, [] => false
  | a :: as, b :: bs => a < b || (a == b && bytesLt as bs)

def insertKV (x : KV) : List KV → List KV
  | [] => [x]
  | y :: ys => if bytesLt y.1 x.1 then y :: insertKV x ys else x :: y :: ys

/-- Stable insertion sort by key (Go sorts the map keys; values of one key keep their order). -/
def sortKV (l : List KV) : List KV := l.foldr insertKV []

def field (kv : KV) : Bytes := kv.1 ++ colonSp ++ kv.2 ++ crlf

def fields (l : List KV) : Bytes := (l.map field).flatten

def writeSubset (h : List KV) (excl : List Bytes) : Bytes :=
  fields ((sortKV h).filter fun kv => !excl.contains kv.1)

def headerGet (h : List KV) (k : Bytes) : Bytes :=
  match h.find? (fun kv => kv.1 == k) with
  | some kv => kv.2
  | none => []

/-! ### start line and header section -/

def protoBytes (major minor : Nat) : Bytes :=
  strBytes "HTTP/" ++ natDigits major ++ [46] ++ natDigits minor

def startLine (m : Msg) : Bytes :=
  if m.isReq then m.method ++ [32] ++ m.url ++ [32] ++ protoBytes m.major m.minor
  else protoBytes m.major m.minor ++ [32] ++ m.status

def hostKey : Bytes := strBytes "Host"
def clKey : Bytes := strBytes "Content-Length"
def teKey : Bytes := strBytes "Transfer-Encoding"
def ctKey : Bytes := strBytes "Content-Type"
def ceKey : Bytes := strBytes "Content-Encoding"

/-- Everything `Snapshot*` writes before `mv.bodyoffset` is taken. -/
def headSection (m : Msg) : Bytes :=
  startLine m ++ crlf
  ++ (if m.isReq && !m.host.isEmpty then field (hostKey, m.host) else [])
  ++ (if m.te.isEmpty then [] else field (teKey, join m.te (strBytes ", ")))
  ++ (if !isChunked m.te && 0 ≤ m.cl then field (clKey, itoa m.cl) else [])
  ++ writeSubset m.hdr (if m.isReq then [hostKey, clKey, teKey] else [clKey, teKey])
  ++ crlf

/-! ### `httputil.NewChunkedWriter`: one chunk per `Write`, nothing for an empty `Write`, `0 CRLF` on `Close` -/

def hexDigitB (d : Nat) : UInt8 := if d < 10 then UInt8.ofNat (48 + d) else UInt8.ofNat (87 + d)

/-- `fmt.Sprintf("%x", n)`. -/
def hexDigits (n : Nat) : Bytes :=
  if n < 16 then [hexDigitB n] else hexDigits (n / 16) ++ [hexDigitB (n % 16)]
termination_by n
decreasing_by omega

def chunkedWrite (data : Bytes) : Bytes :=
  (if data.isEmpty then [] else hexDigits data.length ++ crlf ++ data ++ crlf) ++ [48] ++ crlf

/-! ### the snapshot -/

structure Opts where
  skipBody : Bool
  cts : List Bytes
  deriving DecidableEq, Repr

def matchContentType (cts : List Bytes) (ct : Bytes) : Bool := cts.any fun c => hasPrefix ct c

structure View where
  message : Bytes
  bodyoff : Nat
  traileroff : Nat
  chunked : Bool
  compress : Bytes
  deriving DecidableEq, Repr

/-- Is the body read (and replaced) by the snapshot? -/
def captures (o : Opts) (m : Msg) : Bool :=
  !((o.skipBody && !matchContentType o.cts (headerGet m.hdr ctKey)) || m.body.isNone)

def compressOf (m : Msg) : Bytes :=
  if !m.isReq && (m.code == 204 || m.code == 206) then [] else headerGet m.hdr ceKey

def framedBody (m : Msg) (data : Bytes) : Bytes :=
  if isChunked m.te then chunkedWrite data else data

/-- What is written after `mv.traileroffset`: `Trailer.Write` when the map is non-nil (no blank
line follows — F15a), otherwise the blank line that ends a chunked body. -/
def trailerSection (m : Msg) : Bytes :=
  match m.trailer with
  | some t => fields (sortKV t)
  | none => if isChunked m.te then crlf else []

def snapshot (o : Opts) (m : Msg) : View :=
  let head := headSection m
  if captures o m then
    let data := m.body.getD []
    let framed := framedBody m data
    { message := head ++ framed ++ trailerSection m, bodyoff := head.length,
      traileroff := head.length + framed.length, chunked := isChunked m.te, compress := compressOf m }
  else
    { message := head, bodyoff := head.length, traileroff := head.length,
      chunked := isChunked m.te, compress := compressOf m }

/-! ### the grammar: how an HTTP/1 peer serialises the same message (RFC 7230 §3, §4.1) -/

def wire (m : Msg) : Bytes :=
  headSection m ++
    (if isChunked m.te then
      chunkedWrite (m.body.getD []) ++ fields (sortKV (m.trailer.getD [])) ++ crlf
    else m.body.getD [])

/-! ### section readers (`io.NewSectionReader(r, off, n)` over `mv.message`) -/

def sectionOf (b : Bytes) (off n : Nat) : Bytes := (b.drop off).take n

def headerReader (v : View) : Bytes := sectionOf v.message 0 v.bodyoff
def bodyReader (v : View) : Bytes := sectionOf v.message v.bodyoff (v.traileroff - v.bodyoff)
def trailerReader (v : View) : Bytes := sectionOf v.message v.traileroff (v.message.length - v.traileroff)
/-- `mv.Reader()` without options: `io.MultiReader(hr, br, tr)`. -/
def reader (v : View) : Bytes := headerReader v ++ bodyReader v ++ trailerReader v

/-! ### `httputil.NewChunkedReader` (net/http/internal): size line, data, CRLF, …, until size 0 -/

def hexValB (c : UInt8) : Option Nat :=
  if 48 ≤ c ∧ c ≤ 57 then some (c.toNat - 48)
  else if 97 ≤ c ∧ c ≤ 102 then some (c.toNat - 87)
  else if 65 ≤ c ∧ c ≤ 70 then some (c.toNat - 55)
  else none

def parseHexAcc : Bytes → Nat → Option Nat
  | [], acc => some acc
  | c :: r, acc => match hexValB c with
    | some d => parseHexAcc r (acc * 16 + d)
    | none => none

/-- `parseHexUint` (the 16-digit overflow guard is outside the stated domain). -/
def parseHexUint (l : Bytes) : Option Nat := if l.isEmpty then none else parseHexAcc l 0

/-- Split at the first LF: (line without LF, rest); `none` when there is no LF (unexpected EOF). -/
def splitLine : Bytes → Option (Bytes × Bytes)
  | [] => none
  | c :: r => if c == 10 then some ([], r) else
    match splitLine r with
    | some (l, rest) => some (c :: l, rest)
    | none => none

def isLineWs (c : UInt8) : Bool := c == 32 || c == 9 || c == 13 || c == 10

def trimRightWs (l : Bytes) : Bytes := (l.reverse.dropWhile isLineWs).reverse

def removeChunkExt (l : Bytes) : Bytes := l.takeWhile (· != 59)

def dechunkAux : Nat → Bytes → Bytes → Option Bytes
  | 0, _, _ => none
  | fuel + 1, inp, acc =>
    match splitLine inp with
    | none => none
    | some (line, rest) =>
      match parseHexUint (removeChunkExt (trimRightWs line)) with
      | none => none
      | some 0 => some acc
      | some n =>
        if rest.length < n + 2 then none
        else if (rest.drop n).take 2 != crlf then none
        else dechunkAux fuel (rest.drop (n + 2)) (acc ++ rest.take n)

def dechunk (inp : Bytes) : Option Bytes := dechunkAux (inp.length + 1) inp []

def gzipTok : Bytes := strBytes "gzip"
def deflateTok : Bytes := strBytes "deflate"

/-- `BodyReader(Decode())` read to the end: de-chunk when the message was chunked, then
gzip/deflate by `Content-Encoding`. The decompressors are a parameter (`none` = error). -/
def decodeBody (inflate : Bytes → Bytes → Option Bytes) (v : View) : Option Bytes :=
  let raw := if v.chunked then dechunk (bodyReader v) else some (bodyReader v)
  if v.compress == gzipTok || v.compress == deflateTok then raw.bind (inflate v.compress) else raw

/-! ### the loggers, as far as the message they are handed is concerned

The body is modelled as a reader: `body = some rest` are the bytes still unread. `readAll` drains
it; the snapshot then installs a fresh reader over the bytes it read. -/

def readAll (m : Msg) : Bytes × Msg := (m.body.getD [], { m with body := m.body.map fun _ => [] })

/-- `Snapshot*` on the message itself: body drained and replaced when captured, untouched otherwise. -/
def snapshotMsg (o : Opts) (m : Msg) : Msg :=
  if captures o m then
    let (data, m') := readAll m
    { m' with body := some data }
  else m

inductive Capture where
  | all | nothing
  | optIn (cts : List Bytes)
  | optOut (cts : List Bytes)
  deriving DecidableEq, Repr

/-- `har.*LoggingForContentTypes`: prefix match after lower-casing both sides. -/
def Capture.decide (c : Capture) (ct : Bytes) : Bool :=
  match c with
  | .all => true
  | .nothing => false
  | .optIn cts => cts.any fun p => hasPrefix (toLower ct) (toLower p)
  | .optOut cts => !(cts.any fun p => hasPrefix (toLower ct) (toLower p))

inductive Logger where
  | har (post body : Capture)
  | marbl
  | text (headersOnly decode : Bool)
  | snapshot (o : Opts)
  deriving DecidableEq, Repr

inductive Record where
  | har (withBody : Bool)
  | marbl (headerFrames : Nat)
  | text (logged : Bytes)
  | view (v : View)
  deriving DecidableEq, Repr

def noOpts : Opts := { skipBody := false, cts := [] }

/-- `har.postData`'s early return: no Content-Length and no Transfer-Encoding. -/
def harHasPostData (m : Msg) : Bool := !(m.cl ≤ 0 && m.te.isEmpty)

def textBanner (m : Msg) : Bytes :=
  [10] ++ List.replicate 80 45 ++ [10] ++
    (if m.isReq then strBytes "Request to " ++ m.url else strBytes "Response from ") ++ [10] ++
    List.replicate 80 45 ++ [10]

/-- One logger applied to one message of an exchange whose context has the given skip flag:
the message as it is handed on, and what was recorded. -/
def logMsg (l : Logger) (skipLogging : Bool) (m : Msg) : Msg × Option Record :=
  match l with
  | .snapshot o => (snapshotMsg o m, some (.view (snapshot o m)))
  | _ =>
  if skipLogging then (m, none) else
  match l with
  | .har post body =>
    let ct := headerGet m.hdr ctKey
    if m.isReq then
      if harHasPostData m && post.decide ct then (snapshotMsg noOpts m, some (.har true))
      else (m, some (.har false))
    else
      if body.decide ct then (snapshotMsg noOpts m, some (.har true)) else (m, some (.har false))
  | .marbl =>
    -- the body is wrapped by a pass-through reader: reads return what the wrapped body returns
    (m, some (.marbl (m.hdr.length + (if m.isReq then 8 else 4))))
  | .text headersOnly _ =>
    let o : Opts := { skipBody := headersOnly, cts := [] }
    (snapshotMsg o m, some (.text (textBanner m ++ reader (snapshot o m))))
  | .snapshot o => (snapshotMsg o m, some (.view (snapshot o m)))

/-! ### logger error paths

A logger may give up with an error after it has touched the message: `har.postData` when the body
does not parse as the form / multipart type it declares, `har.NewResponse` and the text logger with
`decode` when the body does not decode as its `Content-Encoding`. The proxy only logs a modifier
error and forwards the message. The verdicts of the trusted parsers (`mime/multipart`,
`url.ParseQuery`, `compress/gzip`, `compress/flate`) on the message body are parameters. -/

structure Trusted where
  /-- the request body parses as the form / multipart type its Content-Type declares -/
  postParses : Bool
  /-- `gzip.NewReader` accepts the head of the body (`flate.NewReader` never fails) -/
  decodeOpens : Bool
  /-- the decompressor reads the body to its end without error -/
  decodes : Bool
  deriving DecidableEq, Repr

def isCompressed (c : Bytes) : Bool := c == gzipTok || c == deflateTok

/-- `mv.BodyReader(Decode())` returns a reader: only `gzip.NewReader` can refuse, and it does on
the empty body section of a snapshot taken without the body. -/
def decodeOpensOn (t : Trusted) (o : Opts) (m : Msg) : Bool :=
  if compressOf m == gzipTok then (if captures o m then t.decodeOpens else false) else true

/-- …and `ioutil.ReadAll` of that reader succeeds. Without the body the section is empty: the
chunked reader and both decompressors then report an unexpected EOF. -/
def decodesOn (t : Trusted) (o : Opts) (m : Msg) : Bool :=
  if captures o m then (if isCompressed (compressOf m) then t.decodeOpens && t.decodes else true)
  else !(isChunked m.te || isCompressed (compressOf m))

/-- `har.postData` with body logging on, up to the parsing switch: snapshot, `ReadAll(req.Body)`,
`req.Body = NopCloser(NewReader(raw))`. -/
def harReadPost (m : Msg) : Msg :=
  let m1 := snapshotMsg noOpts m
  let (raw, m2) := readAll m1
  { m2 with body := m2.body.map fun _ => raw }

structure Outcome where
  msg : Msg
  record : Option Record
  err : Bool
  deriving DecidableEq, Repr

/-- `logMsg` with the error returns: the message as it is handed on, what was recorded, and whether
the modifier returned an error. -/
def logMsgT (t : Trusted) (l : Logger) (skipLogging : Bool) (m : Msg) : Outcome :=
  match l with
  | .snapshot o => ⟨snapshotMsg o m, some (.view (snapshot o m)), false⟩
  | .marbl =>
    if skipLogging then ⟨m, none, false⟩
    else ⟨m, some (.marbl (m.hdr.length + (if m.isReq then 8 else 4))), false⟩
  | .har post body =>
    if skipLogging then ⟨m, none, false⟩ else
    let ct := headerGet m.hdr ctKey
    if m.isReq then
      if harHasPostData m && post.decide ct then
        -- the parse error is returned after the body has been read and re-installed
        if t.postParses then ⟨harReadPost m, some (.har true), false⟩ else ⟨harReadPost m, none, true⟩
      else ⟨m, some (.har false), false⟩
    else
      if body.decide ct then
        if decodesOn t noOpts m then ⟨snapshotMsg noOpts m, some (.har true), false⟩
        else ⟨snapshotMsg noOpts m, none, true⟩
      else ⟨m, some (.har false), false⟩
  | .text headersOnly decode =>
    if skipLogging then ⟨m, none, false⟩ else
    let o : Opts := { skipBody := headersOnly, cts := [] }
    if decode && !decodeOpensOn t o m then ⟨snapshotMsg o m, none, true⟩
    else ⟨snapshotMsg o m, some (.text (textBanner m ++ reader (snapshot o m))), false⟩

end Martian.MessageView
