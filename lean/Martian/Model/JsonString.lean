import Martian.Model.Har
/-!
Concrete model of Go's `encoding/json` string coder (Go 1.23), replacing the abstract `enc`/`dec`
parameters of the HAR JSON forms:

* `quote` = `appendString(dst, src, escapeHTML = true)` (encode.go): `"`, `\`, control characters,
  `<` `>` `&` (HTML escaping is on for `json.Marshal`), U+2028 / U+2029 escaped; every byte that does
  not start a well-formed UTF-8 sequence becomes the escape `\ufffd`;
* `scanString` = the scanner's string states (scanner.go `stateInString`, `stateInStringEsc…`): what
  `json.Unmarshal` accepts as a string token before it is unquoted;
* `unquote` = `unquoteBytes` (decode.go): escapes, `\uXXXX` with UTF-16 surrogate pairs, lone
  surrogates and ill-formed UTF-8 coerced to U+FFFD. The fast path of `unquoteBytes` (no unusual
  character: return the input) is the slow path's result on such input and is not modelled apart;
* `utf8.DecodeRune` / `utf8.EncodeRune` / `utf16.DecodeRune` as far as these use them;
* `sanitize` = `string([]rune(s))`: every byte that is not part of a well-formed sequence replaced by
  U+FFFD — the exact image of the round trip (`Lemmas/JsonString.lean`).

Recursion is by fuel (`s.length` always suffices) so that everything reduces in the kernel.
-/
namespace Martian.Har
open Martian Martian.MessageView

/-! ### `unicode/utf8` -/

def runeError : Nat := 0xFFFD

/-- `utf8.DecodeRune`: (rune, size); `(RuneError, 1)` for a byte that does not start a well-formed
sequence (including a truncated one), `(RuneError, 0)` for the empty string. -/
def decodeRune : Bytes → Nat × Nat
  | [] => (runeError, 0)
  | b0 :: rest =>
    if b0 < 0x80 then (b0.toNat, 1)
    else if 0xC2 ≤ b0 && b0 ≤ 0xDF then
      match rest with
      | b1 :: _ => if isCont b1 then (b0.toNat % 32 * 64 + b1.toNat % 64, 2) else (runeError, 1)
      | _ => (runeError, 1)
    else if 0xE0 ≤ b0 && b0 ≤ 0xEF then
      match rest with
      | b1 :: b2 :: _ =>
        if (if b0 == 0xE0 then 0xA0 ≤ b1 && b1 ≤ 0xBF
            else if b0 == 0xED then 0x80 ≤ b1 && b1 ≤ 0x9F
            else isCont b1) && isCont b2
        then (b0.toNat % 16 * 4096 + b1.toNat % 64 * 64 + b2.toNat % 64, 3) else (runeError, 1)
      | _ => (runeError, 1)
    else if 0xF0 ≤ b0 && b0 ≤ 0xF4 then
      match rest with
      | b1 :: b2 :: b3 :: _ =>
        if (if b0 == 0xF0 then 0x90 ≤ b1 && b1 ≤ 0xBF
            else if b0 == 0xF4 then 0x80 ≤ b1 && b1 ≤ 0x8F
            else isCont b1) && isCont b2 && isCont b3
        then (b0.toNat % 8 * 262144 + b1.toNat % 64 * 4096 + b2.toNat % 64 * 64 + b3.toNat % 64, 4)
        else (runeError, 1)
      | _ => (runeError, 1)
    else (runeError, 1)

/-- `utf8.EncodeRune` (`AppendRune`): surrogates and values above U+10FFFF become U+FFFD. -/
def encodeRune (r : Nat) : Bytes :=
  if r ≤ 0x7F then [UInt8.ofNat r]
  else if r ≤ 0x7FF then [UInt8.ofNat (0xC0 + r / 64), UInt8.ofNat (0x80 + r % 64)]
  else if 0x10FFFF < r || (0xD800 ≤ r && r ≤ 0xDFFF) then [0xEF, 0xBF, 0xBD]
  else if r ≤ 0xFFFF then
    [UInt8.ofNat (0xE0 + r / 4096), UInt8.ofNat (0x80 + r / 64 % 64), UInt8.ofNat (0x80 + r % 64)]
  else
    [UInt8.ofNat (0xF0 + r / 262144), UInt8.ofNat (0x80 + r / 4096 % 64), UInt8.ofNat (0x80 + r / 64 % 64),
     UInt8.ofNat (0x80 + r % 64)]

/-- The bytes of U+FFFD. -/
def replacement : Bytes := [0xEF, 0xBF, 0xBD]

/-! ### encoding -/

/-- `htmlSafeSet[b]` for `b < 0x80`: printable ASCII except `"` `\` `<` `>` `&`. -/
def htmlSafe (b : UInt8) : Bool :=
  0x20 ≤ b && b != 0x22 && b != 0x5C && b != 0x3C && b != 0x3E && b != 0x26

/-- The escape written for an ASCII byte that is not in `htmlSafeSet`. -/
def escAscii (b : UInt8) : Bytes :=
  if b == 0x5C || b == 0x22 then [0x5C, b]
  else if b == 0x08 then [0x5C, 0x62]
  else if b == 0x0C then [0x5C, 0x66]
  else if b == 0x0A then [0x5C, 0x6E]
  else if b == 0x0D then [0x5C, 0x72]
  else if b == 0x09 then [0x5C, 0x74]
  else [0x5C, 0x75, 0x30, 0x30, hexDigitB (b.toNat / 16), hexDigitB (b.toNat % 16)]

/-- the escape `\ufffd` -/
def escReplacement : Bytes := [0x5C, 0x75, 0x66, 0x66, 0x66, 0x64]

/-- `\u202` + last hex digit (U+2028 / U+2029). -/
def escLineSep (c : Nat) : Bytes := [0x5C, 0x75, 0x32, 0x30, 0x32, hexDigitB (c % 16)]

/-- The loop of `appendString`, one character per step. -/
def quoteAux : Nat → Bytes → Bytes
  | 0, _ => []
  | _, [] => []
  | fuel + 1, b :: rest =>
    if b < 0x80 then (if htmlSafe b then [b] else escAscii b) ++ quoteAux fuel rest
    else
      let d := decodeRune (b :: rest)
      if d.1 == runeError && d.2 == 1 then escReplacement ++ quoteAux fuel rest
      else if d.1 == 0x2028 || d.1 == 0x2029 then escLineSep d.1 ++ quoteAux fuel (rest.drop (d.2 - 1))
      else (b :: rest.take (d.2 - 1)) ++ quoteAux fuel (rest.drop (d.2 - 1))

/-- The JSON string token `json.Marshal` writes for a Go string / the text of a `[]byte`. -/
def quote (s : Bytes) : Bytes := 0x22 :: (quoteAux s.length s ++ [0x22])

/-! ### decoding -/

/-- `getu4` on the four bytes after `\u`. -/
def hex4 : Bytes → Option Nat
  | a :: b :: c :: d :: _ =>
    match hexValB a, hexValB b, hexValB c, hexValB d with
    | some a, some b, some c, some d => some (((a * 16 + b) * 16 + c) * 16 + d)
    | _, _, _, _ => none
  | _ => none

/-- `getu4(s)`: `s` starts with `\uXXXX` (`none` = -1). -/
def getu4 : Bytes → Option Nat
  | 0x5C :: 0x75 :: r => hex4 r
  | _ => none

def isSurrogate (r : Nat) : Bool := 0xD800 ≤ r && r < 0xE000

/-- `utf16.DecodeRune(r1, r2)`; `none` = U+FFFD (not a valid pair). -/
def utf16Pair (r1 r2 : Nat) : Option Nat :=
  if 0xD800 ≤ r1 && r1 < 0xDC00 && 0xDC00 ≤ r2 && r2 < 0xE000
  then some ((r1 - 0xD800) * 1024 + (r2 - 0xDC00) + 0x10000) else none

/-- The slow path of `unquoteBytes` on the text between the quotes. `none` = `ok == false`. -/
def unquoteAux : Nat → Bytes → Bytes → Option Bytes
  | _, [], acc => some acc
  | 0, _ :: _, _ => none
  | fuel + 1, c :: rest, acc =>
    if c == 0x5C then
      match rest with
      | [] => none
      | e :: r2 =>
        if e == 0x22 || e == 0x5C || e == 0x2F || e == 0x27 then unquoteAux fuel r2 (acc ++ [e])
        else if e == 0x62 then unquoteAux fuel r2 (acc ++ [0x08])
        else if e == 0x66 then unquoteAux fuel r2 (acc ++ [0x0C])
        else if e == 0x6E then unquoteAux fuel r2 (acc ++ [0x0A])
        else if e == 0x72 then unquoteAux fuel r2 (acc ++ [0x0D])
        else if e == 0x74 then unquoteAux fuel r2 (acc ++ [0x09])
        else if e == 0x75 then
          match hex4 r2 with
          | none => none
          | some rr =>
            let after := r2.drop 4
            if isSurrogate rr then
              match (getu4 after).bind (utf16Pair rr) with
              | some dec => unquoteAux fuel (after.drop 6) (acc ++ encodeRune dec)
              | none => unquoteAux fuel after (acc ++ encodeRune runeError)
            else unquoteAux fuel after (acc ++ encodeRune rr)
        else none
    else if c == 0x22 || c < 0x20 then none
    else if c < 0x80 then unquoteAux fuel rest (acc ++ [c])
    else
      let d := decodeRune (c :: rest)
      unquoteAux fuel (rest.drop (d.2 - 1)) (acc ++ encodeRune d.1)

/-- `unquoteBytes(tok)`. -/
def unquote (tok : Bytes) : Option Bytes :=
  match tok with
  | 0x22 :: rest =>
    if rest.getLast? == some 0x22 then unquoteAux rest.length rest.dropLast [] else none
  | _ => none

/-- The scanner's string states on the text after the opening quote: `true` iff the token ends
with its closing quote as the last byte (trailing bytes, control characters, bad escapes, a missing
closing quote are syntax errors). -/
def scanAux : Nat → Bytes → Bool
  | _, [] => false
  | 0, _ :: _ => false
  | fuel + 1, c :: rest =>
    if c == 0x22 then rest.isEmpty
    else if c == 0x5C then
      match rest with
      | [] => false
      | e :: r2 =>
        if e == 0x62 || e == 0x66 || e == 0x6E || e == 0x72 || e == 0x74 || e == 0x5C || e == 0x2F || e == 0x22
        then scanAux fuel r2
        else if e == 0x75 then (match hex4 r2 with | some _ => scanAux fuel (r2.drop 4) | none => false)
        else false
    else if c < 0x20 then false
    else scanAux fuel rest

def scanString (tok : Bytes) : Bool :=
  match tok with
  | 0x22 :: rest => scanAux rest.length rest
  | _ => false

/-- `json.Unmarshal(tok, &s)` for a Go string `s`: syntax check, then `unquote`. -/
def jsonDecodeString (tok : Bytes) : Option Bytes := if scanString tok then unquote tok else none

/-- `json.Marshal(s)` for a Go string. -/
def jsonEncodeString (s : Bytes) : Bytes := quote s

/-! ### the image of the round trip -/

/-- `string([]rune(s))`: well-formed sequences kept, every other byte replaced by U+FFFD. -/
def sanitizeAux : Nat → Bytes → Bytes
  | 0, _ => []
  | _, [] => []
  | fuel + 1, b :: rest =>
    if b < 0x80 then b :: sanitizeAux fuel rest
    else
      let d := decodeRune (b :: rest)
      if d.1 == runeError && d.2 == 1 then replacement ++ sanitizeAux fuel rest
      else (b :: rest.take (d.2 - 1)) ++ sanitizeAux fuel (rest.drop (d.2 - 1))

def sanitize (s : Bytes) : Bytes := sanitizeAux s.length s

/-! ### the object level: what `json.Marshal` writes for `PostData` / `pdBinary` / `contentJSON`

Field order is declaration order; `omitempty` members (`value`, `fileName`, `contentType` of a
parameter, `text` and `encoding` of content) are left out when empty; a `[]byte` member is written
as the base64 string (no escaping needed: the base64 alphabet is HTML-safe). The members of `PdJson`
/ `ContentJson` are string tokens already. -/

def emptyTok : Bytes := [0x22, 0x22]

def paramObj (p : ParamJson) : Bytes :=
  strBytes "{\"name\":" ++ p.name
  ++ (if p.value == emptyTok then [] else strBytes ",\"value\":" ++ p.value)
  ++ (if p.fileName == emptyTok then [] else strBytes ",\"fileName\":" ++ p.fileName)
  ++ (if p.contentType == emptyTok then [] else strBytes ",\"contentType\":" ++ p.contentType)
  ++ [0x7D]

def pdObj (j : PdJson) : Bytes :=
  strBytes "{\"mimeType\":" ++ j.mime ++ strBytes ",\"params\":[" ++ Go.join (j.params.map paramObj) [0x2C]
  ++ strBytes "],\"text\":" ++ j.text
  ++ (match j.encoding with | some e => strBytes ",\"encoding\":" ++ e | none => []) ++ [0x7D]

def contentObj (j : ContentJson) : Bytes :=
  strBytes "{\"size\":" ++ Go.natDigits j.size ++ strBytes ",\"mimeType\":" ++ j.mime
  ++ (if j.text == emptyTok then [] else strBytes ",\"text\":" ++ j.text)
  ++ (match j.encoding with | some e => strBytes ",\"encoding\":" ++ e | none => []) ++ [0x7D]

/-- What a JSON round trip makes of the string fields of post data (the text has a base64 form). -/
def sanitizeParam (p : Param) : Param :=
  { name := sanitize p.name, value := sanitize p.value, fileName := sanitize p.fileName,
    contentType := sanitize p.contentType }

def sanitizePD (p : PostData) : PostData :=
  { mime := sanitize p.mime, params := p.params.map sanitizeParam, text := p.text }

end Martian.Har
