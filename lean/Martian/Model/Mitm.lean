import Martian.Util
import Martian.Go.Strings
/-!
Executable model of `mitm/mitm.go` (certificate forging for MITM), core Lean only.

* `splitHostPort`, `parseIP` : transcriptions of Go 1.23 `net.SplitHostPort` and `net.ParseIP`
  (`netip.ParseAddr` without zones) over ASCII byte strings — stdlib models, differentially
  tested against the real functions by the harness (`shp`, `parseip` ops), not verified.
* `Cert` : abstract certificate — what the template of `Config.cert` fixes (SAN by IP or DNS,
  validity window truncated to whole seconds like ASN.1 time, organisation) plus two trusted bits
  (`signedByCA`, `keyHeld`) standing for RSA/x509/ASN.1.
* `goVerify` : abstract `Leaf.Verify(VerifyOptions{DNSName: host, Roots: roots})`.
* `cert` : `Config.cert` statement by statement, on the **repaired** tree (empty host refused,
  repo-patches/C06-fix-refuse-empty-host.patch); `certUnpatched` is the code before the repair.
* `Sys`/`stepThread`/`runSched` : the same function as two atomic steps per requester
  (RLock+lookup+verify, then issue+Lock+insert), interleaved by an arbitrary schedule.

Time is an `Int` in milliseconds.
-/
namespace Martian.Mitm
open Martian Martian.Go

def colon : UInt8 := 58
def lbr : UInt8 := 91
def rbr : UInt8 := 93
def dot : UInt8 := 46
def pct : UInt8 := 37

/-! ### net.SplitHostPort -/

def indexOf (s : Bytes) (c : UInt8) : Option Nat :=
  let i := s.idxOf c
  if i < s.length then some i else none

def lastIndexOf (s : Bytes) (c : UInt8) : Option Nat :=
  let r := s.reverse.idxOf c
  if r < s.length then some (s.length - 1 - r) else none

/-- `net.SplitHostPort`: `some (host, port)` or `none` for every `AddrError`. -/
def splitHostPort (hp : Bytes) : Option (Bytes × Bytes) :=
  match lastIndexOf hp colon with
  | none => none                                           -- missing port
  | some i =>
    if hp.head? = some lbr then
      match indexOf hp rbr with
      | none => none                                       -- missing ']'
      | some e =>
        if e + 1 = hp.length then none                     -- missing port
        else if e + 1 = i then
          if (hp.drop 1).contains lbr then none            -- unexpected '['
          else if (hp.drop (e + 1)).contains rbr then none -- unexpected ']'
          else some ((hp.drop 1).take (e - 1), hp.drop (i + 1))
        else none                                          -- too many colons / missing port
    else
      let host := hp.take i
      if host.contains colon then none                     -- too many colons
      else if hp.contains lbr then none
      else if hp.contains rbr then none
      else some (host, hp.drop (i + 1))

/-- "Remove the port if it exists": `host, _, err := net.SplitHostPort(h); if err == nil { h = host }`. -/
def normalise (h : Bytes) : Bytes :=
  match splitHostPort h with
  | some (host, _) => host
  | none => h

/-! ### net.ParseIP -/

abbrev IP := List UInt8   -- 16 bytes, IPv4 as ::ffff:a.b.c.d (what `net.ParseIP` returns)

def isDigit (c : UInt8) : Bool := 48 ≤ c && c ≤ 57
def isHex (c : UInt8) : Bool := isDigit c || (97 ≤ c && c ≤ 102) || (65 ≤ c && c ≤ 70)
def hexNib (c : UInt8) : Nat :=
  if isDigit c then c.toNat - 48 else if 97 ≤ c then c.toNat - 87 else c.toNat - 55

/-- One dotted-decimal field: digits only, no leading zero, at most 255. -/
def v4Field (f : Bytes) : Option UInt8 :=
  if f.isEmpty || !f.all isDigit then none
  else if f.length > 1 && f.head? == some 48 then none
  else if f.length > 3 then none
  else
    let v := f.foldl (fun a c => a * 10 + (c.toNat - 48)) 0
    if v > 255 then none else some (UInt8.ofNat v)

/-- `netip.parseIPv4Fields`: exactly four fields. -/
def parseV4Fields (s : Bytes) : Option (List UInt8) :=
  let fs := split s dot
  if fs.length ≠ 4 then none else fs.mapM v4Field

def v4Prefix : List UInt8 := [0, 0, 0, 0, 0, 0, 0, 0, 0, 0, 255, 255]

/-- The main loop of `netip.parseIPv6`; `acc` are the bytes written so far (`i = acc.length`),
`ell` the position of `::`. Returns the unconsumed rest, the bytes and the ellipsis position. -/
def v6Loop : Nat → Bytes → List UInt8 → Option Nat → Option (Bytes × List UInt8 × Option Nat)
  | 0, s, acc, ell => some (s, acc, ell)
  | fuel + 1, s, acc, ell =>
    if acc.length ≥ 16 then some (s, acc, ell) else
    let run := s.takeWhile isHex
    let off := run.length
    if off > 4 || off = 0 then none else
    let rest := s.drop off
    if rest.head? = some dot then
      if ell.isNone && acc.length ≠ 12 then none
      else if acc.length + 4 > 16 then none
      else match parseV4Fields s with
        | none => none
        | some f => some ([], acc ++ f, ell)
    else
      let v := run.foldl (fun a c => a * 16 + hexNib c) 0
      let acc := acc ++ [UInt8.ofNat (v / 256), UInt8.ofNat (v % 256)]
      if rest.isEmpty then some ([], acc, ell)
      else if rest.head? ≠ some colon then none
      else if rest.length = 1 then none
      else
        let s2 := rest.drop 1
        if s2.head? = some colon then
          if ell.isSome then none
          else
            let s3 := s2.drop 1
            if s3.isEmpty then some ([], acc, some acc.length)
            else v6Loop fuel s3 acc (some acc.length)
        else v6Loop fuel s2 acc ell

def parseV6 (s : Bytes) : Option IP :=
  let lead := s.take 2 == [colon, colon]
  let s1 := if lead then s.drop 2 else s
  if lead && s1.isEmpty then some (List.replicate 16 0) else
  match v6Loop 9 s1 [] (if lead then some 0 else none) with
  | none => none
  | some (rest, acc, ell) =>
    if !rest.isEmpty then none
    else if acc.length < 16 then
      match ell with
      | none => none
      | some e => some (acc.take e ++ List.replicate (16 - acc.length) 0 ++ acc.drop e)
    else if ell.isSome then none
    else some acc

/-- `net.ParseIP`: the first of `.`, `:`, `%` decides; zones are rejected. -/
def parseIP (s : Bytes) : Option IP :=
  if s.contains pct then none else
  match s.find? (fun c => c == dot || c == colon) with
  | none => none
  | some c =>
    if c == dot then (parseV4Fields s).map (v4Prefix ++ ·) else parseV6 s

/-! ### certificates -/

structure Cert where
  serial : Nat
  names : List Bytes        -- DNSNames
  ips : List IP             -- IPAddresses
  notBefore : Int
  notAfter : Int
  org : Bytes
  signedByCA : Bool
  keyHeld : Bool
  deriving DecidableEq, Repr

structure Config where
  validity : Int            -- ms; `SetValidity`
  org : Bytes               -- `SetOrganization`
  deriving DecidableEq, Repr

/-- ASN.1 times carry whole seconds: `x` rounded down to a multiple of 1000 ms. -/
def floorSec (x : Int) : Int := x - x % 1000

/-- The SAN of the template: `if ip := net.ParseIP(hostname); ip != nil { IPAddresses } else { DNSNames }`. -/
def sanFor (host : Bytes) : List Bytes × List IP :=
  match parseIP host with
  | some ip => ([], [ip])
  | none => ([host], [])

/-- The template + `x509.CreateCertificate` + `ParseCertificate` (trusted to succeed on ASCII hosts). -/
def issue (cfg : Config) (host : Bytes) (now : Int) (serial : Nat) : Cert :=
  { serial := serial
    names := (sanFor host).1
    ips := (sanFor host).2
    notBefore := floorSec (now - cfg.validity)
    notAfter := floorSec (now + cfg.validity)
    org := cfg.org
    signedByCA := true
    keyHeld := true }

/-- `x509.VerifyHostname` writes IP addresses optionally in `[ ]`. -/
def stripBrackets (h : Bytes) : Bytes :=
  if h.length ≥ 3 && h.head? == some lbr && h.getLast? == some rbr then (h.drop 1).dropLast else h

/-! ### `x509.Certificate.VerifyHostname` (Go 1.23 `crypto/x509/verify.go`), statement by statement -/

def star : UInt8 := 42
def hyphen : UInt8 := 45
def underscore : UInt8 := 95

def isAlnum (c : UInt8) : Bool := (97 ≤ c && c ≤ 122) || isDigit c || (65 ≤ c && c ≤ 90)

/-- `strings.TrimSuffix(h, ".")`: at most one trailing dot is removed. -/
def trimDot (h : Bytes) : Bytes := if h.getLast? = some dot then h.dropLast else h

/-- One label of `validHostname`: not empty; letters, digits, `_` anywhere, `-` except in front.
(A byte ≥ 0x80 belongs to a rune outside these ranges, so the rune loop of the Go code and this byte
loop agree on every byte string.) -/
def validLabel : Bytes → Bool
  | [] => false
  | c :: rest => (isAlnum c || c == underscore) && rest.all (fun d => isAlnum d || d == hyphen || d == underscore)

/-- `validHostname(host, isPattern)`: the input form drops one trailing dot first; the pattern form
accepts `*` as the complete left-most label. -/
def validHostname (host : Bytes) (isPattern : Bool) : Bool :=
  let host := if isPattern then host else trimDot host
  if host.isEmpty then false
  else if host == [star] then false
  else match split host dot with
    | [] => true
    | p :: ps => ((isPattern && p == [star]) || validLabel p) && ps.all validLabel

/-- `matchExactly`. -/
def matchExactly (a b : Bytes) : Bool :=
  if a.isEmpty || a == [dot] || b.isEmpty || b == [dot] then false else toLower a == toLower b

/-- `matchHostnames(pattern, host)`: label-wise equality after lower-casing and dropping one trailing
dot of the host; a left-most `*` label of the pattern matches any one label. -/
def matchHostnames (pattern host : Bytes) : Bool :=
  let pattern := toLower pattern
  let host := toLower (trimDot host)
  if pattern.isEmpty || host.isEmpty then false else
  let pp := split pattern dot
  let hp := split host dot
  if pp.length ≠ hp.length then false else
  match pp, hp with
  | p :: ps, h :: hs => (p == [star] || p == h) && ps == hs
  | _, _ => true

/-- The DNS-name branch of `VerifyHostname` for one SAN entry `san`; `cand = toLowerCaseASCII(h)`. -/
def matchDNS (san cand : Bytes) : Bool :=
  if validHostname cand false && validHostname san true then matchHostnames san cand else matchExactly san cand

/-- `c.VerifyHostname(h)`: a host that parses as an IP address (optionally in `[ ]`) is compared with
the IP SANs only (16-byte form, as `net.IP.Equal`); any other host with the DNS SANs only. -/
def verifyHostname (c : Cert) (h : Bytes) : Bool :=
  match parseIP (stripBrackets h) with
  | some ip => c.ips.contains ip
  | none => c.names.any (fun n => matchDNS n (toLower h))

def inWindow (c : Cert) (now : Int) : Bool := decide (c.notBefore ≤ now) && decide (now ≤ c.notAfter)

/-- The error classes of `Certificate.Verify`, in the order the Go code tests them:
`isValid` (NotBefore/NotAfter against the current time) first, then `VerifyHostname` (skipped for an
empty `DNSName`), then chain building to the roots. -/
inductive VerifyErr where
  | ok | expired | hostname | authority
  deriving DecidableEq, Repr

def verifyErr (c : Cert) (host : Bytes) (now : Int) : VerifyErr :=
  if !inWindow c now then .expired
  else if !(host.isEmpty || verifyHostname c host) then .hostname
  else if !c.signedByCA then .authority
  else .ok

/-- `Leaf.Verify(x509.VerifyOptions{DNSName: host, Roots: c.roots})` at time `now`:
the host check is skipped for an empty `DNSName` (as `x509.Verify` does). -/
def goVerify (c : Cert) (host : Bytes) (now : Int) : Bool :=
  (host.isEmpty || verifyHostname c host) && inWindow c now && c.signedByCA

/-- What the property asks of a presented certificate: it names the (non-empty) host, the time
is inside its window, it chains to the CA. -/
def verifiesFor (c : Cert) (host : Bytes) (now : Int) : Bool :=
  !host.isEmpty && verifyHostname c host && inWindow c now && c.signedByCA

/-! ### the cache and `Config.cert` -/

abbrev Cache := List (Bytes × Cert)

structure State where
  cache : Cache := []
  next : Nat := 0           -- stands for the random serial: fresh certificates are distinguishable
  deriving Repr

inductive Outcome where
  | refused
  | served (c : Cert) (fresh : Bool)
  deriving DecidableEq, Repr

def store (s : State) (host : Bytes) (c : Cert) : State :=
  { cache := (host, c) :: s.cache, next := s.next + 1 }

def issueAndStore (cfg : Config) (host : Bytes) (now : Int) (s : State) : State × Outcome :=
  let c := issue cfg host now s.next
  (store s host c, .served c true)

/-- The part of `cert` after the port has been stripped. -/
def certFor (cfg : Config) (host : Bytes) (now : Int) (s : State) : State × Outcome :=
  match s.cache.lookup host with
  | some c => if goVerify c host now then (s, .served c false) else issueAndStore cfg host now s
  | none => issueAndStore cfg host now s

/-- `Config.cert` on the repaired tree. -/
def cert (cfg : Config) (hostname : Bytes) (now : Int) (s : State) : State × Outcome :=
  let host := normalise hostname
  if host.isEmpty then (s, .refused) else certFor cfg host now s

/-- `Config.cert` before the repair (no refusal of the empty host). -/
def certUnpatched (cfg : Config) (hostname : Bytes) (now : Int) (s : State) : State × Outcome :=
  certFor cfg (normalise hostname) now s

/-! #### fault at the signing step

`x509.CreateCertificate(rand.Reader, tmpl, c.ca, c.priv.Public(), c.capriv)` calls `Sign` of the CA key, which
`NewConfig` accepts as `interface{}`: a remote signer (HSM/KMS) can fail at any call. `signOk` is that call's
outcome; on failure `cert` returns `nil, err` and nothing is stored. -/

/-- `Config.cert` with the outcome of the signing step as an input. -/
def certS (cfg : Config) (hostname : Bytes) (now : Int) (signOk : Bool) (s : State) : State × Outcome :=
  let host := normalise hostname
  if host.isEmpty then (s, .refused) else
  match s.cache.lookup host with
  | some c =>
    if goVerify c host now then (s, .served c false)
    else if signOk then issueAndStore cfg host now s else (s, .refused)
  | none => if signOk then issueAndStore cfg host now s else (s, .refused)

def getCertTLSS (cfg : Config) (sni : Bytes) (now : Int) (signOk : Bool) (s : State) : State × Outcome :=
  if sni.isEmpty then (s, .refused) else certS cfg sni now signOk s

def getCertForHostS (cfg : Config) (fallback sni : Bytes) (now : Int) (signOk : Bool) (s : State) : State × Outcome :=
  certS cfg (if sni.isEmpty then fallback else sni) now signOk s

/-- `TLS().GetCertificate`. -/
def getCertTLS (cfg : Config) (sni : Bytes) (now : Int) (s : State) : State × Outcome :=
  if sni.isEmpty then (s, .refused) else cert cfg sni now s

/-- `TLSForHost(fallback).GetCertificate`. -/
def getCertForHost (cfg : Config) (fallback sni : Bytes) (now : Int) (s : State) : State × Outcome :=
  cert cfg (if sni.isEmpty then fallback else sni) now s

/-! ### histories -/

inductive Req where
  | tls (sni : Bytes) (now : Int)
  | forHost (fallback sni : Bytes) (now : Int)
  deriving Repr

def Req.host : Req → Bytes
  | .tls sni _ => sni
  | .forHost fb sni _ => if sni.isEmpty then fb else sni

def Req.time : Req → Int
  | .tls _ t => t
  | .forHost _ _ t => t

def serve (cfg : Config) (r : Req) (s : State) : State × Outcome :=
  match r with
  | .tls sni t => getCertTLS cfg sni t s
  | .forHost fb sni t => getCertForHost cfg fb sni t s

/-- State after a history of requests (times arbitrary, not even monotone). -/
def run (cfg : Config) : List Req → State → State
  | [], s => s
  | r :: rs, s => run cfg rs (serve cfg r s).1

/-! ### concurrency: two atomic steps per requester -/

inductive Pc where
  | start (hostname : Bytes)             -- before `c.certmu.RLock()`
  | issuing (host : Bytes)               -- cache miss / stale entry seen, before `c.certmu.Lock()`
  | done (o : Outcome) (t : Int)         -- returned at time `t`
  deriving Repr

structure Sys where
  st : State
  threads : List Pc
  deriving Repr

/-- One atomic step of thread `i` at time `now` (the RWMutex makes lookup and insert atomic). -/
def stepThread (cfg : Config) (sys : Sys) (i : Nat) (now : Int) : Sys :=
  match sys.threads[i]? with
  | none => sys
  | some (.start hostname) =>
    let host := normalise hostname
    if host.isEmpty then { sys with threads := sys.threads.set i (.done .refused now) }
    else match sys.st.cache.lookup host with
      | some c =>
        if goVerify c host now then { sys with threads := sys.threads.set i (.done (.served c false) now) }
        else { sys with threads := sys.threads.set i (.issuing host) }
      | none => { sys with threads := sys.threads.set i (.issuing host) }
  | some (.issuing host) =>
    let c := issue cfg host now sys.st.next
    { st := store sys.st host c, threads := sys.threads.set i (.done (.served c true) now) }
  | some (.done _ _) => sys

def runSched (cfg : Config) : List (Nat × Int) → Sys → Sys
  | [], sys => sys
  | (i, t) :: rest, sys => runSched cfg rest (stepThread cfg sys i t)

/-! ### concurrency, fine grain: every lock boundary and every clock read is its own step

`Config.cert` reads the clock three times (inside `Leaf.Verify`, and twice in the template:
`NotBefore: time.Now().Add(-validity)`, `NotAfter: time.Now().Add(validity)`) and takes the mutex
twice. Between any two of these another requester may run and time may pass; in particular a cached
certificate may expire between the read-locked lookup and its `Verify`, between `Verify` and the
return, and another requester may replace the entry while this one still holds the old pointer. -/

inductive FPc where
  | start (hostname : Bytes)                        -- before `c.certmu.RLock()`
  | looked (host : Bytes) (c : Cert)                -- hit, lock released, before `tlsc.Leaf.Verify`
  | miss (host : Bytes)                             -- before `rand.Int` / the first `time.Now()`
  | tmplNB (host : Bytes) (serial : Nat) (nb : Int) -- `NotBefore` fixed, before the second `time.Now()`
  | signed (host : Bytes) (c : Cert) (t : Int)      -- leaf created at `t`, before `c.certmu.Lock()`
  | ret (o : Outcome) (tchk : Int)                  -- verified / created at `tchk`, before `return`
  | done (o : Outcome) (tchk tret : Int)            -- returned at `tret`
  deriving DecidableEq, Repr

structure FSys where
  st : State
  clock : Int
  threads : List FPc
  deriving Repr

/-- The map insert under the write lock (the serial was drawn earlier). -/
def insertCert (s : State) (host : Bytes) (c : Cert) : State := { s with cache := (host, c) :: s.cache }

/-- Thread `i` takes its next step after `delta` ms have passed. -/
def stepF (cfg : Config) (sys : FSys) (i : Nat) (delta : Nat) : FSys :=
  let now := sys.clock + (delta : Int)
  let sys : FSys := { sys with clock := now }
  match sys.threads[i]? with
  | none => sys
  | some (.start hostname) =>
    let host := normalise hostname
    if host.isEmpty then { sys with threads := sys.threads.set i (.ret .refused now) }
    else match sys.st.cache.lookup host with
      | some c => { sys with threads := sys.threads.set i (.looked host c) }
      | none => { sys with threads := sys.threads.set i (.miss host) }
  | some (.looked host c) =>
    if goVerify c host now then { sys with threads := sys.threads.set i (.ret (.served c false) now) }
    else { sys with threads := sys.threads.set i (.miss host) }
  | some (.miss host) =>
    { sys with st := { sys.st with next := sys.st.next + 1 },
               threads := sys.threads.set i (.tmplNB host sys.st.next (floorSec (now - cfg.validity))) }
  | some (.tmplNB host serial nb) =>
    let c : Cert := { serial := serial, names := (sanFor host).1, ips := (sanFor host).2, notBefore := nb,
                      notAfter := floorSec (now + cfg.validity), org := cfg.org, signedByCA := true, keyHeld := true }
    { sys with threads := sys.threads.set i (.signed host c now) }
  | some (.signed host c t) =>
    { sys with st := insertCert sys.st host c, threads := sys.threads.set i (.ret (.served c true) t) }
  | some (.ret o t) => { sys with threads := sys.threads.set i (.done o t now) }
  | some (.done _ _ _) => sys

def runF (cfg : Config) : List (Nat × Nat) → FSys → FSys
  | [], sys => sys
  | (i, d) :: rest, sys => runF cfg rest (stepF cfg sys i d)

end Martian.Mitm
