import Martian.Model.Har
/-!
The query parameters of a HAR request entry: `req.URL.Query()` = `url.ParseQuery(RawQuery)` with its
error dropped. Pairs are separated by `&`; an empty pair is skipped; a pair containing `;` or an
invalid escape is dropped; a pair is cut at its FIRST `=` (`strings.Cut`): everything after it,
further `=` included, is the value, no `=` means an empty value; both sides go through
`QueryUnescape` (`+` is a space, `%XX` a byte). Go collects the pairs in a map by name, values in
order: the canonical form here is the stable sort by name.
-/
namespace Martian.Har
open Martian Martian.Go Martian.MessageView

/-- `strings.Cut(pair, "=")`. -/
def splitPair (p : Bytes) : Bytes × Bytes :=
  (p.takeWhile (· != 61), (p.dropWhile (· != 61)).drop 1)

/-- `url.QueryUnescape`; `none` = error (a `%` not followed by two hex digits). -/
def queryUnescape : Bytes → Option Bytes
  | [] => some []
  | 43 :: r => (queryUnescape r).map (32 :: ·)
  | 37 :: a :: b :: r =>
    match hexValB a, hexValB b with
    | some x, some y => (queryUnescape r).map (UInt8.ofNat (x * 16 + y) :: ·)
    | _, _ => none
  | 37 :: _ => none
  | c :: r => (queryUnescape r).map (c :: ·)

/-- `url.ParseQuery(raw)` without its error, in order of appearance. -/
def parseQuery (raw : Bytes) : List KV :=
  (split raw 38).filterMap fun p =>
    if p.isEmpty || p.contains 59 then none
    else
      match queryUnescape (splitPair p).1, queryUnescape (splitPair p).2 with
      | some k, some v => some (k, v)
      | _, _ => none

/-- The entry's `queryString` list, canonically ordered (Go iterates a map of names). -/
def harQuery (raw : Bytes) : List KV := sortKV (parseQuery raw)

end Martian.Har
