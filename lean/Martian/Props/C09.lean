import Martian.Lemmas.H2Relay
import Martian.Generated.H2Relay
import Martian.Props.C09.Settings
/-!
C09 — HTTP/2 relay obeys receiver windows, returns exact credit, never strands data.

Theorems about one relay (`Model/H2Relay.lean`: `rstep`, transcribed from `h2/relay.go`) under ANY
finite history `is : List RIn` of sink calls (DATA of any size, headers, …), direct writes and peer
calls (WINDOW_UPDATE on any stream or the connection with any increment, INITIAL_WINDOW_SIZE and
MAX_FRAME_SIZE changes), in any interleaving, every pass over the Go map of output buffers taking
its iteration order as an argument (`OkRun` only asks that a pass visits every buffer).
"Enough credit" is read at frame granularity (DESIGN §3 C09, §7).
Only property theorems and non-vacuity examples live here.
-/
namespace Martian.Props.C09
open Martian Martian.H2Relay

/-- Sum of the WINDOW_UPDATE increments the receiver sent for stream `s` (`s = 0`: connection). -/
def wuTotal (s : Nat) : List RIn → Int
  | [] => 0
  | .windowUpdate sid inc _ :: is => (if sid = s then (inc : Int) else 0) + wuTotal s is
  | _ :: is => wuTotal s is

/-- WINDOW_UPDATE frames among the direct writes, as (stream, increment). -/
def credits : List Ctl → List (Nat × Nat)
  | [] => []
  | .windowUpdate s n :: l => (s, n) :: credits l
  | _ :: l => credits l

/-- (stream, flow-controlled length) of the DATA frames the peer relay accepted, zero-length ones
excepted (a WINDOW_UPDATE of 0 is not a legal frame). -/
def dataAccepted : List RIn → List (Nat × Nat)
  | [] => []
  | .credit s n :: is => (if n = 0 then [] else [(s, n)]) ++ dataAccepted is
  | _ :: is => dataAccepted is

private theorem addWin_wu (r : Relay) (s : Nat) (inc : Int) (t : Nat) :
    (addWin r s inc).wu t = r.wu t + (if s = t then inc else 0) := by
  by_cases h : t = s
  · subst h; simp [addWin]
  · have h' : ¬ s = t := fun e => h e.symm
    simp [addWin, h, h']

private theorem rstep_wu (r : Relay) (i : RIn) (t : Nat) :
    (rstep r i).wu t = r.wu t + wuTotal t [i] := by
  cases i with
  | windowUpdate sid inc order =>
    simp only [rstep, emitStream_wu, addWin_wu, getOB_wu, wuTotal]
    split <;> simp
  | credit sid flow => simp only [rstep, wuTotal]; split <;> simp
  | _ => simp [rstep, wuTotal]

private theorem rstep_wuConn (r : Relay) (i : RIn) :
    (rstep r i).wuConn = r.wuConn + wuTotal 0 [i] := by
  cases i with
  | windowUpdate sid inc order =>
    simp only [rstep, emitStream_wuConn, wuTotal]
    have : (addWin (getOB (if sid = 0 then sendQueued { r with connWin := r.connWin + inc, wuConn := r.wuConn + inc } order else r) sid) sid inc).wuConn
        = (if sid = 0 then sendQueued { r with connWin := r.connWin + inc, wuConn := r.wuConn + inc } order else r).wuConn := by
      simp [addWin]
    rw [this]
    split <;> simp
  | credit sid flow => simp only [rstep, wuTotal]; split <;> simp
  | _ => simp [rstep, wuTotal]

private theorem wuTotal_cons (t : Nat) (i : RIn) (is : List RIn) :
    wuTotal t (i :: is) = wuTotal t [i] + wuTotal t is := by
  cases i <;> simp [wuTotal]

private theorem run_wu (r : Relay) (is : List RIn) (t : Nat) :
    (run r is).wu t = r.wu t + wuTotal t is ∧ (run r is).wuConn = r.wuConn + wuTotal 0 is := by
  induction is generalizing r with
  | nil => simp [run, wuTotal]
  | cons i is ih =>
    have := ih (rstep r i)
    simp only [run, List.foldl_cons] at this ⊢
    rw [this.1, this.2, rstep_wu, rstep_wuConn]
    have e1 := wuTotal_cons t i is
    have e2 := wuTotal_cons 0 i is
    constructor <;> omega

/-- **Ledger.** After any history, on the connection and on every stream that has an output
buffer: bytes emitted + current send window = what the receiver granted (initial window in force,
65535 for the connection, plus all its WINDOW_UPDATE increments). -/
theorem ledger (is : List RIn) (hok : OkRun {} is) :
    let r := run {} is
    flow r.emitted + r.connWin = 65535 + wuTotal 0 is ∧
    ∀ s ∈ r.keys, flow (onS s r.emitted) + (r.ob s).win = r.initWin + wuTotal s is := by
  have hg := (run_invariant is good0_init allstuck_init hok).1
  refine ⟨?_, ?_⟩
  · have := hg.ledgerC
    rw [(run_wu {} is 0).2] at this
    simpa using this
  · intro s hs
    have := hg.ledgerS s hs
    rw [(run_wu {} is s).1] at this
    simpa using this

/-- **Never more than granted.** The connection never carries more flow-controlled bytes than the
receiver granted. A stream carries at most its grant plus the amount by which the receiver
later lowered INITIAL_WINDOW_SIZE (bytes legitimately sent before the decrease, RFC 7540 §6.9.2;
`lowered = 0` when the receiver never lowers it). -/
theorem never_exceeds_grant (is : List RIn) (hok : OkRun {} is) :
    let r := run {} is
    flow r.emitted ≤ 65535 + wuTotal 0 is ∧
    ∀ s ∈ r.keys, flow (onS s r.emitted) ≤ r.initWin + wuTotal s is + r.lowered := by
  have hg := (run_invariant is good0_init allstuck_init hok).1
  have hl := ledger is hok
  refine ⟨?_, ?_⟩
  · have := hg.connNonneg; have := hl.1; omega
  · intro s hs
    have := hg.winLower s hs; have := hl.2 s hs; omega

/-- **Every emission fits.** Whatever `emitEligibleFrames` puts on the output channel fitted both
windows when the pass started (so it certainly fits what is left when it is its turn), and a
non-negative window never becomes negative. -/
theorem every_emission_fits (conn w : Int) (q : List QFrame) :
    (∀ f ∈ (emit conn w q).2.2.2, (f.size : Int) ≤ conn ∧ (f.size : Int) ≤ w) ∧
    (0 ≤ conn → 0 ≤ (emit conn w q).1) ∧ (0 ≤ w → 0 ≤ (emit conn w q).2.1) := by
  have := emit_spec conn w q
  simp only at this
  obtain ⟨-, -, -, -, h5, h6, h7⟩ := this
  refine ⟨h7, h5, ?_⟩
  intro hw; rcases h6 with h | h <;> omega

private theorem mem_mkData {sid : Nat} {es : Bool} {cs : List Bytes} {f : QFrame} (h : f ∈ mkData sid es cs) :
    ∃ c ∈ cs, ∃ e, f = .data sid e c := by
  induction cs with
  | nil => simp [mkData] at h
  | cons c rest ih =>
    cases rest with
    | nil => simp [mkData] at h; exact ⟨c, by simp, es, h⟩
    | cons c2 rest2 =>
      simp only [mkData, List.mem_cons] at h
      rcases h with h | h
      · exact ⟨c, by simp, false, h⟩
      · obtain ⟨c', hc', e, he⟩ := ih (by simpa [mkData] using h)
        exact ⟨c', by simp [hc'], e, he⟩

private theorem foldl_max_le (l : List Nat) (a m : Nat) (ha : a ≤ m) (hl : ∀ x ∈ l, x ≤ m) : l.foldl max a ≤ m := by
  induction l generalizing a with
  | nil => simpa
  | cons x rest ih =>
    simp only [List.foldl_cons]
    apply ih
    · have := hl x (by simp); omega
    · intro y hy; exact hl y (by simp [hy])

/-- **Frame size.** Every frame a relay input adds to the queues (DATA, HEADERS / PUSH_PROMISE with
their CONTINUATIONs, including the 5 priority / 4 promised-id octets) has payloads of at most
the receiver's MAX_FRAME_SIZE in force when it is enqueued (any legal value, ≥ 5 suffices). -/
theorem frame_within_max (r : Relay) (i : RIn) (hm : 5 ≤ r.maxFrame) :
    ∀ f ∈ acceptedOf r i, f.wireMax ≤ r.maxFrame := by
  intro f hf
  cases i with
  | data sid payload es =>
    obtain ⟨c, hc, e, rfl⟩ := mem_mkData hf
    exact dataChunks_le _ _ _ c hc
  | header sid fields es prio encoded =>
    simp only [acceptedOf, List.mem_singleton] at hf
    subst hf
    simp only [QFrame.wireMax, splitIntoChunks]
    apply foldl_max_le
    · simp only [List.length_take]; split <;> omega
    · intro x hx
      simp only [List.mem_map] at hx
      obtain ⟨c, hc, rfl⟩ := hx
      exact chunkRest_le _ _ _ c hc
  | push sid promised fields encoded =>
    simp only [acceptedOf, List.mem_singleton] at hf
    subst hf
    simp only [QFrame.wireMax, splitIntoChunks]
    apply foldl_max_le
    · simp only [List.length_take]; omega
    · intro x hx
      simp only [List.mem_map] at hx
      obtain ⟨c, hc, rfl⟩ := hx
      exact chunkRest_le _ _ _ c hc
  | priority sid p => simp [acceptedOf] at hf; subst hf; simp [QFrame.wireMax]
  | rst sid code => simp [acceptedOf] at hf; subst hf; simp [QFrame.wireMax]
  | _ => simp [acceptedOf] at hf

/-- … and nothing else is ever emitted: an emitted frame is one that was accepted. -/
theorem emitted_was_accepted (is : List RIn) (hok : OkRun {} is) :
    ∀ f ∈ (run {} is).emitted, f ∈ (run {} is).accepted := by
  have hg := (run_invariant is good0_init allstuck_init hok).1
  intro f hf
  have h1 : f ∈ onS f.sid (run {} is).emitted := by simp [onS, hf]
  have h2 : f ∈ onS f.sid (run {} is).accepted := by
    rw [← hg.conserve f.sid]; simp [h1]
  unfold onS at h2
  exact (List.mem_filter.mp h2).1

private theorem rstep_wrote (r : Relay) (i : RIn) (hi : ∀ s n, i ≠ .ctl (.windowUpdate s n)) :
    credits (rstep r i).wrote = credits r.wrote ++ (dataAccepted [i]).flatMap (fun p => [(0, p.2), (p.1, p.2)]) := by
  have happ : ∀ a b : List Ctl, credits (a ++ b) = credits a ++ credits b := by
    intro a b
    induction a with
    | nil => simp [credits]
    | cons c a ih => cases c <;> simp [credits, ih]
  cases i with
  | ctl c =>
    cases c with
    | windowUpdate s n => exact absurd rfl (hi s n)
    | _ => simp [rstep, happ, credits, dataAccepted]
  | credit sid flow =>
    simp only [rstep, dataAccepted]
    split <;> simp [happ, credits]
  | windowUpdate sid inc order =>
    simp only [rstep, emitStream_wrote, dataAccepted]
    have : ∀ r1 : Relay, (addWin (getOB r1 sid) sid inc).wrote = r1.wrote := by intro r1; simp [addWin]
    rw [this]; split <;> simp
  | _ => simp [rstep, dataAccepted]

private theorem dataAccepted_cons (i : RIn) (is : List RIn) :
    dataAccepted (i :: is) = dataAccepted [i] ++ dataAccepted is := by
  cases i <;> simp [dataAccepted]

/-- **Exact credit.** The WINDOW_UPDATE frames a relay writes to the sender are exactly, in order,
one for the connection and one for the stream per DATA frame accepted, each with that frame's
whole flow-controlled length (payload + padding + pad-length octet, see `flowLen` and
`dispatch`) — no more and no less. -/
theorem credit_returned_exact (is : List RIn) (hok : OkRun {} is) :
    credits (run {} is).wrote = (dataAccepted is).flatMap (fun p => [(0, p.2), (p.1, p.2)]) := by
  have gen : ∀ (r : Relay) (is : List RIn), OkRun r is →
      credits (run r is).wrote = credits r.wrote ++ (dataAccepted is).flatMap (fun p => [(0, p.2), (p.1, p.2)]) := by
    intro r is
    induction is generalizing r with
    | nil => simp [run, dataAccepted]
    | cons i is ih =>
      intro hok
      have := ih (rstep r i) hok.2
      simp only [run, List.foldl_cons] at this ⊢
      rw [this, rstep_wrote r i hok.1.2, dataAccepted_cons i is]
      simp
  have := gen {} is hok
  simpa [credits] using this

/-- The flow-controlled length handed to the credit is the frame header length. -/
theorem credit_is_flow_controlled_length (d : DState) (sid : Nat) (es : Bool) (payload : Bytes) (pad : Option Nat) :
    (dispatch d (.data sid es payload pad)).2 = [.data sid (flowLen payload pad) payload es] ∧
    flowLen payload none = payload.length ∧ ∀ n, flowLen payload (some n) = payload.length + n + 1 := by
  simp [dispatch, flowLen]

/-- **Nothing eligible is stranded.** After every operation, on every stream, the output queue is
empty or its head frame does not fit the stream window or the connection window: data for which
the receiver has granted enough credit has been put on the output channel, without further input. -/
theorem no_eligible_frame_stranded (is : List RIn) (hok : OkRun {} is) (s : Nat) :
    let r := run {} is
    (r.ob s).q = [] ∨ ∃ f q', (r.ob s).q = f :: q' ∧ ((r.connWin < f.size) ∨ ((r.ob s).win < f.size)) := by
  have hs := (run_invariant is good0_init allstuck_init hok).2 s
  rcases hs with h | ⟨f, q', hq, hf⟩
  · exact Or.inl h
  · refine Or.inr ⟨f, q', hq, ?_⟩
    simp only [fits, Bool.and_eq_false_iff, decide_eq_false_iff_not] at hf
    omega

/-! ### Non-vacuity: the hypotheses are satisfiable and the interesting branches are reached -/

/-- A history with a zero initial window, blocked DATA, a one-byte window and a connection pass. -/
def sample : List RIn :=
  [.initWin 0 [], .data 1 [1, 2, 3] false, .data 3 [4] true, .windowUpdate 3 1 [],
   .credit 1 16, .windowUpdate 0 10 [3, 1], .initWin 2 [1, 3, 0]]

example : OkRun {} sample := okRunB_sound _ _ (by decide)

example : ((run {} sample).emitted.map QFrame.size, ((run {} sample).ob 1).q.length) = ([1], 1) := by decide

/-! ### Facts regenerated from `/repo` on every run (`go/cmd/vextract/facts_c08.go`) -/

/-- Initial windows and frame size of `h2/relay.go` are the model's. -/
theorem facts_flow_constants :
    Generated.H2Relay.initialMaxFrameSize = ({} : Relay).maxFrame ∧
    Generated.H2Relay.defaultInitialWindowSize = ({} : Relay).initWin ∧
    (Generated.H2Relay.defaultInitialWindowSize : Int) = ({} : Relay).connWin := by
  decide

/-- `sendWindowUpdates` computes the credit from the frame header length (F09 fix), which is what
`dispatch` passes as `flowLen`. -/
theorem facts_credit_uses_frame_header_length : Generated.H2Relay.creditUsesFrameHeaderLength = true := by
  decide

end Martian.Props.C09
