/-! STUB — property C09 is not built yet. -/
