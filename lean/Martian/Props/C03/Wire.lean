import Martian.Lemmas.Http1Wire
import Martian.Lemmas.Http1Ext
/-!
C03, clause "a response that is detectably incomplete …; bytes of a later response are never
delivered as part of an earlier one" — at the level of the bytes, with the HTTP/1 reader inside
the model (`Model/Http1.lean`, run against `net/http` on every check).

What is proved, for EVERY truncation offset of EVERY well-formed length-delimited response
(Content-Length or chunked in any chunking, with or without trailers):
* the truncated stream is never read as a complete response (`incomplete` = Go's unexpected-EOF
  family, or `malformed` where Go reports a non-EOF error such as a cut inside the version token);
* a complete response followed by the bytes of the next one is read as exactly that response and
  not one byte of the next is consumed (no desync after a complete response);
* the same for requests (what the proxy reads from a client).
What is NOT true, and why the proxy must close (as `post_head_failure_is_incomplete_then_close` and
`nothing_served_after_closing_exchange` in `Props/C03.lean` say it does): if reading went on after
a truncation, bytes of the next response WOULD complete the truncated one
(`reading_on_after_truncation_would_desync`, a concrete witness).
-/
namespace Martian.Props.C03
open Martian Martian.Go Martian.MessageView Martian.Http1

/-- No strict prefix of a length-delimited response is read as a complete response. -/
theorem truncated_response_is_never_complete (meth : Bytes) (m : Msg) (h : WFRes meth m)
    (hl : lengthDelimited m = true) :
    ∀ k, k < (wire m).length → (readResponse meth ((wire m).take k)).isComplete = false := by
  have hr : ∀ rest : Bytes, lengthDelimited m = false → rest = [] := by intro rest hf; rw [hl] at hf; cases hf
  have h0 := readResponse_wire meth m h [] (hr [])
  have h1 := readResponse_wire meth m h [0] (hr [0])
  simp only [List.append_nil] at h0
  exact response_prefix_never_complete meth (wire m) (resParsed m) h0 h1

/-- The same for every chunking of the body, not only the serialiser's single chunk. -/
theorem truncated_chunked_response_is_never_complete (meth : Bytes) (m : Msg) (h : WFRes meth m)
    (hch : isChunked m.te = true) (cs : List Bytes) (hcs : cs.flatten = m.body.getD [])
    (hne : ∀ c ∈ cs, c ≠ []) :
    ∀ k, k < (wireChunkedAs m cs).length →
      (readResponse meth ((wireChunkedAs m cs).take k)).isComplete = false := by
  have hl : lengthDelimited m = true := by simp [lengthDelimited, hch]
  have hr : ∀ rest : Bytes, lengthDelimited m = false → rest = [] := by intro rest hf; rw [hl] at hf; cases hf
  have h0 := readResponse_wire_framed meth m h cs hcs hne [] (hr [])
  have h1 := readResponse_wire_framed meth m h cs hcs hne [0] (hr [0])
  simp only [hch, if_true, List.append_nil] at h0 h1
  exact response_prefix_never_complete meth _ (resParsed m) h0 h1

/-- A complete length-delimited response followed by ANY further bytes (the next response of a
kept-alive upstream connection) is read as that response; the further bytes are left untouched. -/
theorem complete_response_leaves_the_next_untouched (meth : Bytes) (m : Msg) (h : WFRes meth m)
    (hl : lengthDelimited m = true) (next : Bytes) :
    readResponse meth (wire m ++ next) = .complete (resParsed m) next :=
  readResponse_wire meth m h next (by intro hf; rw [hl] at hf; cases hf)

/-- Requests: no strict prefix of a well-formed request is read as a complete request (a client that
hangs up inside a request never makes the proxy act on a partial one). -/
theorem truncated_request_is_never_complete (m : Msg) (h : WFReq m) :
    ∀ k, k < (wire m).length → (readRequest ((wire m).take k)).isComplete = false := by
  have h0 := readRequest_wire m h []
  have h1 := readRequest_wire m h [0]
  simp only [List.append_nil] at h0
  exact request_prefix_never_complete (wire m) (reqParsed m) h0 h1

/-- The general form behind these: for ANY byte string read as one complete length-delimited
response with nothing left over, no strict prefix is read as a complete response. -/
theorem prefix_of_a_complete_response_is_never_complete (meth w : Bytes) (p : Parsed)
    (h0 : readResponse meth w = .complete p []) (h1 : readResponse meth (w ++ [0]) = .complete p [0]) :
    ∀ k, k < w.length → (readResponse meth (w.take k)).isComplete = false :=
  response_prefix_never_complete meth w p h0 h1

/-! The statement "bytes appended after a truncated response are never delivered as a complete
first message" is FALSE of any HTTP/1 reader, and is not what the property asks: it is the close
after the truncated response that prevents it. Witness (test): a response announcing 4 body bytes
cut after 2, followed by the next response, reads as a complete response whose body is made of
bytes of both. -/

def truncated2 : Bytes := strBytes "HTTP/1.1 200 OK\r\nContent-Length: 4\r\n\r\nab"
def nextRes : Bytes := strBytes "HTTP/1.1 404 Not Found\r\nContent-Length: 0\r\n\r\n"

theorem reading_on_after_truncation_would_desync :
    (readResponse (strBytes "GET") truncated2).isComplete = false ∧
    (match readResponse (strBytes "GET") (truncated2 ++ nextRes) with
      | .complete p _ => p.msg.body == some (strBytes "abHT")
      | _ => false) = true := by
  decide

/-! Non-vacuity (tests). -/

def exRes : Msg :=
  { isReq := false, method := [], url := [], major := 1, minor := 1, code := 200, status := strBytes "200 OK",
    host := [], te := [chunkedTok], cl := -1, hdr := [(strBytes "X-A", strBytes "1")],
    body := some (strBytes "hello world"), trailer := none }

example : WFRes (strBytes "GET") exRes ∧ lengthDelimited exRes = true ∧ isChunked exRes.te = true := by decide
example : [strBytes "hello", strBytes " ", strBytes "world"].flatten = exRes.body.getD [] ∧
    ∀ c ∈ [strBytes "hello", strBytes " ", strBytes "world"], c ≠ ([] : Bytes) := by decide

end Martian.Props.C03
