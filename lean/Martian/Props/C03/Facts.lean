import Martian.Skel
import Martian.Generated.Proxy
/-!
C03 — structural facts of `proxy.go` (regenerated from the source on every check) behind the
failure theorems: a round-trip error is replaced by a synthetic 502 carrying a Warning *before*
the response modifier runs (so it passes through it like any response); an error while writing or
flushing the response makes `handle` return `errClose` (the connection is closed rather than
re-used out of frame, F03 repair); a failed CONNECT dial is answered 502 + Warning and returns the
flush error only.
-/
namespace Martian.Props.C03
open Martian Skel
open Martian.Generated.Proxy (handle connectBlind connect)

theorem facts_roundtrip_error_becomes_502_through_resmod :
    hasBlock ["call p.roundTrip", "if err != nil {", "call proxyutil.NewResponse(502)", "call proxyutil.Warning", "}",
              "defer res.Body.Close", "set res.Request = req", "call p.resmod.ModifyResponse"] handle = true := by
  decide

theorem facts_write_error_closes_connection :
    hasBlock ["call res.Write", "if err != nil {", "set closing = errClose", "}",
              "call brw.Flush", "if err != nil {", "set closing = errClose", "}", "return closing"] handle = true := by
  decide

theorem facts_failed_connect_is_502_and_connection_kept :
    hasBlock ["call p.connect", "set cerr = p.connect(req)", "if cerr != nil {", "call proxyutil.NewResponse(502)", "call proxyutil.Warning",
              "call p.resmod.ModifyResponse"] connectBlind = true ∧
    hasBlock ["call res.Write", "call brw.Flush", "return err", "}", "defer res.Body.Close"] connectBlind = true := by
  decide

/-- `connect`: a dial error, or an unreadable answer of a downstream proxy, is returned as the
error (→ 502); nothing else is. -/
theorem facts_connect_errors :
    count "return nil, nil, err" connect = 3 ∧
    hasSeq ["if p.proxyURL != nil {", "call p.dial", "return nil, nil, err", "call http.ReadResponse", "return nil, nil, err",
            "return res, conn, nil", "}", "call p.dial", "return nil, nil, err", "call proxyutil.NewResponse(200)"] connect = true := by
  decide

end Martian.Props.C03
