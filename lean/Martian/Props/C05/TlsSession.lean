import Martian.Lemmas.Proxy
import Martian.Lemmas.ProxyTrace
import Martian.Lemmas.ProxyState
/-!
C05 — "… and the connection's TLS state attached": *which* TLS state. One client connection can
carry several TLS sessions, nested in each other: the one a transparent-TLS listener terminates
(id 1) and one per MITM'd CONNECT whose tunnel starts with a handshake (id `j + 2` for the CONNECT
with index `j`) - a CONNECT arriving on a TLS listener connection, a second CONNECT inside a tunnel.
`handle` takes `req.TLS` from the connection it is given, on every request anew; `reqmod … tid`
records whose state that is. Proved for every script and every starting state: a request carries
the state of the innermost session it was decrypted from - never the listener's, never an outer
tunnel's - and cleartext inside a tunnel stays on the session of the enclosing layer.
-/
namespace Martian.Props.C05
open Martian.Proxy

variable (sd : Bool) (base : Nat) (items : List Item)

/-- What the request modifier sees for a request handled in state `s`, TLS identity included. -/
theorem reqmod_of_state (s : St) (i c : Nat) (it : Item) :
    Ev.reqmod i c (s.secure || s.connTls) (s.secure || s.connTls) s.connTls (if s.connTls then s.tlsId else 0)
      ∈ (handleItem sd s i c it).1 := by
  item_cases it

/-- The request with index `k` carries TLS state exactly when `handle` is given a TLS connection,
and then it is the state of the session computed by `tidAt`: the innermost one at that point. -/
theorem request_tls_state_is_the_innermost_sessions (s0 : St) (k : Nat) (s' : St) (it : Item)
    (h : at? sd base s0 0 items k = some (s', it)) :
    Ev.reqmod k (base + k) (s'.secure || s'.connTls) (s'.secure || s'.connTls) s'.connTls
      (if s'.connTls then tidAt 0 s0.tlsId items k else 0) ∈ runConnOn s0 sd base items := by
  have := reqmod_of_state sd s' k (base + k) it
  rw [(at?_tls sd base s0 0 items k s' it h).1] at this
  exact mem_run_of_at? sd base s0 0 [] items k s' it h _ this

/-- **Every request decrypted from a tunnel carries that tunnel's TLS session**: after the MITM
CONNECT with index `j` (tunnel starting with a handshake), and as long as no further such CONNECT
follows, a request is https, on a secure session, and its TLS state is that of session `j + 2` -
whatever the connection started as (plain listener, transparent-TLS listener, …). -/
theorem tunnel_request_carries_its_tunnels_session (s0 : St) (j k : Nat) (rq : ReqB) (rs : ResB) (s' : St) (it : Item)
    (hj : items[j]? = some (.connectMitm true rq rs)) (hjk : j < k)
    (hno : ∀ m, j < m → m < k → ∀ x, items[m]? = some x → isTlsMitm x = false)
    (h : at? sd base s0 0 items k = some (s', it)) :
    Ev.reqmod k (base + k) true true true (j + 2) ∈ runConnOn s0 sd base items := by
  have hsec := at?_after_mitm sd base s0 0 items j k s' it rq rs (by omega) hjk (by simpa using hj) h
  obtain ⟨h2, _⟩ := hsec
  have := request_tls_state_is_the_innermost_sessions sd base items s0 k s' it h
  simp only [h2, Bool.or_true] at this
  rw [tidAt_after 0 s0.tlsId items j k (by omega) hjk ⟨_, by simpa using hj, rfl⟩
    (by intro m h1 h2 x hx; exact hno m h1 h2 x (by simpa using hx))] at this
  simpa using this

/-- … **never the listener's**: on a transparent-TLS listener connection (session 1), a request
served after a TLS MITM CONNECT never carries session 1, nor no state at all. -/
theorem tunnel_request_never_carries_the_listeners_session (j k : Nat) (rq : ReqB) (rs : ResB) (s' : St) (it : Item)
    (hj : items[j]? = some (.connectMitm true rq rs)) (hjk : j < k)
    (h : at? sd base tlsListenerState 0 items k = some (s', it)) :
    s'.connTls = true ∧ s'.tlsId ≠ 1 ∧ s'.tlsId ≠ 0 := by
  have hsec := at?_after_mitm sd base tlsListenerState 0 items j k s' it rq rs (by omega) hjk (by simpa using hj) h
  refine ⟨hsec.1, ?_⟩
  rw [(at?_tls sd base tlsListenerState 0 items k s' it h).1]
  -- the session in force is `m + 2` for the last TLS CONNECT `m` before `k`, and there is one (`j`)
  suffices hs : ∀ (l : List Item) (i t : Nat), i ≤ j → (∃ x, l[j - i]? = some x ∧ isTlsMitm x = true) →
      2 ≤ tidAt i t l k by
    have := hs items 0 tlsListenerState.tlsId (by omega) ⟨_, by simpa using hj, rfl⟩
    omega
  intro l
  induction l with
  | nil => intro i t _ ⟨x, hx, _⟩; simp at hx
  | cons y r ih =>
    intro i t hij ⟨x, hx, hm⟩
    have hki : ¬ k ≤ i := by omega
    simp only [tidAt, hki, if_false]
    by_cases hji : j = i
    · subst hji
      simp at hx; subst hx
      simp only [hm, if_true]
      -- from here on the id only ever becomes `m + 2` for some m
      suffices hs2 : ∀ (l : List Item) (i' t' : Nat), 2 ≤ t' → 2 ≤ tidAt i' t' l k from hs2 r _ _ (by omega)
      intro l
      induction l with
      | nil => intro _ _ ht; simpa [tidAt] using ht
      | cons z r' ih' =>
        intro i' t' ht
        simp only [tidAt]
        split
        · exact ht
        · apply ih'; split <;> omega
    · refine ih (i + 1) _ (by omega) ⟨x, ?_, hm⟩
      have : j - i = (j - (i + 1)) + 1 := by omega
      rw [this] at hx; simpa using hx

/-- A modifier that hijacks the session inside a tunnel is handed the decrypted connection of that
tunnel - the innermost one (`session.setConn` re-points the session at every level). -/
theorem hijacker_is_handed_the_innermost_tunnels_connection (s0 : St) (j k : Nat) (rq : ReqB) (rs : ResB)
    (s' : St) (it : Item)
    (hj : items[j]? = some (.connectMitm true rq rs)) (hjk : j < k)
    (hno : ∀ m, j < m → m < k → ∀ x, items[m]? = some x → isTlsMitm x = false)
    (h : at? sd base s0 0 items k = some (s', it)) :
    ∀ t tid, Ev.hijacked k t tid ∈ (handleItem sd s' k (base + k) it).1 → t = true ∧ tid = j + 2 := by
  have hsec := at?_after_mitm sd base s0 0 items j k s' it rq rs (by omega) hjk (by simpa using hj) h
  obtain ⟨h2, h3⟩ := hsec
  have hid : s'.tlsId = j + 2 := by
    rw [(at?_tls sd base s0 0 items k s' it h).1]
    exact tidAt_after 0 s0.tlsId items j k (by omega) hjk ⟨_, by simpa using hj, rfl⟩
      (by intro m h1 h2 x hx; exact hno m h1 h2 x (by simpa using hx))
  intro t tid
  item_cases it then (try (intro ht; simp_all [hijTid]))

/-- A second CONNECT inside a tunnel opens a session of its own: requests after it carry the inner
tunnel's state, not the outer tunnel's. -/
theorem second_connect_inside_tunnel_has_its_own_session (s0 : St) (j1 j2 k : Nat) (rq1 rq2 : ReqB) (rs1 rs2 : ResB)
    (s' : St) (it : Item)
    (_h1 : items[j1]? = some (.connectMitm true rq1 rs1)) (h2 : items[j2]? = some (.connectMitm true rq2 rs2))
    (h12 : j1 < j2) (h2k : j2 < k)
    (hno : ∀ m, j2 < m → m < k → ∀ x, items[m]? = some x → isTlsMitm x = false)
    (h : at? sd base s0 0 items k = some (s', it)) :
    Ev.reqmod k (base + k) true true true (j2 + 2) ∈ runConnOn s0 sd base items ∧ j2 + 2 ≠ j1 + 2 :=
  ⟨tunnel_request_carries_its_tunnels_session sd base items s0 j2 k rq2 rs2 s' it h2 h2k hno h, by omega⟩

/-- CONNECT inside a transparent-TLS listener connection, tunnel carrying cleartext HTTP (and any
other traffic before a tunnel with a handshake of its own): still https, secure, and the state
attached is the listener session's. -/
theorem cleartext_inside_tls_listener_carries_the_listeners_session (k : Nat) (s' : St) (it : Item)
    (hno : ∀ m, m < k → ∀ x, items[m]? = some x → isTlsMitm x = false)
    (h : at? sd base tlsListenerState 0 items k = some (s', it)) :
    Ev.reqmod k (base + k) true true true 1 ∈ runConnOn tlsListenerState sd base items := by
  have hc := (at?_tls sd base tlsListenerState 0 items k s' it h).2 rfl
  have := request_tls_state_is_the_innermost_sessions sd base items tlsListenerState k s' it h
  rw [hc, tidAt_none 0 _ items k (by intro m _ h2 x hx; exact hno m h2 x (by simpa using hx))] at this
  simpa [tlsListenerState] using this

/-- Cleartext after a MITM CONNECT on a plain listener carries no TLS state at all. -/
theorem cleartext_after_mitm_connect_has_no_tls_state (k : Nat) (s' : St) (it : Item)
    (hno : ∀ m, m < k → ∀ x, items[m]? = some x → isTlsMitm x = false)
    (h : at? sd base {} 0 items k = some (s', it)) :
    Ev.reqmod k (base + k) false false false 0 ∈ runConn sd base items := by
  have hp : Plain s' := at?_plain sd base {} 0 items k s' it ⟨rfl, rfl, rfl⟩ (by simpa using hno) h
  obtain ⟨h1, h2, _⟩ := hp
  have := reqmod_of_state sd s' k (base + k) it
  rw [h1, h2] at this
  exact mem_run_of_at? sd base {} 0 [] items k s' it h _ (by simpa using this)

/-! ### Handshakes that fail -/

/-- **A failed handshake changes no session state**: a MITM CONNECT whose TLS handshake fails leaves
the loop with exactly the state a plain request leaves behind (`stAfter s`: nothing re-pointed,
nothing newly marked), on the same connection. -/
theorem failed_handshake_changes_no_session_state (s : St) (i c : Nat) (rq : ReqB) (rs : ResB)
    (hq : rq ≠ .hijack) (hs : rs ≠ .hijack) :
    (handleItem sd s i c (.connectMitmFail rq rs)).2 = .again (afterReq rq (stAfter s)) ∧
    (handleItem sd s i c (.connectMitmFail rq rs)).2 = (handleItem false s i c (.x false rq .pass (.ok 200 false))).2 := by
  cases rq <;> cases rs <;> simp_all [handleItem, handleMitmFail, handleX, rqSkip]

/-- After handshakes that failed - and tunnels carrying cleartext - on a plain listener connection,
every request is plain HTTP on an insecure session without TLS state: the CONNECT whose handshake
failed at index `j` is just another item that is not a (successful) TLS MITM CONNECT. -/
theorem after_failed_handshake_traffic_is_plain (j k : Nat) (rq : ReqB) (rs : ResB) (s' : St) (it : Item)
    (_hj : items[j]? = some (.connectMitmFail rq rs)) (_hjk : j < k)
    (hno : ∀ m, m < k → ∀ x, items[m]? = some x → isTlsMitm x = false)
    (h : at? sd base {} 0 items k = some (s', it)) :
    Ev.reqmod k (base + k) false false false 0 ∈ runConn sd base items :=
  cleartext_after_mitm_connect_has_no_tls_state sd base items k s' it hno h

/-- A handshake that fails inside a tunnel leaves that tunnel's session in force. -/
theorem failed_handshake_inside_tunnel_keeps_the_tunnels_session (s0 : St) (j m k : Nat) (rq rq' : ReqB) (rs rs' : ResB)
    (s' : St) (it : Item)
    (hj : items[j]? = some (.connectMitm true rq rs)) (_hm : items[m]? = some (.connectMitmFail rq' rs'))
    (_hjm : j < m) (hmk : m < k)
    (hno : ∀ n, j < n → n < k → ∀ x, items[n]? = some x → isTlsMitm x = false)
    (h : at? sd base s0 0 items k = some (s', it)) :
    Ev.reqmod k (base + k) true true true (j + 2) ∈ runConnOn s0 sd base items :=
  tunnel_request_carries_its_tunnels_session sd base items s0 j k rq rs s' it hj (by omega) hno h

/-! ### What modifiers do to the session through its public API -/

/-- **One session, one storage, for the whole connection**: when the request with index `k` is read,
the session holds every value stored during the `k` earlier exchanges of the connection - across
CONNECT, the TLS upgrade (`setConn`), nested tunnels, failed handshakes and whatever the modifiers
did. (`stored` counts the values; the recording request modifier stores one per request.) -/
theorem session_values_survive_the_connection (s0 : St) (k : Nat) (s' : St) (it : Item)
    (h : at? sd base s0 0 items k = some (s', it)) : s'.stored = s0.stored + k := by
  simpa using at?_stored sd base s0 0 items k s' it h

/-- **`MarkInsecure()` by a modifier does not downgrade a decrypted connection**: after an exchange
whose request modifier cleared the flag, the flag *is* cleared (`secure = false`), and the next
request read from the TLS connection is https on a secure session with TLS state all the same -
`handle` looks at the connection it is given, every time. -/
theorem markinsecure_lasts_until_the_next_request (s : St) (i c : Nat) (rc : Bool) (rs : ResB) (org : Org) (s2 : St)
    (hs : Sec s) (h : (handleItem sd s i c (.x rc .insecure rs org)).2 = .again s2) (i' c' : Nat) (it : Item) :
    s2.secure = false ∧
      Ev.reqmod i' c' true true true s2.tlsId ∈ (handleItem sd s2 i' c' it).1 := by
  have hsec2 : Sec s2 := again_sec sd s s2 i c _ hs h
  refine ⟨?_, ?_⟩
  · revert h
    cases rs <;> cases org <;> simp [handleItem, handleX, rqSkip, afterReq] <;>
      (try (intro h; split at h <;> first | contradiction | (injection h with h; subst h; simp))) <;>
      (try (intro _ h; subst h; simp))
  · have := reqmod_of_state sd s2 i' c' it
    simpa [hsec2.1] using this

/-! ### Several connections through one proxy -/

/-- A proxy serving several connections one after the other: every connection is run by its own
`handleLoop` from the initial state of its listener kind (`newSession`: insecure, no values), with
context ids of its own (`base j`). -/
def runProxy (s0 : St) (base : Nat → Nat) (conns : List (List Item)) : List (List Ev) :=
  (List.range conns.length).zip conns |>.map fun (j, items) => runConnOn s0 sd (base j) items

/-- **Connections are independent**: what happens on the `j`-th connection of a proxy depends on its
own script only - not on what earlier (or later) connections carried: replacing all other
connections by anything leaves its trace unchanged. In particular a plain connection after a MITM'd
TLS connection starts insecure, and no session value crosses connections. -/
theorem connections_are_independent (s0 : St) (base : Nat → Nat) (before before' after after' : List (List Item))
    (items : List Item) (h : before.length = before'.length) :
    (runProxy sd s0 base (before ++ items :: after))[before.length]? =
      (runProxy sd s0 base (before' ++ items :: after'))[before'.length]? := by
  have key : ∀ (b a : List (List Item)),
      (runProxy sd s0 base (b ++ items :: a))[b.length]? = some (runConnOn s0 sd (base b.length) items) := by
    intro b a
    simp [runProxy, List.getElem?_map, List.getElem?_zip_eq_some, List.getElem?_range]
  rw [key, key, h]

/-- The first request of any connection on a plain listener is plain, whatever the proxy served before. -/
theorem new_connection_starts_plain (base : Nat → Nat) (before after : List (List Item)) (it : Item) (rest : List Item) :
    ∃ evs, (runProxy sd {} base (before ++ (it :: rest) :: after))[before.length]? = some evs ∧
      Ev.reqmod 0 (base before.length + 0) false false false 0 ∈ evs := by
  refine ⟨runConnOn {} sd (base before.length) (it :: rest), ?_, ?_⟩
  · simp [runProxy, List.getElem?_map, List.getElem?_zip_eq_some, List.getElem?_range]
  · have := cleartext_after_mitm_connect_has_no_tls_state sd (base before.length) (it :: rest) 0 {} it
      (by intro m hm; omega) (by simp [at?])
    simpa [runConn, runConnOn] using this

/-! ### Upstream: TLS or nothing -/

/-- **Upstream contact on behalf of a secure session is over TLS or does not happen**: whatever the
exchange (any modifier behaviour, any origin outcome - a failing TLS layer is `Org.fail`), every
upstream event it produces in a state that is secure or on a TLS connection carries `tls = true`;
and when the round trip fails the client gets the 502 with its Warning, nothing else. -/
theorem secure_upstream_is_tls_or_nothing (s : St) (i c : Nat) (it : Item) (hs : (s.secure || s.connTls) = true) :
    ∀ t, Ev.upstream i t ∈ (handleItem sd s i c it).1 → t = true := by
  intro t
  item_cases it then (try (intro ht; simp_all))

theorem failed_secure_round_trip_is_a_502 (s : St) (i c : Nat) (rc : Bool) (hs : (s.secure || s.connTls) = true) :
    (handleItem sd s i c (.x rc .pass .pass .fail)).1 =
      pre s i c .pass ++ [.upstream i true, .warnRt i, .resmod i c 502, .write i 502 (rc || sd) true, .unlink c] := by
  simp [handleItem, handleX, rqSkip, rsErr, stAfter, hs]

/-! Non-vacuity (tests): a transparent-TLS listener connection with a request, a CONNECT with a
handshake, a request, a CONNECT carrying cleartext, a request, a third CONNECT with a handshake, a
request: sessions 1, 1, 3, 3, 3, 3, 7. -/
example : (runConnOn tlsListenerState false 0 [.x false .pass .pass (.ok 200 false), .connectMitm true .pass .pass,
      .x false .pass .pass (.ok 200 false), .connectMitm false .pass .pass, .x false .pass .pass (.ok 200 false),
      .connectMitm true .pass .pass, .x false .pass .pass (.ok 200 false)]).filterMap
      (fun e => match e with | .reqmod i _ _ _ _ tid => some (i, tid) | _ => none)
    = [(0, 1), (1, 1), (2, 3), (3, 3), (4, 3), (5, 3), (6, 7)] := by decide
example : at? false 0 tlsListenerState 0 [.connectMitm true .pass .pass, .x false .pass .pass (.ok 200 false)] 1
    = some ({ secure := true, connTls := true, sessTls := true, tlsId := 2, stored := 1 }, .x false .pass .pass (.ok 200 false)) := by decide

end Martian.Props.C05
