import Martian.Skel
import Martian.Generated.Proxy
/-!
C05 — structural facts of `proxy.go` (regenerated from the source on every check) behind the
no-downgrade theorems: `handle` marks the session secure and sets `req.TLS` whenever the connection
it is given is a TLS connection (directly or inside a traffic-shaped one), *before* the scheme is
chosen; the scheme is https exactly when the session is secure; after a MITM handshake the buffered
reader and writer and the session are re-pointed to the decrypted connection and **every** request
of the tunnel is handled on it (F05 repair).
-/
namespace Martian.Props.C05
open Martian Skel
open Martian.Generated.Proxy (handle connectMitm)

theorem facts_secure_marking_precedes_scheme :
    hasBlock ["if tsconn, ok := conn.(*trafficshape.Conn); ok {", "if sconn, ok := wrconn.(*tls.Conn); ok {",
              "call session.MarkSecure", "set req.TLS = &cs", "}", "}",
              "if tconn, ok := conn.(*tls.Conn); ok {", "call session.MarkSecure", "set req.TLS = &cs", "}",
              "set req.URL.Scheme = \"http\"", "if session.IsSecure() {", "set req.URL.Scheme = \"https\"", "}"] handle = true ∧
    hasSeq ["set req.URL.Scheme = \"https\"", "call p.handleConnectRequest", "call p.reqmod.ModifyRequest"] handle = true ∧
    count "set req.URL.Scheme = \"http\"" handle = 1 := by
  decide

theorem facts_tunnel_served_on_decrypted_connection :
    hasSeq ["if b[0] == 22 {", "call tls.Server", "call tlsconn.Handshake", "set nconn = tlsconn",
            "call brw.Writer.Reset", "call brw.Reader.Reset", "call session.setConn",
            "for {", "call nconn.SetDeadline", "call p.handle", "}", "}"] connectMitm = true ∧
    hasBlock ["if err := tlsconn.Handshake(); err != nil {", "call p.mitm.HandshakeErrorCallback", "return err", "}"] connectMitm = true ∧
    hasBlock ["if ptsconn, ok := conn.(*trafficshape.Conn); ok {", "call ptsconn.Listener.GetTrafficShapedConn",
              "set nconn = ptsconn.Listener.GetTrafficShapedConn(tlsconn)", "}"] connectMitm = true := by
  decide

end Martian.Props.C05
