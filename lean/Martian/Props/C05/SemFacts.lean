import Martian.Generated.ProxySem
/-!
C05 — semantic facts of `proxy.go` (regenerated from the source on every check by
`go/cmd/vextract/facts_proxy_sem.go`), independent of statement order and of the names of
temporaries: where values come from, which fields are written, whether a branch can be left.
-/
namespace Martian.Props.C05

/-- Every assignment to `req.TLS` in `handle` takes the `tls.ConnectionState` from the connection
`handle` was given (its `conn` parameter, directly or unwrapped from a traffic-shaped connection),
traced through local definitions and type assertions - not from the session, a cache or any other
object. That is what the model's `tid` (`if s.connTls then s.tlsId else 0`, the state of the
connection argument) transcribes; there is at least one such assignment. -/
theorem facts_req_tls_comes_from_handles_connection :
    Martian.Generated.ProxySem.reqTLSSources.all (· == "conn") = true ∧
    Martian.Generated.ProxySem.reqTLSSources ≠ [] := by
  decide

end Martian.Props.C05
