/-! STUB — property C17 is not built yet. -/
