import Martian.Lemmas.HarLog
import Martian.Props.C17.Faults
import Martian.Props.C17.Conc
/-!
C17 — The HAR log returns every exchange once, in arrival order, across any history.

Only property theorems and non-vacuity examples live here.  `run init 0 ops` is the
pointer-level model (ring + index map, `Model/HarLog.lean`) executed on the history `ops`;
`Spec.run`, `logAfter` are the list specification.  An entry is identified by the index of the
operation that recorded its request (`rq`); `rs` is the index of the operation that recorded the
attached response.  Quantifiers: every history (any length, any IDs), every reachable heap.

This file: histories of critical sections (`Op`; `Op.idle` = a call that returned before taking
the lock).  `Props/C17/Faults.lean`: the API level (options, `NewRequest`/`NewResponse` failure
paths) and the same theorems for histories of API calls.  `Props/C17/Conc.lean`: the regenerated
lock-discipline fact and linearisability of concurrent executions.
-/
namespace Martian.Props.C17
open Martian Martian.HarLog

/-! ### Refinement: the ring surgery implements the list specification -/

/-- Every observation of the pointer-level model, on every history, is the specification's. -/
theorem heap_refines_spec (ops : List Op) : run init 0 ops = Spec.run [] 0 ops :=
  run_refines ops init [] 0 Reach_init

/-- After every history the heap is a well-formed ring (walking `next` from `tail` visits exactly
    the indexed nodes once, `len(entries)` = number of nodes) representing the abstract log. -/
theorem ring_invariant_reachable (ops : List Op) : Reach (after init 0 ops) (logAfter ops) :=
  after_reach ops init [] 0 Reach_init

/-- No nil dereference in `ExportAndReset`, and every loop ends within `len(entries)` rounds. -/
theorem never_panics_nor_diverges (ops : List Op) :
    Obs.panic ∉ run init 0 ops ∧ Obs.diverge ∉ run init 0 ops := by
  rw [heap_refines_spec]; exact Spec.run_safe ops [] 0

/-- RecordRequest with a fresh ID appends at the end (arrival order). -/
theorem request_appended_if_fresh (h : Heap) (l : Log) (id : String) (t : Nat)
    (hr : Reach h l) (hf : Spec.hasId l id = false) :
    (recordRequest h id t).2 = .ok ∧ Reach (recordRequest h id t).1 (l ++ [⟨id, t, none⟩]) := by
  have := step_sim h l t (.req id) hr
  simp only [step, Spec.step, Spec.req, hf, Bool.false_eq_true, if_false] at this
  exact ⟨this.2, this.1⟩

/-- A duplicate request ID is rejected and the log is not disturbed. -/
theorem duplicate_rejected_log_undisturbed (h : Heap) (l : Log) (id : String) (t : Nat)
    (hr : Reach h l) (hd : Spec.hasId l id = true) :
    (recordRequest h id t).2 = .dup ∧ Reach (recordRequest h id t).1 l := by
  have := step_sim h l t (.req id) hr
  simp only [step, Spec.step, Spec.req, hd, if_true] at this
  exact ⟨this.2, this.1⟩

/-- RecordResponse attaches the response to the entry with that ID and touches no other entry. -/
theorem response_attached_to_own_id (h : Heap) (l : Log) (id : String) (t : Nat) (hr : Reach h l) :
    Reach (recordResponse h id t)
      (l.map fun e => if e.id = id then { e with rs := some t } else e) :=
  (step_sim h l t (.res id) hr).1

/-- A response for an unknown (or already reset / already returned) ID changes nothing at all. -/
theorem orphan_response_ignored (h : Heap) (l : Log) (id : String) (t : Nat)
    (hr : Reach h l) (hf : Spec.hasId l id = false) : recordResponse h id t = h := by
  obtain ⟨ns, r, rfl⟩ := hr
  rw [r.hasId] at hf
  unfold recordResponse
  cases hg : h.entries.get id with
  | none => rfl
  | some a => rw [hg] at hf; cases hf

/-- Export returns the whole log, in order. -/
theorem export_is_the_log (h : Heap) (l : Log) (hr : Reach h l) : exportLog h = .log l :=
  (step_sim h l 0 .exp hr).2

/-- ExportAndReset returns exactly the completed entries and keeps exactly the pending ones,
    both in their original order. -/
theorem export_and_reset_partitions (h : Heap) (l : Log) (hr : Reach h l) :
    (exportAndReset h).2 = .log (l.filter fun e => e.done) ∧
    Reach (exportAndReset h).1 (l.filter fun e => !e.done) := by
  have := step_sim h l 0 .xreset hr
  exact ⟨this.2, this.1⟩

theorem reset_empties (h : Heap) (l : Log) (hr : Reach h l) : Reach (reset h) [] :=
  (step_sim h l 0 .reset hr).1

/-! ### Histories -/

/-- Export after any history lists the log of that history. -/
theorem export_lists_log (pre : List Op) :
    run init 0 (pre ++ [.exp]) = run init 0 pre ++ [.log (logAfter pre)] := by
  rw [heap_refines_spec, heap_refines_spec, Spec.run_append]; rfl

/-- Export-and-reset after any history returns the completed entries and leaves the pending ones. -/
theorem export_and_reset_after (pre : List Op) :
    run init 0 (pre ++ [.xreset]) = run init 0 pre ++ [.log ((logAfter pre).filter fun e => e.done)] ∧
    logAfter (pre ++ [.xreset]) = (logAfter pre).filter fun e => !e.done := by
  refine ⟨?_, ?_⟩
  · rw [heap_refines_spec, heap_refines_spec, Spec.run_append]; rfl
  · show Spec.after [] 0 (pre ++ [.xreset]) = _
    rw [Spec.after_append]; rfl

/-- Every list handed out by Export or ExportAndReset, at any point of any history, is in
    request-arrival order (strictly increasing arrival index, hence no entry twice). -/
theorem exports_in_arrival_order (ops : List Op) (es : List Ent)
    (h : Obs.log es ∈ run init 0 ops) : (rqs es).Pairwise (· < ·) := by
  rw [heap_refines_spec] at h
  exact sorted_outputs ops [] 0 (WF_nil 0) es h

/-- Over the whole life of the log no request is returned by export-and-reset more than once. -/
theorem returned_at_most_once (ops : List Op) :
    (rqs (returned ops (run init 0 ops))).Nodup := by
  rw [heap_refines_spec]
  exact (returned_inv ops [] 0 (WF_nil 0)).1

/-- Export-and-reset never returns a pending entry. -/
theorem returned_are_completed (ops : List Op) :
    ∀ e ∈ returned ops (run init 0 ops), e.done = true := by
  rw [heap_refines_spec]
  exact returned_done ops [] 0

/-- An entry that is complete, or whose response arrives before the next export-and-reset (with no
    reset in between), is returned by that export-and-reset with its own request. Together with
    `returned_at_most_once`: exactly once. -/
theorem completed_returned_by_next_export_and_reset (pre mid : List Op) (e : Ent)
    (he : e ∈ logAfter pre) (hq : ∀ o ∈ mid, quiet o = true)
    (hc : e.done = true ∨ Op.res e.id ∈ mid) :
    ∃ es e', run init 0 (pre ++ mid ++ [.xreset]) = run init 0 (pre ++ mid) ++ [.log es] ∧
      e' ∈ es ∧ e'.id = e.id ∧ e'.rq = e.rq ∧ e'.done = true := by
  obtain ⟨e', h1, h2, h3, h4⟩ := after_quiet mid (logAfter pre) (0 + pre.length) e he hq
  have hd : e'.done = true := by
    rw [h4]
    rcases hc with hc | hc
    · simp [hc]
    · have : mid.any (fun o => o == Op.res e.id) = true := by
        rw [List.any_eq_true]; exact ⟨_, hc, by simp⟩
      simp [this]
  refine ⟨_, e', (export_and_reset_after (pre ++ mid)).1, ?_, h2, h3, hd⟩
  show e' ∈ (Spec.after [] 0 (pre ++ mid)).filter _
  rw [Spec.after_append, List.mem_filter]
  exact ⟨h1, hd⟩

/-- A pending entry whose response has not arrived is kept by export-and-reset (still pending, same
    request), so it is listed by later exports and — by the previous theorem applied to the longer
    history — returned by a later export-and-reset once completed. -/
theorem pending_kept_by_export_and_reset (pre mid : List Op) (e : Ent)
    (he : e ∈ logAfter pre) (hq : ∀ o ∈ mid, quiet o = true)
    (hp : e.done = false) (hn : Op.res e.id ∉ mid) :
    ∃ e' ∈ logAfter (pre ++ mid ++ [.xreset]), e'.id = e.id ∧ e'.rq = e.rq ∧ e'.done = false := by
  obtain ⟨e', h1, h2, h3, h4⟩ := after_quiet mid (logAfter pre) (0 + pre.length) e he hq
  have hd : e'.done = false := by
    rw [h4, hp]
    have : mid.any (fun o => o == Op.res e.id) = false := by
      rw [Bool.eq_false_iff]; intro ha
      rw [List.any_eq_true] at ha
      obtain ⟨o, ho, hoe⟩ := ha
      have : o = Op.res e.id := by simpa using hoe
      exact hn (this ▸ ho)
    simp [this]
  refine ⟨e', ?_, h2, h3, hd⟩
  rw [(export_and_reset_after (pre ++ mid)).2]
  show e' ∈ (Spec.after [] 0 (pre ++ mid)).filter _
  rw [Spec.after_append, List.mem_filter]
  exact ⟨h1, by simp [hd]⟩

/-- A pending entry survives ANY history without a reset or a response for its ID — any number of
    drains, exports, duplicate requests, failing calls, other IDs' traffic; there is no bound after
    which the log gives up on it. -/
theorem pending_entry_survives_until_its_response_or_a_reset (pre mid : List Op) (e : Ent)
    (he : e ∈ logAfter pre) (hp : e.done = false)
    (hm : ∀ o ∈ mid, o ≠ .reset ∧ o ≠ .res e.id) : e ∈ logAfter (pre ++ mid) := by
  show e ∈ Spec.after [] 0 (pre ++ mid)
  rw [Spec.after_append]
  exact pending_stays mid _ _ e he hp hm

/-- In particular for every n: n export-and-resets in a row keep a pending entry (the seeded defect
    C17-J dropped it at the 257th), and its late response is then attached and the entry returned,
    with its own request, by the next export-and-reset. -/
theorem pending_entry_survives_any_number_of_drains (pre : List Op) (n : Nat) (e : Ent)
    (he : e ∈ logAfter pre) (hp : e.done = false) :
    e ∈ logAfter (pre ++ List.replicate n .xreset) ∧
    ∃ es e', run init 0 (pre ++ List.replicate n .xreset ++ [.res e.id] ++ [.xreset]) =
        run init 0 (pre ++ List.replicate n .xreset ++ [.res e.id]) ++ [.log es] ∧
      e' ∈ es ∧ e'.id = e.id ∧ e'.rq = e.rq ∧ e'.done = true := by
  have h1 : e ∈ logAfter (pre ++ List.replicate n .xreset) :=
    pending_entry_survives_until_its_response_or_a_reset pre _ e he hp (by
      intro o ho
      rw [List.mem_replicate] at ho
      rw [ho.2]
      exact ⟨fun h => Op.noConfusion h, fun h => Op.noConfusion h⟩)
  exact ⟨h1, completed_returned_by_next_export_and_reset (pre ++ List.replicate n .xreset)
    [.res e.id] e h1 (by intro o ho; simp at ho; subst ho; rfl) (Or.inr (by simp))⟩

/-- "Each response attached to its own request": in every list handed out at any point of any
    history, an entry's request is the `req` operation of its ID that the tag names, and its
    response (if any) is a later `res` operation of the same ID. -/
theorem each_response_attached_to_own_request (ops : List Op) (es : List Ent)
    (h : Obs.log es ∈ run init 0 ops) :
    ∀ e ∈ es, ops[e.rq]? = some (.req e.id) ∧
      ∀ j, e.rs = some j → ops[j]? = some (.res e.id) ∧ e.rq < j := by
  rw [heap_refines_spec] at h
  have := own_outputs ops [] [] (by simp) es (by simpa using h)
  simpa [Own] using this

/-- At every point of every history: IDs in the log are pairwise different, entries are in
    arrival order, and every entry was recorded before "now". -/
theorem log_well_formed (ops : List Op) : WF (logAfter ops) ops.length := WF_logAfter ops

/-- After a reset the log is empty, and a late response for a reset ID is ignored. -/
theorem response_after_reset_ignored (pre : List Op) (id : String) :
    logAfter (pre ++ [.reset]) = [] ∧ logAfter (pre ++ [.reset, .res id]) = [] := by
  constructor
  · show Spec.after [] 0 (pre ++ [.reset]) = []
    rw [Spec.after_append]; rfl
  · show Spec.after [] 0 (pre ++ [.reset, .res id]) = []
    rw [Spec.after_append]; rfl

/-! ### Non-vacuity (concrete tests; `decide`/`rfl` on closed terms) -/

/-- tail completed, head pending, re-use of the ID after it was returned. -/
example : run init 0 [.req "a", .req "b", .req "c", .res "c", .res "a", .xreset, .exp, .req "a", .res "b", .xreset, .exp]
    = [.ok, .ok, .ok, .ok, .ok, .log [⟨"a", 0, some 4⟩, ⟨"c", 2, some 3⟩], .log [⟨"b", 1, none⟩], .ok, .ok,
       .log [⟨"b", 1, some 8⟩], .log [⟨"a", 7, none⟩]] := by decide

/-- duplicate rejected; reset; orphan response. -/
example : run init 0 [.req "a", .req "a", .reset, .res "a", .exp, .req "a", .exp]
    = [.ok, .dup, .ok, .ok, .log [], .ok, .log [⟨"a", 5, none⟩]] := by decide

/-- hypotheses of `completed_returned_by_next_export_and_reset` / `pending_kept_…` are satisfiable. -/
example : (⟨"a", 0, none⟩ : Ent) ∈ logAfter [.req "a", .req "b"] ∧
    (∀ o ∈ [Op.req "c", Op.res "a", Op.exp], quiet o = true) ∧ Op.res "a" ∈ [Op.req "c", Op.res "a", Op.exp] ∧
    (⟨"b", 1, none⟩ : Ent) ∈ logAfter [.req "a", .req "b"] ∧ Op.res "b" ∉ [Op.req "c", Op.res "a", Op.exp] := by decide

example : Spec.hasId (logAfter [.req "a"]) "a" = true ∧ Spec.hasId (logAfter [.req "a"]) "b" = false := by decide

end Martian.Props.C17
