import Martian.Lemmas.H2Hpack
import Martian.Generated.H2Relay
/-!
C09 — "for any history of SETTINGS (initial window size, maximum frame size) …": a SETTINGS
frame is a LIST of (identifier, value) pairs. An identifier may occur several times; the endpoint
that sent the frame has the LAST value of each identifier in force afterwards (RFC 7540 6.5.3: the
values are processed in the order they appear, with no other frame processing in between).

* `settings_applied_eq_receivers`: after `processFrame` handled a SETTINGS frame, the relay that
  sends TO that endpoint works with exactly the values the endpoint itself has in force — initial
  window size, maximum frame size, header table size (of its encoder) — whatever the order,
  duplicates and unknown identifiers of the list.
* `settings_last_wins`: what that is, per identifier.
* `initial_window_applied_once_with_last`: the windows of all streams move once, by the
  difference to the LAST INITIAL_WINDOW_SIZE of the frame, and only then is anything released
  (F09b repair: intermediate values are never in force at the receiver and release nothing).
* `settings_history_eq_receivers`: over any history of frames of both directions, the relay's three
  values are the fold of all SETTINGS frames the endpoint sent so far.
-/
namespace Martian.Props.C09
open Martian Martian.H2Relay Martian.H2Hpack

/-- The three settings the relay acts on, as the endpoint that advertises them has them in force. -/
structure RecvView where
  initWin : Nat := 65535
  maxFrame : Nat := 16384
  tableSize : Nat := 4096
deriving DecidableEq, Repr

/-- RFC 7540 6.5.3 at the endpoint that sent the frame: the values in order, each overwriting. -/
def RecvView.apply (v : RecvView) : List (Nat × Nat) → RecvView
  | [] => v
  | (id, x) :: rest =>
    RecvView.apply (if id = 4 then { v with initWin := x }
                    else if id = 5 then { v with maxFrame := x }
                    else if id = 1 then { v with tableSize := x } else v) rest

/-- What the relay of direction `p` (sending TO the endpoint in question) works with. -/
def relayView (s : Sys) (p : Dir) : RecvView :=
  ⟨(s.relay p).initWin, (s.relay p).maxFrame, (s.hp p).enc.maxSize⟩

/-- **Last wins**, per identifier. -/
theorem settings_last_wins (v : RecvView) (kvs : List (Nat × Nat)) :
    (v.apply kvs).initWin = (lastOf 4 kvs).getD v.initWin ∧
    (v.apply kvs).maxFrame = (lastOf 5 kvs).getD v.maxFrame ∧
    (v.apply kvs).tableSize = (lastOf 1 kvs).getD v.tableSize := by
  induction kvs generalizing v with
  | nil => simp [RecvView.apply, lastOf]
  | cons kv rest ih =>
    obtain ⟨id, x⟩ := kv
    simp only [RecvView.apply, lastOf]
    have := ih (if id = 4 then { v with initWin := x } else if id = 5 then { v with maxFrame := x }
                else if id = 1 then { v with tableSize := x } else v)
    obtain ⟨h1, h2, h3⟩ := this
    rw [h1, h2, h3]
    refine ⟨?_, ?_, ?_⟩
    · cases lastOf 4 rest with
      | some w => simp
      | none => by_cases h : id = 4 <;> simp [h] <;> (repeat' split) <;> simp_all
    · cases lastOf 5 rest with
      | some w => simp
      | none => by_cases h : id = 5 <;> simp [h] <;> (repeat' split) <;> simp_all
    · cases lastOf 1 rest with
      | some w => simp
      | none => by_cases h : id = 1 <;> simp [h] <;> (repeat' split) <;> simp_all

private theorem settingsLoop_view (s : Sys) (p : Dir) (kvs : List (Nat × Nat))
    (hlim : ∀ kv ∈ kvs, kv.1 = 1 → kv.2 ≤ (s.hp p).enc.limit) :
    (((settingsLoop s p kvs).relay p).initWin = (s.relay p).initWin ∧
     ((settingsLoop s p kvs).relay p).maxFrame = (lastOf 5 kvs).getD (s.relay p).maxFrame ∧
     ((settingsLoop s p kvs).hp p).enc.maxSize = (lastOf 1 kvs).getD (s.hp p).enc.maxSize ∧
     ((settingsLoop s p kvs).hp p).enc.limit = (s.hp p).enc.limit) ∧
    ((settingsLoop s p kvs).relay p.peer = s.relay p.peer ∧ (settingsLoop s p kvs).hp p.peer = s.hp p.peer ∧
     ((settingsLoop s p kvs).hp p).dec = (s.hp p).dec) := by
  induction kvs generalizing s with
  | nil => simp [settingsLoop, lastOf]
  | cons kv rest ih =>
    obtain ⟨id, x⟩ := kv
    simp only [settingsLoop]
    by_cases h5 : id = 5
    · subst h5
      have := ih (s.on p (.maxFrame x)) (by intro kv hkv h1; simpa using hlim kv (by simp [hkv]) h1)
      simp only [if_true, relay_on_same, hp_on, relay_on_peer, rstep_initWin, rstep_maxFrame] at this ⊢
      obtain ⟨⟨a1, a2, a3, a4⟩, b1, b2, b3⟩ := this
      refine ⟨⟨a1, ?_, ?_, a4⟩, b1, b2, b3⟩
      · rw [a2]; simp only [lastOf]; cases lastOf 5 rest <;> simp
      · rw [a3]; simp only [lastOf]; cases lastOf 1 rest <;> simp
    · by_cases h1 : id = 1
      · subst h1
        have hx : x ≤ (s.hp p).enc.limit := hlim (1, x) (by simp) rfl
        have := ih (s.setHp p ((s.hp p).updateTableSize x))
          (by intro kv hkv h1; simpa [Hp.updateTableSize] using hlim kv (by simp [hkv]) h1)
        simp only [h5, if_false, if_true, relay_setHp, hp_setHp_same, hp_setHp_peer] at this ⊢
        obtain ⟨⟨a1, a2, a3, a4⟩, b1, b2, b3⟩ := this
        refine ⟨⟨a1, ?_, ?_, by simpa [Hp.updateTableSize] using a4⟩, b1, b2, by simpa [Hp.updateTableSize] using b3⟩
        · rw [a2]; simp only [lastOf]; cases lastOf 5 rest <;> simp
        · rw [a3]; simp only [lastOf, Hp.updateTableSize]
          cases lastOf 1 rest <;> simp [setMax_maxSize _ _ hx]
      · have := ih s (by intro kv hkv h; exact hlim kv (by simp [hkv]) h)
        simp only [h5, h1, if_false] at this ⊢
        obtain ⟨⟨a1, a2, a3, a4⟩, b⟩ := this
        refine ⟨⟨a1, ?_, ?_, a4⟩, b⟩
        · rw [a2]; simp only [lastOf]; cases lastOf 5 rest <;> simp [h5]
        · rw [a3]; simp only [lastOf]; cases lastOf 1 rest <;> simp [h1]

/-- **The relay applies what the receiver applies.** `s` any state, `p` the direction of the relay
that sends to the endpoint whose SETTINGS frame `kvs` is being processed (by the relay of the
opposite direction), `order` any map iteration order of the pass it triggers. The header table size
values are 32-bit (`≤` the encoder's limit, which `newRelay` sets to `math.MaxUint32`). -/
theorem settings_applied_eq_receivers (s : Sys) (p : Dir) (order : List Nat) (kvs : List (Nat × Nat))
    (hlim : ∀ kv ∈ kvs, kv.1 = 1 → kv.2 ≤ (s.hp p).enc.limit) :
    relayView (applySettings s p order kvs) p = (relayView s p).apply kvs := by
  obtain ⟨⟨a1, a2, a3, _⟩, _⟩ := settingsLoop_view s p kvs hlim
  obtain ⟨l1, l2, l3⟩ := settings_last_wins (relayView s p) kvs
  have key : ∀ (a b : RecvView), a.initWin = b.initWin → a.maxFrame = b.maxFrame → a.tableSize = b.tableSize → a = b := by
    intro a b h1 h2 h3; cases a; cases b; simp_all
  apply key
  · rw [l1]
    simp only [relayView, applySettings]
    cases h4 : lastOf 4 kvs with
    | none => simp [a1]
    | some v => simp [rstep_initWin]
  · rw [l2]
    simp only [relayView, applySettings]
    cases h4 : lastOf 4 kvs with
    | none => simp [a2]
    | some v => simp [rstep_maxFrame, a2]
  · rw [l3]
    simp only [relayView, applySettings]
    cases h4 : lastOf 4 kvs with
    | none => simp [a3]
    | some v => simp [a3]

/-- **INITIAL_WINDOW_SIZE is applied once, with the last value.** Processing a SETTINGS frame is:
the loop (which moves no window and releases nothing), then — if the frame carries the identifier at
all — ONE `updateInitialWindowSize` with its last value. -/
theorem initial_window_applied_once_with_last (s : Sys) (p : Dir) (order : List Nat) (kvs : List (Nat × Nat)) :
    ((settingsLoop s p kvs).relay p).emitted = (s.relay p).emitted ∧
    ((settingsLoop s p kvs).relay p).ob = (s.relay p).ob ∧
    ((settingsLoop s p kvs).relay p).connWin = (s.relay p).connWin ∧
    applySettings s p order kvs =
      (match lastOf 4 kvs with
       | some v => (settingsLoop s p kvs).on p (.initWin v order)
       | none => settingsLoop s p kvs) := by
  refine ⟨?_, ?_, ?_, rfl⟩ <;>
  · induction kvs generalizing s with
    | nil => rfl
    | cons kv rest ih =>
      obtain ⟨id, x⟩ := kv
      simp only [settingsLoop]
      by_cases h5 : id = 5
      · subst h5; simp only [if_true]; rw [ih]; simp [rstep]
      · by_cases h1 : id = 1
        · subst h1; simp only [h5, if_false, if_true]; rw [ih]; simp
        · simp only [h5, h1, if_false]; exact ih s

/-- Non-vacuity and the point of F09b: INITIAL_WINDOW_SIZE 0 is in force and 5 bytes are queued;
`[4=10, 4=1]` releases nothing (the receiver's window is 1), `[4=1, 4=10]` releases them. -/
def blocked : Sys :=
  (({} : Sys).on .c2s (.initWin 0 [])).on .c2s (.data 1 [1, 2, 3, 4, 5] false)

example : ((applySettings blocked .c2s [1] [(4, 10), (4, 1)]).relay .c2s).emitted = [] := by decide
example : ((applySettings blocked .c2s [1] [(4, 1), (99, 7), (4, 10)]).relay .c2s).emitted.length = 1 := by decide
example : relayView (applySettings blocked .c2s [1] [(5, 70000), (4, 10), (1, 0), (5, 20000), (4, 1), (1, 100)]) .c2s
    = ⟨1, 20000, 100⟩ := by decide

/-! ### Histories -/

/-- The SETTINGS frames (not acknowledgements) read by the relay of direction `d`, i.e. sent by the
endpoint that the relay of direction `d.peer` sends to. -/
def settingsRead (d : Dir) : List Ev → List (List (Nat × Nat))
  | [] => []
  | e :: es =>
    (match e.f with
     | .settings kvs => if e.d = d then [kvs] else []
     | _ => []) ++ settingsRead d es

def tableSizesOk : List Ev → Prop
  | [] => True
  | e :: es =>
    (match e.f with
     | .settings kvs => ∀ kv ∈ kvs, kv.1 = 1 → kv.2 ≤ 4294967295
     | _ => True) ∧ tableSizesOk es

private theorem settingsLoop_other (s : Sys) (p : Dir) (kvs : List (Nat × Nat)) :
    (settingsLoop s p kvs).relay p.peer = s.relay p.peer ∧ (settingsLoop s p kvs).hp p.peer = s.hp p.peer := by
  induction kvs generalizing s with
  | nil => simp [settingsLoop]
  | cons kv rest ih =>
    obtain ⟨id, x⟩ := kv
    simp only [settingsLoop]
    by_cases h5 : id = 5
    · subst h5; simp only [if_true]; have := ih (s.on p (.maxFrame x)); simpa using this
    · by_cases h1 : id = 1
      · subst h1; simp only [h5, if_false, if_true]
        have := ih (s.setHp p ((s.hp p).updateTableSize x)); simpa using this
      · simp only [h5, h1, if_false]; exact ih s

private theorem settingsLoop_limit (s : Sys) (p : Dir) (kvs : List (Nat × Nat)) :
    ((settingsLoop s p kvs).hp p).enc.limit = (s.hp p).enc.limit := by
  induction kvs generalizing s with
  | nil => simp [settingsLoop]
  | cons kv rest ih =>
    obtain ⟨id, x⟩ := kv
    simp only [settingsLoop]
    by_cases h5 : id = 5
    · subst h5; simp only [if_true]; rw [ih]; simp
    · by_cases h1 : id = 1
      · subst h1; simp only [h5, if_false, if_true]; rw [ih]; simp [Hp.updateTableSize]
      · simp only [h5, h1, if_false]; exact ih s

private theorem applySettings_other (s : Sys) (p : Dir) (order : List Nat) (kvs : List (Nat × Nat)) :
    (applySettings s p order kvs).relay p.peer = s.relay p.peer ∧ (applySettings s p order kvs).hp p.peer = s.hp p.peer ∧
    ((applySettings s p order kvs).hp p).enc.limit = (s.hp p).enc.limit := by
  obtain ⟨b1, b2⟩ := settingsLoop_other s p kvs
  have b3 := settingsLoop_limit s p kvs
  simp only [applySettings]
  cases lastOf 4 kvs with
  | none => exact ⟨b1, b2, b3⟩
  | some v => simp [b1, b2, b3]

private theorem view_ext (a b : RecvView) (h1 : a.initWin = b.initWin) (h2 : a.maxFrame = b.maxFrame)
    (h3 : a.tableSize = b.tableSize) : a = b := by
  cases a; cases b; simp_all

/-- The receiver's view after it sent frame `f` / after the call `c` was made for its frame. -/
def RecvView.afterFrame (v : RecvView) : Frame → RecvView
  | .settings kvs => v.apply kvs
  | _ => v
def RecvView.afterCall (v : RecvView) : Call → RecvView
  | .settings kvs => v.apply kvs
  | _ => v

/-- One call of `processFrame` of direction `d`: the relay's own three values never move; the peer
relay's move only on a SETTINGS frame, to what the sender of that frame has in force. -/
private theorem applyCall_view (s s' : Sys) (d : Dir) (enc : Bytes) (order : List Nat) (c : Call)
    (h : applyCall s d enc order c = some s')
    (hb : ∀ kvs, c = .settings kvs → ∀ kv ∈ kvs, kv.1 = 1 → kv.2 ≤ (s.hp d.peer).enc.limit) :
    relayView s' d = relayView s d ∧ (s'.hp d).enc.limit = (s.hp d).enc.limit ∧
    (s'.hp d.peer).enc.limit = (s.hp d.peer).enc.limit ∧
    relayView s' d.peer = (relayView s d.peer).afterCall c := by
  cases c with
  | nilContinuation => simp [applyCall] at h
  | settings kvs =>
    simp only [applyCall, Option.some.injEq] at h
    subst h
    obtain ⟨o1, o2, o3⟩ := applySettings_other s d.peer order kvs
    simp only [peer_peer] at o1 o2
    have main := settings_applied_eq_receivers s d.peer order kvs (hb kvs rfl)
    refine ⟨?_, ?_, ?_, ?_⟩
    · apply view_ext <;> simp [relayView, rstep_initWin, rstep_maxFrame, o1, o2]
    · simp [o2]
    · simpa using o3
    · simp only [relayView, RecvView.afterCall] at main ⊢
      simpa using main
  | headerRep sid reps es prio =>
    simp only [applyCall] at h
    cases hd : (s.hp d).dec.decodeFull reps with
    | none =>
      simp only [hd, Option.some.injEq] at h
      subst h
      refine ⟨?_, ?_, ?_, ?_⟩ <;> simp [relayView, RecvView.afterCall]
    | some p =>
      obtain ⟨dec', fields⟩ := p
      simp only [hd, Option.some.injEq] at h
      subst h
      refine ⟨?_, ?_, ?_, ?_⟩
      · apply view_ext <;> simp [relayView, rstep_initWin, rstep_maxFrame]
      · simp
      · simp
      · apply view_ext <;> simp [relayView, RecvView.afterCall]
  | header sid fields es prio =>
    simp only [applyCall, Option.some.injEq] at h
    subst h
    refine ⟨?_, ?_, ?_, ?_⟩
    · apply view_ext <;> simp [relayView, rstep_initWin, rstep_maxFrame]
    · simp
    · simp
    · apply view_ext <;> simp [relayView, RecvView.afterCall]
  | pushPromise sid promised fields =>
    simp only [applyCall, Option.some.injEq] at h
    subst h
    refine ⟨?_, ?_, ?_, ?_⟩
    · apply view_ext <;> simp [relayView, rstep_initWin, rstep_maxFrame]
    · simp
    · simp
    · apply view_ext <;> simp [relayView, RecvView.afterCall]
  | data sid flow payload es =>
    simp only [applyCall, Option.some.injEq] at h
    subst h
    refine ⟨?_, ?_, ?_, ?_⟩
    · apply view_ext <;> simp [relayView, rstep_initWin, rstep_maxFrame]
    · simp
    · simp
    · apply view_ext <;> simp [relayView, RecvView.afterCall, rstep_initWin, rstep_maxFrame]
  | windowUpdate sid inc =>
    simp only [applyCall, Option.some.injEq] at h
    subst h
    refine ⟨?_, ?_, ?_, ?_⟩
    · apply view_ext <;> simp [relayView]
    · simp
    · simp
    · apply view_ext <;> simp [relayView, RecvView.afterCall, rstep_initWin, rstep_maxFrame]
  | _ =>
    simp only [applyCall, Option.some.injEq] at h
    subst h
    refine ⟨?_, ?_, ?_, ?_⟩
    · apply view_ext <;> simp [relayView, rstep_initWin, rstep_maxFrame]
    · simp
    · simp
    · apply view_ext <;> simp [relayView, RecvView.afterCall]

/-- One step of one relay (`sysStep`): only a SETTINGS frame moves anything, and only at the peer. -/
private theorem sysStep_view (s s' : Sys) (d : Dir) (f : Frame) (enc : Bytes) (order : List Nat)
    (h : sysStep s d f enc order = some s')
    (hb : ∀ kvs, f = .settings kvs → ∀ kv ∈ kvs, kv.1 = 1 → kv.2 ≤ (s.hp d.peer).enc.limit) :
    relayView s' d = relayView s d ∧ (s'.hp d).enc.limit = (s.hp d).enc.limit ∧
    (s'.hp d.peer).enc.limit = (s.hp d.peer).enc.limit ∧
    relayView s' d.peer = (relayView s d.peer).afterFrame f := by
  rw [sysStep_eq] at h
  have hv : ∀ (x : DState) (p : Dir), relayView (s.setDState d x) p = relayView s p := by
    intro x p; simp [relayView]
  have one : ∀ (x : DState) (c : Call), (∀ kvs, c = .settings kvs → f = .settings kvs) →
      applyCall (s.setDState d x) d enc order c = some s' →
      relayView s' d = relayView s d ∧ (s'.hp d).enc.limit = (s.hp d).enc.limit ∧
      (s'.hp d.peer).enc.limit = (s.hp d.peer).enc.limit ∧
      relayView s' d.peer = (relayView s d.peer).afterCall c := by
    intro x c hc hcall
    have := applyCall_view _ s' d enc order c hcall (by
      intro kvs hk kv hkv h1
      rw [hp_setDState]
      exact hb kvs (hc kvs hk) kv hkv h1)
    rw [hv x d, hv x d.peer, hp_setDState, hp_setDState] at this
    exact this
  have zero : ∀ (x : DState), s.setDState d x = s' →
      relayView s' d = relayView s d ∧ (s'.hp d).enc.limit = (s.hp d).enc.limit ∧
      (s'.hp d.peer).enc.limit = (s.hp d.peer).enc.limit ∧ relayView s' d.peer = relayView s d.peer := by
    intro x hx; subst hx
    exact ⟨hv x d, by simp, by simp, hv x d.peer⟩
  have bind1 : ∀ (x : DState) (c : Call), [c].foldlM (fun s c => applyCall s d enc order c) (s.setDState d x) = some s' →
      applyCall (s.setDState d x) d enc order c = some s' := by
    intro x c hh
    simp only [List.foldlM_cons, List.foldlM_nil, Option.bind_eq_bind] at hh
    cases hc : applyCall (s.setDState d x) d enc order c with
    | none => simp [hc] at hh
    | some s1 => simpa [hc] using hh
  cases f with
  | settings kvs =>
    simp only [dispatch] at h
    exact one _ _ (by intro k hk; cases hk; rfl) (bind1 _ _ h)
  | headers sid es eh prio frag =>
    simp only [dispatch] at h
    split at h
    · exact one _ _ (by intro k hk; cases hk) (bind1 _ _ h)
    · simp only [List.foldlM_nil, Option.pure_def, Option.some.injEq] at h
      exact zero _ h
  | pushPromise sid promised eh frag =>
    simp only [dispatch] at h
    split at h
    · exact one _ _ (by intro k hk; cases hk) (bind1 _ _ h)
    · simp only [List.foldlM_nil, Option.pure_def, Option.some.injEq] at h
      exact zero _ h
  | continuation sid eh frag =>
    simp only [dispatch] at h
    split at h
    · split at h
      · exact one _ _ (by intro k hk; cases hk) (bind1 _ _ h)
      · exact one _ _ (by intro k hk; cases hk) (bind1 _ _ h)
      · exact one _ _ (by intro k hk; cases hk) (bind1 _ _ h)
    · simp only [List.foldlM_nil, Option.pure_def, Option.some.injEq] at h
      exact zero _ h
  | data sid es payload pad => exact one _ _ (by intro k hk; cases hk) (bind1 _ _ h)
  | headersRep sid es prio reps => exact one _ _ (by intro k hk; cases hk) (bind1 _ _ h)
  | priority sid p => exact one _ _ (by intro k hk; cases hk) (bind1 _ _ h)
  | rst sid code => exact one _ _ (by intro k hk; cases hk) (bind1 _ _ h)
  | settingsAck => exact one _ _ (by intro k hk; cases hk) (bind1 _ _ h)
  | ping ack data => exact one _ _ (by intro k hk; cases hk) (bind1 _ _ h)
  | goaway l c dbg => exact one _ _ (by intro k hk; cases hk) (bind1 _ _ h)
  | windowUpdate sid inc => exact one _ _ (by intro k hk; cases hk) (bind1 _ _ h)

/-- **History.** After ANY sequence of frames read by the two relays (both directions interleaved,
any implementation choices), the relay that sends to an endpoint works with exactly what that
endpoint has in force: the fold, frame by frame and value by value, of all SETTINGS frames it has
sent so far — `p.peer` is the direction in which those frames travel. -/
theorem settings_history_eq_receivers (evs : List Ev) (s' : Sys) (hrun : runSys {} evs = some s')
    (hok : tableSizesOk evs) (p : Dir) :
    relayView s' p = (settingsRead p.peer evs).foldl RecvView.apply {} := by
  have gen : ∀ (evs : List Ev) (s s' : Sys), runSys s evs = some s' → tableSizesOk evs →
      (∀ q, (s.hp q).enc.limit = 4294967295) →
      ∀ p, relayView s' p = (settingsRead p.peer evs).foldl RecvView.apply (relayView s p) := by
    intro evs
    induction evs with
    | nil =>
      intro s s' h _ _ p
      simp only [runSys, Option.some.injEq] at h
      subst h; rfl
    | cons e es ih =>
      intro s s' h hok hl p
      simp only [runSys] at h
      cases hs : sysStep s e.d e.f e.enc e.order with
      | none => simp [hs] at h
      | some s1 =>
        simp only [hs] at h
        have hb : ∀ kvs, e.f = .settings kvs → ∀ kv ∈ kvs, kv.1 = 1 → kv.2 ≤ (s.hp e.d.peer).enc.limit := by
          intro kvs hk kv hkv h1
          rw [hl]
          have := hok.1
          simp only [hk] at this
          exact this kv hkv h1
        obtain ⟨v1, l1, l2, v2⟩ := sysStep_view s s1 e.d e.f e.enc e.order hs hb
        have hl1 : ∀ q, (s1.hp q).enc.limit = 4294967295 := by
          intro q
          by_cases hq : q = e.d
          · subst hq; rw [l1]; exact hl _
          · have : q = e.d.peer := by cases q <;> cases hd : e.d <;> simp_all [Dir.peer]
            subst this; rw [l2]; exact hl _
        have := ih s1 s' h hok.2 hl1 p
        rw [this]
        simp only [settingsRead]
        by_cases hp : p = e.d
        · -- the relay that read the frame: nothing of its own moves
          subst hp
          have hne : ¬ e.d = e.d.peer := fun h => peer_ne e.d h.symm
          rw [v1]
          cases hf : e.f <;> simp [hne]
        · have hpe : p = e.d.peer := by cases p <;> cases hd : e.d <;> simp_all [Dir.peer]
          subst hpe
          rw [v2]
          cases hf : e.f <;> simp [RecvView.afterFrame]
  have := gen evs {} s' hrun hok (by intro q; cases q <;> rfl) p
  have h0 : relayView {} p = {} := by cases p <;> rfl
  rw [h0] at this
  exact this

/-- Non-vacuity: a history over both directions with two SETTINGS frames from the server, one with
duplicates; the client-to-server relay ends with the last values. -/
def sampleEvs : List Ev :=
  [⟨.s2c, .settings [(4, 100), (5, 20000), (4, 7)], [], []⟩, ⟨.c2s, .data 1 false [1, 2, 3] none, [], []⟩,
   ⟨.c2s, .settings [(4, 9)], [], []⟩, ⟨.s2c, .settings [(1, 0), (99, 3), (1, 256)], [], [1]⟩]

example : (runSys {} sampleEvs).map (fun s => (relayView s .c2s, relayView s .s2c)) =
    some (⟨7, 20000, 256⟩, ⟨9, 16384, 4096⟩) := by decide

/-! ### Facts regenerated from `/repo` on every run (`go/cmd/vextract/facts_c08.go`) -/

/-- How the relay reads a SETTINGS frame is how `settingsLoop` / `applySettings` read it: it iterates
over the frame in order (`ForeachSetting`; never `SettingsFrame.Value`, which returns the FIRST
value of an identifier); HEADER_TABLE_SIZE and MAX_FRAME_SIZE are handed to the peer relay inside
the loop (mode 1 = every value, in order), INITIAL_WINDOW_SIZE once after the loop with the value
the loop stored last (mode 2). -/
theorem facts_settings_read_modes :
    Generated.H2Relay.settingsIteratedInOrder = true ∧ Generated.H2Relay.tableSizeReadMode = 1 ∧
    Generated.H2Relay.maxFrameReadMode = 1 ∧ Generated.H2Relay.initialWindowReadMode = 2 := by
  decide

/-- `updateWindow` obtains the stream's buffer through the creating accessor `relay.outputBuffer`
(so a WINDOW_UPDATE that arrives before the first frame of the stream is not lost: `getOB` in
`rstep`), and the connection-level branch falls through to it (`sid = 0` included). -/
theorem facts_window_update_creates_buffer :
    Generated.H2Relay.windowUpdateCreatesBuffer = true ∧ Generated.H2Relay.connWindowUpdateFallsThrough = true := by
  decide

end Martian.Props.C09
