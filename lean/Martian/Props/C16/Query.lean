import Martian.Model.Query
import Martian.Lemmas.Har
/-!
C16 — "query parameters … equal those of the message": a pair of the raw query is cut at its FIRST
`=`; whatever follows — further `=` (base64 padding, `a=b` expressions), any byte — is the value.
-/
namespace Martian.Props.C16
open Martian Martian.Go Martian.MessageView Martian.Har

theorem takeWhile_ne_eq (k rest : Bytes) (hk : ∀ c ∈ k, c ≠ 61) :
    (k ++ 61 :: rest).takeWhile (· != 61) = k := by
  induction k with
  | nil => simp
  | cons c r ih =>
    have hc : c ≠ 61 := hk c (by simp)
    simp [List.takeWhile_cons, hc, ih (fun x hx => hk x (by simp [hx]))]

theorem dropWhile_ne_eq (k rest : Bytes) (hk : ∀ c ∈ k, c ≠ 61) :
    (k ++ 61 :: rest).dropWhile (· != 61) = 61 :: rest := by
  induction k with
  | nil => simp
  | cons c r ih =>
    have hc : c ≠ 61 := hk c (by simp)
    simp [List.dropWhile_cons, hc, ih (fun x hx => hk x (by simp [hx]))]

/-- For every name without `=` and EVERY value: the pair `name=value` is cut into exactly (name, value). -/
theorem split_pair_at_first_equals (k v : Bytes) (hk : ∀ c ∈ k, c ≠ 61) :
    splitPair (k ++ 61 :: v) = (k, v) := by
  simp [splitPair, takeWhile_ne_eq k v hk, dropWhile_ne_eq k v hk]

/-- A pair without `=` is a name with an empty value. -/
theorem split_pair_without_equals (p : Bytes) (hp : ∀ c ∈ p, c ≠ 61) : splitPair p = (p, []) := by
  induction p with
  | nil => rfl
  | cons c r ih =>
    have hc : c ≠ 61 := hp c (by simp)
    have := ih (fun x hx => hp x (by simp [hx]))
    simp only [splitPair, Prod.mk.injEq] at this ⊢
    simp [List.takeWhile_cons, List.dropWhile_cons, hc, this.1, this.2]

/-- Nothing after the first `=` is dropped: name, the `=`, and the value make up the whole pair. -/
theorem split_pair_loses_nothing (p : Bytes) (h : 61 ∈ p) :
    (splitPair p).1 ++ 61 :: (splitPair p).2 = p := by
  induction p with
  | nil => simp at h
  | cons c r ih =>
    by_cases hc : c = 61
    · subst hc; simp [splitPair]
    · have hr : 61 ∈ r := by
        rcases List.mem_cons.1 h with h | h
        · exact absurd h.symm hc
        · exact h
      have := ih hr
      simp only [splitPair] at this ⊢
      simp only [List.drop_one] at this
      simp [List.takeWhile_cons, List.dropWhile_cons, hc, this]

-- witnesses (tests): base64 padding, expressions, escaped separators, `;`, empty name, bad escapes
example : harQuery (strBytes "sig=c2ln=&expr=a=b=c&a==") =
    [(strBytes "a", strBytes "="), (strBytes "expr", strBytes "a=b=c"), (strBytes "sig", strBytes "c2ln=")] := by decide
example : harQuery (strBytes "k%3D=v%26w&x+y=1;2&&=e&n&%zz=1&a=2&a=1") =
    [([], strBytes "e"), (strBytes "a", strBytes "2"), (strBytes "a", strBytes "1"), (strBytes "k=", strBytes "v&w"),
     (strBytes "n", [])] := by decide

end Martian.Props.C16
