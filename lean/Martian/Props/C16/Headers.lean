import Martian.Lemmas.Har
/-!
C16 — the HAR header list follows the struct fields (`Host`, `ContentLength`, `TransferEncoding`),
i.e. what `net/http` sends, not stale same-named keys of the header map.
-/
namespace Martian.Props.C16
open Martian Martian.Go Martian.MessageView Martian.Har

/-- The head of the wire form is the start line, the field lines `wireFields`, and the blank line. -/
theorem wire_head_is_wire_fields (m : Msg) :
    headSection m = startLine m ++ crlf ++ fields (wireFields m) ++ crlf := by
  unfold headSection wireFields writeSubset
  cases hr : m.isReq <;> cases hh : m.host.isEmpty <;> cases ht : m.te.isEmpty <;>
    cases hc : (!isChunked m.te && decide (0 ≤ m.cl)) <;>
    simp [fields, List.append_assoc]

/-- `Header.Map`'s precedence: for each of Host / Content-Length / Transfer-Encoding whose struct
field is present, the entry lists exactly the field's values — whatever the header map holds under
that key (a stale `Content-Length` left by the parser after a modifier changed the body, a `Host`
or `Transfer-Encoding` line put into the map) — and these are the values on the wire: the single
line of that key in the head carries their `", "`-join. (For Content-Length the wire has the line
unless the message is chunked; a parsed chunked message has `ContentLength = -1`.) -/
theorem header_list_is_what_the_wire_carries (m : Msg) (k : Bytes) (vs : List Bytes)
    (hf : fieldOf m k = some vs) (hcl : k = clKey → isChunked m.te = false) :
    (∀ v, (k, v) ∈ harHeaders m ↔ v ∈ vs) ∧
    (∀ v, (k, v) ∈ wireFields m ↔ v = join vs (strBytes ", ")) := by
  constructor
  · intro v
    simp only [harHeaders, mem_sortKV]
    exact mem_headerMap_of_field m k vs v hf
  · intro v
    exact mem_wireFields_of_field m k vs v hf hcl

/-- Keys without a struct field behind them (every ordinary key; `Host` on a response): the entry
lists the header map's lines, and so does the wire. -/
theorem ordinary_fields_are_the_maps (m : Msg) (kv : KV)
    (hk : kv.1 ≠ clKey ∧ kv.1 ≠ teKey ∧ (m.isReq = true → kv.1 ≠ hostKey)) :
    (kv ∈ harHeaders m ↔ kv ∈ m.hdr) ∧ (kv ∈ wireFields m ↔ kv ∈ m.hdr) := by
  constructor
  · simp only [harHeaders, mem_sortKV]
    exact mem_headerMap_ordinary m kv hk
  · exact mem_wireFields_ordinary m kv hk

/-- An absent field falls back to the header map's own lines (as the message was received). -/
theorem absent_field_lists_the_maps_lines (m : Msg) (k v : Bytes) (hf : fieldOf m k = none) :
    (k, v) ∈ harHeaders m ↔ (k, v) ∈ m.hdr := by
  simp only [harHeaders, mem_sortKV]
  exact mem_headerMap_absent m k v hf

/-- Witness of the class the theorem is about: a response parsed with `Content-Length: 26` whose
body was then replaced by 5 bytes (`body.Modifier`): the map still says 26, the field says 5; the
entry lists 5 and only 5, and so does the wire. -/
def staleLength : Msg :=
  { isReq := false, method := [], url := [], major := 1, minor := 1, code := 200, status := strBytes "200 OK",
    host := [], te := [], cl := 5, hdr := [(clKey, strBytes "26"), (ctKey, strBytes "text/plain")],
    body := some (strBytes "short"), trailer := none }

example : fieldOf staleLength clKey = some [strBytes "5"] ∧
    (harHeaders staleLength).filter (fun kv => kv.1 == clKey) = [(clKey, strBytes "5")] ∧
    (wireFields staleLength).filter (fun kv => kv.1 == clKey) = [(clKey, strBytes "5")] := by decide

end Martian.Props.C16
