import Martian.Lemmas.JsonString
/-!
C16 — "serialising the log to JSON and parsing it back yields the same entries, with non-UTF-8
bodies preserved exactly", over the concrete model of `encoding/json`'s string coder
(`Model/JsonString.lean`: `quote` with HTML escaping, the scanner's string states, `unquote`). No
hypothesis about the coder is left: what used to be assumed (`dec (enc s) = s` on valid UTF-8) is
`json_string_roundtrip`, and the exact image on every other byte string (`sanitize`, Go's
`string([]rune(s))`) explains the open finding F16b.
-/
namespace Martian.Props.C16
open Martian Martian.Go Martian.MessageView Martian.Har

/-- `json.Unmarshal(json.Marshal(s))` for EVERY byte string `s`: each byte that is not part of a
well-formed UTF-8 sequence comes back as U+FFFD, everything else exactly. -/
theorem json_string_roundtrip_image (s : Bytes) :
    jsonDecodeString (jsonEncodeString s) = some (sanitize s) :=
  jsonDecode_jsonEncode s

/-- Valid UTF-8 — of any length, with any mix of escapes (`"`, `\`, control characters, `<` `>` `&`,
U+2028 / U+2029) and multi-byte characters — is read back exactly. -/
theorem json_string_roundtrip (s : Bytes) (h : utf8Valid s = true) :
    jsonDecodeString (jsonEncodeString s) = some s := by
  rw [jsonDecode_jsonEncode, sanitize_of_valid s h]

/-- …and ONLY valid UTF-8 is: a string with an ill-formed byte never survives (the reason
`PostData` / `Content` switch to base64, and the whole of F16b). -/
theorem json_string_roundtrip_iff (s : Bytes) :
    jsonDecodeString (jsonEncodeString s) = some s ↔ utf8Valid s = true := by
  rw [jsonDecode_jsonEncode]
  constructor
  · intro h; exact (sanitize_eq_iff s).1 (Option.some.inj h)
  · intro h; rw [sanitize_of_valid s h]

/-- What is read back is always valid UTF-8. -/
theorem json_string_image_is_valid (s : Bytes) : utf8Valid (sanitize s) = true := sanitize_is_valid s

/-- The round trip over an abstract coder that reads back the valid-UTF-8 strings it wrote. -/
theorem postdata_roundtrip_of_coder (enc : Bytes → Bytes) (dec : Bytes → Option Bytes)
    (hj : ∀ s, dec (enc s) = some (sanitize s)) (p : PostData) :
    unmarshalPD dec (marshalPD enc p) = some (sanitizePD p) := by
  have hparams : (p.params.map (marshalParam enc)).mapM (unmarshalParam dec) = some (p.params.map sanitizeParam) := by
    induction p.params with
    | nil => rfl
    | cons q qs ih => simp [List.mapM_cons, unmarshalParam, marshalParam, hj, ih, sanitizeParam]
  have hb64 : sanitize base64Tok = base64Tok := sanitize_of_valid _ base64Tok_valid
  unfold marshalPD
  split
  · rename_i hv
    simp [unmarshalPD, hj, hparams, sanitize_of_valid _ hv, sanitizePD]
    intro h; rw [base64Tok_eq] at h; simp at h
  · have ha := sanitize_of_valid _ (utf8Valid_of_ascii _ (b64Encode_ascii p.text))
    simp [unmarshalPD, hj, hb64, ha, hparams, b64_roundtrip, sanitizePD]

/-- JSON round trip of post data for ALL `PostData` values, any body bytes: the text is preserved
exactly (valid UTF-8 as text, anything else as base64); media type and parameters come back
`sanitize`d. -/
theorem postdata_json_roundtrip_image (p : PostData) :
    unmarshalPD jsonDecodeString (marshalPD jsonEncodeString p) = some (sanitizePD p) :=
  postdata_roundtrip_of_coder _ _ jsonDecode_jsonEncode p

theorem sanitizePD_eq_iff (p : PostData) :
    sanitizePD p = p ↔ (utf8Valid p.mime = true ∧ ∀ q ∈ p.params, utf8Valid q.name = true ∧
      utf8Valid q.value = true ∧ utf8Valid q.fileName = true ∧ utf8Valid q.contentType = true) := by
  obtain ⟨mime, params, text⟩ := p
  simp only [sanitizePD, PostData.mk.injEq, and_true, sanitize_eq_iff]
  have : params.map sanitizeParam = params ↔ ∀ q ∈ params, utf8Valid q.name = true ∧
      utf8Valid q.value = true ∧ utf8Valid q.fileName = true ∧ utf8Valid q.contentType = true := by
    induction params with
    | nil => simp
    | cons q qs ih =>
      obtain ⟨n, v, f, c⟩ := q
      simp [sanitizeParam, sanitize_eq_iff, ih]
  rw [this]

/-- JSON round trip of post data: exact for every body byte string, given a media type and
parameters that are valid UTF-8. No hypothesis on the JSON coder. -/
theorem postdata_json_roundtrip (p : PostData) (hm : utf8Valid p.mime = true)
    (hp : ∀ q ∈ p.params, utf8Valid q.name = true ∧ utf8Valid q.value = true ∧
      utf8Valid q.fileName = true ∧ utf8Valid q.contentType = true) :
    unmarshalPD jsonDecodeString (marshalPD jsonEncodeString p) = some p := by
  rw [postdata_json_roundtrip_image, (sanitizePD_eq_iff p).2 ⟨hm, hp⟩]

/-- …and that condition is necessary (F16b, open: post parameters have no base64 form): the round
trip is exact IFF media type and parameters are valid UTF-8. -/
theorem postdata_json_roundtrip_iff (p : PostData) :
    unmarshalPD jsonDecodeString (marshalPD jsonEncodeString p) = some p ↔
      (utf8Valid p.mime = true ∧ ∀ q ∈ p.params, utf8Valid q.name = true ∧ utf8Valid q.value = true ∧
        utf8Valid q.fileName = true ∧ utf8Valid q.contentType = true) := by
  rw [postdata_json_roundtrip_image, ← sanitizePD_eq_iff]
  exact ⟨fun h => Option.some.inj h, fun h => by rw [h]⟩

/-- F16b on its witness (`corpus/C16/directed.ops`): a multipart file part `FF D8 FF` comes back as
three U+FFFD. -/
def jpegPart : PostData :=
  { mime := strBytes "multipart/form-data", text := [],
    params := [{ name := strBytes "upload", value := [0xFF, 0xD8, 0xFF], fileName := strBytes "a.jpg",
                 contentType := strBytes "image/jpeg" }] }

theorem postdata_json_roundtrip_counterexample :
    unmarshalPD jsonDecodeString (marshalPD jsonEncodeString jpegPart) ≠ some jpegPart ∧
    ((unmarshalPD jsonDecodeString (marshalPD jsonEncodeString jpegPart)).map fun p => p.params.map (·.value)) =
      some [[0xEF, 0xBF, 0xBD, 0xEF, 0xBF, 0xBD, 0xEF, 0xBF, 0xBD]] := by
  constructor
  · intro h
    have := (postdata_json_roundtrip_iff jpegPart).1 h
    have := (this.2 _ (List.mem_singleton.2 rfl)).2.1
    revert this; decide
  · rw [postdata_json_roundtrip_image]; decide

/-- JSON round trip of response content as the logger produces it (always base64): exact for ALL
byte strings. -/
theorem content_json_roundtrip (c : Content) (hm : utf8Valid c.mime = true) (hb : c.base64 = true) :
    unmarshalContent jsonDecodeString (marshalContent jsonEncodeString c) = some c := by
  have hb64 : sanitize base64Tok = base64Tok := sanitize_of_valid _ base64Tok_valid
  have ha := sanitize_of_valid _ (utf8Valid_of_ascii _ (b64Encode_ascii c.text))
  have hmm := sanitize_of_valid _ hm
  cases c
  simp_all [marshalContent, unmarshalContent, b64_roundtrip, jsonDecode_jsonEncode]

-- the coder on concrete strings (tests): HTML escaping, control characters, U+2028, U+FFFD for a bad byte
example : jsonEncodeString (strBytes "<a href=\"x\">&\n") =
    strBytes "\"\\u003ca href=\\\"x\\\"\\u003e\\u0026\\n\"" := by decide
example : jsonEncodeString [0x61, 0xE2, 0x80, 0xA8, 0xFF] = strBytes "\"a\\u2028\\ufffd\"" := by decide
example : jsonDecodeString (strBytes "\"\\ud83d\\ude00\"") = some [0xF0, 0x9F, 0x98, 0x80] := by decide
example : jsonDecodeString (strBytes "\"\\ud83d\"") = some [0xEF, 0xBF, 0xBD] ∧
    jsonDecodeString (strBytes "\"\\'\"") = none ∧ jsonDecodeString (strBytes "\"a\"b\"") = none := by decide

end Martian.Props.C16
