import Martian.Generated.Har
import Martian.Model.Har
/-!
C16 — structural facts of `proxyutil.Header.Map` and `PostData.MarshalJSON`, regenerated from the
source on every check (`go/cmd/vextract/facts_har.go` → `Generated/Har.lean`), that `Model/Har.lean`
transcribes.
-/
namespace Martian.Props.C16
open Martian Martian.MessageView Martian.Har

/-- `Header.Map` stores the header map's lines first ("M") and then, for exactly the keys Host,
Content-Length, Transfer-Encoding, what `Header.All` derives from the struct fields ("F"): the
fields overwrite same-named map keys — the precedence `headerMap` (`setKey` after the copy) and
`header_list_is_what_the_wire_carries` are about. The keys are the model's `hostKey`, `clKey`,
`teKey`. -/
theorem facts_header_map_fields_overwrite_map_keys :
    Generated.Har.headerMapStoreOrder = "MF" ∧
    Generated.Har.headerMapFieldKeys.map strBytes = [hostKey, clKey, teKey] := by decide

/-- `PostData.MarshalJSON` takes the text-or-base64 decision with `utf8.ValidString` on the whole
`Text` of the receiver (`marshalPD`: `utf8Valid p.text`), not on a prefix or a sniffed type. -/
theorem facts_postdata_validity_is_of_the_whole_text :
    Generated.Har.postDataValidityArgs = ["recv.Text"] := by decide

end Martian.Props.C16
