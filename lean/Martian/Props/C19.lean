import Martian.Lemmas.Marbl
import Martian.Generated.Marbl
import Martian.Props.C19.Writer
import Martian.Props.C19.Calls
/-!
C19 — marbl streams decode to the logged messages with intact, ordered bodies.
Only property theorems and non-vacuity examples live here.
Quantifiers: every frame / every list of frames (any lengths below 2^32, any bytes), every byte
string fed to the reader, every list of read results of the wrapped body, every interleaving
(`Shuffle`) of the frame sequences of any number of concurrently logged messages; and (`Props/C19/Writer.lean`,
`concurrent_log_roundtrip` below) every run of the stream's goroutines — logging goroutines, unbuffered channel,
single writer goroutine — which is where `Shuffle` comes from.
-/
namespace Martian.Props.C19
open Martian Martian.Marbl

/-! ## facts regenerated from /repo on every check -/

/-- The constants the model hard-codes are the ones in the source now: frame type codes (`frameHead 1`
/ `frameHead 2`, the dispatch of `readFrameWith`), message type codes (the driver's `mt`), the
fixed-size reads of `ReadFrame` (10, 8, 9) and the fact that the header name/value buffer is sized
by `int(nl)+int(vl)` (`readFrame := readFrameWith sumInt`). An edit of any of them breaks this
check (finite table, by `decide`). -/
theorem facts_marbl_layout :
    (Generated.Marbl.headerFrame, Generated.Marbl.dataFrame, Generated.Marbl.request, Generated.Marbl.response,
      Generated.Marbl.fixedReads, Generated.Marbl.headerSumWidened) = (1, 2, 1, 2, [10, 8, 9], true) := by
  decide

/-! ## codec: decode ∘ encode = id -/

/-- A header frame written by `sendHeader` is read back by `ReadFrame` as the same frame, and the
reader is left exactly at the next frame. (With the repaired reader no bound on the *sum* of the
two lengths is needed.) -/
theorem decode_encode_header (mt : UInt8) (id name value rest : Bytes)
    (hid : id.length = 8) (hn : name.length < two32) (hv : value.length < two32) :
    readFrame (encode (.header mt id name value) ++ rest) = .ok (.header mt id name value) rest :=
  readFrame_encode (.header mt id name value) ⟨hid, hn, hv⟩ rest

/-- A data frame written by `sendData` is read back as the same frame (index, terminal flag, bytes). -/
theorem decode_encode_data (mt : UInt8) (id : Bytes) (i : Nat) (t : Bool) (p rest : Bytes)
    (hid : id.length = 8) (hi : i < two32) (hp : p.length < two32) :
    readFrame (encode (.data mt id i t p) ++ rest) = .ok (.data mt id i t p) rest :=
  readFrame_encode (.data mt id i t p) ⟨hid, hi, hp⟩ rest

example : (Frame.header 1 (strBytes "abcdefgh") (strBytes ":method") (strBytes "GET")).Valid := by decide
example : (Frame.data 2 (strBytes "abcdefgh") 0 true []).Valid := by decide

/-! ## the reader never panics -/

/-- `ReadFrame` returns a frame or an error on every byte string; the slice-bounds panic of the
model is unreachable. -/
theorem reader_total (bs : Bytes) : readFrame bs ≠ .panic :=
  readFrameWith_sumInt_ne_panic bs

/-- A consumer looping on `ReadFrame` always ends with an error value (EOF, unexpected EOF, unknown
frame type) after finitely many frames: never a panic, never an endless loop. -/
theorem reader_loop_ends_with_error (bs : Bytes) : ∃ e, (readAll bs).2 = .err e :=
  readAllFuel_stop (bs.length + 1) bs (Nat.lt_succ_self _)

/-- Regression witness for F19 (test on a concrete input): with the 32-bit sum `int(nl+vl)` that
the code had before the repair, name length 0xFFFFFFFF + value length 2 wraps to 1 and the reader
reaches `nv[:nl]` with `nl > len(nv)` — the model's `panic`. -/
theorem F19_wrapped_sum_panics :
    readFrameWith sumU32 ([1, 1] ++ strBytes "abcdefgh" ++ [255, 255, 255, 255, 0, 0, 0, 2] ++ strBytes "xyz") = .panic := by
  decide

/-- …and the same bytes are an ordinary error for the repaired reader. -/
theorem F19_witness_now_error :
    readFrame ([1, 1] ++ strBytes "abcdefgh" ++ [255, 255, 255, 255, 0, 0, 0, 2] ++ strBytes "xyz") = .err .unexpectedEOF := by
  decide

/-! ## whole streams and interleavings -/

/-- Reading the concatenation of any list of whole frames returns exactly those frames, in order,
and then `io.EOF`: no frame is torn, merged or lost, whatever messages the frames belong to. -/
theorem stream_roundtrip (fs : List Frame) (hv : ∀ f ∈ fs, f.Valid) :
    readAll (encodeAll fs) = (fs, .err .eof) :=
  readAllFuel_encodeAll fs hv _ (Nat.lt_succ_self _)

/-- Frames of concurrently logged messages: let `l` be any interleaving, at frame granularity, of the
frame sequences `ms` of the messages. If message `i` owns key `k` (id, type) and no other message
uses that key, the frames parsed back from the stream and projected on `k` are exactly the frames
of message `i`, in the order it sent them. -/
theorem interleaved_messages_recovered (ms : List (List Frame)) (l : List Frame) (hs : Shuffle ms l)
    (hv : ∀ f ∈ l, f.Valid) (i : Nat) (k : Bytes × UInt8)
    (hown : ∀ m, ms[i]? = some m → ∀ f ∈ m, f.key = k)
    (hothers : ∀ (j : Nat) (m : List Frame), j ≠ i → ms[j]? = some m → ∀ f ∈ m, f.key ≠ k) :
    (readAll (encodeAll l)).1.filter (fun f => f.key == k) = (ms[i]?).getD [] := by
  rw [stream_roundtrip l hv]
  have h1 := Shuffle.filter (fun f : Frame => f.key == k) hs
  have h2 := Shuffle.single h1 i (by
    intro j m hj hm
    rw [List.getElem?_map] at hm
    cases hmj : ms[j]? with
    | none => rw [hmj] at hm; cases hm
    | some m' =>
      rw [hmj] at hm
      simp only [Option.map_some, Option.some.injEq] at hm
      rw [← hm, List.filter_eq_nil_iff]
      intro f hf
      simpa using hothers j m' hj hmj f hf)
  rw [h2, List.getElem?_map]
  cases hmi : ms[i]? with
  | none => rfl
  | some m =>
    simp only [Option.map_some, Option.getD_some]
    rw [List.filter_eq_self]
    intro f hf
    simpa using hown m hmi f hf

/-! ## body logger -/

/-- Data-frame indices are 0, 1, 2, … without gap or repeat (for fewer than 2^32 reads; the
counter is a `uint32`). -/
theorem data_indices_contiguous_from_zero (mt : UInt8) (id : Bytes) (rs : List ReadRes) (h : rs.length ≤ two32) :
    (bodyRun mt id 0 rs).2.map Frame.index = List.range rs.length := by
  rw [bodyRun_index mt id rs 0 (by omega), List.range_eq_range']

/-- The concatenation of the data frames' payloads is the byte sequence the consumer read. -/
theorem concat_data_eq_bytes_read (mt : UInt8) (id : Bytes) (rs : List ReadRes) :
    ((bodyRun mt id 0 rs).2.map Frame.payload).flatten = (rs.map ReadRes.data).flatten := by
  rw [bodyRun_payload]

/-- Frame k is marked terminal exactly when read k returned `io.EOF`. -/
theorem terminal_pointwise (mt : UInt8) (id : Bytes) (rs : List ReadRes) :
    (bodyRun mt id 0 rs).2.map Frame.terminal = rs.map (fun r => r.err == .eof) :=
  bodyRun_terminal mt id rs 0

/-- The last data frame is terminal exactly when the last read reached end-of-file. -/
theorem last_terminal_iff_eof (mt : UInt8) (id : Bytes) (rs : List ReadRes) :
    ((bodyRun mt id 0 rs).2.getLast?).map Frame.terminal = (rs.getLast?).map (fun r => r.err == .eof) := by
  rw [← List.getLast?_map, ← List.getLast?_map, terminal_pointwise]

/-- Some frame is terminal iff the body reached end-of-file; and for a consumer that stops at
the first error (all reads but the last return `nil`) that frame is the last one. -/
theorem terminal_iff_eof (mt : UInt8) (id : Bytes) (rs : List ReadRes) :
    ((∃ f ∈ (bodyRun mt id 0 rs).2, f.terminal = true) ↔ (∃ r ∈ rs, r.err = .eof)) ∧
    ((∀ r ∈ rs.dropLast, r.err = .none) → ∀ f ∈ (bodyRun mt id 0 rs).2.dropLast, f.terminal = false) := by
  have hp := terminal_pointwise mt id rs
  constructor
  · constructor
    · rintro ⟨f, hf, ht⟩
      have : true ∈ (bodyRun mt id 0 rs).2.map Frame.terminal := List.mem_map.mpr ⟨f, hf, ht⟩
      rw [hp, List.mem_map] at this
      obtain ⟨r, hr, he⟩ := this
      exact ⟨r, hr, by simpa using he⟩
    · rintro ⟨r, hr, he⟩
      have : true ∈ rs.map (fun r => r.err == .eof) := List.mem_map.mpr ⟨r, hr, by simp [he]⟩
      rw [← hp, List.mem_map] at this
      obtain ⟨f, hf, ht⟩ := this
      exact ⟨f, hf, ht⟩
  · intro hd f hf
    have hdl : (bodyRun mt id 0 rs).2.dropLast.map Frame.terminal = rs.dropLast.map (fun r => r.err == .eof) := by
      rw [List.map_dropLast, List.map_dropLast, hp]
    have : f.terminal ∈ rs.dropLast.map (fun r => r.err == .eof) := by
      rw [← hdl]; exact List.mem_map.mpr ⟨f, hf, rfl⟩
    rw [List.mem_map] at this
    obtain ⟨r, hr, he⟩ := this
    rw [← he, hd r hr]; rfl

/-- Reading through the logging wrapper returns, read for read, the same bytes and the same
error as the wrapped body. -/
theorem wrapper_transparent (mt : UInt8) (id : Bytes) (rs : List ReadRes) (ctr : Nat) :
    (bodyRun mt id ctr rs).1 = rs :=
  bodyRun_returns mt id rs ctr

/-! ## the whole statement for one logged message among concurrent ones -/

theorem messageFrames_key (mt : UInt8) (id : Bytes) (hdrs : List (Bytes × Bytes)) (reads : List ReadRes) :
    ∀ f ∈ messageFrames mt id hdrs reads, f.key = (id.take 8, mt) := by
  intro f hf
  simp only [messageFrames, List.mem_append, List.mem_map] at hf
  rcases hf with ⟨kv, _, rfl⟩ | hf
  · rfl
  · exact (bodyRun_key mt _ reads 0 f hf).1

theorem messageFrames_valid (mt : UInt8) (id : Bytes) (hdrs : List (Bytes × Bytes)) (reads : List ReadRes)
    (hid : 8 ≤ id.length) (hh : ∀ kv ∈ hdrs, kv.1.length < two32 ∧ kv.2.length < two32)
    (hd : ∀ r ∈ reads, r.data.length < two32) :
    ∀ f ∈ messageFrames mt id hdrs reads, f.Valid := by
  have hid8 : (id.take 8).length = 8 := by rw [List.length_take]; omega
  intro f hf
  simp only [messageFrames, List.mem_append, List.mem_map] at hf
  rcases hf with ⟨kv, hkv, rfl⟩ | hf
  · exact ⟨hid8, (hh kv hkv).1, (hh kv hkv).2⟩
  · exact bodyRun_valid mt _ hid8 reads hd 0 (by decide) f hf

/-- The statement of C19 for message `i` of any number of concurrently logged messages whose frames
reach the writer in any interleaving `l`: what a reader recovers for the message's (id, type) is
first one header frame per (pseudo-)header pair, exactly the pairs that were logged, then data
frames with indices 0,1,2,…, whose payloads concatenate to the bytes the consumer read, frame k
terminal iff read k hit EOF; and the consumer got from the wrapper what the body returned. -/
theorem logged_message_roundtrip (ms : List (List Frame)) (l : List Frame) (hs : Shuffle ms l)
    (hv : ∀ f ∈ l, f.Valid) (i : Nat) (mt : UInt8) (id : Bytes) (hdrs : List (Bytes × Bytes)) (reads : List ReadRes)
    (hmsg : ms[i]? = some (messageFrames mt id hdrs reads))
    (hothers : ∀ (j : Nat) (m : List Frame), j ≠ i → ms[j]? = some m → ∀ f ∈ m, f.key ≠ (id.take 8, mt))
    (hreads : reads.length ≤ two32) :
    let got := (readAll (encodeAll l)).1.filter (fun f => f.key == (id.take 8, mt))
    let hs := got.filter (fun f => !f.isData)
    let ds := got.filter Frame.isData
    got = hs ++ ds ∧
    hs.map Frame.nameValue = hdrs ∧
    ds.map Frame.index = List.range reads.length ∧
    (ds.map Frame.payload).flatten = (reads.map ReadRes.data).flatten ∧
    ds.map Frame.terminal = reads.map (fun r => r.err == .eof) ∧
    (bodyRun mt (id.take 8) 0 reads).1 = reads := by
  have hgot := interleaved_messages_recovered ms l hs hv i (id.take 8, mt)
    (by intro m hm; rw [hmsg] at hm; cases hm; exact messageFrames_key mt id hdrs reads) hothers
  rw [hmsg] at hgot
  simp only [Option.getD_some] at hgot
  simp only [hgot]
  have hH : (messageFrames mt id hdrs reads).filter (fun f => !f.isData) =
      hdrs.map (fun kv => Frame.header mt (id.take 8) kv.1 kv.2) := by
    simp only [messageFrames, List.filter_append]
    rw [List.filter_eq_self.mpr, List.filter_eq_nil_iff.mpr, List.append_nil]
    · intro f hf; simp [(bodyRun_key mt _ reads 0 f hf).2]
    · intro f hf; rw [List.mem_map] at hf; obtain ⟨kv, _, rfl⟩ := hf; rfl
  have hD : (messageFrames mt id hdrs reads).filter Frame.isData = (bodyRun mt (id.take 8) 0 reads).2 := by
    simp only [messageFrames, List.filter_append]
    rw [List.filter_eq_nil_iff.mpr, List.filter_eq_self.mpr, List.nil_append]
    · intro f hf; exact (bodyRun_key mt _ reads 0 f hf).2
    · intro f hf; rw [List.mem_map] at hf; obtain ⟨kv, _, rfl⟩ := hf; simp [Frame.isData]
  rw [hH, hD]
  refine ⟨rfl, ?_, data_indices_contiguous_from_zero mt _ reads hreads, concat_data_eq_bytes_read mt _ reads,
    terminal_pointwise mt _ reads, wrapper_transparent mt _ reads 0⟩
  rw [List.map_map]
  conv => rhs; rw [← List.map_id hdrs]
  apply List.map_congr_left
  intro kv _; rfl

/-- The statement of C19 over the runs of the stream's goroutines (no interleaving is assumed): any number of logging
goroutines send the frame sequences `ms` as `marbl.go` does (one channel send per frame: the regenerated fact), the
writer goroutine takes them in any order the scheduler produces and `Write`s each; when everything has come to rest
the bytes written parse back, for the (id, type) of message `i`, to exactly that message. -/
theorem concurrent_log_roundtrip (ms : List (List Frame)) (steps : List Step) (s' : Sys Bytes)
    (hrun : (Sys.init (ms.map (senderChunks Generated.Marbl.framecSendsWhole))).exec steps = some s')
    (hq : s'.quiescent = true) (hv : ∀ m ∈ ms, ∀ f ∈ m, f.Valid)
    (i : Nat) (mt : UInt8) (id : Bytes) (hdrs : List (Bytes × Bytes)) (reads : List ReadRes)
    (hmsg : ms[i]? = some (messageFrames mt id hdrs reads))
    (hothers : ∀ (j : Nat) (m : List Frame), j ≠ i → ms[j]? = some m → ∀ f ∈ m, f.key ≠ (id.take 8, mt))
    (hreads : reads.length ≤ two32) :
    let got := (readAll s'.out.flatten).1.filter (fun f => f.key == (id.take 8, mt))
    let hs := got.filter (fun f => !f.isData)
    let ds := got.filter Frame.isData
    got = hs ++ ds ∧
    hs.map Frame.nameValue = hdrs ∧
    ds.map Frame.index = List.range reads.length ∧
    (ds.map Frame.payload).flatten = (reads.map ReadRes.data).flatten ∧
    ds.map Frame.terminal = reads.map (fun r => r.err == .eof) ∧
    (bodyRun mt (id.take 8) 0 reads).1 = reads := by
  obtain ⟨l, hl, hout⟩ := stream_is_frame_granular ms steps s' hrun hq
  have hvl : ∀ f ∈ l, f.Valid := by
    intro f hf
    obtain ⟨m, hm, hfm⟩ := hl.mem f hf
    exact hv m hm f hfm
  have := logged_message_roundtrip ms l hl hvl i mt id hdrs reads hmsg hothers hreads
  rw [hout]
  exact this

/-- Any number of messages logged under allocated IDs (`marbl.Modifier`: the IDs of the proxy's contexts): IF the IDs
are pairwise distinct per type in the 8 bytes a frame keeps, THEN in every run of the stream's goroutines decoding per
(ID, type) recovers EVERY message: its headers once, data indices 0,1,2,… once, its body, terminal flags, wrapper
returns. The hypothesis is about the allocator (`context.go`), outside this model: the harness checks it on the
real one (`runpx`: real proxy, real `withSession`; oracle `id-shared`). -/
theorem distinct_ids_every_message_recovered (msgs : List LoggedMsg) (steps : List Step) (s' : Sys Bytes)
    (hrun : (Sys.init ((msgs.map LoggedMsg.frames).map (senderChunks Generated.Marbl.framecSendsWhole))).exec steps = some s')
    (hq : s'.quiescent = true)
    (hdist : ∀ (i j : Nat) (mi mj : LoggedMsg), i ≠ j → msgs[i]? = some mi → msgs[j]? = some mj → mi.key ≠ mj.key)
    (hid : ∀ m ∈ msgs, 8 ≤ m.id.length)
    (hh : ∀ m ∈ msgs, ∀ kv ∈ m.hdrs, kv.1.length < two32 ∧ kv.2.length < two32)
    (hd : ∀ m ∈ msgs, ∀ r ∈ m.reads, r.data.length < two32)
    (hr : ∀ m ∈ msgs, m.reads.length ≤ two32)
    (i : Nat) (m : LoggedMsg) (hm : msgs[i]? = some m) :
    let got := (readAll s'.out.flatten).1.filter (fun f => f.key == (m.id.take 8, m.mt))
    let hs := got.filter (fun f => !f.isData)
    let ds := got.filter Frame.isData
    got = hs ++ ds ∧
    hs.map Frame.nameValue = m.hdrs ∧
    ds.map Frame.index = List.range m.reads.length ∧
    (ds.map Frame.payload).flatten = (m.reads.map ReadRes.data).flatten ∧
    ds.map Frame.terminal = m.reads.map (fun r => r.err == .eof) ∧
    (bodyRun m.mt (m.id.take 8) 0 m.reads).1 = m.reads := by
  have hmem : m ∈ msgs := List.mem_of_getElem? hm
  refine concurrent_log_roundtrip (msgs.map LoggedMsg.frames) steps s' hrun hq ?_ i m.mt m.id m.hdrs m.reads ?_ ?_ (hr m hmem)
  · intro fl hfl f hf
    obtain ⟨m', hm', rfl⟩ := List.mem_map.mp hfl
    exact messageFrames_valid m'.mt m'.id m'.hdrs m'.reads (hid m' hm') (hh m' hm') (hd m' hm') f hf
  · rw [List.getElem?_map, hm]; rfl
  · intro j fl hj hfl f hf
    rw [List.getElem?_map] at hfl
    cases hmj : msgs[j]? with
    | none => rw [hmj] at hfl; cases hfl
    | some mj =>
      rw [hmj] at hfl
      simp only [Option.map_some, Option.some.injEq] at hfl
      subst hfl
      rw [messageFrames_key mj.mt mj.id mj.hdrs mj.reads f hf]
      exact hdist j i mj m hj hmj hm

/-- What happens without the hypothesis (concrete witness, `decide`): two requests whose context IDs share their first
8 bytes (`session prefix + random suffix`) are ONE message for a reader: `:path` twice, indices 0, 0, both bodies. -/
theorem shared_id_prefix_merges_messages :
    let m1 : LoggedMsg := ⟨1, strBytes "sessAAAA1111", [(strBytes ":path", strBytes "/a")], [⟨strBytes "one", .eof⟩]⟩
    let m2 : LoggedMsg := ⟨1, strBytes "sessAAAA2222", [(strBytes ":path", strBytes "/b")], [⟨strBytes "two", .eof⟩]⟩
    let got := (readAll (encodeAll (m1.frames ++ m2.frames))).1.filter (fun f => f.key == m1.key)
    m1.id ≠ m2.id ∧ m1.key = m2.key ∧
    (got.filter (fun f => !f.isData)).map Frame.nameValue = [(strBytes ":path", strBytes "/a"), (strBytes ":path", strBytes "/b")] ∧
    (got.filter Frame.isData).map Frame.index = [0, 0] ∧
    ((got.filter Frame.isData).map Frame.payload).flatten = strBytes "onetwo" := by
  set_option maxRecDepth 8192 in decide

/-- A request whose body is `http.NoBody` is logged as an empty body read once to end-of-file
(one data frame: index 0, terminal, no bytes), whatever the consumer does with `http.NoBody`
afterwards; so `logged_message_roundtrip` applies to it with `reads := noBodyReads`. -/
theorem nobody_request_is_empty_body (id : Bytes) (hdrs : List (Bytes × Bytes)) (reads : List ReadRes) :
    requestFrames id hdrs true reads = messageFrames 1 id hdrs noBodyReads ∧
    (bodyRun 1 (id.take 8) 0 noBodyReads).2 = [Frame.data 1 (id.take 8) 0 true []] ∧
    requestFrames id hdrs false reads = messageFrames 1 id hdrs reads :=
  ⟨rfl, rfl, rfl⟩

/-! ## the stream's writer may retain the slices it is handed

`marbl.Handler.Write` (the writer of `cmd/proxy`) queues the slice itself for its websocket
subscribers. Since `newFrame` makes a buffer per frame and nothing touches it after `w.Write`
(`Alloc.fresh`), a retaining writer finds behind its references exactly what a copying writer stored. -/

/-- ∀ sequences of written frames: retained view = copied view = the frames. -/
theorem retaining_writer_sees_written (fs : List Bytes) :
    (sendAll .fresh fs).retained = fs ∧ (sendAll .fresh fs).copied = fs := by
  refine ⟨sendAll_fresh_retained fs, ?_⟩
  have := (foldl_sendFrame_fresh fs {} ⟨by simp [WState.retained], by simp⟩).2
  unfold sendAll
  rw [this]; simp

/-- Hence every clause proved for the written stream holds for what a subscriber receives: the
bytes sent to a websocket subscriber parse back to the frames written, then EOF. -/
theorem subscriber_stream_roundtrip (fs : List Frame) (hv : ∀ f ∈ fs, f.Valid) :
    readAll (subscriberStream .fresh fs) = (fs, .err .eof) := by
  unfold subscriberStream
  rw [(retaining_writer_sees_written _).1]
  exact stream_roundtrip fs hv

/-- Why the buffers must not be recycled after `Write` returned (concrete witness, `decide`): with a
free list the copying writer still stores the right stream, the retaining writer finds the last
frame in every slot. -/
theorem pooled_buffers_counterexample :
    (sendAll .pooled [strBytes "ab", strBytes "cd", strBytes "ef"]).copied = [strBytes "ab", strBytes "cd", strBytes "ef"] ∧
    (sendAll .pooled [strBytes "ab", strBytes "cd", strBytes "ef"]).retained = [strBytes "ef", strBytes "ef", strBytes "ef"] := by
  decide

/-! ## non-vacuity: the hypotheses above are satisfiable by a concrete two-message interleaving -/

def idA : Bytes := strBytes "aaaaaaaa"
def a1 : Frame := .header 1 idA (strBytes ":method") (strBytes "GET")
def a2 : Frame := .data 1 idA 0 false (strBytes "he")
def a3 : Frame := .data 1 idA 1 true (strBytes "llo")
def b1 : Frame := .header 2 idA (strBytes ":status") (strBytes "200")
def b2 : Frame := .data 2 idA 0 true []
/-- request and response of one exchange share the id (here with a longer id, cut to 8 bytes) -/
theorem exA : messageFrames 1 (strBytes "aaaaaaaaXX") [(strBytes ":method", strBytes "GET")]
    [⟨strBytes "he", .none⟩, ⟨strBytes "llo", .eof⟩] = [a1, a2, a3] := by decide
theorem exB : messageFrames 2 (strBytes "aaaaaaaaXX") [(strBytes ":status", strBytes "200")] [⟨[], .eof⟩] = [b1, b2] := by
  decide
/-- a1 b1 a2 b2 a3 : an interleaving of the two messages' frames -/
def exL : List Frame := [a1, b1, a2, b2, a3]

example : Shuffle [[a1, a2, a3], [b1, b2]] exL :=
  .cons 0 a1 [a2, a3] rfl (.cons 1 b1 [b2] rfl (.cons 0 a2 [a3] rfl (.cons 1 b2 [] rfl (.cons 0 a3 [] rfl
    (.nil (by simp))))))
example : ∀ f ∈ exL, f.Valid := by decide
set_option maxRecDepth 8192 in
example : (readAll (encodeAll exL)).1.filter (fun f => f.key == (idA, 1)) = [a1, a2, a3] := by decide
set_option maxRecDepth 8192 in
example : (readAll (encodeAll exL)).2 = .err .eof := by decide

/-- the interleaving `exL` as a run of the goroutine system: takes for senders 0 1 0 1 0, each followed by its write, then Close -/
example : replayWrites [[a1, a2, a3].map encode, [b1, b2].map encode] [0, 1, 0, 1, 0] = some (exL.map encode) := by decide
example : (Sys.init [[a1, a2, a3], [b1, b2]]).exec (schedSteps [0, 1, 0, 1, 0] ++ [.close]) =
    some ⟨[[], []], .exited, exL⟩ := by decide
/-- a step that is not enabled (the writer is still inside `Write`) is not a run -/
example : (Sys.init [[a1], [b1]]).exec [.take 0, .take 1] = none := by decide

example : (readAll (subscriberStream .fresh exL)).1.filter (fun f => f.key == (idA, 1)) = [a1, a2, a3] := by
  rw [subscriber_stream_roundtrip exL (by decide)]; decide
example : readAll (subscriberStream .pooled [a2, a3]) ≠ ([a2, a3], .err .eof) := by decide

end Martian.Props.C19
