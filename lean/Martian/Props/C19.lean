/-! STUB — property C19 is not built yet. -/
