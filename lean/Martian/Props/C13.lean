import Martian.Model.Verify
