import Martian.Lemmas.Verify
import Martian.Props.C13.Conc
import Martian.Props.C13.Locks
import Martian.Props.C13.Reconf
/-!
C13 — verification reports exactly the unmet expectations since the last reset.

All theorems are about the executable model `Martian.Verify` (Model/Verify.lean), which is tied to
/repo by the correspondence run of `./check C13` and is parameterised by the facts regenerated
from the source on every run (`Generated/Verify.lean`: the branch fields each of `filter.Filter`'s
four walks visits, `MultiError.Add`'s unwrapping, the API-request guard of every verifier).
They hold for every tree (any nesting of groups and filters, both branches, all verifier kinds,
non-verifier modifiers that may fail), every exchange and every history — by structural induction
on the tree and induction on the history. The concurrent clause (queries and resets racing
traffic) is in `Props/C13/Conc.lean` (interleavings of atomic steps) and `Props/C13/Locks.lean`
(data-race freedom from the regenerated lock facts).
-/
namespace Martian.Props.C13
open Martian Martian.Verify

/-! ### facts the model is parameterised by (break when the source changes shape) -/

/-- Each of `filter.Filter`'s Verify*/Reset* walks visits BOTH branch fields (F13a). -/
theorem facts_filter_walks_visit_both_branches (side : Side) :
    (true ∈ verifyVisits side ∧ false ∈ verifyVisits side ∧ (verifyVisits side).length = 2) ∧
    (true ∈ resetVisits side ∧ false ∈ resetVisits side) := by
  cases side <;> decide

/-- Every verifier's Modify* leaves before recording when the request is an API request (F13b). -/
theorem facts_verifiers_skip_api :
    Generated.Verify.skipsApi.map (·.1) =
      ["status.res", "header.req", "header.res", "method.req", "url.req", "qs.req", "failure.req", "pingback.req"] ∧
    Generated.Verify.skipsApi.all (·.2) = true := by decide

/-- Every method of `MultiError` (whichever methods it has; `Add`, `Errors`, `Empty` among them)
takes the mutex first (F13c-Empty), and `Add` unwraps a nested `*MultiError`. The lock discipline
of the whole machinery is in `Props/C13/Locks.lean`. -/
theorem facts_multierror_locked :
    Generated.Verify.multiErrorLocked.all (·.2) = true ∧
    (["Add", "Errors", "Empty"].all fun m => (Generated.Verify.multiErrorLocked.map (·.1)).contains m) = true ∧
    Generated.Verify.multiErrorAddFlattens = true := by decide

/-! ### histories -/

theorem run_append (s : State) (h1 h2 : List Op) : s.run (h1 ++ h2) = (s.run h1).run h2 := by
  simp [State.run, List.foldl_append]

/-- The invariant carried along a history: the tree keeps its shape and every verifier holds
exactly what the exchanges since the last reset that reached it call for. -/
theorem run_invariant (c : State) : ∀ (h : List Op) (s : State) (ms : List Msg),
    s.clear = c → s.req.tracks .req ms → s.res.tracks .res ms →
    (s.run h).clear = c ∧ (s.run h).req.tracks .req (h.foldl sinceStep ms) ∧
      (s.run h).res.tracks .res (h.foldl sinceStep ms)
  | [], s, ms, hc, hq, hs => ⟨hc, hq, hs⟩
  | op :: h, s, ms, hc, hq, hs => by
    simp only [State.run, List.foldl_cons]
    cases op with
    | traffic m =>
      refine run_invariant c h _ _ ?_ ?_ ?_
      · rw [← hc]; simp [State.step, State.traffic, State.clear, T.clear_modify]
      · exact T.tracks_modify .req m s.req ms hq
      · exact T.tracks_modify .res m s.res ms hs
    | query => exact run_invariant c h s ms hc hq hs
    | reset =>
      refine run_invariant c h _ _ ?_ ?_ ?_
      · rw [← hc]; simp [State.step, State.reset, State.clear, T.reset_eq_clear, T.clear_clear]
      · simpa [State.step, State.reset, T.reset_eq_clear, sinceStep] using T.tracks_clear .req s.req
      · simpa [State.step, State.reset, T.reset_eq_clear, sinceStep] using T.tracks_clear .res s.res

theorem fresh_tracks (s0 : State) (hf : s0.clear = s0) : s0.req.tracks .req [] ∧ s0.res.tracks .res [] := by
  have hq : s0.req.clear = s0.req := congrArg State.req hf
  have hs : s0.res.clear = s0.res := congrArg State.res hf
  exact ⟨hq ▸ T.tracks_clear .req s0.req, hs ▸ T.tracks_clear .res s0.res⟩

/-- **Main theorem.** From the initial state, after ANY history of exchanges, queries and resets,
a verification query returns exactly the report demanded by `State.spec` for the exchanges since
the last reset: per verifier, in tree order, one entry for each non-API exchange that reached
it and did not meet its expectation — as a list equality, hence none lost, none duplicated,
nested groups and filters flattened to one entry per failure. -/
theorem query_is_failures_since_reset (s0 : State) (hf : s0.clear = s0) (h : List Op) :
    (s0.run h).query = s0.spec (sinceReset h) := by
  obtain ⟨hq, hs⟩ := fresh_tracks s0 hf
  obtain ⟨hc, tq, ts⟩ := run_invariant s0 h s0 [] hf hq hs
  have cq : (s0.run h).req.clear = s0.req := congrArg State.req hc
  have cs : (s0.run h).res.clear = s0.res := congrArg State.res hc
  simp only [State.query, State.spec, sinceReset]
  rw [T.report_eq_spec .req _ _ tq, T.report_eq_spec .res _ _ ts,
    ← T.spec_clear .req (s0.run h).req, ← T.spec_clear .res (s0.run h).res, cq, cs]

/-- A configuration accepted by `martianhttp.Modifier` starts in the initial state … -/
theorem install_fresh (c : Cfg) (s0 : State) (hi : c.install = some s0) : s0.clear = s0 := by
  simp only [Cfg.install] at hi
  split at hi
  · rename_i q s hq hs
    simp at hi; subst hi
    have h1 : (q.getD .nop).clear = q.getD .nop := by
      cases q with
      | none => simp [T.clear]
      | some x => simpa using Cfg.compile_fresh .req c x hq
    have h2 : (s.getD .nop).clear = s.getD .nop := by
      cases s with
      | none => simp [T.clear]
      | some x => simpa using Cfg.compile_fresh .res c x hs
    simp [State.clear, h1, h2]
  · cases hi

/-- … so the main theorem holds for every accepted configuration tree. -/
theorem query_is_failures_since_reset_of_config (c : Cfg) (s0 : State) (hi : c.install = some s0) (h : List Op) :
    (s0.run h).query = s0.spec (sinceReset h) :=
  query_is_failures_since_reset s0 (install_fresh c s0 hi) h

/-- A reset returns EVERY verifier of the tree (both branches of every filter, every level of
nesting) to its initial state: whatever happened before, the state is the initial one again. -/
theorem reset_restores_initial (s0 : State) (hf : s0.clear = s0) (h : List Op) :
    s0.run (h ++ [.reset]) = s0 := by
  obtain ⟨hq, hs⟩ := fresh_tracks s0 hf
  obtain ⟨hc, _, _⟩ := run_invariant s0 h s0 [] hf hq hs
  rw [run_append]
  simp only [State.run, List.foldl_cons, List.foldl_nil, State.step, State.reset, T.reset_eq_clear]
  exact hc

/-- After a reset the report is the initial report (only pingbacks that never occurred). -/
theorem query_after_reset (s0 : State) (hf : s0.clear = s0) (h : List Op) :
    (s0.run (h ++ [.reset])).query = s0.spec [] := by
  rw [reset_restores_initial s0 hf h]
  exact query_is_failures_since_reset s0 hf []

/-- Requests addressed to the proxy's own API are never counted: removing an API exchange from
any history, at any position, from any state, changes nothing. -/
theorem api_requests_not_counted (s : State) (h1 h2 : List Op) (m : Msg) (ha : m.api = true) :
    s.run (h1 ++ .traffic m :: h2) = s.run (h1 ++ h2) := by
  rw [run_append, run_append]
  simp only [State.run, List.foldl_cons, State.step, State.traffic, T.modify_api _ m ha]

/-- A query does not change the state: querying twice gives the same report, and a query can
be dropped from any history. -/
theorem query_idempotent (s : State) (h1 h2 : List Op) :
    s.run (h1 ++ .query :: h2) = s.run (h1 ++ h2) ∧ (s.run (h1 ++ [.query])).query = (s.run h1).query := by
  constructor
  · rw [run_append, run_append]; simp [State.run, State.step]
  · rw [run_append]; simp [State.run, State.step]

/-- Depth one: what a verify walk hands to its caller is, element by element, a plain error —
never a nested `*MultiError` (so the handler emits one message per failure). -/
theorem report_depth_one (s0 : State) (hf : s0.clear = s0) (h : List Op) (side : Side) :
    ∀ e ∈ errsOf ((match side with | .req => (s0.run h).req | .res => (s0.run h).res).verify side), ∃ m, e = .one m := by
  obtain ⟨hq, hs⟩ := fresh_tracks s0 hf
  obtain ⟨_, tq, ts⟩ := run_invariant s0 h s0 [] hf hq hs
  cases side
  · simp only [T.verify_spec .req _ _ tq]; intro e he
    obtain ⟨a, _, ha⟩ := List.mem_map.mp he; exact ⟨a, ha.symm⟩
  · simp only [T.verify_spec .res _ _ ts]; intro e he
    obtain ⟨a, _, ha⟩ := List.mem_map.mp he; exact ⟨a, ha.symm⟩

/-- Instance for a single verifier: its report is, in order, the error of every non-API exchange
since the last reset that does not meet the expectation. -/
theorem single_verifier_report (k : Kind) (h : List Op) :
    (State.run ⟨.ver k [], .nop⟩ h).query = ((sinceReset h).filter (fun m => !m.api)).filterMap (check .req k) := by
  rw [query_is_failures_since_reset _ (by simp [State.clear, T.clear])]
  simp [State.spec, T.spec, leafSpec]

/-! ### non-vacuity: concrete witnesses (tests by evaluation, not part of the proof) -/

/-- `header.Filter(X-A: 1)` with a `status.Verifier(200)` when true and, in the else branch, a group
holding `status.Verifier(404)` and a `header.Verifier(X-B)`; default scopes. -/
def exCfg : Cfg :=
  .filter (.header (strBytes "X-A") (strBytes "1")) ⟨false, false, false⟩
    (.leaf (.ver (.status 200)) ⟨false, false, false⟩)
    (.group false ⟨false, false, false⟩
      (.cons (.leaf (.ver (.status 404)) ⟨false, false, false⟩)
        (.cons (.leaf (.ver (.header (strBytes "X-B") [])) ⟨false, false, false⟩) .nil)))

def exMsg (api : Bool) (status : Nat) : Msg :=
  { api := api, method := strBytes "GET", scheme := strBytes "http", host := strBytes "h", path := strBytes "/p",
    query := [], frag := strBytes "m1", reqH := [], status := status, resH := [] }

def exState : State :=
  ⟨.filter (.header (strBytes "X-A") (strBytes "1")) .nop (.group false (.cons (.ver (.header (strBytes "X-B") []) []) .nil)),
   .filter (.header (strBytes "X-A") (strBytes "1")) (.ver (.status 200) [])
     (.group false (.cons (.ver (.status 404) []) (.cons (.ver (.header (strBytes "X-B") []) []) .nil)))⟩

/-- The configuration is accepted and compiles to `exState` (hypothesis of `…_of_config` is satisfiable). -/
example : exCfg.install = some exState := by rfl
example : exState.clear = exState := by rfl

/-- An exchange without `X-A` goes to the ELSE branch: three failures (request header, status, response header). -/
example : ((exState.run [.traffic (exMsg false 200)]).query).length = 3 := by decide
example : (exState.run [.traffic (exMsg false 200)]).query.head? =
    some (strBytes "request(http://h/p#m1) header verify failure: got no header, want X-B header") := by decide
/-- … and a reset clears the else branch too. -/
example : (exState.run [.traffic (exMsg false 200), .reset]).query = [] := by decide
/-- An API exchange is not counted. -/
example : (exState.run [.traffic (exMsg true 200)]).query = [] := by decide
/-- A pingback that never occurred is reported once, also right after a reset. -/
example : (State.run ⟨.ping [] (strBytes "h2") [] [] true, .nop⟩ [.traffic (exMsg false 200), .reset]).query =
    [strBytes "request(//h2): pingback never occurred"] := by decide

end Martian.Props.C13
