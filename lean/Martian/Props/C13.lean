/-! STUB — property C13 is not built yet. -/
