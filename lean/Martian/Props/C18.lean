import Martian.Lemmas.Shape
import Martian.Props.C18.Interleaved
import Martian.Props.C18.Facts
import Martian.Props.C18.History
/-!
C18 — Traffic shaping delays or cuts a response but never alters its bytes.
Only property theorems and non-vacuity examples live here.

Quantifiers: every raw configuration (any lists of throttles / halts / close actions, any byte
strings for the throttle ranges), every byte string written, every split of it into `Write` calls
(theorems are per call and compose through the context invariant `CtxOK`), every range start and
head length, and every bucket adversary `caps : Nat → Nat` (remaining capacity `caps r + 1 ≥ 1` in
round `r`).  Delays are events (`Ev.sleep`), not wall-clock time.
-/
namespace Martian.Props.C18
open Martian Martian.Go Martian.Shape

/-! ## The write loop -/

/-- `write_loop_terminates` and no Go panic (negative slice bound, action index out of range):
with any bucket adversary the loop ends within `len b + #actions + 1` rounds. -/
theorem write_loop_terminates (valid : Bool) (caps : Nat → Nat) (c : Ctx) (acts : List Action) (b : Bytes)
    (h : CtxOK c acts) :
    (shapedWrite valid caps c acts b).status ≠ .fuel ∧ (shapedWrite valid caps c acts b).status ≠ .panic := by
  rw [shapedWrite_eq]
  exact ⟨(run valid caps c acts b h).nofuel, (run valid caps c acts b h).nopanic⟩

/-- Bytes are never altered or reordered: what reaches the client in one `Write` call is a prefix
of what was written, whatever the buckets do. -/
theorem delivered_is_prefix_of_written (valid : Bool) (caps : Nat → Nat) (c : Ctx) (acts : List Action)
    (b : Bytes) (h : CtxOK c acts) :
    ∃ n, n ≤ b.length ∧ (shapedWrite valid caps c acts b).delivered = b.take n := by
  rw [shapedWrite_eq]
  obtain ⟨n, h1, h2, _, _⟩ := (run valid caps c acts b h).deliv
  have hp := headPart_le c b
  refine ⟨headPart c b + n, by simp only [List.length_drop] at h1; omega, ?_⟩
  simp only [h2]
  rw [List.take_add]

/-- No close action fired ⇒ every byte written was delivered, in order. -/
theorem no_close_delivers_all (valid : Bool) (caps : Nat → Nat) (c : Ctx) (acts : List Action) (b : Bytes)
    (h : CtxOK c acts) (hok : (shapedWrite valid caps c acts b).status = .ok) :
    (shapedWrite valid caps c acts b).delivered = b := by
  rw [shapedWrite_eq] at hok ⊢
  obtain ⟨n, h1, h2, h3, _⟩ := (run valid caps c acts b h).deliv
  simp only at hok ⊢
  rw [h2, h3 hok, List.take_length, List.take_append_drop]

/-- The same with the two buckets of the code spelled out: round `r` finds `lc r + 1` tokens left in
the connection's own bucket and `gc r + 1` in the bucket shared by all connections of the shape
(`max_global_bandwidth`), each chosen freely and independently (fill levels anywhere between empty
and full, other connections consuming the shared one); the round writes
`min (min (lc r + 1) (gc r + 1)) amount` bytes and skips exactly those.  Nothing is dropped. -/
theorem no_close_delivers_all_two_buckets (valid : Bool) (lc gc : Nat → Nat) (c : Ctx) (acts : List Action)
    (b : Bytes) (h : CtxOK c acts)
    (hok : (shapedWrite valid (fun r => min (lc r) (gc r)) c acts b).status = .ok) :
    (shapedWrite valid (fun r => min (lc r) (gc r)) c acts b).delivered = b ∧
    ∀ r, min (lc r) (gc r) + 1 = min (lc r + 1) (gc r + 1) :=
  ⟨no_close_delivers_all valid _ c acts b h hok, by intro r; omega⟩

/-- The only way a shaped write is cut is a close action; a panic/fuel outcome does not exist and
`ok` delivers everything (previous theorems), so the status is `ok` or `closed`. -/
theorem status_ok_or_closed (valid : Bool) (caps : Nat → Nat) (c : Ctx) (acts : List Action) (b : Bytes)
    (h : CtxOK c acts) :
    (shapedWrite valid caps c acts b).status = .ok ∨ (shapedWrite valid caps c acts b).status = .closed := by
  have := write_loop_terminates valid caps c acts b h
  cases hs : (shapedWrite valid caps c acts b).status <;> simp_all

/-- **close_at_k.**  If the call is cut, it is cut by a close action `a` of the shape that still
had a non-zero count, it is the *first* such close action at or after the pending action, the
write position is exactly its offset `k = a.byte`, and exactly the head part plus the
`k - off` body bytes before `k` were delivered — for every bucket adversary. -/
theorem close_at_k (valid : Bool) (caps : Nat → Nat) (c : Ctx) (acts : List Action) (b : Bytes)
    (h : CtxOK c acts) (hc : (shapedWrite valid caps c acts b).status = .closed) :
    ∃ (i : Nat) (a : Action), acts[i]? = some a ∧ isClose a = true ∧ a.count ≠ 0 ∧ c.off ≤ a.byte ∧
      (shapedWrite valid caps c acts b).ctx.off = a.byte ∧
      (shapedWrite valid caps c acts b).delivered = b.take (headPart c b + (a.byte - c.off).toNat) ∧
      nidx acts c.next ≤ i ∧
      ∀ (j : Nat) (a' : Action), nidx acts c.next ≤ j → j < i → acts[j]? = some a' → isClose a' = true →
        a'.count = 0 := by
  rw [shapedWrite_eq] at hc ⊢
  have R := run valid caps c acts b h
  simp only at hc ⊢
  obtain ⟨n, h1, h2, _, h4⟩ := R.deliv
  obtain ⟨i, a, k1, k2, k3, k4, k5, k6⟩ := R.closed hc
  obtain ⟨o1, _⟩ := h4 (R.closedValid hc)
  simp only at o1 k1 k5 k6
  refine ⟨i, a, k1, k2, k3, by omega, k4, ?_, k5, k6⟩
  rw [h2, List.take_add]
  congr 2
  omega

/-- The same for a whole fresh response written in one call: `b = head ++ body`, nothing of the
head written yet, write position = range start.  Delivered = head + exactly the body bytes before
`k`, counted from the range start. -/
theorem close_at_k_fresh (valid : Bool) (caps : Nat → Nat) (c : Ctx) (acts : List Action) (head body : Bytes)
    (h : CtxOK c acts) (hw : c.headerWritten = 0) (hl : c.headerLen = head.length)
    (hc : (shapedWrite valid caps c acts (head ++ body)).status = .closed) :
    ∃ (i : Nat) (a : Action), acts[i]? = some a ∧ isClose a = true ∧ a.count ≠ 0 ∧ c.off ≤ a.byte ∧
      (shapedWrite valid caps c acts (head ++ body)).delivered = head ++ body.take (a.byte - c.off).toNat := by
  obtain ⟨i, a, k1, k2, k3, k4, _, k6, _, _⟩ := close_at_k valid caps c acts (head ++ body) h hc
  refine ⟨i, a, k1, k2, k3, k4, ?_⟩
  rw [k6]
  have : headPart c (head ++ body) = head.length := by
    unfold headPart; rw [hw, hl]; simp only [List.length_append]
    split <;> omega
  rw [this, List.take_append]
  simp only [Nat.add_sub_cancel_left]
  congr 1
  exact List.take_of_length_le (by omega)

/-- After an uncut call the context is again well formed (so the per-call theorems apply to the
next `Write` of the same response), close actions were neither consumed nor altered, and no close
action with a non-zero count was passed over. -/
theorem ok_preserves_invariant (caps : Nat → Nat) (c : Ctx) (acts : List Action) (b : Bytes)
    (h : CtxOK c acts) (hok : (shapedWrite true caps c acts b).status = .ok) :
    CtxOK (shapedWrite true caps c acts b).ctx (shapedWrite true caps c acts b).acts ∧
    (∀ (j : Nat) (a : Action), isClose a = true →
      ((shapedWrite true caps c acts b).acts[j]? = some a ↔ acts[j]? = some a)) ∧
    (∀ (j : Nat) (a : Action), nidx acts c.next ≤ j →
      j < nidx (shapedWrite true caps c acts b).acts (shapedWrite true caps c acts b).ctx.next →
      acts[j]? = some a → isClose a = true → a.count = 0) := by
  rw [shapedWrite_eq] at hok ⊢
  have R := run true caps c acts b h
  simp only at hok ⊢
  obtain ⟨k1, _, k3, k4⟩ := R.okInv hok rfl
  exact ⟨⟨k1.sorted, k1.next⟩, k3, k4⟩

/-! ## Actions apply only to responses whose URL matches a current shape -/

/-- A request URL that matches no pattern of the connection gets no shaping context. -/
theorem unmatched_url_not_shaped (l : Listener) (c : Conn) (rs hl : Int) (f : Option Int) :
    (setContext l c none rs hl f).ctx.shaping = false := by
  simp [setContext]

/-- Without a shaping context `Write` delivers everything, performs no action and leaves the
listener (shapes, counts) untouched. -/
theorem unshaped_write_untouched (caps : Nat → Nat) (l : Listener) (c : Conn) (b : Bytes)
    (h : c.ctx.shaping = false) :
    (connWrite caps l c b).1 = l ∧ (connWrite caps l c b).2.2.delivered = b ∧
    (connWrite caps l c b).2.2.evs = [] ∧ (connWrite caps l c b).2.2.status = .ok := by
  simp [connWrite, h]

/-- A shaped write that finds its shape replaced (or removed) performs no action at all, changes
no count, and (if nothing else cuts it) delivers every byte. -/
theorem replaced_shape_no_actions (caps : Nat → Nat) (c : Ctx) (acts : List Action) (b : Bytes) :
    (shapedWrite false caps c acts b).evs = [] ∧ (shapedWrite false caps c acts b).acts = acts ∧
    (shapedWrite false caps c acts b).cap = none := by
  rw [shapedWrite_eq]
  have := bodyLoop_invalid caps (fuelFor (b.drop (headPart c b)) acts) 0
    { off := c.off, next := c.next, acts := acts, delivered := b.take (headPart c b) } (b.drop (headPart c b))
  simpa using this

/-! ## Configuration: rejection leaves the state unchanged; acceptance applies to later connections -/

/-- A rejected configuration request leaves the listener exactly as it was. -/
theorem invalid_config_rejected_state_unchanged (l : Listener) (cfg : RawConfig) (e : Reject)
    (h : (configureSt l cfg).2 = some e) : (configureSt l cfg).1 = l := by
  unfold configureSt at h ⊢
  cases hc : configure l cfg with
  | ok l' => simp [hc] at h
  | error e' => simp

/-- Every accepted configuration is well formed — i.e. a configuration with negative defaults, a
null shape, an empty or invalid pattern, a negative bandwidth, a null / non-positive / malformed
throttle, a null or negative halt or close action, a zero count, or overlapping throttle intervals
is rejected. -/
theorem accepted_config_wellformed (l l' : Listener) (cfg : RawConfig) (h : configure l cfg = .ok l') :
    (∀ d, cfg.defaults = some d → d.up ≥ 0 ∧ d.down ≥ 0 ∧ d.lat ≥ 0) ∧
    ∀ s ∈ cfg.shapes, ∃ rs r, s = some rs ∧ rs.regex = .valid r ∧ rs.maxBw ≥ 0 ∧
      (∀ t ∈ rs.throttles, ∃ rt, t = some rt ∧ rt.bw > 0 ∧ ∃ st en, parseThrottleBytes rt.bytes = some (st, en)) ∧
      (∀ x ∈ rs.halts, ∃ rh, x = some rh ∧ rh.byte ≥ 0 ∧ rh.dur ≥ 0 ∧ rh.count ≠ 0) ∧
      (∀ x ∈ rs.closes, ∃ rc, x = some rc ∧ rc.byte ≥ 0 ∧ rc.count ≠ 0) := by
  unfold configure at h
  simp only at h
  split at h
  · cases h
  · rename_i hd
    constructor
    · intro d hdd; simp only [hdd, Option.getD_some] at hd; omega
    · cases hp : parseShapes 0 cfg.shapes with
      | error e => simp [hp] at h
      | ok ps =>
        intro s hs
        obtain ⟨k, hk, rfl⟩ := List.mem_iff_getElem.1 hs
        obtain ⟨p, hp1, _⟩ := (parseShapes_ok_all cfg.shapes 0 ps hp).2 k hk
        simp only [Nat.zero_add] at hp1
        cases hsk : cfg.shapes[k] with
        | none => rw [hsk] at hp1; simp [parseShape] at hp1
        | some rs =>
          rw [hsk] at hp1
          unfold parseShape at hp1
          simp only at hp1
          cases hr : rs.regex with
          | empty => simp [hr] at hp1
          | bad => simp [hr] at hp1
          | valid r =>
            simp only [hr] at hp1
            split at hp1
            · cases hp1
            · rename_i hmb
              cases ht : parseThrottles k 0 rs.throttles with
              | error e => simp [ht] at hp1
              | ok ts =>
                simp only [ht] at hp1
                cases hh : parseHalts k 0 rs.halts with
                | error e => simp [hh] at hp1
                | ok hs' =>
                  simp only [hh] at hp1
                  cases hcl : parseCloses k rs.halts.length 0 rs.closes with
                  | error e => simp [hcl] at hp1
                  | ok cs =>
                    exact ⟨rs, r, rfl, hr, by omega, parseThrottles_ok _ _ _ _ ht,
                      (parseHalts_ok _ _ _ _ hh).1, (parseCloses_ok _ _ _ _ _ hcl).1⟩

/-- Every accepted shape has throttles sorted by start that do not overlap (only the last one
may be open-ended) and actions sorted by offset — the precondition of the binary searches. -/
theorem accepted_shape_sorted_nonoverlapping (si : Nat) (rs : RawShape) (r : Nat) (sh : Shape)
    (h : parseShape si (some rs) = .ok (r, sh)) :
    SortedBy Throttle.start sh.throttles ∧ NoOverlap sh.throttles ∧ SortedBy Action.byte sh.actions ∧ sh.maxBw > 0 := by
  unfold parseShape at h
  simp only at h
  cases hr : rs.regex with
  | empty => simp [hr] at h
  | bad => simp [hr] at h
  | valid r' =>
    simp only [hr] at h
    split at h
    · cases h
    · rename_i hmb
      cases ht : parseThrottles si 0 rs.throttles with
      | error e => simp [ht] at h
      | ok ts =>
        simp only [ht] at h
        cases hh : parseHalts si 0 rs.halts with
        | error e => simp [hh] at h
        | ok hs' =>
          simp only [hh] at h
          cases hcl : parseCloses si rs.halts.length 0 rs.closes with
          | error e => simp [hcl] at h
          | ok cs =>
            simp only [hcl] at h
            cases ha : actionsFromThrottles (if rs.maxBw = 0 then defaultBw else rs.maxBw)
                (stableSort Throttle.start ts) with
            | none => simp [ha] at h
            | some tas =>
              simp only [ha] at h
              cases h
              refine ⟨stableSort_sorted _ _, actionsFromThrottles_noOverlap _ _ _ ha, stableSort_sorted _ _, ?_⟩
              simp only
              split
              · simp [defaultBw]
              · omega

/-- The binary searches of `conn.go` return what the linear definitions return, on every sorted
action list / throttle list (in particular on every accepted shape). -/
theorem binary_searches_are_linear (acts : List Action) (ts : List Throttle) (start : Int)
    (ha : SortedBy Action.byte acts) (ht : SortedBy Throttle.start ts) :
    nextFromByte acts start = nextFromByteLin acts start ∧
    currentThrottle ts start = currentThrottleLin ts start := by
  unfold nextFromByte nextFromByteLin currentThrottle currentThrottleLin
  rw [searchGo_eq_linSearch _ _ (mono_byte acts ha start), searchGo_eq_linSearch _ _ (mono_start ts ht start)]
  exact ⟨rfl, rfl⟩

/-- The context that `Proxy.handle` sets for a new response satisfies the write-loop invariant:
the first pending action is at or after the range start. -/
theorem fresh_context_ok (acts : List Action) (rs : Int) (ha : SortedBy Action.byte acts) (c : Ctx)
    (hoff : c.off = rs) (hn : c.next = nextFromByte acts rs) : CtxOK c acts := by
  refine ⟨ha, ?_⟩
  intro i nb h
  rw [hn] at h
  unfold nextFromByte at h
  have sp := searchGo_spec _ _ (mono_byte acts ha rs) acts.length 0 acts.length rfl (Nat.zero_le _)
    (Nat.le_refl _) (by intro m hm; omega) (by intro m h1 h2; omega)
  have ns := nextFromIndex_spec acts _ (searchGo (fun i => decide (byteAt acts i ≥ rs)) 0 acts.length) rfl
  rw [h] at ns
  obtain ⟨h1, h2, h3, _, _⟩ := ns
  refine ⟨h2, h3, ?_⟩
  have := sp.2.2.2 i h1 h2
  simp only [decide_eq_true_eq] at this
  rw [byteAt_eq h2, h3] at this
  omega

/-- An accepted configuration applies only to connections accepted afterwards: a connection
accepted before it sees no shape at all afterwards (so, by `replaced_shape_no_actions`, none of
its writes performs an action), while a connection accepted after it sees exactly the new shapes. -/
theorem accepted_applies_only_to_later_conns (l l' : Listener) (cfg : RawConfig)
    (h : configure l cfg = .ok l') :
    (∀ c : Conn, c.established < l.clock → ∀ r, validShape l' c r = none) ∧
    (∀ r, validShape (accept l').1 (accept l').2 r = mapGet r l'.shapes) ∧
    (accept l').2.locals = l'.shapes.map (fun p => (p.1, p.2.maxBw)) := by
  unfold configure at h
  simp only at h
  split at h
  · cases h
  · cases hp : parseShapes 0 cfg.shapes with
    | error e => simp [hp] at h
    | ok ps =>
      simp only [hp] at h
      cases h
      refine ⟨?_, ?_, ?_⟩
      · intro c hc r
        unfold validShape
        simp only
        split
        · omega
        · rfl
      · intro r
        simp [validShape, accept]
      · simp [accept]

/-! ## Non-vacuity and concrete witnesses (tests, by `decide`) -/

/-- A shape with a halt at 3, a close (count 1) at 5 and a throttle 2-4. -/
def exShape : RawShape :=
  ⟨.valid 0, 0, [some ⟨strBytes "2-4", 7⟩], [some ⟨3, 1, -1⟩], [some ⟨5, 1⟩]⟩

def exActs : List Action :=
  [bwAct 2 7, ⟨3, -1, .halt 1, 0⟩, bwAct 4 defaultBw, ⟨5, 1, .close, 1⟩]

example : (parseShape 0 (some exShape)).toOption.map (fun p => p.2.actions) = some exActs := by decide

def exCtx : Ctx := { shaping := true, regex := some 0, off := 0, headerLen := 2, next := some (0, 2) }

example : CtxOK exCtx exActs := by
  refine ⟨?_, ?_⟩
  · unfold SortedBy exActs; decide
  · intro i nb h; cases h; exact ⟨by decide, by decide, by decide⟩

/-- The hypotheses of `close_at_k` are satisfiable: head `[1,2]`, body of 8 bytes, close at 5. -/
example : (shapedWrite true (fun _ => 0) exCtx exActs [1, 2, 10, 11, 12, 13, 14, 15, 16, 17]).status = .closed ∧
    (shapedWrite true (fun _ => 0) exCtx exActs [1, 2, 10, 11, 12, 13, 14, 15, 16, 17]).delivered = [1, 2, 10, 11, 12, 13, 14] ∧
    (shapedWrite true (fun _ => 0) exCtx exActs [1, 2, 10, 11, 12, 13, 14, 15, 16, 17]).evs =
      [.setCap 7 2, .sleep 1 3, .setCap defaultBw 4, .forceClose 5] := by decide

/-- `no_close_delivers_all` is not vacuous: a shorter body passes uncut. -/
example : (shapedWrite true (fun _ => 3) exCtx exActs [1, 2, 10, 11, 12]).status = .ok := by decide

/-- Overlapping throttles are rejected, adjacent ones accepted (concrete instances). -/
example : (parseShape 0 (some ⟨.valid 0, 0, [some ⟨strBytes "5-10", 1⟩, some ⟨strBytes "0-6", 1⟩], [], []⟩)).toOption = none := by decide
example : (parseShape 0 (some ⟨.valid 0, 0, [some ⟨strBytes "5-10", 1⟩, some ⟨strBytes "0-5", 1⟩], [], []⟩)).toOption.isSome = true := by decide

end Martian.Props.C18
