/-! STUB — property C18 is not built yet. -/
