import Martian.Skel
import Martian.Generated.Range
/-!
C20 — structural facts of `body/body_modifier.go` and `static/static_file_modifier.go`
(regenerated from the source on every check) that `Model/Range.lean` transcribes. The model
treats the Range pipeline of the two modifiers as one function of the content size: that the two
loops are the same statement list (with the size spelled `SIZE`) is itself a checked fact.
-/
namespace Martian.Props.C20
open Martian Skel
open Martian.Generated.Range

/-- Both modifiers run the same Range loop. -/
theorem facts_both_modifiers_same_range_loop : rangeLoopBody = rangeLoopStatic := by decide

/-- The loop body is the one `Range.parseOne` transcribes: the open-ended rewrite with `SIZE-1`,
the split on "-" with the 416 for anything but two halves, `Atoi` of the trimmed halves with the
error returned, the 416 rule `start > end || start >= SIZE`, the clamp `end >= SIZE → SIZE - 1`. -/
theorem facts_range_loop_is_parseOne :
    rangeLoopBody =
      ["if strings.HasSuffix(rng, \"-\") {", "call fmt.Sprintf", "set rng = fmt.Sprintf(\"%s%d\", rng, SIZE-1)", "}",
       "call strings.Split", "set rs = strings.Split(rng, \"-\")",
       "if len(rs) != 2 {", "set res.StatusCode = http.StatusRequestedRangeNotSatisfiable", "return nil", "}",
       "call strconv.Atoi", "call strings.TrimSpace", "set start = strconv.Atoi(strings.TrimSpace(rs[0]))",
       "if err != nil {", "return err", "}",
       "call strconv.Atoi", "call strings.TrimSpace", "set end = strconv.Atoi(strings.TrimSpace(rs[1]))",
       "if err != nil {", "return err", "}",
       "if start > end || start >= SIZE {", "set res.StatusCode = http.StatusRequestedRangeNotSatisfiable", "return nil", "}",
       "if end >= SIZE {", "set end = SIZE - 1", "}",
       "set ranges = append(ranges, []int{start, end})"] := by decide

/-- The header is lower-cased, left-trimmed with the cutset "bytes=" and split on "," (both). -/
theorem facts_range_header_split :
    hasBlock ["set rh = strings.ToLower(rh)", "call strings.Split", "call strings.TrimLeft",
              "set sranges = strings.Split(strings.TrimLeft(rh, \"bytes=\"), \",\")"] preludeBody = true ∧
    hasBlock ["set rh = strings.ToLower(rh)", "call strings.Split", "call strings.TrimLeft",
              "set sranges = strings.Split(strings.TrimLeft(rh, \"bytes=\"), \",\")"] preludeStatic = true := by decide

/-- The single-range branch slices `[start : end+1]` (body) / reads `end - start + 1` bytes at
`start` (static): `Range.goSlice content s (e + 1)`. -/
theorem facts_single_range_slice :
    hasSeq ["set start = ranges[0][0]", "set end = ranges[0][1]", "set seg = m.body[start : end+1]"] singleBody = true ∧
    hasSeq ["set start = ranges[0][0]", "set end = ranges[0][1]", "set length = end - start + 1", "set seg = make([]byte, length)",
            "call f.ReadAt"] singleStatic = true := by decide

/-- Path resolution of the static modifier is `filepath.Join(path.Clean(root), filepath.Clean(URL.Path))`
(`Range.resolve`); an explicit mapping is joined under the same cleaned root. -/
theorem facts_static_path_resolution :
    staticCtor = ["rootPath: path.Clean(rootPath)"] ∧
    hasBlock ["call filepath.Clean", "set reqpth = filepath.Clean(res.Request.URL.Path)", "call filepath.Join",
              "set fpth = filepath.Join(s.rootPath, reqpth)",
              "if _, ok := s.explicitPaths[reqpth]; ok {", "call filepath.Join",
              "set fpth = filepath.Join(s.rootPath, s.explicitPaths[reqpth])", "}"] preludeStatic = true := by decide

end Martian.Props.C20
