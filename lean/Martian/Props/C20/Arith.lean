import Martian.Lemmas.Range
/-!
C20 — the model computes with unbounded integers where the Go code computes with `int` (64 bit).
These theorems justify that: every number the Range pipeline computes from a parsed range lies
inside int64, so no Go operation in it can wrap around (the seeded defects that panic in `make`
or slice with a negative index do so exactly by leaving this envelope).
-/
namespace Martian.Props.C20
open Martian Martian.Go Martian.Range

/-- `strconv.Atoi` never yields a value outside int64. -/
theorem atoi_within_int64 {s : Bytes} {v : Int} (h : atoi s = some v) : minInt64 ≤ v ∧ v ≤ maxInt64 := by
  unfold atoi at h
  split at h
  · simp at h
  · rename_i c r
    split at h
    · cases hu : atoiUnsigned r with
      | none => simp [hu] at h
      | some n =>
        simp only [hu, Option.bind_some] at h
        split at h
        · simp only [Option.some.injEq] at h; subst h
          exact ⟨by unfold minInt64; omega, by assumption⟩
        · simp at h
    · split at h
      · cases hu : atoiUnsigned r with
        | none => simp [hu] at h
        | some n =>
          simp only [hu, Option.bind_some] at h
          split at h
          · simp only [Option.some.injEq] at h; subst h
            refine ⟨by omega, by unfold maxInt64; omega⟩
          · simp at h
      · cases hu : atoiUnsigned (c :: r) with
        | none => simp [hu] at h
        | some n =>
          simp only [hu, Option.bind_some] at h
          split at h
          · simp only [Option.some.injEq] at h; subst h
            exact ⟨by unfold minInt64; omega, by assumption⟩
          · simp at h

/-- For every accepted range of a content that fits in memory, each intermediate of the Go code —
`start`, `end`, `end+1` (slice bound), `end-start+1` (buffer length of the static modifier),
`size-1` (clamp / open-ended rewrite) — is a non-negative int64: the arithmetic is exact. -/
theorem accepted_range_arithmetic_is_exact {size : Nat} {rng : Bytes} {s e : Int}
    (hsz : (size : Int) ≤ maxInt64) (h : parseOne size rng = .ok s e) :
    0 ≤ s ∧ s ≤ maxInt64 ∧ 0 ≤ e ∧ e + 1 ≤ maxInt64 ∧ 0 < e - s + 1 ∧ e - s + 1 ≤ (size : Int) ∧
      0 ≤ (size : Int) - 1 := by
  have hb := parseOne_ok h
  obtain ⟨h0, h1, h2⟩ := hb
  refine ⟨h0, by omega, by omega, by omega, by omega, by omega, by omega⟩

/-- Non-vacuity: `5-20` on ten bytes is accepted (clamped to 5..9). -/
example : parseOne 10 (strBytes "5-20") = .ok 5 9 ∧ ((10 : Nat) : Int) ≤ maxInt64 := by decide

end Martian.Props.C20
