import Martian.Lemmas.Shutdown
import Martian.Generated.Shutdown
import Martian.Props.C07.Faults
import Martian.Props.C07.Tunnels
import Martian.Props.C07.Upload
import Martian.Props.C07.History
/-!
C07 — Shutdown completes in-flight exchanges, refuses new ones and closes everything.

All theorems are about `Martian.Shutdown.step` (Model/Shutdown.lean), the interleaving model of
`Serve` / `handleLoop` / `handle` / `readRequest` / `Close` of `/repo/proxy.go`, and quantify over
ALL schedules (`Reachable s := ∃ sched, run init sched = some s`; a schedule is any list of labels,
so any number of connections, any placement of `Close`, any release order of parked exchanges).

Reading of the statement (DESIGN §7): "marked connection-close" = marked whenever shutdown was
observable at the close decision; a response decided earlier is complete and followed by the close.

Round 3: the model also covers CONNECT (blind tunnels, MITM, HTTP/2 sessions), hijacking modifiers,
response-write failures and further callers of `Close` — see `Props/C07/Tunnels.lean` and
`Props/C07/Faults.lean`. An exchange whose modifier hijacked the connection, or whose response write
failed because the CLIENT went away (environment label `writeErr`), gets no complete response from the
proxy; both are counted separately (`hijacked`, `aborted`) and are 0 on every schedule without those two
labels (`Faults.no_fault_labels_no_faults`).

Finding F07 (open): `conns.Add(1)` runs inside the spawned goroutine, so the clause "shutdown returns
only after every accepted connection has been closed" is FALSE for the faithful model
(`close_returns_after_all_handlers_done_counterexample`); what holds is the same for all *counted*
connections (`close_returns_after_all_counted_handlers_done`) and the full clause under the hypothesis
that no accepted connection is still uncounted when `Close` returns (`…_partial`).
-/
namespace Martian.Props.C07
open Martian.Shutdown

/-! ### tie: the skeleton of proxy.go the model transcribes (regenerated from /repo on every check) -/

/-- `conns.Add` is called in `handleLoop` only (inside the spawned goroutine — F07); `Close` signals
first and then waits under `connsMu`; `handleLoop` counts itself, defers `conns.Done` then
`conn.Close` (so the connection is closed BEFORE the handler is un-counted) and checks `Closing()`
before its serving loop; `readRequest` selects on the closing signal; `Serve` checks `Closing()` at
the loop top, before `Accept`, and spawns the handler with a `go` statement afterwards. -/
theorem facts_shutdown_skeleton :
    Generated.Shutdown.addSites = ["handleLoop"] ∧
    Generated.Shutdown.closeCalls = ["close", "p.connsMu.Lock", "p.conns.Wait", "p.connsMu.Unlock"] ∧
    Generated.Shutdown.handleLoopPrologue = ["p.connsMu.Lock", "p.conns.Add", "p.connsMu.Unlock", "p.Closing"] ∧
    Generated.Shutdown.handleLoopDefers = ["p.conns.Done", "conn.Close"] ∧
    Generated.Shutdown.readRequestSelectArms = ["<-errc", "<-reqc", "<-p.closing"] ∧
    Generated.Shutdown.serveSkeleton = ["p.Closing", "l.Accept", "go p.handleLoop"] := by
  decide

/-- What the round-3 part of the model relies on, regenerated from `/repo` on every check:
* the only kind of deadline the proxy ever puts on a connection is `SetDeadline` (the per-iteration idle
  deadline `p.timeout` of `handleLoop` and of the MITM loop, configured by the application), and `handle`
  sets none between the close decision and the response write — so the model has no move of the proxy
  that abandons a write (`response_write_ends_only_complete`; `writeErr` is the environment's);
* the only socket options the proxy sets are the keep-alive ones on accepted connections: nothing (linger)
  changes what the handler's `conn.Close()` does to response bytes still in flight, so `closeConn` after
  `writeEnd` leaves the completely written response deliverable;
* the shutdown signal is consulted exactly three times through `Closing()` (`Serve`, `handleLoop`, the close
  decision), received from twice (`Closing` itself, `readRequest`), closed once (`Close`) and handed on
  once, to the HTTP/2 session (`h2Stop` depends on `closing`; `tunnel`, `mitmPeek`, `mitmHandshake` have no
  move that does);
* `Close` contains no `go` statement, no `select` and no timer: it waits for the wait group itself and
  unconditionally (`close_never_gives_up`);
* `handle`: request modifier, hijack check, round trip, response modifier, hijack check, close decision,
  write, flush — in this order; `handleLoop` leaves after `handle` on a closeable error or a hijacked session. -/
theorem facts_shutdown_round3 :
    Generated.Shutdown.deadlineKinds = ["SetDeadline"] ∧
    Generated.Shutdown.sockoptKinds = ["SetKeepAlive", "SetKeepAlivePeriod"] ∧
    Generated.Shutdown.closingUses = ["Closing", "Closing", "Closing", "arg:Proxy", "close", "recv", "recv"] ∧
    Generated.Shutdown.handleOrder =
      ["readRequest", "handleConnectRequest", "ModifyRequest", "Hijacked", "roundTrip", "ModifyResponse",
       "Hijacked", "Closing", "Write", "Flush"] ∧
    Generated.Shutdown.handleLoopBody = ["handle", "isCloseable", "Hijacked"] ∧
    Generated.Shutdown.closeShape = [] := by
  decide

/-! ### every started exchange is completed before its connection is closed -/

/-- In every reachable state every handler has completed all the exchanges it started, except
possibly the one it is in the middle of. -/
theorem exchange_accounting {s : Sys} (hr : Reachable s) :
    ∀ h ∈ s.hs, h.started = h.completed + h.hijacked + h.aborted + (if h.pc.inExchange then 1 else 0) ∧
      h.marks.length + h.cresps = h.completed :=
  fun h hm => ⟨((reachable_good hr).hok h hm).exch, ((reachable_good hr).hok h hm).mlen⟩

/-- Safety form of "receives its complete response before its connection is closed": whenever the
handler of connection `k` closes the connection, every exchange whose request modifier had started
has had its response written completely — except those a modifier hijacked and those whose write
failed because the client went away. -/
theorem started_exchange_completes {s s' : Sys} {k : Nat} {h : Handler} (hr : Reachable s)
    (hk : s.hs[k]? = some h) (hs : step s (.h k .closeConn) = some s') :
    h.completed + h.hijacked + h.aborted = h.started ∧ h.pc.inExchange = false := by
  have ok := (reachable_good hr).hok h (List.mem_of_getElem? hk)
  simp only [step, hk] at hs
  have hpc : h.pc = .closingConn := by
    cases hp : h.pc <;> simp [hstep, hp] at hs
    rfl
  have := ok.exch
  simp [hpc, Pc.inExchange] at this ⊢
  omega

/-- Once the handler is on its way out (closing, closed, done) nothing it started is unfinished. -/
theorem closed_connection_has_no_unfinished_exchange {s : Sys} (hr : Reachable s) :
    ∀ h ∈ s.hs, h.pc.winding = true → h.completed + h.hijacked + h.aborted = h.started := by
  intro h hm hw
  have := ((reachable_good hr).hok h hm).exch
  cases hp : h.pc <;> simp_all [Pc.winding, Pc.inExchange]

/-! ### marked connection-close iff shutdown was observable at the close decision -/

/-- Every completed response is marked `Connection: close` exactly when the request or the
response asked for it or shutdown was observable (`Closing()` true) at the close decision; in
particular every response decided while shutdown was observable is marked. -/
theorem marked_close_iff_closing_observable_at_decision {s : Sys} (hr : Reachable s) :
    ∀ h ∈ s.hs, ∀ m ∈ h.marks, m.2.2 = (m.2.1 || m.1) :=
  fun h hm => ((reachable_good hr).hok h hm).mark

/-- The pending decision of an exchange obeys the same rule, and `obsAtDecision` is only ever true
if shutdown has really been signalled. -/
theorem pending_decision_rule {s : Sys} (hr : Reachable s) :
    ∀ h ∈ s.hs, (∀ b, (h.pc = .decided b ∨ h.pc = .writing b) → b = (h.reqClose || h.resClose || h.obsAtDecision)) ∧
      (h.obsAtDecision = true → s.closing = true) :=
  fun h hm => ⟨((reachable_good hr).hok h hm).dec, ((reachable_good hr).hok h hm).obs⟩

/-- A response marked close is the last one on its connection: the handler is closing the
connection and never reads another request. -/
theorem marked_response_is_followed_by_close {s : Sys} (hr : Reachable s) :
    ∀ h ∈ s.hs, (anyMarked h.marks = true → h.pc.winding = true) ∧ h.servedAfterMark = false :=
  fun h hm => ⟨((reachable_good hr).hok h hm).afterMark, ((reachable_good hr).hok h hm).sam⟩

/-- Placement form, for shutdown requested inside the request modifier, during the round trip or
inside the response modifier (any point of a started non-CONNECT exchange before its close decision):
if shutdown is observable in `s` while connection `k` is at such a point, then on EVERY continuation
(any schedule) in which a further response gets recorded on that connection, the first such response
— this exchange's — is marked `Connection: close`; by `marked_response_is_followed_by_close` the
connection is then closed. -/
theorem shutdown_before_decision_marks_response {s s' : Sys} {k : Nat} {h h' : Handler} {sched : List Label}
    (hc : s.closing = true) (hk : s.hs[k]? = some h) (hp : h.pc.beforeDecision = true) (hcn : h.conn = .no)
    (hrun : run s sched = some s') (hk' : s'.hs[k]? = some h') (hdone : h.marks.length < h'.marks.length) :
    ∃ o a, h'.marks[h.marks.length]? = some (o, a, true) := by
  obtain ⟨h2, hk2, ht⟩ := run_track hc hk (Or.inl ⟨rfl, hcn, Or.inl hp⟩) hrun
  rw [hk'] at hk2; cases hk2
  rcases ht with ⟨h1, _⟩ | ⟨_, h3⟩ | ⟨h1, _⟩
  · omega
  · exact h3
  · omega

/-- The same without assuming that a response gets recorded: on every continuation the tracked exchange
is still in flight and bound to be marked, or its response is recorded and marked, or it was dropped —
hijacked by a modifier or its write failed because the client went away — and the handler is closing
the connection without ever recording another response. -/
theorem shutdown_before_decision_outcomes {s s' : Sys} {k : Nat} {h h' : Handler} {sched : List Label}
    (hc : s.closing = true) (hk : s.hs[k]? = some h) (hp : h.pc.beforeDecision = true) (hcn : h.conn = .no)
    (hrun : run s sched = some s') (hk' : s'.hs[k]? = some h') :
    (h'.marks.length = h.marks.length ∧
      (h'.pc.beforeDecision = true ∨ h'.pc = .decided true ∨ h'.pc = .writing true)) ∨
    (∃ o a, h'.marks[h.marks.length]? = some (o, a, true)) ∨
    (h'.marks.length = h.marks.length ∧ h'.pc.winding = true) := by
  obtain ⟨h2, hk2, ht⟩ := run_track hc hk (Or.inl ⟨rfl, hcn, Or.inl hp⟩) hrun
  rw [hk'] at hk2; cases hk2
  rcases ht with ⟨h1, _, h3⟩ | ⟨_, h3⟩ | h3
  · exact Or.inl ⟨h1, h3⟩
  · exact Or.inr (Or.inl h3)
  · exact Or.inr (Or.inr h3)

/-- Shutdown requested while the connection is idle or in the middle of a request head: the handler
can close the connection at once (`closingSeen` is enabled), without any response. If instead the
`select` of `readRequest` takes a request that has arrived, that exchange is started with shutdown
observable and `shutdown_before_decision_marks_response` applies to it. -/
theorem shutdown_while_reading_closes {s : Sys} {k : Nat} {h : Handler}
    (hc : s.closing = true) (hk : s.hs[k]? = some h) (hp : h.pc.readable = true) :
    ∃ s' h', step s (.h k .closingSeen) = some s' ∧ s'.hs[k]? = some h' ∧ h'.pc = .closingConn ∧
      h'.started = h.started ∧ h'.completed = h.completed := by
  have hlt : k < s.hs.length := by
    rcases List.getElem?_eq_some_iff.mp hk with ⟨hlt, _⟩; exact hlt
  have hh : hstep s.closing s.cpc.holdsMu (decide (s.cpc = .returned)) h .closingSeen =
      some { h with pc := .closingConn } := by
    simp [hstep, hp, hc]
  refine ⟨{ s with hs := s.hs.set k { h with pc := .closingConn }, wg := HL.wgAfter s.wg .closingSeen },
    { h with pc := .closingConn }, ?_, ?_, rfl, rfl, rfl⟩
  · simp only [step, hk]
    rw [hh]
    simp
  · show (s.hs.set k _)[k]? = _
    simp [List.getElem?_set, hlt]

/-! ### no request modifier starts after `Close` has returned (holds at full strength, F07 notwithstanding) -/

theorem no_reqmod_after_close_returns {s : Sys} (hr : Reachable s) :
    ∀ h ∈ s.hs, h.startedAfterReturn = false :=
  fun h hm => ((reachable_good hr).hok h hm).sar

/-- Enabledness form: once `Close` has returned, `reqmodStart` is disabled for every connection —
also for connections that were not yet counted when it returned, and for later accepts. -/
theorem reqmod_disabled_after_close_returns {s : Sys} (hr : Reachable s) (hc : s.cpc = .returned) (k : Nat) :
    step s (.h k .reqmodStart) = none := by
  simp only [step]
  cases hk : s.hs[k]? with
  | none => rfl
  | some h =>
    have := ((reachable_good hr).hok h (List.mem_of_getElem? hk)).ret hc
    have hne : h.pc ≠ .haveReq := by intro e; simp [e, Pc.afterClosing] at this
    simp [hstep, hne]

/-! ### `Close` returns only after every COUNTED handler is done (what holds given F07) -/

theorem close_returns_after_all_counted_handlers_done {s s' : Sys} (hr : Reachable s)
    (hs : step s .ret = some s') :
    ∀ h ∈ s'.hs, h.pc = .done ∨ h.pc = .accepted ∨ h.pc = .spawned := by
  simp only [step] at hs
  split at hs <;> cases hs
  rename_i hc
  intro h hm
  have := ((reachable_good hr).hok h hm).zero hc
  cases hp : h.pc <;> simp_all [Pc.counted]

/-- After `Close` has returned no handler is ever again inside the serving loop. -/
theorem after_close_returned_nobody_serves {s : Sys} (hr : Reachable s) (hc : s.cpc = .returned) :
    ∀ h ∈ s.hs, h.pc.afterClosing = true :=
  fun h hm => ((reachable_good hr).hok h hm).ret hc

/-- The schedule of finding F07. -/
def f07Schedule : List Label :=
  [.serveCheck, .accept, .h 0 .spawn, .closeCall, .closeChan, .lock, .waitZero, .ret]

/-- F07 (test on a concrete witness, `decide`): at full strength the clause "shutdown returns only
after every accepted connection has been closed and its handler has finished" is false for the
model of the code as it is: after `accept; spawn; closeChan; lock; waitZero; ret` the accepted
connection 0 is neither closed nor counted, and it is closed only afterwards. -/
theorem close_returns_after_all_handlers_done_counterexample :
    ∃ s, run init f07Schedule = some s ∧ s.cpc = .returned ∧ s.returnedEarly = true ∧
      (∃ h, s.hs[0]? = some h ∧ h.pc = .spawned) ∧
      ∃ s', run s [.h 0 .add, .h 0 .checkClosing, .h 0 .closeConn, .h 0 .finish] = some s' ∧
        ∃ h', s'.hs[0]? = some h' ∧ h'.pc = .done := by
  decide

/-- The clause at full strength, under the hypothesis that excludes exactly F07: no accepted
connection is still waiting for its `conns.Add(1)` when `Close` returns. -/
theorem close_returns_after_all_handlers_done_partial {s s' : Sys} (hr : Reachable s)
    (hs : step s .ret = some s')
    (hcounted : ∀ h ∈ s.hs, h.pc ≠ .accepted ∧ h.pc ≠ .spawned) :
    (∀ h ∈ s'.hs, h.pc = .done) ∧ s'.returnedEarly = false := by
  have hall := close_returns_after_all_counted_handlers_done hr hs
  simp only [step] at hs
  split at hs <;> cases hs
  have hd : ∀ h ∈ s.hs, h.pc = .done := by
    intro h hm
    rcases hall h hm with h1 | h1 | h1
    · exact h1
    · exact absurd h1 (hcounted h hm).1
    · exact absurd h1 (hcounted h hm).2
  refine ⟨hd, ?_⟩
  show (s.hs.any fun h => h.pc != .done) = false
  simp only [List.any_eq_false]
  intro h hm
  simp [hd h hm]

/-! ### connections accepted after shutdown began are closed without being served -/

theorem late_accepts_not_served {s : Sys} (hr : Reachable s) :
    ∀ h ∈ s.hs, h.late = true →
      h.entered = false ∧ h.started = 0 ∧ h.completed = 0 ∧ h.pc.afterClosing = true := by
  intro h hm hl
  have ok := (reachable_good hr).hok h hm
  have he := (ok.late hl).2
  have := ok.ent he
  have hx := ok.exch
  refine ⟨he, this.2, ?_, this.1⟩
  omega

/-! ### concurrent accept and shutdown never deadlock -/

/-- Progress: in every reachable state in which `Close` has been called and shutdown is not yet
complete (`Close` returned and every accepted connection's handler done), some move is enabled that is
either a move of the proxy itself — no client has to do anything, parked gates are assumed to be released
(`reqmodEnd`/`rtEnd`/`resmodEnd`/`writeEnd`/`dialEnd` count as moves) — or, and only if some handler is
waiting for a peer (open blind tunnel, first byte / TLS handshake of a MITM'd tunnel), the move of that
peer that ends the wait. This holds with any number of connections accepted before, during and after
the call. -/
theorem no_deadlock {s : Sys} (hr : Reachable s) (hc : s.cpc ≠ .idle) (hnf : ¬ Final s) :
    ∃ l, (step s l).isSome = true ∧
      (l.internal = true ∨ (l.peerMove = true ∧ ∃ h ∈ s.hs, h.pc.peerBlocked = true)) :=
  progress_gen hr hc hnf

/-- … in particular, when no handler is waiting for a tunnel peer, a move of the proxy itself is enabled. -/
theorem no_deadlock_without_open_tunnels {s : Sys} (hr : Reachable s) (hc : s.cpc ≠ .idle) (hnf : ¬ Final s)
    (hnb : ∀ h ∈ s.hs, h.pc.peerBlocked = false) :
    ∃ l, l.internal = true ∧ (step s l).isSome = true :=
  progress_internal hr hc hnf hnb

/-- Every move of the proxy itself strictly decreases `measure`: there is no infinite run without
client moves (no livelock), from ANY state. -/
theorem proxy_moves_terminate {s s' : Sys} {l : Label} (hs : step s l = some s') (hi : l.internal = true) :
    measure s' < measure s :=
  internal_step_decreases hs hi

/-- The same for the peer moves that end an open tunnel or a pending MITM handshake. -/
theorem drain_moves_terminate {s s' : Sys} {l : Label} (hs : step s l = some s') (hi : l.drain = true) :
    measure s' < measure s :=
  drain_step_decreases hs hi

/-- Together: from every reachable state after `Close` was called, drain moves (moves of the proxy,
plus the moves of tunnel peers that end an open tunnel / a pending MITM handshake) reach — within
`measure s` steps — a state in which `Close` has returned and every accepted connection is closed
and its handler finished; and since every drain move decreases the measure, every maximal run of
drain moves ends there (`no_deadlock` says it cannot stop earlier). -/
theorem shutdown_completes {s : Sys} (hr : Reachable s) (hc : s.cpc ≠ .idle) :
    ∃ sched s', (∀ l ∈ sched, l.drain = true) ∧ sched.length ≤ measure s ∧
      run s sched = some s' ∧ Final s' := by
  generalize hn : measure s = n
  induction n using Nat.strongRecOn generalizing s with
  | _ n ih =>
    by_cases hf : Final s
    · exact ⟨[], s, by simp, by simp, rfl, hf⟩
    · obtain ⟨l, hi, hen⟩ := progress hr hc hf
      cases hs : step s l with
      | none => rw [hs] at hen; simp at hen
      | some s1 =>
        have hlt := drain_step_decreases hs hi
        obtain ⟨sched, s', h1, h2, h3, h4⟩ :=
          ih (measure s1) (by omega) (reachable_step hr hs) (step_cpc_ne_idle hs hc) rfl
        refine ⟨l :: sched, s', ?_, ?_, ?_, h4⟩
        · intro x hx
          rcases List.mem_cons.mp hx with e | e
          · subst e; exact hi
          · exact h1 x e
        · simp only [List.length_cons]; omega
        · simp [run, hs, h3]

/-- The statement of the previous rounds on its domain: if no connection has a tunnel open, is about to
open one or is inside a CONNECT exchange (`AllPlain`), moves of the PROXY ALONE complete the shutdown. -/
theorem shutdown_completes_by_proxy_moves_alone {s : Sys} (hr : Reachable s) (hc : s.cpc ≠ .idle)
    (hp : AllPlain s) :
    ∃ sched s', (∀ l ∈ sched, l.internal = true) ∧ sched.length ≤ measure s ∧
      run s sched = some s' ∧ Final s' := by
  generalize hn : measure s = n
  induction n using Nat.strongRecOn generalizing s with
  | _ n ih =>
    by_cases hf : Final s
    · exact ⟨[], s, by simp, by simp, rfl, hf⟩
    · obtain ⟨l, hi, hen⟩ := progress_internal hr hc hf (fun h hm => plain_not_blocked (hp h hm))
      cases hs : step s l with
      | none => rw [hs] at hen; simp at hen
      | some s1 =>
        have hlt := internal_step_decreases hs hi
        have hp1 : AllPlain s1 := step_allPlain hp (by intro k e; subst e; simp [Label.internal] at hi)
          (by intro k rc e; subst e; simp [Label.internal] at hi) hs
        obtain ⟨sched, s', h1, h2, h3, h4⟩ :=
          ih (measure s1) (by omega) (reachable_step hr hs) (step_cpc_ne_idle hs hc) hp1 rfl
        refine ⟨l :: sched, s', ?_, ?_, ?_, h4⟩
        · intro x hx
          rcases List.mem_cons.mp hx with e | e
          · subst e; exact hi
          · exact h1 x e
        · simp only [List.length_cons]; omega
        · simp [run, hs, h3]

/-! ### the upstream phase is insensitive to shutdown

The model has no step that abandons a round trip or a response write: trace validation therefore
rejects any run of the real proxy in which the round trip of a started exchange ends without the
origin's response (event `rtx`, e.g. because the request's context was cancelled at shutdown). -/

/-- While an exchange is in the upstream round trip, the only moves of its handler are the return of the
round trip — with the origin's response (`rtEnd rc`) or with an ERROR (`rtFail`: dial refused, reset,
truncated head, timeout; `handle` then builds a 502). In BOTH outcomes the handler goes on to the response
modifier with the exchange still in flight, and neither the move nor its result depends on `closing`, on
`connsMu` or on whether `Close` has returned: shutdown does not turn a failed round trip into a dropped
exchange. -/
theorem round_trip_ends_only_with_origin_response {c m r : Bool} {h h' : Handler} {l : HL}
    (hp : h.pc = .inRoundTrip) (hs : hstep c m r h l = some h') :
    ((∃ rc, l = .rtEnd rc ∧ h' = { h with pc := .postRoundTrip, resClose := rc }) ∨
     (l = .rtFail ∧ h' = { h with pc := .postRoundTrip, resClose := false, rtFailed := h.rtFailed + 1 })) ∧
    h'.pc = .postRoundTrip ∧ h'.started = h.started ∧ h'.completed = h.completed ∧ h'.pc.inExchange = true ∧
      ∀ c' m' r', hstep c' m' r' h l = some h' := by
  cases l <;> simp [hstep, hp, Pc.readable] at hs
  case rtEnd rc => subst hs; exact ⟨Or.inl ⟨rc, rfl, rfl⟩, rfl, rfl, rfl, rfl, fun _ _ _ => by simp [hstep, hp]⟩
  case rtFail => subst hs; exact ⟨Or.inr ⟨rfl, rfl⟩, rfl, rfl, rfl, rfl, fun _ _ _ => by simp [hstep, hp]⟩

/-- A failed round trip is answered: on EVERY schedule — with any number of `rtFail` labels, any placement
of `Close` — without the two fault labels of the client side (`writeErr`, `hijack`), every exchange whose
request modifier has started is still in flight or has had its response (the origin's, or the 502)
completely written, and a handler that closes its connection has completed everything it started. In
particular an exchange whose round trip failed after shutdown began is not dropped. -/
theorem failed_round_trip_is_answered {sched : List Label} {s : Sys} (hr : run init sched = some s)
    (hl : ∀ l ∈ sched, l.isFault = false) :
    ∀ h ∈ s.hs, h.started = h.completed + (if h.pc.inExchange then 1 else 0) ∧
      (h.pc.winding = true → h.completed = h.started) ∧ (Label.h 0 .rtFail).isFault = false :=
  fun h hm => ⟨(started_exchange_completes_without_faults hr hl h hm).1,
    (started_exchange_completes_without_faults hr hl h hm).2, rfl⟩

/-- Test on a concrete schedule: shutdown while the exchange is parked in the round trip, the round trip
then fails — the 502 is complete, marked `Connection: close`, the connection is closed, `Close` returns. -/
theorem failed_round_trip_during_shutdown_witness :
    ∃ s, run init
      [.serveCheck, .accept, .h 0 .spawn, .h 0 .add, .h 0 .checkClosing, .h 0 (.gotReq false), .h 0 .reqmodStart,
       .h 0 .reqmodEnd, .h 0 .rtStart, .closeCall, .closeChan, .lock,
       .h 0 .rtFail, .h 0 .resmodStart, .h 0 .resmodEnd, .h 0 .decide, .h 0 .writeStart, .h 0 .writeEnd,
       .h 0 .closeConn, .h 0 .finish, .waitZero, .ret] = some s ∧
      Final s ∧ s.returnedEarly = false ∧
      ∃ h, s.hs[0]? = some h ∧ h.marks = [(true, false, true)] ∧ h.started = 1 ∧ h.completed = 1 ∧ h.rtFailed = 1 := by
  refine ⟨_, rfl, ⟨rfl, ?_⟩, rfl, _, rfl, rfl, rfl, rfl, rfl⟩
  decide

/-- While a response is being written, the only move of the PROXY is the completion of the write (the
response is counted as completely written), whatever the shutdown state; the only other way out is the
environment label `writeErr` (the client went away, or stalled beyond the idle timeout the application
configured). In particular the proxy has no move — no deadline of its own, no reaction to `closing` —
that abandons a response it is writing. -/
theorem response_write_ends_only_complete {c m r b : Bool} {h h' : Handler} {l : HL}
    (hp : h.pc = .writing b) (hs : hstep c m r h l = some h') :
    ((l = .writeEnd ∧ h'.completed = h.completed + 1 ∧ h'.started = h.started) ∨
     (l = .writeErr ∧ (Label.h 0 l).internal = false ∧ h'.aborted = h.aborted + 1 ∧ h'.pc = .closingConn)) ∧
      ∀ c' m' r', hstep c' m' r' h l = some h' := by
  cases l <;> simp [hstep, hp, Pc.readable] at hs
  case writeEnd => subst hs; exact ⟨Or.inl ⟨rfl, rfl, rfl⟩, fun _ _ _ => by simp [hstep, hp]⟩
  case writeErr => subst hs; exact ⟨Or.inr ⟨rfl, rfl, rfl, rfl⟩, fun _ _ _ => by simp [hstep, hp]⟩

/-- In every state (shutdown requested or not) the return of a pending round trip is enabled and
changes nothing but that handler's position. -/
theorem round_trip_return_enabled_during_shutdown {s : Sys} {k : Nat} {h : Handler}
    (hk : s.hs[k]? = some h) (hp : h.pc = .inRoundTrip) (rc : Bool) :
    ∃ s', step s (.h k (.rtEnd rc)) = some s' ∧ s'.closing = s.closing ∧ s'.wg = s.wg ∧
      s'.cpc = s.cpc ∧ s'.hs = s.hs.set k { h with pc := .postRoundTrip, resClose := rc } := by
  simp [step, hk, hstep, hp, HL.wgAfter]

/-! ### the proxy's configured timeout (`SetTimeout`) during shutdown

`p.timeout` appears in the code only as the deadline `handleLoop` (and the MITM loop) arm on the CLIENT
connection before reading a request. In the model it can therefore act only where the handler reads from or
writes to the client: as `readErr` (reading), `writeErr` (writing — an exchange that outlasts the timeout
finds the deadline expired when it writes its response), `peeked`/`handshakeEnd` (MITM). -/

/-- While an exchange is parked in (or between) the request modifier, the round trip / dial and the response
modifier, up to the close decision, every move of its handler is a move of the proxy itself (a gate being
released), enabled whatever the shutdown state: no step there stands for a timeout — the handler's progress
does not depend on `p.timeout` while it is parked in a modifier or the round tripper. -/
theorem idle_timeout_acts_only_on_client_io {c m r : Bool} {h h' : Handler} {l : HL}
    (hp : h.pc.beforeDecision = true ∨ h.pc = .dialing) (hs : hstep c m r h l = some h') :
    (Label.h 0 l).internal = true ∧ ∀ c' m' r', (hstep c' m' r' h l).isSome = true := by
  rcases hp with hp | hp
  · cases hpc : h.pc <;> simp [hpc, Pc.beforeDecision] at hp <;>
      cases l <;> simp [hstep, hpc, Pc.readable] at hs <;>
      exact ⟨rfl, fun _ _ _ => by simp_all [hstep, hpc]⟩
  · cases l <;> simp [hstep, hp, Pc.readable] at hs
    exact ⟨rfl, fun _ _ _ => by simp [hstep, hp]⟩

/-- `Close` never gives up: once it holds `connsMu` the only step that moves it on is `waitZero`, enabled
only when the wait-group counter is 0 — there is no step by which it returns on a timer. With
`close_waits_for_every_counted_handler`: however long an exchange stays parked, `Close` stays pending. -/
theorem close_never_gives_up {s s' : Sys} {l : Label} (hc : s.cpc = .locked) (hs : step s l = some s')
    (hne : s'.cpc ≠ s.cpc) : l = .waitZero ∧ s.wg = 0 ∧ s'.cpc = .zeroSeen := by
  cases l <;> simp only [step] at hs
  case h k l =>
    split at hs
    · cases hs
    · split at hs
      · cases hs
      · split at hs <;> cases hs
        exact absurd rfl hne
  case closeCall2 => cases hs; exact absurd rfl hne
  case waitZero =>
    split at hs <;> cases hs
    rename_i h1
    exact ⟨rfl, h1.2, rfl⟩
  all_goals (split at hs <;> cases hs)
  all_goals first | (exact absurd rfl hne) | (simp_all)

/-! ### non-vacuity: the hypotheses above are satisfiable, the parked states are reachable -/

/-- A run in which `Close` is called while connection 0 is parked inside its request modifier and
connection 1 is idle; both end closed, the in-flight response is complete and marked, `Close` returns
after both handlers are done (test on a concrete schedule). -/
example : ∃ s, run init
    [.serveCheck, .accept, .h 0 .spawn, .serveCheck, .accept, .h 1 .spawn, .serveCheck,
     .h 0 .add, .h 0 .checkClosing, .h 1 .add, .h 1 .checkClosing,
     .h 0 (.gotReq false), .h 0 .reqmodStart,
     .closeCall, .closeChan, .lock,
     .h 1 .closingSeen, .h 1 .closeConn, .h 1 .finish,
     .h 0 .reqmodEnd, .h 0 .rtStart, .h 0 (.rtEnd false), .h 0 .resmodStart, .h 0 .resmodEnd, .h 0 .decide,
     .h 0 .writeStart, .h 0 .writeEnd, .h 0 .closeConn, .h 0 .finish,
     .waitZero, .ret] = some s ∧ Final s ∧ s.returnedEarly = false ∧
     (∃ h, s.hs[0]? = some h ∧ h.marks = [(true, false, true)] ∧ h.started = 1 ∧ h.completed = 1) ∧
     (∃ h, s.hs[1]? = some h ∧ h.started = 0) := by
  refine ⟨_, rfl, ⟨rfl, ?_⟩, rfl, ⟨_, rfl, rfl, rfl, rfl⟩, ⟨_, rfl, rfl⟩⟩
  decide

/-- Shutdown that arrives while the response is being written: the response is complete, NOT marked
(the decision was taken before), and the connection is closed right after it. -/
example : ∃ s, run init
    [.serveCheck, .accept, .h 0 .spawn, .h 0 .add, .h 0 .checkClosing, .h 0 (.gotReq false), .h 0 .reqmodStart,
     .h 0 .reqmodEnd, .h 0 .rtStart, .h 0 (.rtEnd false), .h 0 .resmodStart, .h 0 .resmodEnd, .h 0 .decide,
     .h 0 .writeStart, .closeCall, .closeChan, .h 0 .writeEnd, .h 0 .closingSeen, .h 0 .closeConn, .h 0 .finish,
     .lock, .waitZero, .ret] = some s ∧
     (∃ h, s.hs[0]? = some h ∧ h.marks = [(false, false, false)] ∧ h.pc = .done) ∧ s.returnedEarly = false :=
  ⟨_, rfl, ⟨_, rfl, rfl, rfl⟩, rfl⟩

/-- The hypothesis of `close_returns_after_all_handlers_done_partial` is satisfiable, and a late
accept exists: a connection accepted after `closeChan` (Serve was already blocked in `Accept`). -/
example : ∃ s s', run init
    [.serveCheck, .closeCall, .closeChan, .accept, .h 0 .spawn, .serveCheck, .h 0 .add, .h 0 .checkClosing,
     .h 0 .closeConn, .h 0 .finish, .lock, .waitZero] = some s ∧
     (∀ h ∈ s.hs, h.pc ≠ .accepted ∧ h.pc ≠ .spawned) ∧ step s .ret = some s' ∧ s.acc = .stopped ∧
     (∃ h, s.hs[0]? = some h ∧ h.late = true ∧ h.pc = .done) := by
  refine ⟨_, _, rfl, ?_, rfl, rfl, ⟨_, rfl, rfl, rfl⟩⟩
  decide

end Martian.Props.C07
