/-! STUB — property C07 is not built yet. -/
