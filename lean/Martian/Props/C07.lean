import Martian.Lemmas.Shutdown
/-! C07 — placeholder while the harness is brought up (replaced below). -/
namespace Martian.Props.C07
open Martian.Shutdown
theorem reachable_invariant {s : Sys} (h : Reachable s) : Good s := reachable_good h
end Martian.Props.C07
