import Martian.Lemmas.Logging
/-!
C15 — several messages in flight through the same loggers: a message that was logged and is held
(request whose round trip has not started, response of another exchange, the other direction of
the same exchange) is written out exactly as it arrived, whatever is logged in between.
-/
namespace Martian.Props.C15
open Martian Martian.MessageView Martian.Logging

/-- For every number of messages, every sequence of "log message i with logger l" / "write message
i out" events (any interleaving, any loggers and options, messages logged several times or not at
all), every message is written out as it arrived: same fields, same body bytes. The snapshot
allocates a fresh buffer per drained body (`ioutil.ReadAll`). -/
theorem held_messages_are_isolated (ms : List Msg) (evs : List Ev) :
    ∀ p ∈ (run .fresh (World.ofMsgs ms) evs).2, ms[p.1]? = some p.2 := by
  intro p hp
  obtain ⟨s0, h0, e0⟩ := run_fresh (World.ofMsgs ms) evs (World.ofMsgs ms) (valid_ofMsgs ms) (Same.refl _) p hp
  rw [e0, ← deref_ofMsgs ms p.1 s0 h0]

/-- The same for any world whose slots read from existing buffers (messages may already share a
buffer: nothing ever writes into an existing one). -/
theorem held_messages_are_isolated_from (w : World) (hv : Valid w) (evs : List Ev) :
    ∀ p ∈ (run .fresh w evs).2, ∃ s0, w.slots[p.1]? = some s0 ∧ p.2 = deref w.heap s0 :=
  run_fresh w evs w hv (Same.refl _)

/-- The theorem has content: with scratch buffers recycled through a pool (handed back when the
snapshot returns) the events "snapshot A, snapshot B, write A" send A out with B's bytes. -/
def msgA : Msg :=
  { isReq := true, method := strBytes "POST", url := strBytes "/", major := 1, minor := 1, code := 0,
    status := [], host := strBytes "h", te := [], cl := 3, hdr := [], body := some (strBytes "AAA"), trailer := none }
def msgB : Msg := { msgA with body := some (strBytes "BBB") }

theorem pooled_buffers_break_isolation :
    (run .pooled (World.ofMsgs [msgA, msgB])
      [.log 0 (.snapshot noOpts) false, .log 1 (.snapshot noOpts) false, .write 0]).2 = [(0, msgB)] ∧
    (run .fresh (World.ofMsgs [msgA, msgB])
      [.log 0 (.snapshot noOpts) false, .log 1 (.snapshot noOpts) false, .write 0]).2 = [(0, msgA)] := by
  decide

/-- HAR request logging is immune even then (`postData` copies the body once more with a plain
`ReadAll`), HAR response logging and the text logger are not: the model distinguishes them. -/
example :
    (run .pooled (World.ofMsgs [msgA, msgB])
      [.log 0 (.har .all .all) false, .log 1 (.har .all .all) false, .write 0]).2 = [(0, msgA)] ∧
    (run .pooled (World.ofMsgs [msgA, msgB])
      [.log 0 (.text false false) false, .log 1 (.text false false) false, .write 0]).2 = [(0, msgB)] := by
  decide

end Martian.Props.C15
