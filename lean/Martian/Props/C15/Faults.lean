import Martian.Lemmas.Logging
import Martian.Lemmas.MessageView
/-!
C15 — faults while the logger reads the body. The body of a message whose peer went away yields
some bytes and then an error; the proxy forwards the message whatever the logger returns. What the
body still yields afterwards decides what is forwarded: the bytes before the break, and the break
itself (a chunked message without its last-chunk, a Content-Length body that is short).
-/
namespace Martian.Props.C15
open Martian Martian.MessageView Martian.Logging

/-- The full clause: after any logger, the body yields exactly what it would have yielded. FALSE of
the code as it is for the consumed bytes (`snapshotKeepsPrefix = false`: open finding
`c15:body-fault-consumed-prefix-not-forwarded`), true of the repaired snapshot. -/
def LoggingPreservesBodyFaults (keep : Bool) : Prop :=
  ∀ (t : Trusted) (l : Logger) (skip : Bool) (m : Msg) (b : FBody), (logFaultK keep t l skip m b).body = b

theorem logFaultK_drained (keep : Bool) (t : Trusted) (l : Logger) (skip : Bool) (m : Msg) (b : FBody)
    (h : (b.err && !(installs l skip { m with body := some b.data }).isEmpty) = true) :
    logFaultK keep t l skip m b =
      { body := { data := if keep then b.data else [], err := true }, record := none, err := true } := by
  simp only [logFaultK, h, if_true]

theorem logFaultK_passed (keep : Bool) (t : Trusted) (l : Logger) (skip : Bool) (m : Msg) (b : FBody)
    (h : (b.err && !(installs l skip { m with body := some b.data }).isEmpty) = false) :
    logFaultK keep t l skip m b =
      { body := b, record := (logMsgT t l skip { m with body := some b.data }).record,
        err := (logMsgT t l skip { m with body := some b.data }).err } := by
  simp only [logFaultK, h, Bool.false_eq_true, if_false]

/-- The break itself is never masked and never introduced — every logger, option, skip flag,
verdict of the trusted parsers, message, prefix length: a body that fails still fails (the message
is forwarded broken off, never as a complete one), a body that ends cleanly still does. And the
bytes it yields are never other bytes: all of them, or — only when the body fails under a logger
that drains it — none. -/
theorem logging_never_masks_body_faults (t : Trusted) (l : Logger) (skip : Bool) (m : Msg) (b : FBody) :
    (logFault t l skip m b).body.err = b.err ∧
    ((logFault t l skip m b).body.data = b.data ∨
      (b.err = true ∧ installs l skip { m with body := some b.data } ≠ [] ∧
        (logFault t l skip m b).body.data = [])) := by
  unfold logFault
  cases hc : (b.err && !(installs l skip { m with body := some b.data }).isEmpty)
  · rw [logFaultK_passed _ _ _ _ _ _ hc]; exact ⟨rfl, Or.inl rfl⟩
  · rw [logFaultK_drained _ _ _ _ _ _ hc]
    simp only [Bool.and_eq_true, Bool.not_eq_true', List.isEmpty_eq_false_iff] at hc
    exact ⟨hc.1.symm, Or.inr ⟨hc.1, hc.2, by simp [snapshotKeepsPrefix]⟩⟩

/-- The part of the full clause that holds of the code as it is: unless the body fails under a
logger that drains it, it yields exactly what it would have yielded (marbl, every skip-logging
exchange, body capture off, headers-only; and every logger on a body that ends cleanly). -/
theorem logging_preserves_body_faults_partial (t : Trusted) (l : Logger) (skip : Bool) (m : Msg) (b : FBody)
    (h : b.err = false ∨ installs l skip { m with body := some b.data } = []) :
    (logFault t l skip m b).body = b := by
  unfold logFault
  have hc : (b.err && !(installs l skip { m with body := some b.data }).isEmpty) = false := by
    rcases h with h | h <;> simp [h]
  rw [logFaultK_passed _ _ _ _ _ _ hc]

/-- With the repaired snapshot (`repo-patches/C15-fix-snapshot-keeps-read-prefix.patch`) the full
clause holds. -/
theorem logging_preserves_body_faults_if_prefix_kept : LoggingPreservesBodyFaults true := by
  intro t l skip m b
  cases hc : (b.err && !(installs l skip { m with body := some b.data }).isEmpty)
  · rw [logFaultK_passed _ _ _ _ _ _ hc]
  · rw [logFaultK_drained _ _ _ _ _ _ hc]
    simp only [Bool.and_eq_true] at hc
    cases b; simp_all

def brokenUpload : Msg :=
  { isReq := true, method := strBytes "POST", url := strBytes "/", major := 1, minor := 1, code := 0,
    status := [], host := strBytes "h", te := [chunkedTok], cl := -1, hdr := [], body := some [], trailer := none }

/-- The code as it is: a chunked upload that breaks off after `abc`, under a bare snapshot, is
forwarded broken off but without `abc`. -/
theorem logging_preserves_body_faults_counterexample : ¬ LoggingPreservesBodyFaults snapshotKeepsPrefix := by
  intro h
  have := h ⟨true, true, true⟩ (.snapshot noOpts) false brokenUpload ⟨strBytes "abc", true⟩
  revert this; decide

/-- A logger whose read of the body failed returns the error and has recorded nothing. -/
theorem failed_body_read_records_nothing (t : Trusted) (l : Logger) (skip : Bool) (m : Msg) (b : FBody)
    (he : b.err = true) (hd : installs l skip { m with body := some b.data } ≠ []) :
    (logFault t l skip m b).record = none ∧ (logFault t l skip m b).err = true := by
  unfold logFault
  have hc : (b.err && !(installs l skip { m with body := some b.data }).isEmpty) = true := by
    simp [he, hd]
  rw [logFaultK_drained _ _ _ _ _ _ hc]; exact ⟨rfl, rfl⟩

/-- On a body that ends cleanly this is the error-path model `logMsgT`. -/
theorem logFault_clean (t : Trusted) (l : Logger) (skip : Bool) (m : Msg) (d : Bytes) :
    (logFault t l skip m ⟨d, false⟩).record = (logMsgT t l skip { m with body := some d }).record ∧
    (logFault t l skip m ⟨d, false⟩).err = (logMsgT t l skip { m with body := some d }).err := by
  unfold logFault
  rw [logFaultK_passed _ _ _ _ _ _ (by simp)]; exact ⟨rfl, rfl⟩

-- non-vacuity: both branches occur (a draining logger on a failing body; marbl on the same body)
example : (logFault ⟨true, true, true⟩ (.text false false) false brokenUpload ⟨strBytes "abc", true⟩).body = ⟨[], true⟩ ∧
    (logFault ⟨true, true, true⟩ .marbl false brokenUpload ⟨strBytes "abc", true⟩).body = ⟨strBytes "abc", true⟩ ∧
    (logFault ⟨true, true, true⟩ (.text false false) true brokenUpload ⟨strBytes "abc", true⟩).body = ⟨strBytes "abc", true⟩ := by
  decide

end Martian.Props.C15
