import Martian.Lemmas.Logging
import Martian.Lemmas.MessageView
/-!
C15 — faults while the logger reads the body. The body of a message whose peer went away yields
some bytes and then an error; the proxy forwards the message whatever the logger returns. What the
body still yields afterwards decides what is forwarded: the bytes before the break, and the break
itself (a chunked message without its last-chunk, a Content-Length body that is short).
The model follows /repo after fix 5291428 (`snapshotKeepsPrefix = true`).
-/
namespace Martian.Props.C15
open Martian Martian.MessageView Martian.Logging

/-- The clause: after any logger, the body yields exactly what it would have yielded. True of the
code (`keep = true`, since /repo 5291428 the snapshot hands back the consumed bytes followed by the
same error); false of the unrepaired variant `keep = false`, kept as a definition so that the
inverse of the fix stays documented (`unrepaired_snapshot_loses_consumed_bytes`). -/
def LoggingPreservesBodyFaults (keep : Bool) : Prop :=
  ∀ (t : Trusted) (l : Logger) (skip : Bool) (m : Msg) (b : FBody), (logFaultK keep t l skip m b).body = b

theorem logFaultK_drained (keep : Bool) (t : Trusted) (l : Logger) (skip : Bool) (m : Msg) (b : FBody)
    (h : (b.err && !(installs l skip { m with body := some b.data }).isEmpty) = true) :
    logFaultK keep t l skip m b =
      { body := { data := if keep then b.data else [], err := true }, record := none, err := true } := by
  simp only [logFaultK, h, if_true]

theorem logFaultK_passed (keep : Bool) (t : Trusted) (l : Logger) (skip : Bool) (m : Msg) (b : FBody)
    (h : (b.err && !(installs l skip { m with body := some b.data }).isEmpty) = false) :
    logFaultK keep t l skip m b =
      { body := b, record := (logMsgT t l skip { m with body := some b.data }).record,
        err := (logMsgT t l skip { m with body := some b.data }).err } := by
  simp only [logFaultK, h, Bool.false_eq_true, if_false]

/-- Every logger, option combination, skip flag, verdict of the trusted parsers, message and body —
in particular a body that fails after any number of bytes under a logger that drains it: the
message handed on yields exactly what it would have yielded without the logger, the same bytes and
then the same clean end or the same error. So what is forwarded breaks off at the same point, with
the same bytes before the break, with and without the logger. -/
theorem logging_preserves_body_faults (t : Trusted) (l : Logger) (skip : Bool) (m : Msg) (b : FBody) :
    (logFault t l skip m b).body = b := by
  unfold logFault
  cases hc : (b.err && !(installs l skip { m with body := some b.data }).isEmpty)
  · rw [logFaultK_passed _ _ _ _ _ _ hc]
  · rw [logFaultK_drained _ _ _ _ _ _ hc]
    simp only [Bool.and_eq_true] at hc
    cases b; simp_all [snapshotKeepsPrefix]

/-- In particular the break itself is never masked and never introduced: a body that fails still
fails (the message is forwarded broken off, never as a complete one), a body that ends cleanly
still does. This part holds whatever the snapshot does with the consumed bytes. -/
theorem logging_never_masks_body_faults (keep : Bool) (t : Trusted) (l : Logger) (skip : Bool) (m : Msg)
    (b : FBody) : (logFaultK keep t l skip m b).body.err = b.err := by
  cases hc : (b.err && !(installs l skip { m with body := some b.data }).isEmpty)
  · rw [logFaultK_passed _ _ _ _ _ _ hc]
  · rw [logFaultK_drained _ _ _ _ _ _ hc]
    simp only [Bool.and_eq_true] at hc
    exact hc.1.symm

theorem logging_preserves_body_faults_full : LoggingPreservesBodyFaults snapshotKeepsPrefix :=
  fun t l skip m b => logging_preserves_body_faults t l skip m b

def brokenUpload : Msg :=
  { isReq := true, method := strBytes "POST", url := strBytes "/", major := 1, minor := 1, code := 0,
    status := [], host := strBytes "h", te := [chunkedTok], cl := -1, hdr := [], body := some [], trailer := none }

/-- The inverse of the fix (the snapshot as it was before /repo 5291428: `if err != nil { return err }`,
the body left where the error struck): a chunked upload that breaks off after `abc`, under a bare
snapshot, is handed on broken off but WITHOUT `abc` — the clause fails, on exactly the bodies that
fail under a draining logger and nowhere else. -/
theorem unrepaired_snapshot_loses_consumed_bytes :
    ¬ LoggingPreservesBodyFaults false ∧
    (logFaultK false ⟨true, true, true⟩ (.snapshot noOpts) false brokenUpload ⟨strBytes "abc", true⟩).body = ⟨[], true⟩ ∧
    (∀ (t : Trusted) (l : Logger) (skip : Bool) (m : Msg) (b : FBody),
      (b.err = false ∨ installs l skip { m with body := some b.data } = []) →
        (logFaultK false t l skip m b).body = b) := by
  refine ⟨?_, by decide, ?_⟩
  · intro h
    have := h ⟨true, true, true⟩ (.snapshot noOpts) false brokenUpload ⟨strBytes "abc", true⟩
    revert this; decide
  · intro t l skip m b h
    have hc : (b.err && !(installs l skip { m with body := some b.data }).isEmpty) = false := by
      rcases h with h | h <;> simp [h]
    rw [logFaultK_passed _ _ _ _ _ _ hc]

/-- A logger whose read of the body failed returns the error and has recorded nothing. -/
theorem failed_body_read_records_nothing (t : Trusted) (l : Logger) (skip : Bool) (m : Msg) (b : FBody)
    (he : b.err = true) (hd : installs l skip { m with body := some b.data } ≠ []) :
    (logFault t l skip m b).record = none ∧ (logFault t l skip m b).err = true := by
  unfold logFault
  have hc : (b.err && !(installs l skip { m with body := some b.data }).isEmpty) = true := by
    simp [he, hd]
  rw [logFaultK_drained _ _ _ _ _ _ hc]; exact ⟨rfl, rfl⟩

/-- On a body that ends cleanly this is the error-path model `logMsgT`. -/
theorem logFault_clean (t : Trusted) (l : Logger) (skip : Bool) (m : Msg) (d : Bytes) :
    (logFault t l skip m ⟨d, false⟩).record = (logMsgT t l skip { m with body := some d }).record ∧
    (logFault t l skip m ⟨d, false⟩).err = (logMsgT t l skip { m with body := some d }).err := by
  unfold logFault
  rw [logFaultK_passed _ _ _ _ _ _ (by simp)]; exact ⟨rfl, rfl⟩

-- non-vacuity: a draining logger on a failing body hands on the consumed bytes and the error; marbl
-- and a skip-logging exchange never touch the body; a logger error is returned on the draining path
example : (logFault ⟨true, true, true⟩ (.text false false) false brokenUpload ⟨strBytes "abc", true⟩).body = ⟨strBytes "abc", true⟩ ∧
    (logFault ⟨true, true, true⟩ (.text false false) false brokenUpload ⟨strBytes "abc", true⟩).err = true ∧
    (logFault ⟨true, true, true⟩ .marbl false brokenUpload ⟨strBytes "abc", true⟩).body = ⟨strBytes "abc", true⟩ ∧
    (logFault ⟨true, true, true⟩ .marbl false brokenUpload ⟨strBytes "abc", true⟩).err = false ∧
    (logFault ⟨true, true, true⟩ (.text false false) true brokenUpload ⟨strBytes "abc", true⟩).body = ⟨strBytes "abc", true⟩ := by
  decide

end Martian.Props.C15
