import Martian.Lemmas.Logging
import Martian.Lemmas.MessageView
/-!
C15 — "an exchange marked to skip logging is recorded by none of them", with the marking modelled:
context flag operations are idempotent, an exchange may be marked any number of times, from the
request side, the response side or both, by plain markers or by `api.Forwarder`.
-/
namespace Martian.Props.C15
open Martian Martian.MessageView Martian.Logging

/-- A flag reads true iff it was true before or at least one of the operations sets it: the number
of marks (≥ 1) and the other flags' operations do not matter. -/
theorem flags_accumulate (f : Flags) (ms : List Mark) :
    (f.applyAll ms).skipLogging = (f.skipLogging || ms.any Mark.setsSkipLogging) ∧
    (f.applyAll ms).skipRoundTrip = (f.skipRoundTrip || ms.any Mark.setsSkipRoundTrip) ∧
    (f.applyAll ms).apiRequest = (f.apiRequest || ms.any Mark.setsApiRequest) :=
  ⟨applyAll_skipLogging f ms, applyAll_skipRoundTrip f ms, applyAll_apiRequest f ms⟩

/-- Marking is idempotent. -/
theorem mark_idempotent (f : Flags) (mk : Mark) : (f.apply mk).apply mk = f.apply mk := by
  cases mk <;> rfl

/-- An exchange marked skip-logging any number ≥ 1 of times (among any other flag operations, from
any initial flags) is recorded by none of the loggers. -/
theorem skip_logging_records_nothing_marks (l : Logger) (m : Msg) (f0 : Flags) (ms : List Mark)
    (hl : ∀ o, l ≠ .snapshot o) (hm : ∃ mk ∈ ms, mk.setsSkipLogging = true) :
    (logMsg l (f0.applyAll ms).skipLogging m).2 = none := by
  have : (f0.applyAll ms).skipLogging = true := by
    rw [applyAll_skipLogging]
    obtain ⟨mk, hmk, h⟩ := hm
    simp only [Bool.or_eq_true, List.any_eq_true]
    exact Or.inr ⟨mk, hmk, h⟩
  rw [this]
  cases l <;> simp [logMsg] at *

/-- Whole exchange, one logger: marked before the request side ⇒ neither message is recorded;
marked only between request side and response side ⇒ the response is not recorded. Both messages
are handed on unchanged in every case. -/
theorem marked_exchange_is_not_recorded (l : Logger) (f0 : Flags) (pre post : List Mark) (req res : Msg)
    (hl : ∀ o, l ≠ .snapshot o) :
    ((∃ mk ∈ pre, mk.setsSkipLogging = true) →
      (logExchange l f0 pre post req res).1.2 = none ∧ (logExchange l f0 pre post req res).2.2 = none) ∧
    ((∃ mk ∈ post, mk.setsSkipLogging = true) → (logExchange l f0 pre post req res).2.2 = none) ∧
    (logExchange l f0 pre post req res).1.1 = req ∧ (logExchange l f0 pre post req res).2.1 = res := by
  refine ⟨?_, ?_, ?_, ?_⟩
  · intro h
    constructor
    · exact skip_logging_records_nothing_marks l req f0 pre hl h
    · simp only [logExchange, ← applyAll_append]
      obtain ⟨mk, hmk, h⟩ := h
      exact skip_logging_records_nothing_marks l res f0 (pre ++ post) hl ⟨mk, by simp [hmk], h⟩
  · intro h
    simp only [logExchange, ← applyAll_append]
    obtain ⟨mk, hmk, h⟩ := h
    exact skip_logging_records_nothing_marks l res f0 (pre ++ post) hl ⟨mk, by simp [hmk], h⟩
  · simp only [logExchange]
    cases l <;> cases (f0.applyAll pre).skipLogging <;> simp [logMsg, snapshotMsg_id] <;> (repeat' split) <;> simp
  · simp only [logExchange]
    cases l <;> cases ((f0.applyAll pre).applyAll post).skipLogging <;> simp [logMsg, snapshotMsg_id] <;>
      (repeat' split) <;> simp

def getMsg : Msg :=
  { isReq := true, method := strBytes "GET", url := strBytes "/", major := 1, minor := 1, code := 0,
    status := [], host := strBytes "h", te := [], cl := 0, hdr := [], body := some [], trailer := none }

/-- Non-vacuity and sensitivity: an exchange that nobody marked is recorded on both sides; with the
skip-logging mark a toggle (`f.skipLogging := !f.skipLogging`) two marks would read "not marked". -/
example : (logExchange .marbl Flags.init [.skipRoundTrip, .apiRequest] [] getMsg getMsg).1.2.isSome = true ∧
    (Flags.init.applyAll [.skipLogging, .skipLogging]).skipLogging = true ∧
    (Flags.init.applyAll [.forwarder, .skipLogging]).skipLogging = true ∧
    (Flags.init.applyAll [.skipRoundTrip, .skipRoundTrip]).skipLogging = false := by decide

end Martian.Props.C15
