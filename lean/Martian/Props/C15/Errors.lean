import Martian.Lemmas.MessageView
/-!
C15 — when does a logger return an error? The proxy turns a modifier's error into a `Warning` header
of the forwarded message, so every error return is a difference from the unlogged message (open
findings `c15:logger-error:*`). The model has exactly three causes on a body that reads cleanly; the
harness reports any other logger error as a violation.
-/
namespace Martian.Props.C15
open Martian Martian.MessageView

/-- A logger returns an error only for: HAR on a request whose post data is captured and does not
parse as its declared type; HAR on a response whose body is captured and does not decode; the text
logger with `decode` when the decompressor does not open. Never under skip-logging, never marbl,
never a bare snapshot — and in particular never for a body that opens but fails to decode midway
under the text logger (its copy error is dropped). -/
theorem logger_errors_are_classified (t : Trusted) (l : Logger) (skip : Bool) (m : Msg)
    (he : (logMsgT t l skip m).err = true) :
    skip = false ∧
    ((∃ post body, l = .har post body ∧ m.isReq = true ∧ t.postParses = false) ∨
     (∃ post body, l = .har post body ∧ m.isReq = false ∧ decodesOn t noOpts m = false) ∨
     (∃ ho, l = .text ho true ∧ decodeOpensOn t { skipBody := ho, cts := [] } m = false)) := by
  cases l with
  | snapshot o => simp [logMsgT] at he
  | marbl => cases skip <;> simp [logMsgT] at he
  | har post body =>
    cases skip with
    | true => simp [logMsgT] at he
    | false =>
      refine ⟨rfl, ?_⟩
      cases hr : m.isReq
      · right; left
        refine ⟨post, body, rfl, rfl, ?_⟩
        cases hd : decodesOn t noOpts m
        · rfl
        · exfalso
          simp only [logMsgT, hr, hd, Bool.false_eq_true, if_false, if_true] at he
          revert he; (repeat' split) <;> simp
      · left
        refine ⟨post, body, rfl, rfl, ?_⟩
        cases hp : t.postParses
        · rfl
        · exfalso
          simp only [logMsgT, hr, hp, Bool.false_eq_true, if_false, if_true] at he
          revert he; (repeat' split) <;> simp
  | text ho dec =>
    cases skip with
    | true => simp [logMsgT] at he
    | false =>
      refine ⟨rfl, Or.inr (Or.inr ?_)⟩
      cases dec with
      | false => simp [logMsgT] at he
      | true =>
        refine ⟨ho, rfl, ?_⟩
        cases hd : decodeOpensOn t { skipBody := ho, cts := [] } m
        · rfl
        · exfalso
          simp [logMsgT, hd] at he

end Martian.Props.C15
