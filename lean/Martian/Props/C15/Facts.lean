import Martian.Generated.Har
import Martian.Model.Logging
/-!
C15 — structural facts of the loggers' skip-logging guards and of the context's flag setters,
regenerated from the source on every check (`go/cmd/vextract/facts_har.go` → `Generated/Har.lean`),
that `Model/MessageView.lean` (`logMsg`: `if skipLogging then (m, none)`) and `Model/Logging.lean`
(`Flags.apply` only sets) transcribe.
-/
namespace Martian.Props.C15
open Martian

/-- Each of the six logger entry points (`har.Logger`, `martianlog.Logger`, `marbl.Modifier` ×
`ModifyRequest` / `ModifyResponse`) starts with `if ctx.SkippingLogging() { return nil }` — nothing
but the context lookup precedes it — and only after it records / snapshots / logs. -/
theorem facts_loggers_ask_skip_logging_first :
    Generated.Har.skipGuards.map (·.1) =
      ["har.ModifyRequest", "har.ModifyResponse", "martianlog.ModifyRequest", "martianlog.ModifyResponse",
       "marbl.ModifyRequest", "marbl.ModifyResponse"] ∧
    (Generated.Har.skipGuards.all fun g => g.2.1 && !g.2.2.isEmpty) = true := by decide

/-- `SkipRoundTrip`, `SkipLogging`, `APIRequest` (and the helpers of `context.go` they call) contain
no toggling or clearing operator (`^`, `&^`, `!`, `&=`) and no `= false`: a flag, once set, stays
set — `Flags.apply`, `flags_accumulate`. -/
theorem facts_flag_setters_only_set :
    Generated.Har.flagSettersFound = 3 ∧ Generated.Har.flagSettersOnlySet = true := by decide

end Martian.Props.C15
