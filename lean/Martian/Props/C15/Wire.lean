import Martian.Lemmas.Http1Wire
import Martian.Lemmas.Http1Ext
/-!
C15, clause "the snapshot itself is a parseable HTTP message equal to the original" — with the
HTTP/1 reader INSIDE the model (`Model/Http1.lean`, a transcription of `http.ReadRequest` /
`http.ReadResponse` + `io.ReadAll(Body)` that is run against the real `net/http` on every check).

`wire m` is the byte string a full snapshot consists of (`snapshot_is_wire_partial` in
`Props/C15.lean`). Under the decidable well-formedness predicates `WFReq` / `WFRes` the reader
returns the original message from it: every start-line field, `Host`, framing, body bytes, trailer
are those of `m`; the header list is `m`'s end-to-end fields plus the `Content-Length` field the
serialiser derived from `m.cl` (`parsedHdr`) — value by value, in order, for every field name —
and for a message already in the reader's normal form the result is `m` itself.
-/
namespace Martian.Props.C15
open Martian Martian.Go Martian.MessageView Martian.Http1

/-- A full snapshot of a request re-parses to the request, and nothing of what follows it on the
stream is consumed. -/
theorem request_snapshot_reparses (o : Opts) (m : Msg) (hc : captures o m = true) (ht : m.trailer = none)
    (h : WFReq m) (rest : Bytes) :
    readRequest ((snapshot o m).message ++ rest) = .complete (reqParsed m) rest := by
  rw [snapshot_message_eq_wire o m hc ht]; exact readRequest_wire m h rest

/-- The same for the wire form itself, trailers included (the snapshot of a chunked message with a
trailer map lacks its final CRLF — F15a — and is therefore NOT this byte string). -/
theorem wire_request_reparses (m : Msg) (h : WFReq m) (rest : Bytes) :
    readRequest (wire m ++ rest) = .complete (reqParsed m) rest := readRequest_wire m h rest

/-- A full snapshot of a response with a body (Content-Length, chunked or close-delimited)
re-parses to the response. -/
theorem response_snapshot_reparses (o : Opts) (meth : Bytes) (m : Msg) (hc : captures o m = true)
    (ht : m.trailer = none) (h : WFRes meth m) (rest : Bytes) (hrest : lengthDelimited m = false → rest = []) :
    readResponse meth ((snapshot o m).message ++ rest) = .complete (resParsed m) rest := by
  rw [snapshot_message_eq_wire o m hc ht]; exact readResponse_wire meth m h rest hrest

/-- What "equal to the original" means field by field: everything but the header list is `m`'s
(`ContentLength`: `parsedCL m`, which is `m.cl` except that a request with neither framing field is
reported with length 0). -/
theorem reparsed_request_fields (m : Msg) :
    let p := (reqParsed m).msg
    p.method = m.method ∧ p.url = m.url ∧ p.major = m.major ∧ p.minor = m.minor ∧ p.host = m.host ∧
    p.te = m.te ∧ p.cl = parsedCL m ∧ p.body = m.body ∧ p.trailer = m.trailer := by
  simp [reqParsed]

theorem reparsed_response_fields (m : Msg) :
    let p := (resParsed m).msg
    p.code = m.code ∧ p.status = m.status ∧ p.major = m.major ∧ p.minor = m.minor ∧
    p.te = m.te ∧ p.cl = m.cl ∧ p.body = m.body ∧ p.trailer = m.trailer := by
  simp [resParsed]

/-- …and the header list carries, for every field name that is not a framing field, exactly the
original values, with multiplicity and in order. -/
theorem reparsed_request_header_values (m : Msg) (k : Bytes) (hk : (exclOf m).contains k = false)
    (hcl : (clKey == k) = false) : vals (reqParsed m).msg.hdr k = vals m.hdr k :=
  vals_parsedHdr m k hk hcl

theorem reparsed_response_header_values (m : Msg) (k : Bytes) (hk : (exclOf m).contains k = false)
    (hcl : (clKey == k) = false) (hconn : (connKey == k) = false) :
    vals (resParsed m).msg.hdr k = vals m.hdr k :=
  vals_resHdr m k hk hcl hconn

/-- A request in the reader's normal form re-parses to itself. -/
theorem request_in_normal_form_reparses_to_itself (m : Msg) (h : WFReq m) (hn : parsedHdr m = m.hdr)
    (hc : parsedCL m = m.cl) (rest : Bytes) :
    ∃ p, readRequest (wire m ++ rest) = .complete p rest ∧ p.msg = m :=
  ⟨reqParsed m, readRequest_wire m h rest, reqParsed_msg_of_normal m hn hc⟩

theorem response_in_normal_form_reparses_to_itself (meth : Bytes) (m : Msg) (h : WFRes meth m)
    (hn : resHdr m = m.hdr) (rest : Bytes) (hrest : lengthDelimited m = false → rest = []) :
    ∃ p, readResponse meth (wire m ++ rest) = .complete p rest ∧ p.msg = m :=
  ⟨resParsed m, readResponse_wire meth m h rest hrest, resParsed_msg_of_normal m hn⟩

/-- F15a seen by the reader: the snapshot of a chunked request with a trailer map (it lacks the
final CRLF) is a strict prefix of the wire form and is therefore NOT read as a complete message —
the reader reports an incomplete or malformed trailer. This is the exact input class of the open
finding `c15:snapshot-chunked-trailers-lacks-final-crlf`. -/
theorem chunked_trailer_snapshot_does_not_reparse (o : Opts) (m : Msg) (t : List KV)
    (hc : captures o m = true) (ht : m.trailer = some t) (hch : isChunked m.te = true) (h : WFReq m) :
    (readRequest (snapshot o m).message).isComplete = false := by
  have hw := wire_eq_snapshot_crlf o m t hc ht hch
  have h0 := readRequest_wire m h []
  have h1 := readRequest_wire m h [0]
  simp only [List.append_nil] at h0
  have hk : (snapshot o m).message.length < (wire m).length := by rw [hw]; simp [crlf]
  have := request_prefix_never_complete (wire m) (reqParsed m) h0 h1 _ hk
  rw [hw] at this
  simpa using this

/-! Non-vacuity (tests): concrete well-formed messages in normal form, one per framing. -/

def exReqCL : Msg :=
  { isReq := true, method := strBytes "POST", url := strBytes "http://h.example/p?q=1", major := 1, minor := 1,
    code := 0, status := [], host := strBytes "h.example", te := [], cl := 3,
    hdr := [(strBytes "Accept", strBytes "*/*"), (strBytes "Content-Length", strBytes "3"),
            (strBytes "X-Repeat", strBytes "one"), (strBytes "X-Repeat", strBytes "two")],
    body := some (strBytes "abc"), trailer := none }

def exReqChunked : Msg :=
  { isReq := true, method := strBytes "PUT", url := strBytes "/up", major := 1, minor := 1,
    code := 0, status := [], host := strBytes "h.example:8080", te := [chunkedTok], cl := -1,
    hdr := [(strBytes "Content-Type", strBytes "text/plain")],
    body := some (strBytes "hello"), trailer := some [(strBytes "X-Checksum", strBytes "abc")] }

def exResCL : Msg :=
  { isReq := false, method := [], url := [], major := 1, minor := 1, code := 200, status := strBytes "200 OK",
    host := [], te := [], cl := 2,
    hdr := [(strBytes "Content-Length", strBytes "2"), (strBytes "Set-Cookie", strBytes "a=1"),
            (strBytes "Set-Cookie", strBytes "b=2")],
    body := some (strBytes "ok"), trailer := none }

def exResEof : Msg :=
  { exResCL with cl := -1, hdr := [(strBytes "Etag", strBytes "\"x\"")] }

example : WFReq exReqCL ∧ parsedHdr exReqCL = exReqCL.hdr ∧ parsedCL exReqCL = exReqCL.cl := by decide
example : WFReq exReqChunked ∧ parsedHdr exReqChunked = exReqChunked.hdr ∧ parsedCL exReqChunked = exReqChunked.cl := by
  decide
example : WFRes (strBytes "GET") exResCL ∧ resHdr exResCL = exResCL.hdr ∧ lengthDelimited exResCL = true := by decide
example : WFRes (strBytes "GET") exResEof ∧ resHdr exResEof = exResEof.hdr ∧ lengthDelimited exResEof = false := by decide
example : captures noOpts exReqCL = true ∧ exReqCL.trailer = none := by decide
example : captures noOpts exReqChunked = true ∧ isChunked exReqChunked.te = true ∧
    exReqChunked.trailer = some [(strBytes "X-Checksum", strBytes "abc")] := by decide

end Martian.Props.C15
