import Martian.Lemmas.HarLogApi
import Martian.Generated.HarLog
/-!
C17, "these outcomes are the same when the calls are made concurrently from many connections".

The argument has two halves.
* A FACT about har.go, re-extracted from the source on every check (`Generated.HarLog.lockTable`,
  go/cmd/vextract/facts_c17.go): on every path of every method that touches the log (`entries`,
  `tail`, `Entry.next`, `Entry.Response`), all those accesses sit in ONE critical section of
  `l.mu`; the two record methods have a path (the message error) that touches nothing.
  `facts_lock_discipline` pins it; if the source stops having that shape this file stops building.
* A THEOREM about the model (`Model/HarLogConc.lean`): the concurrent machine gives a call a
  semantics only when the table says it is atomic, and then every schedule of every set of thread
  programs runs to the end of the schedule and yields exactly the observations of ONE sequential
  history — the calls in the order in which they took the lock — which keeps every thread's
  program order and lies inside every real-time order (a call takes the lock between its
  invocation and its return).  So everything proved for sequential histories (Props/C17.lean,
  Props/C17/Faults.lean) holds for concurrent ones.
`sync.Mutex` itself (mutual exclusion) is trusted.  The harness checks the same thing on the real
code (`conc` ops: Wing–Gong search; the linearisation it finds is replayed by the Lean model).
-/
namespace Martian.Props.C17
open Martian Martian.HarLog Martian.HarLog.Conc

/-- The lock discipline of har.go as extracted from the tree under test (kernel-checked test of a
    generated table). -/
theorem facts_lock_discipline : LockOK Generated.HarLog.lockTable = true := by decide

/-- The shared state the extraction watched is the state the model's heap has. -/
theorem facts_guarded_fields :
    Generated.HarLog.guardedFields = ["Response", "entries", "next", "tail"] := by decide

/-- Under the lock discipline every call of the model is one atomic step. -/
theorem every_call_atomic (o : Op) : atomicIn Generated.HarLog.lockTable o = true :=
  atomic_of_lockOK facts_lock_discipline o

/-- Linearisability.  For all thread programs and every schedule, the concurrent execution is
    defined and (1) what the calls returned is what the list specification returns on the
    sequential history `callsOf tr` (the calls in lock order), (2) the final heap is that
    history's and represents its log, (3) each thread's calls appear in it in program order
    (what is left of the thread's program is what the schedule did not reach). -/
theorem concurrent_execution_is_sequential (progs : List Prog) (sched : List Nat) :
    ∃ cf tr, exec Generated.HarLog.lockTable ⟨init, progs⟩ sched = some (cf, tr) ∧
      tr.map (·.obs) = Spec.runT [] (callsOf tr) ∧
      Reach cf.heap (Spec.afterT [] (callsOf tr)) ∧
      ∀ i, (progs[i]?).getD [] = ofThread i tr ++ (cf.progs[i]?).getD [] := by
  obtain ⟨⟨cf, tr⟩, he⟩ := exec_total facts_lock_discipline sched ⟨init, progs⟩
  obtain ⟨h1, h2⟩ := exec_sound sched _ cf tr he
  obtain ⟨r1, r2⟩ := runT_refines (callsOf tr) init [] Reach_init
  refine ⟨cf, tr, he, ?_, ?_, exec_program_order sched _ cf tr he⟩
  · rw [h1]; exact r1
  · rw [h2]; exact r2

/-- The dependency on the fact is real: for ANY table, a defined execution is sequential, but
    only a table satisfying `LockOK` guarantees that the execution is defined; with a method
    that is not one critical section the machine has no semantics for its calls. -/
theorem execution_defined_iff_calls_atomic (tbl : LockTable) (h : Heap) (t : Nat) (o : Op) :
    (∃ r, exec tbl ⟨h, [[(t, o)]]⟩ [0] = some r) ↔ atomicIn tbl o = true := by
  cases ha : atomicIn tbl o <;> simp [exec, fire, ha]

/-- Real-time order: whatever instants the calls were invoked and returned at, as long as each
    call took the lock inside its own interval, a call that returned before another was invoked
    precedes it in the sequential history. -/
theorem linearisation_respects_real_time (lockedAt inv ret : Nat → Nat)
    (hin : ∀ c, inv c ≤ lockedAt c ∧ lockedAt c ≤ ret c) (c1 c2 : Nat) (h : ret c1 < inv c2) :
    lockedAt c1 < lockedAt c2 := by
  have := (hin c1).2; have := (hin c2).1; omega

/-- In every sequential history, with any tags, no list handed out names an ID twice. -/
theorem exports_never_list_an_id_twice (cs : List (Nat × Op)) (es : List Ent)
    (h : Obs.log es ∈ runT init cs) : (idsOf es).Nodup := by
  rw [(runT_refines cs init [] Reach_init).1] at h
  exact runT_logs_nodup_ids cs [] (by simp [idsOf]) es h

/-! ### Why the fact is needed: the seeded shape (C17-B) -/

/-- A table in which RecordRequest goes through two critical sections is rejected. -/
theorem split_request_table_rejected :
    LockOK [("Export", 1, 1, 0, true), ("ExportAndReset", 1, 1, 0, true), ("RecordRequest", 1, 2, 0, true),
            ("RecordResponse", 0, 1, 0, true), ("Reset", 1, 1, 0, true)] = false ∧
    -- … and so is one in which the failing path of RecordResponse takes the lock (C17-D),
    LockOK [("Export", 1, 1, 0, true), ("ExportAndReset", 1, 1, 0, true), ("RecordRequest", 0, 1, 0, true),
            ("RecordResponse", 1, 1, 0, true), ("Reset", 1, 1, 0, true)] = false ∧
    -- … one with an access outside the lock, and one with a method missing.
    LockOK [("Export", 1, 1, 1, true), ("ExportAndReset", 1, 1, 0, true), ("RecordRequest", 0, 1, 0, true),
            ("RecordResponse", 0, 1, 0, true), ("Reset", 1, 1, 0, true)] = false ∧
    LockOK [("Export", 1, 1, 0, true), ("ExportAndReset", 1, 1, 0, true), ("RecordRequest", 0, 1, 0, true),
            ("RecordResponse", 0, 1, 0, true)] = false := by decide

/-- Duplicate check and insertion in two critical sections: two threads recording the same ID
    both pass the check and both insert; Export then lists the ID twice. -/
theorem split_request_accepts_duplicate :
    SplitRequest.race "a" = (false, false, .log [⟨"a", 0, none⟩, ⟨"a", 1, none⟩]) := by decide

/-- … which no sequential history of the real (one-section) methods can produce: the split
    method is not linearisable. -/
theorem split_request_not_linearisable (cs : List (Nat × Op)) :
    (SplitRequest.race "a").2.2 ∉ runT init cs := by
  rw [split_request_accepts_duplicate]
  intro h
  have := exports_never_list_an_id_twice cs _ h
  simp [idsOf] at this

/-! ### The handler level -/

/-- Every `ServeHTTP` of package har makes at most one call of a log method per execution, the
    export handler answers with the result of `Export`, the reset handler with the result of
    `ExportAndReset` (regenerated; kernel-checked test of the generated table).  So a handler call
    is the same atomic step as the method it wraps, and `concurrent_execution_is_sequential` covers
    histories that mix handler calls with direct calls. -/
theorem facts_handler_discipline : HandlersOK Generated.HarLog.handlerTable = true := by decide

/-- The shape of C17-H (answer from an Export snapshot, clear with a second call) is rejected. -/
theorem split_reset_handler_table_rejected :
    HandlersOK [("exportHandler", 0, 1, ["Export"]), ("resetHandler", 0, 2, ["Export"])] = false ∧
    HandlersOK [("exportHandler", 0, 1, ["Export"]), ("resetHandler", 0, 1, ["Export"])] = false := by decide

/-- … and this is what it does: the request was accepted, its response recorded, no reset was
    made — yet the handler answered with nothing, and nothing is left: the completed entry was
    removed (by the call whose result was dropped) without ever being returned.  In a sequential
    history that cannot happen (`completed_returned_by_next_export_and_reset`). -/
theorem split_reset_handler_loses_entry :
    SplitResetHandler.race "a" = (.log [], .log [⟨"a", 0, some 1⟩], .log []) := by decide

/-! ### Non-vacuity (concrete tests) -/

/-- two threads, three schedules of the same programs: all defined, all sequential. -/
example : (exec Generated.HarLog.lockTable ⟨init, [[(0, .req "a"), (1, .res "a")], [(10, .req "a"), (11, .xreset)]]⟩
      [0, 1, 0, 1]).map (fun r => r.2.map (·.obs))
    = some [.ok, .dup, .ok, .log [⟨"a", 0, some 1⟩]] := by decide

example : (exec Generated.HarLog.lockTable ⟨init, [[(0, .req "a"), (1, .res "a")], [(10, .req "a"), (11, .xreset)]]⟩
      [1, 1, 0, 0, 0]).map (fun r => r.2.map (·.obs))
    = some [.ok, .log [], .dup, .ok] := by decide

end Martian.Props.C17
