import Martian.Lemmas.HarLogApi
/-!
C17, API level: `har.Logger` with its options and the failure paths of `NewRequest` /
`NewResponse` (`Model/HarLog.lean`, `Logger`, `Call`).  A call that cannot turn its message into a
HAR message returns the error BEFORE the lock and leaves the log exactly as it was; everything
proved for histories of critical sections holds for histories of API calls.

`Logger.run Logger.init 0 cs` is the pointer-level model run on the API history `cs` (the i-th call
carries tag i); `criticals Cfg.default cs` are the critical sections those calls go through
(`Op.idle` for a call that returned before the lock).
-/
namespace Martian.Props.C17
open Martian Martian.HarLog

/-- Every observation of the API-level pointer model, on every history of calls (with any
    options set along the way and any failing messages), is the list specification's. -/
theorem logger_refines_spec (cs : List Call) :
    Logger.run Logger.init 0 cs = SLogger.run ⟨Cfg.default, []⟩ 0 cs := by
  rw [logger_run_eq, slogger_run_eq]
  exact run_refines _ init [] 0 Reach_init

/-- An API history IS a history of critical sections: each call contributes at most one, decided
    by its prelude (options, message) alone, and nothing else touches the log. -/
theorem api_history_is_history_of_critical_sections (cs : List Call) :
    Logger.run Logger.init 0 cs = run init 0 (criticals Cfg.default cs) ∧
    (Logger.after Logger.init 0 cs).heap = after init 0 (criticals Cfg.default cs) :=
  ⟨logger_run_eq cs Logger.init 0, logger_after_eq cs Logger.init 0⟩

/-- A RecordResponse whose response cannot be logged (body read error, undecodable body — with
    body logging on for its content type) returns the error and changes NOTHING: not the index,
    not the ring, not the entry it was meant for (the seeded defect C17-D deleted the ID). -/
theorem failed_response_leaves_log_unchanged (l : Logger) (id : String) (t : Nat) (m : Msg)
    (hf : newResponseFails (l.cfg.bodyLog.eval m.ctype) m = true) :
    l.recordResponse id t m = (l, .err) := by
  simp [Logger.recordResponse, hf]

/-- Same for RecordRequest; in particular the message error is reported whether or not the ID is
    already in the log (`NewRequest` runs before the duplicate check). -/
theorem failed_request_leaves_log_unchanged (l : Logger) (id : String) (t : Nat) (m : Msg)
    (hf : newRequestFails (l.cfg.postLog.eval m.ctype) m = true) :
    l.recordRequest id t m = (l, .err) := by
  simp [Logger.recordRequest, hf]

/-- A call with a loggable message is exactly its critical section. -/
theorem good_message_runs_the_critical_section (l : Logger) (id : String) (t : Nat) (m : Msg) :
    (newRequestFails (l.cfg.postLog.eval m.ctype) m = false →
      l.recordRequest id t m = (⟨l.cfg, (recordRequest l.heap id t).1⟩, (recordRequest l.heap id t).2)) ∧
    (newResponseFails (l.cfg.bodyLog.eval m.ctype) m = false →
      l.recordResponse id t m = (⟨l.cfg, recordResponse l.heap id t⟩, .ok)) := by
  constructor
  · intro hf; simp [Logger.recordRequest, hf]
  · intro hf; simp [Logger.recordResponse, hf]

/-- "Each response attached to its own request" whatever the response is.  For EVERY message
    whose body can be read and decoded — any status code (1xx, 101, 204, 304, 4xx, 5xx, 0, 999 …),
    any header and cookie shape, any body (`content`), any Content-Type, under ANY logging options —
    RecordResponse succeeds and its effect on the log is the attachment to the entry with that ID;
    two such messages are interchangeable.  (The seeded defect C17-F returned early for 1xx.) -/
theorem attachment_independent_of_message_content (l : Logger) (id : String) (t : Nat) (lg : Log)
    (hr : Reach l.heap lg) (framed : Bool) (ctype : String) (content : Nat) :
    (l.recordResponse id t ⟨framed, ctype, .none, content⟩).2 = .ok ∧
    Reach (l.recordResponse id t ⟨framed, ctype, .none, content⟩).1.heap (Spec.res lg id t) ∧
    (∀ framed' ctype' content', l.recordResponse id t ⟨framed', ctype', .none, content'⟩ =
      l.recordResponse id t ⟨framed, ctype, .none, content⟩) := by
  have h : ∀ f c k, l.recordResponse id t ⟨f, c, .none, k⟩ =
      (⟨l.cfg, recordResponse l.heap id t⟩, .ok) := by
    intro f c k; simp [Logger.recordResponse, newResponseFails]
  refine ⟨by rw [h], ?_, fun f c k => by rw [h, h]⟩
  rw [h]
  exact (step_sim l.heap lg t (.res id) hr).1

/-- The same for requests: every loggable request (any method — CONNECT, HEAD, … —, URL, headers,
    cookies, body) is appended if its ID is fresh and rejected as a duplicate otherwise; nothing
    else about it matters. -/
theorem request_recording_independent_of_message_content (l : Logger) (id : String) (t : Nat) (lg : Log)
    (hr : Reach l.heap lg) (framed : Bool) (ctype : String) (content : Nat) :
    (l.recordRequest id t ⟨framed, ctype, .none, content⟩).2 = (Spec.req lg id t).2 ∧
    Reach (l.recordRequest id t ⟨framed, ctype, .none, content⟩).1.heap (Spec.req lg id t).1 ∧
    (∀ framed' ctype' content', l.recordRequest id t ⟨framed', ctype', .none, content'⟩ =
      l.recordRequest id t ⟨framed, ctype, .none, content⟩) := by
  have h : ∀ f c k, l.recordRequest id t ⟨f, c, .none, k⟩ =
      (⟨l.cfg, (recordRequest l.heap id t).1⟩, (recordRequest l.heap id t).2) := by
    intro f c k; simp [Logger.recordRequest, newRequestFails]
  have hs := step_sim l.heap lg t (.req id) hr
  refine ⟨by rw [h]; exact hs.2, by rw [h]; exact hs.1, fun f c k => by rw [h, h]⟩

/-- A body that is not read cannot fail the call: a request without Content-Length /
    Transfer-Encoding, and any message whose body is not logged under the options in force. -/
theorem unread_body_never_fails (withBody : Bool) (ct : String) (f : Fault) (m : Msg) :
    newRequestFails withBody ⟨false, ct, f, 0⟩ = false ∧
    newRequestFails false m = false ∧ newResponseFails false m = false := by
  simp [newRequestFails, newResponseFails]

/-- Removing a call that returned before the lock from anywhere in a (tagged) history changes no
    other observation and not the final log: a failed call is indistinguishable from no call. -/
theorem failed_call_is_invisible (h : Heap) (pre suf : List (Nat × Op)) (t : Nat) (f : Bool) :
    runT h (pre ++ (t, .idle f) :: suf) =
      runT h pre ++ (if f then Obs.err else Obs.ok) :: runT (afterT h pre) suf ∧
    runT h (pre ++ suf) = runT h pre ++ runT (afterT h pre) suf ∧
    afterT h (pre ++ (t, .idle f) :: suf) = afterT h (pre ++ suf) := by
  refine ⟨?_, (runT_append pre suf h).1, ?_⟩
  · rw [(runT_append pre _ h).1]; rfl
  · rw [(runT_append pre _ h).2, (runT_append pre suf h).2]; rfl

/-- The situation of C17-D: an entry is pending, a response for it fails to be logged, then
    export-and-reset runs.  The entry is still in the log, still pending, with its own request. -/
theorem failed_response_keeps_entry_pending (pre : List Call) (e : Ent) (m : Msg)
    (he : e ∈ logAfter (criticals Cfg.default pre)) (hp : e.done = false)
    (hf : newResponseFails ((cfgAfter Cfg.default pre).bodyLog.eval m.ctype) m = true) :
    e ∈ logAfter (criticals Cfg.default (pre ++ [.res e.id m, .xreset])) ∧
    Logger.run Logger.init 0 (pre ++ [.res e.id m, .xreset, .exp]) =
      Logger.run Logger.init 0 pre ++
        [.err, .log ((logAfter (criticals Cfg.default pre)).filter fun x => x.done),
         .log ((logAfter (criticals Cfg.default pre)).filter fun x => !x.done)] := by
  have hc : ∀ tl, criticals Cfg.default (pre ++ Call.res e.id m :: tl) =
      criticals Cfg.default pre ++ Op.idle true :: criticals (cfgAfter Cfg.default pre) tl := by
    intro tl
    rw [criticals_append]
    simp [criticals, Call.critical, hf, Cfg.next]
  constructor
  · rw [hc]
    show e ∈ Spec.after [] 0 (_ ++ _)
    rw [Spec.after_append]
    simp [criticals, Call.critical, Spec.after, Spec.step, List.mem_filter, hp]
    exact he
  · rw [logger_run_init, logger_run_init, hc, Spec.run_append]
    simp [criticals, Call.critical, Spec.run, Spec.step, logAfter]

/-- With post-data and body logging off (and no SetOption later) no call ever fails. -/
theorem no_message_error_when_logging_off (cs : List Call) (h : Heap) (l : Log) (t : Nat)
    (hr : Reach h l) (hs : ∀ c ∈ cs, ∀ o, c ≠ .setPost o ∧ c ≠ .setBody o) :
    Obs.err ∉ Logger.run ⟨⟨.all false, .all false⟩, h⟩ t cs := by
  rw [logger_run_eq, run_refines _ h l t hr]
  have hcrit : ∀ (cs : List Call), (∀ c ∈ cs, ∀ o, c ≠ Call.setPost o ∧ c ≠ Call.setBody o) →
      Op.idle true ∉ criticals ⟨.all false, .all false⟩ cs := by
    intro cs
    induction cs with
    | nil => intro _; simp [criticals]
    | cons c cs ih =>
      intro hs
      have hc := hs c (by simp)
      have hrest := ih (fun c' hc' => hs c' (List.mem_cons_of_mem _ hc'))
      cases c with
      | req id m => simpa [criticals, Call.critical, Cfg.next, LogOpt.eval, newRequestFails] using hrest
      | res id m => simpa [criticals, Call.critical, Cfg.next, LogOpt.eval, newResponseFails] using hrest
      | exp => simpa [criticals, Call.critical, Cfg.next] using hrest
      | xreset => simpa [criticals, Call.critical, Cfg.next] using hrest
      | reset => simpa [criticals, Call.critical, Cfg.next] using hrest
      | setPost o => exact absurd rfl (hc o).1
      | setBody o => exact absurd rfl (hc o).2
  have herr : ∀ (ops : List Op) (l : Log) (t : Nat), Obs.err ∈ Spec.run l t ops → Op.idle true ∈ ops := by
    intro ops
    induction ops with
    | nil => intro l t h; simp [Spec.run] at h
    | cons o os ih =>
      intro l t h
      simp only [Spec.run, List.mem_cons] at h
      rcases h with h | h
      · cases o with
        | req id => simp only [Spec.step, Spec.req] at h; split at h <;> cases h
        | res id => cases h
        | exp => cases h
        | xreset => cases h
        | reset => cases h
        | idle f =>
          cases f with
          | true => simp
          | false => simp [Spec.step] at h
      · exact List.mem_cons_of_mem _ (ih _ _ h)
  exact fun he => hcrit cs hs (herr _ _ _ he)

/-! ### The history theorems, for histories of API calls -/

/-- No nil dereference, no unbounded loop, on any history of API calls. -/
theorem api_never_panics_nor_diverges (cs : List Call) :
    Obs.panic ∉ Logger.run Logger.init 0 cs ∧ Obs.diverge ∉ Logger.run Logger.init 0 cs := by
  rw [logger_run_init]
  exact Spec.run_safe _ [] 0

/-- Every list handed out is in request-arrival order (so no entry twice). -/
theorem api_exports_in_arrival_order (cs : List Call) (es : List Ent)
    (h : Obs.log es ∈ Logger.run Logger.init 0 cs) : (rqs es).Pairwise (· < ·) := by
  rw [logger_run_init] at h
  exact sorted_outputs _ [] 0 (WF_nil 0) es h

/-- Over the whole life of the log — through failing calls, option changes, resets and ID re-use —
    no request is returned by export-and-reset more than once, and only completed ones are. -/
theorem api_returned_at_most_once_and_completed (cs : List Call) :
    (rqs (returned (criticals Cfg.default cs) (Logger.run Logger.init 0 cs))).Nodup ∧
    ∀ e ∈ returned (criticals Cfg.default cs) (Logger.run Logger.init 0 cs), e.done = true := by
  rw [logger_run_init]
  exact ⟨(returned_inv _ [] 0 (WF_nil 0)).1, returned_done _ [] 0⟩

/-- "Each response attached to its own request", in terms of the calls: an exported entry's
    request tag names a RecordRequest call with its ID, its response tag a later RecordResponse
    call with the same ID (both of which got past their message). -/
theorem api_each_response_attached_to_own_request (cs : List Call) (es : List Ent)
    (h : Obs.log es ∈ Logger.run Logger.init 0 cs) :
    ∀ e ∈ es, (∃ m, cs[e.rq]? = some (.req e.id m)) ∧
      ∀ j, e.rs = some j → (∃ m, cs[j]? = some (.res e.id m)) ∧ e.rq < j := by
  rw [logger_run_init] at h
  have hown := own_outputs (criticals Cfg.default cs) [] [] (by simp) es (by simpa using h)
  intro e he
  obtain ⟨h1, h2⟩ := hown e he
  simp only [List.nil_append] at h1 h2
  refine ⟨?_, ?_⟩
  · obtain ⟨x, c', hx, hcx⟩ := criticals_get cs _ _ _ h1
    obtain ⟨m, rfl⟩ := critical_eq_req hcx
    exact ⟨m, hx⟩
  · intro j hj
    obtain ⟨h3, h4⟩ := h2 j hj
    obtain ⟨x, c', hx, hcx⟩ := criticals_get cs _ _ _ h3
    obtain ⟨m, rfl⟩ := critical_eq_res hcx
    exact ⟨⟨m, hx⟩, h4⟩

/-! ### Non-vacuity (concrete tests) -/

/-- C17-D's history: request a; response a whose body fails; export-and-reset; export; a good
    response; export-and-reset.  The entry survives the failure and is returned once completed. -/
example : Logger.run Logger.init 0
    [.req "a" Msg.plain, .res "a" ⟨false, "", .read, 0⟩, .xreset, .exp, .req "a" Msg.plain,
     .res "a" Msg.plain, .xreset, .exp]
    = [.ok, .err, .log [], .log [⟨"a", 0, none⟩], .dup, .ok, .log [⟨"a", 0, some 5⟩], .log []] := by decide

/-- the message error comes before the duplicate check; with logging off the same call is a
    plain duplicate; an unframed request is never read. -/
example : Logger.run Logger.init 0
    [.req "a" Msg.plain, .req "a" ⟨true, "", .read, 0⟩, .setPost (.all false), .req "a" ⟨true, "", .read, 0⟩,
     .req "b" ⟨true, "", .decode, 0⟩, .setPost (.all true), .req "c" ⟨false, "", .read, 0⟩, .exp]
    = [.ok, .err, .ok, .dup, .ok, .ok, .ok, .log [⟨"a", 0, none⟩, ⟨"b", 4, none⟩, ⟨"c", 6, none⟩]] := by decide

/-- hypotheses of `failed_response_keeps_entry_pending` are satisfiable. -/
example : (⟨"a", 0, none⟩ : Ent) ∈ logAfter (criticals Cfg.default [.req "a" Msg.plain]) ∧
    newResponseFails ((cfgAfter Cfg.default [.req "a" Msg.plain]).bodyLog.eval "") ⟨false, "", .read, 0⟩ = true := by
  decide

end Martian.Props.C17
