import Martian.Lemmas.Marbl
/-!
C19 — "reading through the logging wrapper returns the same bytes and errors as the underlying body", for EVERY
sequence of `Read` / `Close` calls a consumer makes (not only read-to-EOF-then-close): `Close` before end-of-file
followed by more reads, `Close` twice, reads after EOF, zero-length reads, `Close` without any read. A call is
given with what the wrapped body returns for it (`Call`), so the quantifier covers every body behaviour as well.
-/
namespace Martian.Props.C19
open Martian Martian.Marbl

/-- For every list of calls (any mix of reads and closes, any results of the wrapped body), any counter value and
whatever was called before: the wrapper returns, call for call, exactly what the wrapped body returns. -/
theorem wrapper_transparent_calls (mt : UInt8) (id : Bytes) (cs : List Call) (ctr : Nat) (closed : Bool) :
    (callRun false mt id ctr closed cs).1 = cs :=
  (callRun_spec mt id cs ctr closed).1

/-- …and the frames account for every read, wherever `Close` calls fall among them: one data frame per `Read`
(also after a `Close`, also after EOF), indices 0,1,2,…, payloads concatenating to all bytes the consumer read,
frame k terminal exactly when read k returned `io.EOF`. `Close` sends nothing. -/
theorem frames_account_for_every_read (mt : UInt8) (id : Bytes) (cs : List Call) (h : (Call.reads cs).length ≤ two32) :
    let fs := (callRun false mt id 0 false cs).2
    fs = (bodyRun mt id 0 (Call.reads cs)).2 ∧
    fs.map Frame.index = List.range (Call.reads cs).length ∧
    (fs.map Frame.payload).flatten = ((Call.reads cs).map ReadRes.data).flatten ∧
    fs.map Frame.terminal = (Call.reads cs).map (fun r => r.err == .eof) := by
  have hs := (callRun_spec mt id cs 0 false).2
  intro fs
  have hfs : fs = (bodyRun mt id 0 (Call.reads cs)).2 := hs
  rw [hfs]
  refine ⟨rfl, ?_, ?_, bodyRun_terminal mt id _ 0⟩
  · rw [bodyRun_index mt id _ 0 (by omega), List.range_eq_range']
  · rw [bodyRun_payload]

/-- What a "closed" flag in the wrapper does (concrete witness, `decide`; the wrapped body stays readable after
`Close`, like an `ioutil.NopCloser`): the read after `Close` returns an error instead of the body's bytes, those
bytes are never logged and no frame is terminal although the body was at end-of-file. -/
theorem close_flag_counterexample :
    let cs : List Call := [.read ⟨strBytes "ab", .none⟩, .close .none, .read ⟨strBytes "cd", .eof⟩]
    let id := strBytes "aaaaaaaa"
    (callRun true 1 id 0 false cs).1 ≠ cs ∧
    ((callRun true 1 id 0 false cs).2.map Frame.payload).flatten ≠ ((Call.reads cs).map ReadRes.data).flatten ∧
    (callRun true 1 id 0 false cs).2.all (fun f => !f.terminal) = true ∧
    (callRun false 1 id 0 false cs).1 = cs ∧
    (callRun false 1 id 0 false cs).2 = [.data 1 id 0 false (strBytes "ab"), .data 1 id 1 true (strBytes "cd")] := by
  decide

/-- non-vacuity: Close first, Close twice, zero-length read, read after EOF -/
example : (callRun false 2 (strBytes "bbbbbbbb") 0 false
    [.close .none, .close .other, .read ⟨[], .none⟩, .read ⟨strBytes "x", .eof⟩, .read ⟨[], .eof⟩]).2.map Frame.index = [0, 1, 2] := by
  decide

end Martian.Props.C19
