import Martian.Model.HttpSpec
namespace Martian.Props.C14
open Martian Martian.Go Martian.HttpSpec

def rfcHopByHop : List Bytes := ["Connection", "Keep-Alive", "Proxy-Authenticate", "Proxy-Authorization", "TE", "Trailer",
  "Transfer-Encoding", "Upgrade"].map strBytes

theorem rfc_hop_by_hop_listed : ∀ k ∈ rfcHopByHop, canonKey k ∈ fixedList.map canonKey := by decide

end Martian.Props.C14
