/-! STUB — property C14 is not built yet. -/
