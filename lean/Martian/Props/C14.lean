import Martian.Lemmas.HttpSpec
/-!
C14 — The spec-compliance stack strips hop-by-hop headers, stamps Via and stops loops.
Only property theorems, non-vacuity examples, and (for the open findings F14b/F14c) the
counterexample witnesses and the `_partial` theorems live here.

Quantifiers: every header `h : Header` (any number of keys, lines per key, bytes per line —
"all header multisets"), every request environment `env` (protocol version, proxy name and
boundary, scheme, host, URL, remote address). Headers are association lists standing for Go's
`map[string][]string`; `index h k` is `h[k]`, `keys h` the set of keys.

The hop-by-hop list and the order of the stack are the regenerated facts
`Generated.HttpSpec.hopByHop / requestOrder / responseOrder` (see Model/HttpSpec.lean).
-/
namespace Martian.Props.C14
open Martian Martian.Go Martian.Go.Header Martian.HttpSpec

/-! ## 1. hop-by-hop headers -/

/-- RFC 7230 §6.1 (and the field definitions that say "hop-by-hop"): the fixed set. -/
def rfcHopByHop : List Bytes := ["Connection", "Keep-Alive", "Proxy-Authenticate", "Proxy-Authorization", "TE", "Trailer",
  "Transfer-Encoding", "Upgrade"].map strBytes

/-- Finite table check: every RFC hop-by-hop field is in the list literal of the source
(`Generated.HttpSpec.hopByHop`, regenerated on every run). Deleting one breaks this theorem. -/
theorem rfc_hop_by_hop_listed : ∀ k ∈ rfcHopByHop, canonKey k ∈ fixedList.map canonKey := by decide

/-- No header the modifier is to remove survives (fixed list or Connection-listed). -/
theorem hbh_removed (h : Header) (k : Bytes) (hk : k ∈ removedKeys h) : k ∉ keys (removeHopByHop h) :=
  removed_not_in_keys hk

/-- No header fixed by the HTTP specification survives, whatever else is in the header. -/
theorem hbh_fixed_removed (h : Header) : ∀ k ∈ rfcHopByHop, canonKey k ∉ keys (removeHopByHop h) := by
  intro k hk
  apply removed_not_in_keys
  have := rfc_hop_by_hop_listed k hk
  simp only [removedKeys, List.map_append, List.mem_append]
  exact Or.inr this

/-- No header named in any `Connection` line survives: every comma-separated piece of every
line, with any white space around it, under its canonical key. -/
theorem hbh_connection_listed_removed (h : Header) :
    ∀ line ∈ index h kConnection, ∀ tok ∈ split line comma, canonKey (trimSpace tok) ∉ keys (removeHopByHop h) := by
  intro line hl tok ht
  apply removed_not_in_keys
  simp only [removedKeys, List.map_append, List.mem_append, List.mem_map]
  refine Or.inl ⟨canonKey (trimSpace tok), ?_, canonKey_idem _⟩
  simp only [connTokens, List.mem_flatMap, List.mem_map]
  exact ⟨line, hl, tok, ht, rfl⟩

/-- "In any case": a token that differs from a header name only in letter case denotes the same
canonical key, i.e. the key under which net/http stores that header. -/
theorem connection_token_any_case (name tok : Bytes) (hn : name.all validHeaderFieldByte = true)
    (hc : toLower tok = toLower name) : canonKey tok = canonKey name := by
  have ht : tok.all validHeaderFieldByte = true := by
    have h1 : (toLower tok).all validHeaderFieldByte = tok.all validHeaderFieldByte := by
      simp only [toLower, List.all_map]; congr 1; funext c; simp [valid_toLowerB]
    have h2 : (toLower name).all validHeaderFieldByte = name.all validHeaderFieldByte := by
      simp only [toLower, List.all_map]; congr 1; funext c; simp [valid_toLowerB]
    rw [← h1, hc, h2, hn]
  rw [← canonKey_toLower tok ht, hc, canonKey_toLower name hn]

/-- Every other header is untouched: the result is exactly the input with the removed keys
filtered out — nothing added, no value changed, order of values (and of keys) kept. -/
theorem hbh_others_untouched (h : Header) :
    removeHopByHop h = h.filter (fun e => !(removedKeys h).contains e.1) ∧
    ∀ k, k ∉ removedKeys h → index (removeHopByHop h) k = index h k :=
  ⟨removeHopByHop_eq_filter h, fun _ hk => kept_index hk⟩

/-- Request side of the stack: no hop-by-hop header survives, on every outcome (forwarded,
flagged or loop). Headers the stack itself stamps are the subject of sections 2 and 3. -/
theorem stack_request_no_hop_by_hop (env : Env) (h : Header) (k : Bytes)
    (hk : k ∈ removedKeys h) (hs : k ∉ stampedKeys) : k ∉ keys (stackReq env h).1.hdr := by
  have hst : k ≠ kVia ∧ k ∉ fwdKeys := by
    simp only [stampedKeys, fwdKeys, List.mem_cons, List.not_mem_nil, or_false, not_or] at hs ⊢
    exact ⟨hs.1, hs.2⟩
  have hA : k ∉ keys (fwdHeader env (removeHopByHop h)) := by
    intro hm
    rcases fwd_keys hm with h1 | h1
    · exact hst.2 h1
    · exact removed_not_in_keys hk h1
  have hB : k ∉ keys (framingHeader (fwdHeader env (removeHopByHop h))).1 := fun hm => hA ((framing_other _).2 k hm)
  rcases stackReq_cases env h with ⟨e, _, hr⟩ | ⟨_, _, hr⟩ | ⟨_, _, hr⟩
  · rw [hr]; dsimp only; exact hB
  · rw [hr]; dsimp only; exact hB
  · rw [hr]
    dsimp only
    intro hm
    rcases mem_keys_set.mp hm with h1 | h1
    · rw [canon_kVia] at h1; exact hst.1 h1
    · exact hB h1

/-- Request side of the stack: every header that is neither hop-by-hop nor one the stack
writes (Via, X-Forwarded-*, Content-Length normalisation) has exactly its original lines. -/
theorem stack_request_others_untouched (env : Env) (h : Header) (k : Bytes)
    (hk : k ∉ removedKeys h) (hs : k ∉ stampedKeys) (hcl : k ≠ kCL) :
    index (stackReq env h).1.hdr k = index h k := by
  have hst : k ≠ kVia ∧ k ∉ fwdKeys := by
    simp only [stampedKeys, fwdKeys, List.mem_cons, List.not_mem_nil, or_false, not_or] at hs ⊢
    exact ⟨hs.1, hs.2⟩
  have hB : index (framingHeader (fwdHeader env (removeHopByHop h))).1 k = index h k := by
    rw [(framing_other _).1 k hcl, fwd_index_other hst.2, kept_index hk]
  rcases stackReq_cases env h with ⟨e, _, hr⟩ | ⟨_, _, hr⟩ | ⟨_, _, hr⟩
  · rw [hr]; dsimp only; exact hB
  · rw [hr]; dsimp only; exact hB
  · rw [hr]
    dsimp only
    rw [index_set, canon_kVia, if_neg hst.1]
    exact hB

/-- Response side of the stack without a loop: status and error-free, hop-by-hop headers gone,
everything else exactly as it was (by `hbh_others_untouched`). -/
theorem stack_response_no_loop (s : ResS) :
    stackRes false s = ({ s with hdr := removeHopByHop s.hdr }, []) ∧
    (∀ k ∈ removedKeys s.hdr, k ∉ keys (stackRes false s).1.hdr) ∧
    (∀ k, k ∉ removedKeys s.hdr → index (stackRes false s).1.hdr k = index s.hdr k) ∧
    (stackRes false s).1.status = s.status := by
  have hu : stackRes false s = ({ s with hdr := removeHopByHop s.hdr }, []) := by
    rw [stackRes_unfold]; simp
  refine ⟨hu, ?_, ?_, ?_⟩
  · intro k hk; rw [hu]; dsimp only; exact removed_not_in_keys hk
  · intro k hk; rw [hu]; dsimp only; exact kept_index hk
  · rw [hu]

/-! ## 2. Via: exactly one entry appended last; loops -/

/-- The loop test is "some comma-separated element of the Via chain has this instance's
pseudonym (`name-boundary`) as its second white-space-separated field". -/
theorem loop_detected_iff_instance_named (via tag : Bytes) :
    hasLoop via tag = true ↔ ∃ e ∈ split via comma, field2 (trimSpace e) = some tag := by
  simp [hasLoop, List.any_eq_true]

/-- The via modifier alone: a loop is reported (error, round trip skipped, context key set,
header untouched) exactly when the joined Via lines name this instance. -/
theorem via_loop_iff (env : Env) (s : RS) :
    ((viaReq env s).2 = some .loop ↔ hasLoop (join (index s.hdr kVia) commaSp) (tag env) = true) ∧
    (hasLoop (join (index s.hdr kVia) commaSp) (tag env) = true →
      (viaReq env s).1.skip = true ∧ (viaReq env s).1.loopKey = true ∧ (viaReq env s).1.hdr = s.hdr) := by
  cases hl : hasLoop (join (index s.hdr kVia) commaSp) (tag env) with
  | true => rw [viaReq_loop env s hl]; simp
  | false => rw [viaReq_noloop env s hl]; simp

/-- The via modifier alone, no loop: the header gets exactly ONE `Via` line, which is all the
existing lines joined by ", " followed by ", " and this proxy's entry (or just the entry when
there was none); no other header changes, no error, no skipping. -/
theorem via_exactly_one_appended_last (env : Env) (s : RS)
    (hl : hasLoop (join (index s.hdr kVia) commaSp) (tag env) = false) :
    (viaReq env s).2 = none ∧ (viaReq env s).1.skip = s.skip ∧
    index (viaReq env s).1.hdr kVia = [viaLine env (index s.hdr kVia)] ∧
    (∀ k, k ≠ kVia → index (viaReq env s).1.hdr k = index s.hdr k) := by
  rw [viaReq_noloop env s hl]
  refine ⟨rfl, rfl, ?_, ?_⟩
  · show index (set _ kVia _) kVia = _
    rw [index_set, canon_kVia, if_pos rfl]
  · intro k hk
    dsimp only
    rw [index_set, canon_kVia, if_neg hk]

/-- Shape of the line: existing chain first, this proxy's entry last. -/
theorem via_line_shape (env : Env) (old : List Bytes) :
    (join old commaSp = [] → viaLine env old = viaEntry env) ∧
    (join old commaSp ≠ [] → viaLine env old = join old commaSp ++ commaSp ++ viaEntry env) := by
  constructor <;> intro h <;> simp [viaLine, h]

/-- The Via chain the via modifier sees inside the stack: the original one unless `Via` itself
was named in `Connection` (then hop-by-hop removal has deleted it). -/
def effectiveVia (h : Header) : List Bytes := if kVia ∈ removedKeys h then [] else index h kVia

theorem stack_via_seen (env : Env) (h : Header) :
    index (framingHeader (fwdHeader env (removeHopByHop h))).1 kVia = effectiveVia h := by
  have hk := kne
  have hv : kVia ∉ fwdKeys := by
    simp only [fwdKeys, List.mem_cons, List.not_mem_nil, or_false, not_or]
    exact ⟨hk.2.2.2.2.2.2.1, hk.2.2.2.2.2.2.2.1, hk.2.2.2.2.2.2.2.2.1, hk.2.2.2.2.2.2.2.2.2.1⟩
  rw [(framing_other _).1 kVia hk.2.2.2.2.2.2.2.2.2.2.1, fwd_index_other hv]
  unfold effectiveVia
  split
  · next hm => exact removed_index hm
  · next hm => exact kept_index hm

/-- Stack: a request that is forwarded without error carries exactly one `Via` line: the
existing chain followed by this proxy's entry. -/
theorem stack_via_exactly_one_appended_last (env : Env) (h : Header) (hok : (stackReq env h).2 = []) :
    index (stackReq env h).1.hdr kVia = [viaLine env (effectiveVia h)] ∧ (stackReq env h).1.skip = false := by
  rcases stackReq_cases env h with ⟨e, _, hr⟩ | ⟨_, _, hr⟩ | ⟨_, _, hr⟩
  · rw [hr] at hok; simp at hok
  · rw [hr] at hok; simp at hok
  · rw [hr]
    refine ⟨?_, rfl⟩
    dsimp only
    rw [index_set, canon_kVia, if_pos rfl, stack_via_seen]

/-- Stack: a loop is never reported for a request whose Via chain does not name this instance. -/
theorem stack_no_false_loop (env : Env) (h : Header)
    (hn : hasLoop (join (index h kVia) commaSp) (tag env) = false) :
    Err.loop ∉ (stackReq env h).2 ∧ (stackReq env h).1.skip = false := by
  have hseen : hasLoop (join (index (framingHeader (fwdHeader env (removeHopByHop h))).1 kVia) commaSp) (tag env) = false := by
    rw [stack_via_seen]
    unfold effectiveVia
    split
    · exact hasLoop_nil _
    · exact hn
  rcases stackReq_cases env h with ⟨e, he, hr⟩ | ⟨_, hl, hr⟩ | ⟨_, _, hr⟩
  · rw [hr]
    refine ⟨?_, rfl⟩
    unfold framingHeader at he
    cases hc : framingCL (fwdHeader env (removeHopByHop h)) with
    | none => rw [hc] at he; simp at he; subst he; simp
    | some h1 =>
      rw [hc] at he
      rcases framingTE_err h1 with h0 | h0
      · simp [h0] at he
      · rw [h0] at he; injection he with he; subst he; simp
  · rw [hseen] at hl; exact Bool.noConfusion hl
  · rw [hr]; simp

/-- Response side of the stack for a request on which the loop was detected (context key
set): the response is turned into a 400 and the loop error is reported. -/
theorem stack_response_loop_400 (s : ResS) :
    (stackRes true s).1.status = 400 ∧ (stackRes true s).2 = [.loop] := by
  rw [stackRes_unfold]; simp

/-- The full loop clause for one header: a Via chain naming this instance ⇒ loop error, round
trip skipped (never sent upstream), context key set, and hence 400. -/
def LoopStopped (env : Env) (h : Header) : Prop :=
  hasLoop (join (index h kVia) commaSp) (tag env) = true →
    (stackReq env h).2 = [.loop] ∧ sentUpstream (stackReq env h).1 = false ∧
    (stackReq env h).1.loopKey = true ∧ ∀ res, (stackRes (stackReq env h).1.loopKey res).1.status = 400

/-- What the framing modifier answers inside the stack (after hop-by-hop removal and the
forwarded modifier). -/
def stackFramingErr (env : Env) (h : Header) : Option Err := (framingHeader (fwdHeader env (removeHopByHop h))).2

/-- PARTIAL (open findings F14b/F14c): the loop clause holds for every header in which `Via` is
not itself Connection-listed and which the framing modifier does not flag first. Missing: the
two excluded classes, for which `loop_counterexample_*` show the clause is false. -/
theorem loop_stopped_partial (env : Env) (h : Header)
    (hv : kVia ∉ removedKeys h) (hf : stackFramingErr env h = none) : LoopStopped env h := by
  intro hn
  have hseen : hasLoop (join (index (framingHeader (fwdHeader env (removeHopByHop h))).1 kVia) commaSp) (tag env) = true := by
    rw [stack_via_seen]; unfold effectiveVia; rw [if_neg hv]; exact hn
  rcases stackReq_cases env h with ⟨e, he, _⟩ | ⟨_, _, hr⟩ | ⟨_, hl, _⟩
  · unfold stackFramingErr at hf; rw [hf] at he; cases he
  · rw [hr]
    refine ⟨rfl, rfl, rfl, ?_⟩
    intro res
    exact (stack_response_loop_400 res).1
  · rw [hseen] at hl; exact Bool.noConfusion hl

/-- When does the framing modifier pass inside the stack? Whenever Content-Length is absent,
Connection-listed, or its values agree (Transfer-Encoding is always gone by then). -/
theorem stack_framing_passes (env : Env) (h : Header)
    (hc : kCL ∈ removedKeys h ∨ index h kCL = [] ∨ clScan (clTokens h) [] ≠ none) : stackFramingErr env h = none := by
  have hk := kne
  have hclf : kCL ∉ fwdKeys := by
    simp only [fwdKeys, List.mem_cons, List.not_mem_nil, or_false, not_or]
    exact ⟨hk.2.2.2.2.2.2.2.2.2.2.2.1, hk.2.2.2.2.2.2.2.2.2.2.2.2.1, hk.2.2.2.2.2.2.2.2.2.2.2.2.2.1, hk.2.2.2.2.2.2.2.2.2.2.2.2.2.2.1⟩
  have htef : kTE ∉ fwdKeys := by
    simp only [fwdKeys, List.mem_cons, List.not_mem_nil, or_false, not_or]
    exact ⟨hk.2.2.2.2.2.2.2.2.2.2.2.2.2.2.2.1, hk.2.2.2.2.2.2.2.2.2.2.2.2.2.2.2.2.1, hk.2.2.2.2.2.2.2.2.2.2.2.2.2.2.2.2.2.1,
      hk.2.2.2.2.2.2.2.2.2.2.2.2.2.2.2.2.2.2.1⟩
  have hte : kTE ∈ removedKeys h := by
    simp only [removedKeys, List.map_append, List.mem_append]
    exact Or.inr (by decide)
  have hte0 : index (fwdHeader env (removeHopByHop h)) kTE = [] := by
    rw [fwd_index_other htef]; exact removed_index hte
  have hcl : index (fwdHeader env (removeHopByHop h)) kCL = if kCL ∈ removedKeys h then [] else index h kCL := by
    rw [fwd_index_other hclf]
    split
    · next hm => exact removed_index hm
    · next hm => exact kept_index hm
  have htok : clTokens (fwdHeader env (removeHopByHop h)) = if kCL ∈ removedKeys h then [] else clTokens h := by
    unfold clTokens; rw [hcl]; split <;> rfl
  unfold stackFramingErr framingHeader
  cases hcs : framingCL (fwdHeader env (removeHopByHop h)) with
  | none =>
    exfalso
    unfold framingCL at hcs
    rw [hcl, htok] at hcs
    by_cases hm : kCL ∈ removedKeys h
    · simp [hm] at hcs
    · simp only [hm, if_false] at hcs
      rcases hc with h1 | h1 | h1
      · exact hm h1
      · simp [h1] at hcs
      · split at hcs
        · split at hcs
          · next hn => exact h1 hn
          · cases hcs
        · cases hcs
  | some h1 =>
    have := (framingCL_some hcs).1 kTE hk.2.2.2.2.2.2.2.2.2.2.2.2.2.2.2.2.2.2.2.1
    have h10 : index h1 kTE = [] := by rw [this]; exact hte0
    show (framingTE h1).2 = none
    rw [framingTE_absent h10]

/-! ## 3. X-Forwarded-* -/

/-- The forwarded modifier: `X-Forwarded-For` becomes one line, all existing lines joined by
", " followed by the client address (the host part of RemoteAddr). -/
theorem xff_appends (env : Env) (h : Header) :
    index (fwdHeader env h) kXFF = [xffLine env (index h kXFF)] ∧
    (join (index h kXFF) commaSp = [] → xffLine env (index h kXFF) = clientOf env.remote) ∧
    (join (index h kXFF) commaSp ≠ [] →
      xffLine env (index h kXFF) = join (index h kXFF) commaSp ++ commaSp ++ clientOf env.remote) := by
  refine ⟨fwd_index_xff env h, ?_, ?_⟩ <;> intro hv <;> simp [xffLine, hv]

/-- `X-Forwarded-Proto`, `-Host`, `-Url`: preserved (all lines) when a first value exists, else set
to the request's scheme / Host / URL. -/
theorem proto_host_url_preserved_or_set (env : Env) (h : Header) :
    (index (fwdHeader env h) kXFProto = if get h kXFProto = [] then [env.scheme] else index h kXFProto) ∧
    (index (fwdHeader env h) kXFHost = if get h kXFHost = [] then [env.host] else index h kXFHost) ∧
    (index (fwdHeader env h) kXFUrl = if get h kXFUrl = [] then [env.url] else index h kXFUrl) :=
  ⟨fwd_index_proto env h, fwd_index_host env h, fwd_index_url env h⟩

/-- The forwarded modifier touches nothing else. -/
theorem fwd_others_untouched (env : Env) (h : Header) (k : Bytes) (hk : k ∉ fwdKeys) :
    index (fwdHeader env h) k = index h k := fwd_index_other hk

/-- Stack, every outcome: `X-Forwarded-For` is the surviving existing chain followed by the
client address (existing = the original lines unless the header was Connection-listed). -/
theorem stack_xff (env : Env) (h : Header) :
    index (stackReq env h).1.hdr kXFF =
      [xffLine env (if kXFF ∈ removedKeys h then [] else index h kXFF)] := by
  have hk := kne
  have hB : index (framingHeader (fwdHeader env (removeHopByHop h))).1 kXFF =
      [xffLine env (if kXFF ∈ removedKeys h then [] else index h kXFF)] := by
    rw [(framing_other _).1 kXFF (Ne.symm hk.2.2.2.2.2.2.2.2.2.2.2.1), fwd_index_xff]
    congr 2
    split
    · next hm => exact removed_index hm
    · next hm => exact kept_index hm
  rcases stackReq_cases env h with ⟨e, _, hr⟩ | ⟨_, _, hr⟩ | ⟨_, _, hr⟩
  · rw [hr]; dsimp only; exact hB
  · rw [hr]; dsimp only; exact hB
  · rw [hr]
    dsimp only
    rw [index_set, canon_kVia, if_neg (Ne.symm hk.2.2.2.2.2.2.1)]
    exact hB

/-! ## 4. framing errors -/

/-- A Transfer-Encoding whose last comma-separated value of the last line is not `chunked`. -/
def teBad (h : Header) : Prop := index h kTE ≠ [] ∧ teLast h ≠ chunked

/-- The framing modifier alone flags every request with conflicting Content-Length values or
a Transfer-Encoding not ending in chunked. -/
theorem framing_flagged (h : Header) (hb : clConflict h ∨ teBad h) : (framingHeader h).2 ≠ none := by
  unfold framingHeader
  cases hc : framingCL h with
  | none => simp
  | some h1 =>
    rcases hb with hb | hb
    · rw [framingCL_conflict hb] at hc; cases hc
    · have hk := kne
      have hi := (framingCL_some hc).1 kTE hk.2.2.2.2.2.2.2.2.2.2.2.2.2.2.2.2.2.2.2.1
      have hp : index h1 kTE ≠ [] := by rw [hi]; exact hb.1
      have hl : teLast h1 ≠ chunked := by unfold teLast; rw [hi]; exact hb.2
      show (framingTE h1).2 ≠ none
      rw [framingTE_bad hp hl]; simp

/-- The framing clause for the whole stack, for one header. -/
def FramingFlagged (env : Env) (h : Header) : Prop := clConflict h ∨ teBad h → (stackReq env h).2 ≠ []

/-- PARTIAL (open finding F14b): inside the stack, conflicting Content-Length values are
flagged (error `cl`, nothing skipped) provided Content-Length is not Connection-listed.
Missing: Transfer-Encoding (always removed before the check) and Connection-listed
Content-Length — `framing_counterexample_*` show the clause is false there. -/
theorem framing_flagged_partial (env : Env) (h : Header) (hcl : kCL ∉ removedKeys h) (hc : clConflict h) :
    (stackReq env h).2 = [.cl] ∧ (stackReq env h).1.skip = false := by
  have hk := kne
  have hclf : kCL ∉ fwdKeys := by
    simp only [fwdKeys, List.mem_cons, List.not_mem_nil, or_false, not_or]
    exact ⟨hk.2.2.2.2.2.2.2.2.2.2.2.1, hk.2.2.2.2.2.2.2.2.2.2.2.2.1, hk.2.2.2.2.2.2.2.2.2.2.2.2.2.1, hk.2.2.2.2.2.2.2.2.2.2.2.2.2.2.1⟩
  have hi : index (fwdHeader env (removeHopByHop h)) kCL = index h kCL := by
    rw [fwd_index_other hclf, kept_index hcl]
  have hc' : clConflict (fwdHeader env (removeHopByHop h)) := by
    unfold clConflict clTokens at hc ⊢
    rw [hi]; exact hc
  have hf : framingHeader (fwdHeader env (removeHopByHop h)) = (fwdHeader env (removeHopByHop h), some .cl) := by
    unfold framingHeader; rw [framingCL_conflict hc']
  rcases stackReq_cases env h with ⟨e, he, hr⟩ | ⟨he, _, _⟩ | ⟨he, _, _⟩
  · rw [hr]; rw [hf] at he; injection he with he; subst he; exact ⟨rfl, rfl⟩
  · rw [hf] at he; cases he
  · rw [hf] at he; cases he

/-! ## 5. open findings: concrete witnesses (decided by evaluation) -/

def env0 : Env :=
  { major := 1, minor := 1, name := strBytes "martian", boundary := strBytes "00", scheme := strBytes "http",
    host := strBytes "example.com", url := strBytes "http://example.com/", remote := strBytes "192.0.2.1:4711" }

/-- F14b: `Transfer-Encoding: gzip`. -/
def hTE : Header := [(kTE, [strBytes "gzip"])]
/-- F14b: `Connection: content-length` with `Content-Length: 5` and `Content-Length: 6`. -/
def hCLListed : Header := [(kConnection, [strBytes "content-length"]), (kCL, [strBytes "5", strBytes "6"])]
/-- F14b: `Connection: via` with a Via chain naming this instance. -/
def hViaListed : Header := [(kConnection, [strBytes "via"]), (kVia, [strBytes "1.1 martian-00"])]
/-- F14c: conflicting Content-Length and a Via chain naming this instance. -/
def hLoopCL : Header := [(kCL, [strBytes "5", strBytes "6"]), (kVia, [strBytes "1.1 martian-00"])]

theorem teBad_hTE : teBad hTE := by unfold teBad; decide
theorem clConflict_hCLListed : clConflict hCLListed :=
  ⟨strBytes "5", by decide, strBytes "6", by decide, by decide, by decide, by decide⟩

/-- F14b witness 1: the framing modifier alone flags `hTE`, the stack does not. -/
theorem framing_counterexample_te : (framingHeader hTE).2 = some .te ∧ ¬ FramingFlagged env0 hTE := by
  refine ⟨by decide, ?_⟩
  intro hf
  exact hf (Or.inr teBad_hTE) (by decide)

/-- F14b witness 2: Connection-listed Content-Length hides the conflict from the stack. -/
theorem framing_counterexample_cl_listed :
    (framingHeader hCLListed).2 = some .cl ∧ ¬ FramingFlagged env0 hCLListed := by
  refine ⟨by decide, ?_⟩
  intro hf
  exact hf (Or.inl clConflict_hCLListed) (by decide)

/-- F14b witness 3: Connection-listed Via hides the loop from the stack (the via modifier alone sees it). -/
theorem loop_counterexample_via_listed :
    (viaReq env0 { hdr := hViaListed }).2 = some .loop ∧ ¬ LoopStopped env0 hViaListed := by
  refine ⟨by decide, ?_⟩
  intro hf
  have := (hf (by decide)).1
  revert this
  decide

/-- F14c witness: the framing error pre-empts loop detection (first-error semantics). -/
theorem loop_counterexample_after_framing_error : ¬ LoopStopped env0 hLoopCL := by
  intro hf
  have := (hf (by decide)).1
  revert this
  decide

/-! ## 6. non-vacuity: the hypotheses above are satisfiable, the stack does all of it at once -/

def hGood : Header := [(strBytes "Accept", [strBytes "a", strBytes "b"]), (kConnection, [strBytes " keep-alive ,X-CUSTOM", strBytes "close"]),
  (strBytes "X-Custom", [strBytes "1"]), (strBytes "Keep-Alive", [strBytes "timeout=5"]), (kVia, [strBytes "1.0 fred", strBytes "1.1 p"]),
  (kXFF, [strBytes "10.0.0.1"]), (kCL, [strBytes "5", strBytes "5"])]

/-- Test (evaluation on one concrete header): forwarded without error; Keep-Alive, X-Custom and
Connection are gone; Accept is untouched; Via and X-Forwarded-For were appended to. -/
example : (stackReq env0 hGood).2 = [] ∧
    keys (stackReq env0 hGood).1.hdr = [strBytes "Accept", kXFProto, kXFHost, kXFUrl, kXFF, kCL, kVia] ∧
    index (stackReq env0 hGood).1.hdr (strBytes "Accept") = [strBytes "a", strBytes "b"] ∧
    index (stackReq env0 hGood).1.hdr kVia = [strBytes "1.0 fred, 1.1 p, 1.1 martian-00"] ∧
    index (stackReq env0 hGood).1.hdr kXFF = [strBytes "10.0.0.1, 192.0.2.1"] ∧
    index (stackReq env0 hGood).1.hdr kCL = [strBytes "5"] := by decide

/-- Hypotheses of `loop_stopped_partial` are satisfiable together with the loop premise. -/
example : kVia ∉ removedKeys [(kVia, [strBytes "1.0 fred, 1.1 martian-00"])] ∧
    stackFramingErr env0 [(kVia, [strBytes "1.0 fred, 1.1 martian-00"])] = none ∧
    hasLoop (join (index [(kVia, [strBytes "1.0 fred, 1.1 martian-00"])] kVia) commaSp) (tag env0) = true := by decide

/-- Hypotheses of `framing_flagged_partial` are satisfiable. -/
example : kCL ∉ removedKeys [(kCL, [strBytes "5, 6"])] ∧ clConflict [(kCL, [strBytes "5, 6"])] :=
  ⟨by decide, strBytes "5", by decide, strBytes " 6", by decide, by decide, by decide, by decide⟩

/-- `connection_token_any_case` is not vacuous. -/
example : toLower (strBytes "KEEP-alive") = toLower (strBytes "Keep-Alive") ∧
    canonKey (strBytes "KEEP-alive") = strBytes "Keep-Alive" := by decide

end Martian.Props.C14
