import Martian.Lemmas.HttpSpec
import Martian.Props.C14.AnyCase
import Martian.Props.C14.Exchange
import Martian.Props.C14.Elements
/-!
C14 — The spec-compliance stack strips hop-by-hop headers, stamps Via and stops loops.
Only property theorems, non-vacuity examples, and (for the one open finding, the Connection-listed
Via loop of F14b) the counterexample witness and the `_partial` theorem live here. Two more
groups are in `Props/C14/AnyCase.lean` (names in any letter case, non-canonical keys,
Proxy-Connection) and `Props/C14/Exchange.lean` (one exchange through a proxy using the stack).

The stack is `httpspec.NewStack` after the two C14 repairs: request side framing, hop-by-hop,
forwarded, via, user group; response side user group, via, hop-by-hop; every member runs and
the errors are collected (`aggregateErrors = true`).

Quantifiers: every header `h : Header` (any number of keys, lines per key, bytes per line —
"all header multisets"), every request environment `env` (protocol version, proxy name and
boundary, scheme, host, URL, remote address). Headers are association lists standing for Go's
`map[string][]string`; `index h k` is `h[k]`, `keys h` the set of keys.

The hop-by-hop list and the order of the stack are the regenerated facts
`Generated.HttpSpec.hopByHop / requestOrder / responseOrder` (see Model/HttpSpec.lean).
-/
namespace Martian.Props.C14
open Martian Martian.Go Martian.Go.Header Martian.HttpSpec

/-! ## 1. hop-by-hop headers -/

/-- Finite table check: every RFC hop-by-hop field is in the list literal of the source
(`Generated.HttpSpec.hopByHop`, regenerated on every run). Deleting one breaks this theorem. -/
theorem rfc_hop_by_hop_listed : ∀ k ∈ rfcHopByHop, canonKey k ∈ fixedList.map canonKey := by decide

/-- No header the modifier is to remove survives (fixed list or Connection-listed). -/
theorem hbh_removed (h : Header) (k : Bytes) (hk : k ∈ removedKeys h) : k ∉ keys (removeHopByHop h) :=
  removed_not_in_keys hk

/-- No header fixed by the HTTP specification survives, whatever else is in the header. -/
theorem hbh_fixed_removed (h : Header) : ∀ k ∈ rfcHopByHop, canonKey k ∉ keys (removeHopByHop h) := by
  intro k hk
  apply removed_not_in_keys
  have := rfc_hop_by_hop_listed k hk
  simp only [removedKeys, List.map_append, List.mem_append]
  exact Or.inr this

/-- No header named in any `Connection` line survives: every comma-separated piece of every
line, with any white space around it, under its canonical key. -/
theorem hbh_connection_listed_removed (h : Header) :
    ∀ line ∈ index h kConnection, ∀ tok ∈ split line comma, canonKey (trimSpace tok) ∉ keys (removeHopByHop h) := by
  intro line hl tok ht
  apply removed_not_in_keys
  simp only [removedKeys, List.map_append, List.mem_append, List.mem_map]
  refine Or.inl ⟨canonKey (trimSpace tok), ?_, canonKey_idem _⟩
  simp only [connTokens, List.mem_flatMap, List.mem_map]
  exact ⟨line, hl, tok, ht, rfl⟩

/-- "In any case": a token that differs from a header name only in letter case denotes the same
canonical key, i.e. the key under which net/http stores that header. -/
theorem connection_token_any_case (name tok : Bytes) (hn : name.all validHeaderFieldByte = true)
    (hc : toLower tok = toLower name) : canonKey tok = canonKey name :=
  canonKey_eq_of_toLower_eq name tok hn hc

/-- Every other header is untouched: the result is exactly the input with the removed keys
filtered out — nothing added, no value changed, order of values (and of keys) kept. -/
theorem hbh_others_untouched (h : Header) :
    removeHopByHop h = h.filter (fun e => !(removedKeys h).contains e.1) ∧
    ∀ k, k ∉ removedKeys h → index (removeHopByHop h) k = index h k :=
  ⟨removeHopByHop_eq_filter h, fun _ hk => kept_index hk⟩

/-- Request side of the stack: no hop-by-hop header survives, on every outcome (forwarded,
flagged or loop). Headers the stack itself stamps are the subject of sections 2 and 3. -/
theorem stack_request_no_hop_by_hop (env : Env) (h : Header) (k : Bytes)
    (hk : k ∈ removedKeys h) (hs : k ∉ stampedKeys) : k ∉ keys (stackReq env h).1.hdr := by
  have hst : k ≠ kVia ∧ k ∉ fwdKeys := by
    simp only [stampedKeys, fwdKeys, List.mem_cons, List.not_mem_nil, or_false, not_or] at hs ⊢
    exact ⟨hs.1, hs.2⟩
  have hB : k ∉ keys (preVia env h) := by
    intro hm
    rcases preVia_keys hm with h1 | h1
    · exact hst.2 h1
    · exact h1.2 hk
  rcases stackReq_cases env h with ⟨_, hr⟩ | ⟨_, hr⟩
  · rw [hr]; exact hB
  · rw [hr]
    intro hm
    rcases mem_keys_set.mp hm with h1 | h1
    · rw [canon_kVia] at h1; exact hst.1 h1
    · exact hB h1

/-- Request side of the stack: every header that is neither hop-by-hop nor one the stack
writes (Via, X-Forwarded-*, Content-Length normalisation) has exactly its original lines. -/
theorem stack_request_others_untouched (env : Env) (h : Header) (k : Bytes)
    (hk : k ∉ removedKeys h) (hs : k ∉ stampedKeys) (hcl : k ≠ kCL) :
    index (stackReq env h).1.hdr k = index h k := by
  have hst : k ≠ kVia ∧ k ∉ fwdKeys := by
    simp only [stampedKeys, fwdKeys, List.mem_cons, List.not_mem_nil, or_false, not_or] at hs ⊢
    exact ⟨hs.1, hs.2⟩
  have hB : index (preVia env h) k = index h k := by
    rw [preVia_index_other hst.2, if_neg hk, (framing_other h).1 k hcl]
  rcases stackReq_cases env h with ⟨_, hr⟩ | ⟨_, hr⟩
  · rw [hr]; exact hB
  · rw [hr]
    show index (set _ kVia _) k = _
    rw [index_set, canon_kVia, if_neg hst.1]
    exact hB

/-- Request side of the stack, `Content-Length`: gone when Connection-listed, else exactly what
the framing modifier alone leaves (`framing_content_length` below says what that is). -/
theorem stack_content_length (env : Env) (h : Header) :
    index (stackReq env h).1.hdr kCL = if kCL ∈ removedKeys h then [] else index (framingHeader h).1 kCL := by
  have hB := @preVia_index_other env h kCL kCL_notin_fwdKeys
  rcases stackReq_cases env h with ⟨_, hr⟩ | ⟨_, hr⟩
  · rw [hr]; exact hB
  · rw [hr]
    show index (set _ kVia _) kCL = _
    rw [index_set, canon_kVia, if_neg (Ne.symm kVia_ne_kCL)]
    exact hB

/-- Response side of the stack without a loop: status and error-free, hop-by-hop headers gone,
everything else exactly as it was (by `hbh_others_untouched`). -/
theorem stack_response_no_loop (s : ResS) :
    stackRes false s = ({ s with hdr := removeHopByHop s.hdr }, []) ∧
    (∀ k ∈ removedKeys s.hdr, k ∉ keys (stackRes false s).1.hdr) ∧
    (∀ k, k ∉ removedKeys s.hdr → index (stackRes false s).1.hdr k = index s.hdr k) ∧
    (stackRes false s).1.status = s.status := by
  have hu : stackRes false s = ({ s with hdr := removeHopByHop s.hdr }, []) := by
    rw [stackRes_unfold]; simp
  refine ⟨hu, ?_, ?_, ?_⟩
  · intro k hk; rw [hu]; dsimp only; exact removed_not_in_keys hk
  · intro k hk; rw [hu]; dsimp only; exact kept_index hk
  · rw [hu]

/-! ## 2. Via: exactly one entry appended last; loops -/

/-- The loop test is "some comma-separated element of the Via chain has this instance's
pseudonym (`name-boundary`) as its second white-space-separated field". -/
theorem loop_detected_iff_instance_named (via tag : Bytes) :
    hasLoop via tag = true ↔ ∃ e ∈ split via comma, field2 (trimSpace e) = some tag := by
  simp [hasLoop, List.any_eq_true]

/-- The via modifier alone: a loop is reported (error, round trip skipped, context key set,
header untouched) exactly when the joined Via lines name this instance. -/
theorem via_loop_iff (env : Env) (s : RS) :
    ((viaReq env s).2 = some .loop ↔ hasLoop (join (index s.hdr kVia) commaSp) (tag env) = true) ∧
    (hasLoop (join (index s.hdr kVia) commaSp) (tag env) = true →
      (viaReq env s).1.skip = true ∧ (viaReq env s).1.loopKey = true ∧ (viaReq env s).1.hdr = s.hdr) := by
  cases hl : hasLoop (join (index s.hdr kVia) commaSp) (tag env) with
  | true => rw [viaReq_loop env s hl]; simp
  | false => rw [viaReq_noloop env s hl]; simp

/-- The via modifier alone, no loop: the header gets exactly ONE `Via` line, which is all the
existing lines joined by ", " followed by ", " and this proxy's entry (or just the entry when
there was none); no other header changes, no error, no skipping. -/
theorem via_exactly_one_appended_last (env : Env) (s : RS)
    (hl : hasLoop (join (index s.hdr kVia) commaSp) (tag env) = false) :
    (viaReq env s).2 = none ∧ (viaReq env s).1.skip = s.skip ∧
    index (viaReq env s).1.hdr kVia = [viaLine env (index s.hdr kVia)] ∧
    (∀ k, k ≠ kVia → index (viaReq env s).1.hdr k = index s.hdr k) := by
  rw [viaReq_noloop env s hl]
  refine ⟨rfl, rfl, ?_, ?_⟩
  · show index (set _ kVia _) kVia = _
    rw [index_set, canon_kVia, if_pos rfl]
  · intro k hk
    dsimp only
    rw [index_set, canon_kVia, if_neg hk]

/-- Shape of the line: existing chain first, this proxy's entry last. -/
theorem via_line_shape (env : Env) (old : List Bytes) :
    (join old commaSp = [] → viaLine env old = viaEntry env) ∧
    (join old commaSp ≠ [] → viaLine env old = join old commaSp ++ commaSp ++ viaEntry env) := by
  constructor <;> intro h <;> simp [viaLine, h]

/-- The Via chain the via modifier sees inside the stack: the original one unless `Via` itself
was named in `Connection` (then hop-by-hop removal has deleted it). -/
def effectiveVia (h : Header) : List Bytes := if kVia ∈ removedKeys h then [] else index h kVia

theorem stack_via_seen (env : Env) (h : Header) : index (preVia env h) kVia = effectiveVia h := by
  rw [preVia_index_other kVia_notin_fwdKeys, (framing_other h).1 kVia kVia_ne_kCL]
  rfl

/-- Whether the stack reports a loop: exactly when the chain it sees names this instance. -/
def stackLoop (env : Env) (h : Header) : Bool := hasLoop (join (effectiveVia h) commaSp) (tag env)

/-- The errors of the request side, exactly: the framing modifier's verdict on the header as
received, then the loop error iff the surviving Via chain names this instance. Nothing else, no
member pre-empts another. -/
theorem stack_errors_exact (env : Env) (h : Header) :
    (stackReq env h).2 = framingErrs h ++ (if stackLoop env h then [.loop] else []) ∧
    (stackReq env h).1.skip = stackLoop env h ∧ (stackReq env h).1.loopKey = stackLoop env h := by
  unfold stackLoop
  rw [← stack_via_seen env h]
  rcases stackReq_cases env h with ⟨hl, hr⟩ | ⟨hl, hr⟩
  · rw [hr, hl]; exact ⟨rfl, rfl, rfl⟩
  · rw [hr, hl]; exact ⟨by simp, rfl, rfl⟩

/-- Stack: every request in which no loop is seen — flagged by the framing modifier or not — is
not skipped and carries exactly one `Via` line: the existing chain followed by this proxy's entry. -/
theorem stack_via_exactly_one_appended_last (env : Env) (h : Header) (hok : Err.loop ∉ (stackReq env h).2) :
    index (stackReq env h).1.hdr kVia = [viaLine env (effectiveVia h)] ∧ (stackReq env h).1.skip = false := by
  rcases stackReq_cases env h with ⟨_, hr⟩ | ⟨_, hr⟩
  · rw [hr] at hok; simp at hok
  · rw [hr]
    refine ⟨?_, rfl⟩
    show index (set _ kVia _) kVia = _
    rw [index_set, canon_kVia, if_pos rfl, stack_via_seen]

/-- Stack: a loop is never reported for a request whose Via chain does not name this instance. -/
theorem stack_no_false_loop (env : Env) (h : Header)
    (hn : hasLoop (join (index h kVia) commaSp) (tag env) = false) :
    Err.loop ∉ (stackReq env h).2 ∧ (stackReq env h).1.skip = false := by
  have hl : stackLoop env h = false := by
    unfold stackLoop effectiveVia
    split
    · exact hasLoop_nil _
    · exact hn
  have he := stack_errors_exact env h
  rw [hl] at he
  refine ⟨?_, he.2.1⟩
  rw [he.1]
  simpa using framingErrs_no_loop h

/-- Response side of the stack for a request on which the loop was detected (context key
set): the response is turned into a 400, the loop error is reported, and (every member runs)
the hop-by-hop headers are removed as well. -/
theorem stack_response_loop_400 (s : ResS) :
    (stackRes true s).1.status = 400 ∧ (stackRes true s).2 = [.loop] ∧
    (stackRes true s).1.hdr = removeHopByHop s.hdr := by
  rw [stackRes_unfold]; simp

/-- The full loop clause for one header: a Via chain naming this instance ⇒ loop error, round
trip skipped (never sent upstream), context key set, and hence 400. -/
def LoopStopped (env : Env) (h : Header) : Prop :=
  hasLoop (join (index h kVia) commaSp) (tag env) = true →
    Err.loop ∈ (stackReq env h).2 ∧ sentUpstream (stackReq env h).1 = false ∧
    (stackReq env h).1.loopKey = true ∧ ∀ res, (stackRes (stackReq env h).1.loopKey res).1.status = 400

/-- PARTIAL (open finding F14b, Connection-listed Via): the loop clause holds for every header
in which `Via` is not itself Connection-listed — whatever the framing modifier says about it
(F14c is repaired). Missing: the excluded class, for which `loop_counterexample_via_listed`
shows the clause is false. -/
theorem loop_stopped_partial (env : Env) (h : Header) (hv : kVia ∉ removedKeys h) : LoopStopped env h := by
  intro hn
  have hl : stackLoop env h = true := by
    unfold stackLoop effectiveVia; rw [if_neg hv]; exact hn
  have he := stack_errors_exact env h
  rw [hl] at he
  refine ⟨?_, ?_, he.2.2, ?_⟩
  · rw [he.1]; simp
  · simp [sentUpstream, he.2.1]
  · intro res
    rw [he.2.2]
    exact (stack_response_loop_400 res).1

/-! ## 3. X-Forwarded-* -/

/-- The forwarded modifier: `X-Forwarded-For` becomes one line, all existing lines joined by
", " followed by the client address (the host part of RemoteAddr). -/
theorem xff_appends (env : Env) (h : Header) :
    index (fwdHeader env h) kXFF = [xffLine env (index h kXFF)] ∧
    (join (index h kXFF) commaSp = [] → xffLine env (index h kXFF) = clientOf env.remote) ∧
    (join (index h kXFF) commaSp ≠ [] →
      xffLine env (index h kXFF) = join (index h kXFF) commaSp ++ commaSp ++ clientOf env.remote) := by
  refine ⟨fwd_index_xff env h, ?_, ?_⟩ <;> intro hv <;> simp [xffLine, hv]

/-- `X-Forwarded-Proto`, `-Host`, `-Url`: preserved (all lines) when a first value exists, else set
to the request's scheme / Host / URL. -/
theorem proto_host_url_preserved_or_set (env : Env) (h : Header) :
    (index (fwdHeader env h) kXFProto = if get h kXFProto = [] then [env.scheme] else index h kXFProto) ∧
    (index (fwdHeader env h) kXFHost = if get h kXFHost = [] then [env.host] else index h kXFHost) ∧
    (index (fwdHeader env h) kXFUrl = if get h kXFUrl = [] then [env.url] else index h kXFUrl) :=
  ⟨fwd_index_proto env h, fwd_index_host env h, fwd_index_url env h⟩

/-- The forwarded modifier touches nothing else. -/
theorem fwd_others_untouched (env : Env) (h : Header) (k : Bytes) (hk : k ∉ fwdKeys) :
    index (fwdHeader env h) k = index h k := fwd_index_other hk

/-- Stack, every outcome: `X-Forwarded-For` is the surviving existing chain followed by the
client address (existing = the original lines unless the header was Connection-listed). -/
theorem stack_xff (env : Env) (h : Header) :
    index (stackReq env h).1.hdr kXFF =
      [xffLine env (if kXFF ∈ removedKeys h then [] else index h kXFF)] := by
  have hk := kne
  have hidx : index (removeHopByHop (framingHeader h).1) kXFF = if kXFF ∈ removedKeys h then [] else index h kXFF := by
    split
    · next hm => exact removed_index (by rw [removedKeys_framing]; exact hm)
    · next hm =>
      rw [kept_index (by rw [removedKeys_framing]; exact hm), (framing_other h).1 kXFF (Ne.symm hk.2.2.2.2.2.2.2.2.2.2.2.1)]
  have hB : index (preVia env h) kXFF = [xffLine env (if kXFF ∈ removedKeys h then [] else index h kXFF)] := by
    unfold preVia
    rw [fwd_index_xff, hidx]
  rcases stackReq_cases env h with ⟨_, hr⟩ | ⟨_, hr⟩
  · rw [hr]; exact hB
  · rw [hr]
    show index (set _ kVia _) kXFF = _
    rw [index_set, canon_kVia, if_neg (Ne.symm hk.2.2.2.2.2.2.1)]
    exact hB

/-- Stack, every outcome: `X-Forwarded-Proto`, `-Host`, `-Url` keep their surviving lines when
the first of them is non-empty, else reflect the request (surviving = the original lines unless
the header was Connection-listed). -/
theorem stack_proto_host_url (env : Env) (h : Header) :
    let old := fun k => if k ∈ removedKeys h then [] else index h k
    index (stackReq env h).1.hdr kXFProto = (if (old kXFProto).headD [] = [] then [env.scheme] else old kXFProto) ∧
    index (stackReq env h).1.hdr kXFHost = (if (old kXFHost).headD [] = [] then [env.host] else old kXFHost) ∧
    index (stackReq env h).1.hdr kXFUrl = (if (old kXFUrl).headD [] = [] then [env.url] else old kXFUrl) := by
  intro old
  have hk := kne
  have hbase : ∀ k ∈ fwdKeys, index (removeHopByHop (framingHeader h).1) k = old k := by
    intro k hkf
    show _ = if k ∈ removedKeys h then [] else index h k
    split
    · next hm => exact removed_index (by rw [removedKeys_framing]; exact hm)
    · next hm => rw [kept_index (by rw [removedKeys_framing]; exact hm), (framing_other h).1 k (fwdKeys_ne_kCL k hkf)]
  have hfin : ∀ k ∈ fwdKeys, index (stackReq env h).1.hdr k = index (preVia env h) k := by
    intro k hkf
    rcases stackReq_cases env h with ⟨_, hr⟩ | ⟨_, hr⟩
    · rw [hr]
    · rw [hr]
      show index (set _ kVia _) k = _
      rw [index_set, canon_kVia, if_neg (fwdKeys_ne_kVia k hkf)]
  have hp := fwd_index_proto env (removeHopByHop (framingHeader h).1)
  have hh := fwd_index_host env (removeHopByHop (framingHeader h).1)
  have hu := fwd_index_url env (removeHopByHop (framingHeader h).1)
  simp only [Header.get, Header.values, canon_kXFProto, canon_kXFHost, canon_kXFUrl] at hp hh hu
  rw [hbase kXFProto (by decide)] at hp
  rw [hbase kXFHost (by decide)] at hh
  rw [hbase kXFUrl (by decide)] at hu
  refine ⟨?_, ?_, ?_⟩
  · rw [hfin kXFProto (by decide)]; exact hp
  · rw [hfin kXFHost (by decide)]; exact hh
  · rw [hfin kXFUrl (by decide)]; exact hu

/-! ## 4. framing errors -/

/-- A Transfer-Encoding whose last comma-separated value of the last line is not `chunked`. -/
def teBad (h : Header) : Prop := index h kTE ≠ [] ∧ teLast h ≠ chunked

/-- The framing modifier alone flags every request with conflicting Content-Length values or
a Transfer-Encoding not ending in chunked. -/
theorem framing_flagged (h : Header) (hb : clConflict h ∨ teBad h) : (framingHeader h).2 ≠ none := by
  unfold framingHeader
  cases hc : framingCL h with
  | none => simp
  | some h1 =>
    rcases hb with hb | hb
    · rw [framingCL_conflict hb] at hc; cases hc
    · have hi := (framingCL_some hc).1 kTE kTE_ne_kCL
      have hp : index h1 kTE ≠ [] := by rw [hi]; exact hb.1
      have hl : teLast h1 ≠ chunked := by unfold teLast; rw [hi]; exact hb.2
      show (framingTE h1).2 ≠ none
      rw [framingTE_bad hp hl]; simp

/-- The framing modifier never invents an error: without Content-Length and Transfer-Encoding
it returns none and leaves the header alone. -/
theorem framing_no_spurious_error (h : Header) (hc : index h kCL = []) (ht : index h kTE = []) :
    framingHeader h = (h, none) := by
  unfold framingHeader
  rw [framingCL_of_absent hc]
  exact framingTE_absent ht

/-- What the framing modifier leaves as `Content-Length` when it does not object: nothing when a
Transfer-Encoding (ending in chunked) is present, else the one agreed value, else nothing. -/
theorem framing_content_length (h : Header) (hok : (framingHeader h).2 = none) :
    index (framingHeader h).1 kCL =
      if index h kTE ≠ [] then []
      else if index h kCL ≠ [] then [(clScan (clTokens h) []).getD []] else [] := by
  unfold framingHeader at hok ⊢
  cases hc : framingCL h with
  | none => rw [hc] at hok; simp at hok
  | some h1 =>
    rw [hc] at hok
    have hte : index h1 kTE = index h kTE := (framingCL_some hc).1 kTE kTE_ne_kCL
    have hcl : index h1 kCL = if index h kCL ≠ [] then [(clScan (clTokens h) []).getD []] else [] := by
      unfold framingCL at hc
      by_cases hp : (index h kCL).length > 0
      · have hne : index h kCL ≠ [] := List.length_pos_iff.mp hp
        simp only [hp, if_true] at hc
        cases hs : clScan (clTokens h) [] with
        | none => rw [hs] at hc; cases hc
        | some len =>
          rw [hs] at hc
          injection hc with hc
          subst hc
          simp [index_set, canon_kCL, hne]
      · have h0 : index h kCL = [] := by
          cases hi : index h kCL with
          | nil => rfl
          | cons a r => rw [hi] at hp; simp at hp
        simp only [hp, if_false] at hc
        injection hc with hc
        subst hc
        simp [h0]
    show index (framingTE h1).1 kCL = _
    by_cases ht : index h kTE = []
    · rw [framingTE_absent (by rw [hte]; exact ht)]
      simp only [ht, ne_eq, not_true_eq_false, if_false]
      exact hcl
    · have hp : (index h1 kTE).length > 0 := List.length_pos_iff.mpr (by rw [hte]; exact ht)
      simp only [ne_eq, ht, not_false_eq_true, if_true]
      unfold framingTE at hok ⊢
      simp only [hp, if_true] at hok ⊢
      split
      · next hb => simp [hb] at hok
      · simp [index_del, canon_kCL]

/-- The framing clause for the whole stack, for one header. -/
def FramingFlagged (env : Env) (h : Header) : Prop := clConflict h ∨ teBad h → (stackReq env h).2 ≠ []

/-- FULL (F14b repaired): inside the stack, every request with conflicting Content-Length values
or a Transfer-Encoding not ending in chunked — Connection-listed or not — is flagged with the
framing modifier's own error; and the stack's framing verdict is always exactly that of the
framing modifier alone on the header as received. -/
theorem stack_framing_flagged (env : Env) (h : Header) :
    FramingFlagged env h ∧
    (clConflict h ∨ teBad h → Err.cl ∈ (stackReq env h).2 ∨ Err.te ∈ (stackReq env h).2) ∧
    (∀ e, e ≠ Err.loop → (e ∈ (stackReq env h).2 ↔ (framingHeader h).2 = some e)) := by
  have he := (stack_errors_exact env h).1
  have hmem : ∀ e, e ≠ Err.loop → (e ∈ (stackReq env h).2 ↔ (framingHeader h).2 = some e) := by
    intro e hne
    rw [he]
    unfold framingErrs
    cases hf : (framingHeader h).2 with
    | none => cases stackLoop env h <;> simp [hne]
    | some e' =>
      cases stackLoop env h <;> simp [hne, eq_comm]
  have hfl : clConflict h ∨ teBad h → Err.cl ∈ (stackReq env h).2 ∨ Err.te ∈ (stackReq env h).2 := by
    intro hb
    have hne := framing_flagged h hb
    cases hf : (framingHeader h).2 with
    | none => exact absurd hf hne
    | some e =>
      have hnl : e ≠ Err.loop := by
        intro hl
        have := framingErrs_no_loop h
        unfold framingErrs at this
        rw [hf, hl] at this
        simp at this
      have hin : e ∈ (stackReq env h).2 := (hmem e hnl).mpr hf
      cases e with
      | cl => exact Or.inl hin
      | te => exact Or.inr hin
      | loop => exact absurd rfl hnl
      | unknown =>
        exfalso
        unfold framingHeader at hf
        cases hc : framingCL h with
        | none => rw [hc] at hf; simp at hf
        | some h1 =>
          rw [hc] at hf
          rcases framingTE_err h1 with h0 | h0
          · simp [h0] at hf
          · have h2 : (framingTE h1).2 = some Err.unknown := hf
            rw [h0] at h2; cases h2
  refine ⟨?_, hfl, hmem⟩
  intro hb
  rcases hfl hb with h1 | h1 <;> exact List.ne_nil_of_mem h1

/-- Stack: no spurious framing error — a request without Content-Length and Transfer-Encoding is
never flagged for framing. -/
theorem stack_no_spurious_framing_error (env : Env) (h : Header) (hc : index h kCL = []) (ht : index h kTE = []) :
    Err.cl ∉ (stackReq env h).2 ∧ Err.te ∉ (stackReq env h).2 := by
  have hm := (stack_framing_flagged env h).2.2
  have hf : (framingHeader h).2 = none := by rw [framing_no_spurious_error h hc ht]
  constructor
  · intro hin; have := (hm .cl (by decide)).mp hin; rw [hf] at this; cases this
  · intro hin; have := (hm .te (by decide)).mp hin; rw [hf] at this; cases this

/-! ## 5. findings: concrete witnesses (decided by evaluation) -/

def env0 : Env :=
  { major := 1, minor := 1, name := strBytes "martian", boundary := strBytes "00", scheme := strBytes "http",
    host := strBytes "example.com", url := strBytes "http://example.com/", remote := strBytes "192.0.2.1:4711" }

/-- F14b (repaired): `Transfer-Encoding: gzip`. -/
def hTE : Header := [(kTE, [strBytes "gzip"])]
/-- F14b (repaired): `Connection: content-length` with `Content-Length: 5` and `Content-Length: 6`. -/
def hCLListed : Header := [(kConnection, [strBytes "content-length"]), (kCL, [strBytes "5", strBytes "6"])]
/-- F14b (open): `Connection: via` with a Via chain naming this instance. -/
def hViaListed : Header := [(kConnection, [strBytes "via"]), (kVia, [strBytes "1.1 martian-00"])]
/-- F14c (repaired): conflicting Content-Length and a Via chain naming this instance. -/
def hLoopCL : Header := [(kCL, [strBytes "5", strBytes "6"]), (kVia, [strBytes "1.1 martian-00"])]

theorem teBad_hTE : teBad hTE := by unfold teBad; decide
theorem clConflict_hCLListed : clConflict hCLListed :=
  ⟨strBytes "5", by decide, strBytes "6", by decide, by decide, by decide, by decide⟩

/-- Test (the three repaired witnesses, evaluated): the stack now answers `te`, `cl` and
`cl`+`loop` with the round trip skipped; in all three the hop-by-hop headers are gone and, where
no loop is seen, the Via entry is stamped. Against a tree without the repairs this fails. -/
theorem repaired_witnesses :
    (stackReq env0 hTE).2 = [.te] ∧ keys (stackReq env0 hTE).1.hdr = [kXFProto, kXFHost, kXFUrl, kXFF, kVia] ∧
    (stackReq env0 hCLListed).2 = [.cl] ∧ keys (stackReq env0 hCLListed).1.hdr = [kXFProto, kXFHost, kXFUrl, kXFF, kVia] ∧
    (stackReq env0 hLoopCL).2 = [.cl, .loop] ∧ (stackReq env0 hLoopCL).1.skip = true ∧
    (stackRes (stackReq env0 hLoopCL).1.loopKey { hdr := [], status := 200 }).1.status = 400 := by decide

/-- F14b open witness: Connection-listed Via hides the loop from the stack (the via modifier alone sees it). -/
theorem loop_counterexample_via_listed :
    (viaReq env0 { hdr := hViaListed }).2 = some .loop ∧ ¬ LoopStopped env0 hViaListed := by
  refine ⟨by decide, ?_⟩
  intro hf
  have := (hf (by decide)).1
  revert this
  decide

/-! ## 6. non-vacuity: the hypotheses above are satisfiable, the stack does all of it at once -/

def hGood : Header := [(strBytes "Accept", [strBytes "a", strBytes "b"]), (kConnection, [strBytes " keep-alive ,X-CUSTOM", strBytes "close"]),
  (strBytes "X-Custom", [strBytes "1"]), (strBytes "Keep-Alive", [strBytes "timeout=5"]), (kVia, [strBytes "1.0 fred", strBytes "1.1 p"]),
  (kXFF, [strBytes "10.0.0.1"]), (kCL, [strBytes "5", strBytes "5"])]

/-- Test (evaluation on one concrete header): forwarded without error; Keep-Alive, X-Custom and
Connection are gone; Accept is untouched; Via and X-Forwarded-For were appended to. -/
example : (stackReq env0 hGood).2 = [] ∧
    keys (stackReq env0 hGood).1.hdr = [strBytes "Accept", kCL, kXFProto, kXFHost, kXFUrl, kXFF, kVia] ∧
    index (stackReq env0 hGood).1.hdr (strBytes "Accept") = [strBytes "a", strBytes "b"] ∧
    index (stackReq env0 hGood).1.hdr kVia = [strBytes "1.0 fred, 1.1 p, 1.1 martian-00"] ∧
    index (stackReq env0 hGood).1.hdr kXFF = [strBytes "10.0.0.1, 192.0.2.1"] ∧
    index (stackReq env0 hGood).1.hdr kCL = [strBytes "5"] := by decide

/-- Hypothesis of `loop_stopped_partial` is satisfiable together with the loop premise (and a framing error). -/
example : kVia ∉ removedKeys hLoopCL ∧ hasLoop (join (index hLoopCL kVia) commaSp) (tag env0) = true ∧ clConflict hLoopCL :=
  ⟨by decide, by decide, strBytes "5", by decide, strBytes "6", by decide, by decide, by decide, by decide⟩

/-- The premise of `stack_framing_flagged` is satisfiable in both ways, also Connection-listed. -/
example : teBad hTE ∧ clConflict hCLListed ∧ kCL ∈ removedKeys hCLListed := ⟨teBad_hTE, clConflict_hCLListed, by decide⟩

/-- `connection_token_any_case` is not vacuous. -/
example : toLower (strBytes "KEEP-alive") = toLower (strBytes "Keep-Alive") ∧
    canonKey (strBytes "KEEP-alive") = strBytes "Keep-Alive" := by decide

end Martian.Props.C14
