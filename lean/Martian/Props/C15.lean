import Martian.Props.C15.Wire
import Martian.Lemmas.MessageView
import Martian.Props.C15.Isolation
import Martian.Props.C15.Flags
import Martian.Props.C15.Facts
import Martian.Props.C15.Faults
import Martian.Props.C15.Errors
/-!
C15 — Logging and snapshotting never change the message that is forwarded.
Only property theorems and non-vacuity examples live here.
Quantifiers: every message (any start line, header list, body bytes of any length, framing,
trailers), every body-capture option, every logger and option combination.
-/
namespace Martian.Props.C15
open Martian Martian.Go Martian.MessageView

/-- The full clause "the snapshot is the wire form of the message" — FALSE of the code as it is
(F15a), see `snapshot_is_wire_counterexample`. -/
def SnapshotIsWire : Prop :=
  ∀ (o : Opts) (m : Msg), captures o m = true → (snapshot o m).message = wire m

/-- Messages without a trailer map: the snapshot is byte for byte the grammar serialisation
(start line, Host, framing header, sorted fields, blank line, body — one chunk + last-chunk +
blank line when chunked). What is missing for the full clause: messages with `Trailer ≠ nil`. -/
theorem snapshot_is_wire_partial (o : Opts) (m : Msg) (hc : captures o m = true)
    (ht : m.trailer = none) : (snapshot o m).message = wire m := by
  unfold snapshot wire
  simp only [hc, if_true, trailerSection, ht, framedBody]
  cases hch : isChunked m.te <;> simp [fields, sortKV]

/-- Exact form of the defect: with a non-nil trailer map on a chunked message the snapshot is the
wire form minus its terminating CRLF. -/
theorem snapshot_lacks_final_crlf (o : Opts) (m : Msg) (t : List KV) (hc : captures o m = true)
    (ht : m.trailer = some t) (hch : isChunked m.te = true) :
    wire m = (snapshot o m).message ++ crlf := by
  unfold snapshot wire
  simp [hc, trailerSection, ht, framedBody, hch]

/-- Witness: `POST / HTTP/1.1`, `Transfer-Encoding: chunked`, body `abc`, trailer `X-T: v`. -/
def witness : Msg :=
  { isReq := true, method := strBytes "POST", url := strBytes "/", major := 1, minor := 1,
    code := 0, status := [], host := strBytes "h", te := [chunkedTok], cl := -1, hdr := [],
    body := some (strBytes "abc"), trailer := some [(strBytes "X-T", strBytes "v")] }

theorem snapshot_is_wire_counterexample : ¬ SnapshotIsWire := by
  intro h
  have h1 := h noOpts witness (by decide)
  have h2 := snapshot_lacks_final_crlf noOpts witness _ (by decide) rfl (by decide)
  rw [h1] at h2
  have := congrArg List.length h2
  simp [crlf] at this

/-- The three section readers partition the snapshot: header section = everything up to and
including the blank line, body section = the framed body, trailer section = the rest; and
`Reader()` is their concatenation = the whole snapshot. -/
theorem reader_sections_partition (o : Opts) (m : Msg) :
    reader (snapshot o m) = (snapshot o m).message ∧
    headerReader (snapshot o m) = headSection m ∧
    (captures o m = true →
      bodyReader (snapshot o m) = framedBody m (m.body.getD []) ∧
      trailerReader (snapshot o m) = trailerSection m) ∧
    (captures o m = false →
      bodyReader (snapshot o m) = [] ∧ trailerReader (snapshot o m) = []) := by
  cases hc : captures o m <;>
    simp [snapshot, hc, reader, headerReader, bodyReader, trailerReader, sectionOf]
  apply List.take_of_length_le
  omega

/-- The `Decode` body reader of a snapshot gives back the message body for every framing
(de-chunked when chunked), decompressed by the trusted gzip/flate when so announced. -/
theorem decode_reader_returns_body (infl : Bytes → Bytes → Option Bytes) (o : Opts) (m : Msg) (b : Bytes)
    (hc : captures o m = true) (hb : m.body = some b) :
    decodeBody infl (snapshot o m) =
      if compressOf m == gzipTok || compressOf m == deflateTok then infl (compressOf m) b else some b :=
  decodeBody_snapshot infl o m b hc hb

/-- Every logger, every option combination, skip flag set or not: the message handed on is the
message received (same start line, headers, framing fields, body bytes, trailers). -/
theorem logger_identity (l : Logger) (skip : Bool) (m : Msg) : (logMsg l skip m).1 = m := by
  cases l <;> cases skip <;> simp [logMsg, snapshotMsg_id] <;> (repeat' split) <;> simp

/-- In particular the header lines: for every field name the ordered list of its values (repeated
Cookie / Authorization / Set-Cookie / Via lines, names under keys of different case) is the one the
message arrived with, after every logger, option and skip flag. -/
theorem logging_preserves_header_value_lists (l : Logger) (skip : Bool) (m : Msg) (k : Bytes) :
    ((logMsg l skip m).1.hdr.filter fun kv => kv.1 == k) = m.hdr.filter fun kv => kv.1 == k := by
  rw [logger_identity]

/-- An exchange marked skip-logging is recorded by none of the loggers. -/
theorem skip_logging_records_nothing (l : Logger) (m : Msg) (hl : ∀ o, l ≠ .snapshot o) :
    (logMsg l true m).2 = none := by
  cases l <;> simp [logMsg] at *

/-- …and one that is not marked is recorded by every one of them (the previous theorem is not
vacuous). -/
theorem unskipped_is_recorded (l : Logger) (m : Msg) : (logMsg l false m).2.isSome = true := by
  cases l <;> simp [logMsg] <;> (repeat' split) <;> simp

/-- Every logger, every option combination, every verdict of the trusted parsers and
decompressors — in particular when the logger gives up with an error because the body does not
parse as its declared Content-Type or does not decode as its Content-Encoding: the message handed
on is the message received. -/
theorem logger_identity_with_errors (t : Trusted) (l : Logger) (skip : Bool) (m : Msg) :
    (logMsgT t l skip m).msg = m := by
  cases l <;> cases skip <;> simp [logMsgT, snapshotMsg_id, harReadPost_id] <;> (repeat' split) <;> simp

/-- A logger that returned an error recorded nothing (HAR: no entry / no response in the entry;
text logger: no log call). -/
theorem logger_error_records_nothing (t : Trusted) (l : Logger) (skip : Bool) (m : Msg)
    (he : (logMsgT t l skip m).err = true) : (logMsgT t l skip m).record = none := by
  cases l <;> cases skip <;> simp [logMsgT] at he ⊢ <;> (repeat' split) <;> simp_all

/-- Skip-logging with the error paths: nothing recorded and no error either (the loggers return
before they look at the body). -/
theorem skip_logging_records_nothing_with_errors (t : Trusted) (l : Logger) (m : Msg)
    (hl : ∀ o, l ≠ .snapshot o) :
    (logMsgT t l true m).record = none ∧ (logMsgT t l true m).err = false := by
  cases l <;> simp [logMsgT] at *

/-- An unmarked exchange on which the logger did not fail is recorded. -/
theorem unskipped_without_error_is_recorded (t : Trusted) (l : Logger) (m : Msg)
    (he : (logMsgT t l false m).err = false) : (logMsgT t l false m).record.isSome = true := by
  cases l <;> simp [logMsgT] at he ⊢ <;> (repeat' split) <;> simp_all

/-- When the trusted parsers accept the body (and it is there to be decoded) the refined model is
`logMsg`: no error, same message, same record. The headers-only text logger is excluded: with
`decode` its gzip reader is opened on the empty body section and fails. -/
theorem logMsgT_ok (l : Logger) (skip : Bool) (m : Msg) (hb : m.body.isSome = true)
    (hh : ∀ d, l ≠ .text true d) :
    logMsgT ⟨true, true, true⟩ l skip m = ⟨(logMsg l skip m).1, (logMsg l skip m).2, false⟩ := by
  have hc : captures noOpts m = true := by simp [captures, noOpts, hb]
  cases l <;> cases skip <;>
    simp [logMsgT, logMsg, decodesOn, decodeOpensOn, hc, harReadPost_id, snapshotMsg_id] <;>
    (repeat' split) <;> first | rfl | simp_all [captures]

/-- Witness of an error path: an urlencoded upload with an invalid percent-escape under the HAR
logger — error returned, nothing recorded, message unchanged. -/
def badForm : Msg :=
  { witness with te := [], cl := 5, trailer := none, body := some (strBytes "a=%zz"),
                 hdr := [(ctKey, strBytes "application/x-www-form-urlencoded")] }

example : (logMsgT ⟨false, true, true⟩ (.har .all .all) false badForm).err = true ∧
    (logMsgT ⟨false, true, true⟩ (.har .all .all) false badForm).record = none ∧
    (logMsgT ⟨false, true, true⟩ (.har .all .all) false badForm).msg = badForm := by decide

/-- …and of the decode error paths: a response announced as gzip whose body is not. -/
def badGzip : Msg :=
  { witness with isReq := false, code := 200, te := [], cl := 3, trailer := none,
                 hdr := [(ceKey, gzipTok)] }

example : (logMsgT ⟨true, false, false⟩ (.har .all .all) false badGzip).err = true ∧
    (logMsgT ⟨true, false, false⟩ (.text false true) false badGzip).err = true ∧
    (logMsgT ⟨true, false, false⟩ (.text false false) false badGzip).err = false ∧
    (logMsgT ⟨true, false, false⟩ (.text false true) false badGzip).msg = badGzip := by decide

example : captures noOpts witness = true ∧ witness.trailer ≠ none ∧ isChunked witness.te = true := by decide
example : ∃ o m, captures o m = true ∧ m.trailer = none ∧ isChunked m.te = true :=
  ⟨noOpts, { witness with trailer := none }, by decide⟩

end Martian.Props.C15
