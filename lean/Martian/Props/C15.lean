/-! STUB — property C15 is not built yet. -/
