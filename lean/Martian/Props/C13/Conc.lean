import Martian.Lemmas.VerifyConc
/-!
C13 — the concurrent clause: queries and resets racing traffic.

Model: `Model/VerifyConc.lean` (cells, atomic steps, step programs of the Modify*/Reset* walks,
non-atomic queries, phased histories). The atomicity of a step is what the lock facts give
(`Props/C13/Locks.lean`); everything here quantifies over ALL interleavings of steps.

What is proved, per side of the tree (the two sides share no state):
* the step programs refine the sequential model (`modify_refines_steps`, `reset_refines_steps`,
  `atomic_query_reads_cells`, `sequential_phases_are_the_model`);
* with NO assumption on locks above the verifiers: a verifier's list only grows between resets, so a
  failure recorded before a query's read is in that read, once (`conc_cell_only_grows`,
  `no_failure_lost`), and a query that is not atomic reports, for every verifier, what it held when
  the query began plus exactly what was recorded before it was read (`conc_query_exact`);
* where verify and reset walks hold an exclusive lock and exchanges a shared one (fifo.Group at the
  root of the side; facts `facts_group_locks`), every concurrent history is linearisable: its reports
  are those of the sequential history with each batch of overlapping exchanges run in ANY order, up
  to the order of the entries of one verifier (`phased_history_linearisable`), hence equal, entry for
  entry up to that order, to the specification (`query_is_failures_since_reset_concurrent`);
* both restrictions are necessary: without the exclusive verify lock the report of a query need not
  be the report of any sequential order (`nonatomic_query_not_linearisable_counterexample`), and even
  with it the order inside the report need not be that of any sequential order
  (`report_order_not_sequential_counterexample`).
-/
namespace Martian.Props.C13
open Martian Martian.Verify

/-! ### the step model refines the sequential model -/

/-- The verification handler's output for one side is the cells' report. -/
theorem atomic_query_reads_cells (side : Side) (t : T) :
    handlerErrors (t.verify side) = Cells.report (t.cells side) ∧
      Cells.qrun (t.cells side) 0 (List.replicate (t.cells side).length []) = Cells.report (t.cells side) :=
  ⟨T.query_cells side t, Cells.qrun_atomic _⟩

/-- Running the steps of `Modify*` for an exchange, uninterrupted, is `T.modify` — wherever the
subtree's cells sit among the others. -/
theorem modify_refines_steps (side : Side) (m : Msg) (t : T) (pre post : Cells) :
    Cells.run (pre ++ t.cells side ++ post) (t.mprog side m pre.length) =
      pre ++ (t.modify side m).1.cells side ++ post :=
  T.run_mprog side m t pre post

theorem reset_refines_steps (side : Side) (t : T) (pre post : Cells) :
    Cells.run (pre ++ t.cells side ++ post) (t.rprog side pre.length) =
      pre ++ (t.reset side).cells side ++ post := by
  rw [T.reset_eq_clear]; exact T.run_rprog side t pre post

/-- Which steps an exchange or a reset performs does not depend on what the verifiers hold. -/
theorem programs_state_independent (side : Side) (t : T) (h : List Op) (m : Msg) (off : Nat) :
    (T.runOps side t h).mprog side m off = t.mprog side m off ∧
      (T.runOps side t h).rprog side off = t.rprog side off :=
  ⟨(T.mprog_of_clear side m (T.runOps side t h) t (T.runOps_clear side h t) off).symm,
   (T.rprog_of_clear side (T.runOps side t h) t (T.runOps_clear side h t) off).symm⟩

/-- A concurrent history in which nothing overlaps IS the sequential model. -/
theorem sequential_phases_are_the_model (side : Side) (t : T) (H : List COp) :
    runPhases Phase.seq (t.cells side) (H.map (COp.phase side t)) =
      ((T.runOps side t (H.flatMap COp.linear)).cells side, T.reports side t (H.flatMap COp.linear)) :=
  seq_phases_refine side t H t rfl

/-! ### no assumption on locks above the verifiers: arbitrary interleavings of steps -/

/-- Between resets a verifier's list only grows, by appending: whatever steps `σ` other goroutines
perform, as long as none of them resets this verifier, a read yields what was there before followed
by exactly the errors added to it — nothing lost, nothing duplicated, nothing reordered. -/
theorem conc_cell_only_grows (c : Cells) (i : Nat) (l : List Bytes) (σ : List Step)
    (hc : c[i]? = some (.errs l)) (h : noClr i σ = true) : (c.run σ).read i = l ++ adds i σ := by
  simp [Cells.read, run_errs_cell i σ c l hc, Cell.report, errsAfter_noClr i σ l h]

/-- After a reset of the verifier only what was recorded after it is left. -/
theorem conc_cell_after_reset (c : Cells) (i : Nat) (l : List Bytes) (σ1 σ2 : List Step)
    (hc : c[i]? = some (.errs l)) (h : noClr i σ2 = true) : (c.run (σ1 ++ .clr i :: σ2)).read i = adds i σ2 := by
  simp [Cells.read, run_errs_cell i _ c l hc, Cell.report, errsAfter_clr i l σ1 σ2 h]

/-- **No failure recorded before a query's read is lost**, under ANY schedule: if the steps `P` of a
completed exchange happened, interleaved with anything, within the stretch `B` of the history, and
neither `B` nor what follows up to the read (`pre`) resets verifier `i`, then every error `P` added
to verifier `i` is in the value the query reads, in order. -/
theorem no_failure_lost (c : Cells) (i : Nat) (l : List Bytes) (A B pre P : List Step)
    (hc : c[i]? = some (.errs l)) (h : noClr i (B ++ pre) = true) (hP : P.Sublist B) :
    (adds i P).Sublist ((c.run (A ++ (B ++ pre))).read i) := by
  obtain ⟨l', hl'⟩ : ∃ l', (c.run A)[i]? = some (.errs l') := ⟨_, run_errs_cell i A c l hc⟩
  rw [Cells.run_append, conc_cell_only_grows (c.run A) i l' (B ++ pre) hl' h, adds_append]
  exact List.Sublist.trans (List.Sublist.filterMap _ hP)
    ((List.sublist_append_left _ _).trans (List.sublist_append_right _ _))

/-- **A query that is not atomic** (verifiers below a filter or at the root: nothing but each
verifier's own lock is held): with `gs[k]` = the foreign steps between its reads and no reset
overlapping it, it reports for every verifier what the verifier held when the query began, followed
by exactly what was recorded before the verifier was read (`Cells.qspec`, `Cell.grown`). -/
theorem conc_query_exact (c : Cells) (gs : List (List Step)) (h : qNoReset 0 [] gs = true) :
    Cells.qrun c 0 gs = Cells.qspec c 0 [] gs :=
  qrun_eq_qspec c gs 0 [] h

/-- … in particular what a verifier held when the query began is a prefix of its part of the report. -/
theorem grown_prefix (i : Nat) (σ : List Step) (l : List Bytes) : l <+: (Cell.errs l).grown i σ :=
  List.prefix_append _ _

/-! ### exclusive verify/reset lock above the verifiers: linearisability -/

/-- Exchanges that overlap each other (but no query or reset) leave the verifiers as ANY sequential
order of them does, up to the order inside each verifier's list. -/
theorem batch_linearisable (side : Side) (t : T) (ms : List Msg) (σ : List Step)
    (h : Interleaving (ms.map fun m => t.mprog side m 0) σ) :
    ((t.cells side).run σ).equiv ((T.runOps side t (ms.map .traffic)).cells side) := by
  rw [← T.run_mprogs side t ms t rfl]
  refine batch_equiv h ?_ (Cells.equiv_refl _)
  intro p hp s hs
  obtain ⟨m, _, rfl⟩ := List.mem_map.mp hp
  exact T.mprog_isMod side m t 0 s hs

/-- **Linearisability.** For every tree and every concurrent history in phases — batches of
exchanges interleaved in any way, separated by atomic queries and resets — the reports of the
queries are, report by report and up to the order of entries, the reports of the SEQUENTIAL model on
the history in which every batch is replaced by its exchanges in the order listed (any order; in
particular one that respects each goroutine's own order); the final states agree likewise. -/
theorem phased_history_linearisable (side : Side) (t : T) (H : List COp) (hok : ∀ op ∈ H, op.ok side t) :
    let conc := runPhases Phase.conc (t.cells side) (H.map (COp.phase side t))
    conc.1.equiv ((T.runOps side t (H.flatMap COp.linear)).cells side) ∧
      permLists conc.2 (T.reports side t (H.flatMap COp.linear)) := by
  have hp : ∀ p ∈ H.map (COp.phase side t), p.ok := by
    intro p hp
    obtain ⟨op, hop, rfl⟩ := List.mem_map.mp hp
    exact COp.phase_ok side t op (hok op hop)
  have := runPhases_linearisable _ (t.cells side) (t.cells side) hp (Cells.equiv_refl _)
  rw [seq_phases_refine side t H t rfl] at this
  exact this

/-- **`query_is_failures_since_reset` for concurrent histories**: from the initial state, every
query of a phased concurrent history reports, up to the order of entries, exactly what the
specification `T.spec` demands for the exchanges since the last reset. -/
theorem query_is_failures_since_reset_concurrent (side : Side) (t : T) (hf : t.clear = t) (H : List COp)
    (hok : ∀ op ∈ H, op.ok side t) :
    permLists (runPhases Phase.conc (t.cells side) (H.map (COp.phase side t))).2
      (specReports side t [] (H.flatMap COp.linear)) := by
  have h := (phased_history_linearisable side t H hok).2
  rwa [T.reports_spec side t _ t [] rfl (hf ▸ T.tracks_clear side t)] at h

/-! ### the restrictions are necessary (concrete witnesses, by evaluation) -/

def cxMsg (method : String) (id : String) : Msg :=
  { api := false, method := strBytes method, scheme := strBytes "http", host := strBytes "h", path := strBytes "/p",
    query := [], frag := strBytes id, reqH := [], status := 200, resH := [] }

/-- `method.Filter(GET)` holding a `failure.Verifier` in each branch, nothing above it. -/
def cxFilter : T := .filter (.method (strBytes "GET")) (.ver (.failure (strBytes "A")) []) (.ver (.failure (strBytes "B")) [])

/-- Exchange `x` goes to the branch the verify walk reads FIRST, `y` to the one it reads second
(whichever order the code visits them in). -/
def cxX : Msg := cxMsg (if elseFirst .req then "POST" else "GET") "m1"
def cxY : Msg := cxMsg (if elseFirst .req then "GET" else "POST") "m2"

/-- The query reads the first branch, then `x` and `y` run one after the other (same goroutine), then the
query reads the second branch: it reports `y`'s failure but not `x`'s. -/
def cxReport : List Bytes :=
  Cells.qrun (cxFilter.cells .req) 0 [[], cxFilter.mprog .req cxX 0 ++ cxFilter.mprog .req cxY 0]

/-- **Without an exclusive lock held by the verify walk a query is not linearisable as one
operation**: `x` completed before `y` began, yet the query reports `y`'s failure and not `x`'s — no
sequential order of {x, y, query} with x before y reports that. (Each verifier's part is still exact:
`conc_query_exact`; the property only demands that nothing recorded before the query began is lost.) -/
theorem nonatomic_query_not_linearisable_counterexample :
    cxReport.length = 1 ∧
    ∀ h ∈ [[Op.query, .traffic cxX, .traffic cxY], [.traffic cxX, .query, .traffic cxY], [.traffic cxX, .traffic cxY, .query]],
      T.reports .req cxFilter h ≠ [cxReport] := by
  decide

/-- A `fifo.Group` holding two `failure.Verifier`s. -/
def cxGroup : T := .group false (.cons (.ver (.failure (strBytes "A")) []) (.cons (.ver (.failure (strBytes "B")) []) .nil))

/-- Two overlapping exchanges: x at A, y at A, y at B, x at B. -/
def cxSigma : List Step :=
  match cxGroup.mprog .req cxX 0, cxGroup.mprog .req cxY 0 with
  | [x0, x1], [y0, y1] => [x0, y0, y1, x1]
  | _, _ => []

/-- **Even under the exclusive verify lock the ORDER inside the report is not that of a sequential
history**: verifier A saw x before y, verifier B saw y before x. So `permLists` in
`phased_history_linearisable` cannot be strengthened to equality (the property counts entries; it
prescribes no order). -/
theorem report_order_not_sequential_counterexample :
    Interleaving [cxGroup.mprog .req cxX 0, cxGroup.mprog .req cxY 0] cxSigma ∧
    (let r := Cells.report ((cxGroup.cells .req).run cxSigma)
     r.length = 4 ∧
     r ≠ Cells.report ((T.runOps .req cxGroup [.traffic cxX, .traffic cxY]).cells .req) ∧
     r ≠ Cells.report ((T.runOps .req cxGroup [.traffic cxY, .traffic cxX]).cells .req)) := by
  refine ⟨?_, by decide⟩
  have h0 : cxGroup.mprog .req cxX 0 = [.add 0 ((check .req (.failure (strBytes "A")) cxX).getD []), .add 1 ((check .req (.failure (strBytes "B")) cxX).getD [])] := by decide
  have h1 : cxGroup.mprog .req cxY 0 = [.add 0 ((check .req (.failure (strBytes "A")) cxY).getD []), .add 1 ((check .req (.failure (strBytes "B")) cxY).getD [])] := by decide
  simp only [cxSigma, h0, h1]
  refine .pick _ 0 _ _ _ rfl (.pick _ 1 _ _ _ rfl (.pick _ 1 _ _ _ rfl (.pick _ 0 _ _ _ rfl (.done _ ?_))))
  simp

/-! ### non-vacuity -/

/-- The hypotheses of `phased_history_linearisable` are satisfiable by a history with a real overlap;
its query reports the four failures. -/
example : (COp.batch [cxX, cxY] cxSigma).ok .req cxGroup := report_order_not_sequential_counterexample.1

example : ((runPhases Phase.conc (cxGroup.cells .req)
    ([COp.batch [cxX, cxY] cxSigma, .query, .reset, .query].map (COp.phase .req cxGroup))).2.map List.length) = [4, 0] := by
  decide

/-- `no_failure_lost` applies: x's failure at verifier A (cell 0), recorded while y runs concurrently. -/
example : noClr 0 (cxSigma ++ []) = true ∧ (cxGroup.mprog .req cxX 0).Sublist cxSigma := by
  refine ⟨by decide, ?_⟩
  have h0 : cxGroup.mprog .req cxX 0 = [.add 0 ((check .req (.failure (strBytes "A")) cxX).getD []), .add 1 ((check .req (.failure (strBytes "B")) cxX).getD [])] := by decide
  have h1 : cxGroup.mprog .req cxY 0 = [.add 0 ((check .req (.failure (strBytes "A")) cxY).getD []), .add 1 ((check .req (.failure (strBytes "B")) cxY).getD [])] := by decide
  simp only [cxSigma, h0, h1]
  exact .cons_cons _ (.cons _ (.cons _ (.cons_cons _ .slnil)))

end Martian.Props.C13
