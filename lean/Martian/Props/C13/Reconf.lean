import Martian.Lemmas.VerifyConc
/-!
C13 — reconfiguration: the handlers read the pair of trees in force, nothing else.

`martianhttp.Modifier` keeps one request modifier and one response modifier; `VerifyRequests`,
`VerifyResponses` and the two reset walks look the verifier up in that pair at the time of the call
(type assertion on the current field). The model has no other state (`State` IS the pair):
`State.post` = a re-POST of a configuration (both sides replaced, or nothing when rejected),
`State.setSide` = `SetRequestModifier` / `SetResponseModifier`. So whatever happened before a
reconfiguration — failures recorded in the tree it replaces included — is invisible afterwards.
Tied to the code by the ops `tree r` and `set q|s` on the real `martianhttp.Modifier`.
-/
namespace Martian.Props.C13
open Martian Martian.Verify

theorem runE_append (s : State) (h1 h2 : List EOp) : s.runE (h1 ++ h2) = (s.runE h1).runE h2 := by
  simp [State.runE, List.foldl_append]

theorem runE_ops (s : State) (h : List Op) : s.runE (h.map .op) = s.run h := by
  simp only [State.runE, State.run, List.foldl_map]
  rfl

/-- One side of the model is the per-side machine. -/
theorem run_sides (s : State) (h : List Op) :
    s.run h = ⟨T.runOps .req s.req h, T.runOps .res s.res h⟩ := by
  induction h generalizing s with
  | nil => rfl
  | cons op h ih =>
    simp only [State.run, List.foldl_cons, T.runOps] at ih ⊢
    rw [ih]
    cases op <;> rfl

/-- One side, any fresh tree, any history: the report is the specification of the exchanges since
the last reset (the per-side form of `query_is_failures_since_reset`). -/
theorem side_query_is_failures_since_reset (side : Side) (t0 : T) (hf : t0.clear = t0) (h : List Op) :
    handlerErrors ((T.runOps side t0 h).verify side) = t0.spec side (sinceReset h) := by
  have key : ∀ (h : List Op) (t : T) (acc : List Msg), t.clear = t0.clear → t.tracks side acc →
      handlerErrors ((T.runOps side t h).verify side) = t0.spec side (h.foldl sinceStep acc) := by
    intro h
    induction h with
    | nil =>
      intro t acc hc ht
      simp only [T.runOps, List.foldl_nil]
      rw [T.report_eq_spec side t acc ht, ← T.spec_clear side t, hc, T.spec_clear]
    | cons op h ih =>
      intro t acc hc ht
      simp only [T.runOps, List.foldl_cons] at ih ⊢
      cases op with
      | traffic m =>
        exact ih _ _ (by simp only [T.stepOp]; rw [T.clear_modify, hc]) (T.tracks_modify side m t acc ht)
      | query => exact ih t acc hc ht
      | reset =>
        refine ih _ [] (by simp only [T.stepOp]; rw [T.reset_eq_clear, T.clear_clear, hc]) ?_
        simp only [T.stepOp]; rw [T.reset_eq_clear]; exact T.tracks_clear side t
  exact key h t0 [] rfl (hf ▸ T.tracks_clear side t0)

theorem install_sides (c : Cfg) (s1 : State) (hi : c.install = some s1) :
    ∃ q r, c.compile .req = some q ∧ c.compile .res = some r ∧ s1 = ⟨q.getD .nop, r.getD .nop⟩ := by
  simp only [Cfg.install] at hi
  split at hi
  · rename_i q r hq hr
    simp only [Option.some.injEq] at hi
    exact ⟨q, r, hq, hr, hi.symm⟩
  · cases hi

/-- **After a re-POST the handlers read the NEW tree only**: whatever the state and the history
before it (failures recorded in the replaced tree included), after an accepted configuration `c`
and any further exchanges, queries and resets, a query reports exactly what `c`'s own tree calls
for. -/
theorem query_after_post_reads_tree_in_force (s0 s1 : State) (c : Cfg) (hi : c.install = some s1)
    (h1 : List EOp) (h2 : List Op) :
    (s0.runE (h1 ++ .post c :: h2.map .op)).query = s1.spec (sinceReset h2) := by
  rw [runE_append]
  simp only [State.runE, List.foldl_cons, State.stepE, State.post, hi, Option.getD_some]
  have := runE_ops s1 h2
  simp only [State.runE] at this
  rw [this]
  obtain ⟨q, r, hq, hr, rfl⟩ := install_sides c s1 hi
  have fq : (q.getD .nop).clear = q.getD .nop := by
    cases q with
    | none => simp [T.clear]
    | some x => simpa using Cfg.compile_fresh .req c x hq
  have fr : (r.getD .nop).clear = r.getD .nop := by
    cases r with
    | none => simp [T.clear]
    | some x => simpa using Cfg.compile_fresh .res c x hr
  rw [run_sides]
  simp only [State.query, State.spec]
  rw [side_query_is_failures_since_reset .req _ fq h2, side_query_is_failures_since_reset .res _ fr h2]

/-- **After `SetRequestModifier` / `SetResponseModifier` that side of every query reads the new
modifier only** (nil and non-verifiers: nothing), whatever was recorded before … -/
theorem query_after_set_reads_modifier_in_force (side : Side) (s0 : State) (c : Cfg) (o : Option T)
    (hc : c.compile side = some o) (h1 : List EOp) (h2 : List Op) :
    let s := s0.runE (h1 ++ .set side c :: h2.map .op)
    handlerErrors ((match side with | .req => s.req | .res => s.res).verify side) =
      (o.getD .nop).spec side (sinceReset h2) := by
  have hfresh : (o.getD .nop).clear = o.getD .nop := by
    cases o with
    | none => simp [T.clear]
    | some x => simpa using Cfg.compile_fresh side c x hc
  intro s
  have hs : s = ((s0.runE h1).setSide side c).run h2 := by
    show s0.runE (h1 ++ .set side c :: h2.map .op) = _
    rw [runE_append]
    simp only [State.runE, List.foldl_cons, State.stepE]
    have := runE_ops ((List.foldl State.stepE s0 h1).setSide side c) h2
    simp only [State.runE] at this
    exact this
  rw [hs, run_sides]
  cases side
  · simp only [State.setSide, hc]
    exact side_query_is_failures_since_reset .req _ hfresh h2
  · simp only [State.setSide, hc]
    exact side_query_is_failures_since_reset .res _ hfresh h2

/-- … and the other side is not touched. -/
theorem set_leaves_other_side (s : State) (c : Cfg) :
    (s.setSide .req c).res = s.res ∧ (s.setSide .res c).req = s.req := by
  constructor <;> (simp only [State.setSide]; split <;> rfl)

/-- A rejected configuration changes nothing. -/
theorem rejected_reconfiguration_changes_nothing (s : State) (c : Cfg) :
    (c.install = none → s.post c = s) ∧ ∀ side, c.compile side = none → s.setSide side c = s := by
  refine ⟨fun h => by simp [State.post, h], fun side h => by simp [State.setSide, h]⟩

/-! ### non-vacuity -/

def rcMsg : Msg :=
  { api := false, method := strBytes "GET", scheme := strBytes "http", host := strBytes "h", path := strBytes "/p",
    query := [], frag := strBytes "m1", reqH := [], status := 404, resH := [] }
def rcCfg0 : Cfg := .leaf (.ver (.failure (strBytes "L1"))) ⟨false, false, false⟩
def rcCfg1 : Cfg := .leaf (.ver (.status 404)) ⟨false, false, false⟩

/-- A tree with a failing request verifier, then a re-POST of a response-only configuration (or a
`SetRequestModifier` with its nil request side): the request failure is gone with the tree. -/
example :
    ((State.runE ⟨.nop, .nop⟩ [.post rcCfg0, .op (.traffic rcMsg)]).query.length = 1) ∧
    ((State.runE ⟨.nop, .nop⟩ [.post rcCfg0, .op (.traffic rcMsg), .post rcCfg1]).query = []) ∧
    ((State.runE ⟨.nop, .nop⟩ [.post rcCfg0, .op (.traffic rcMsg), .set .req rcCfg1]).query = []) := by
  decide

end Martian.Props.C13
