import Martian.Lemmas.VerifyLocks
/-!
C13 — data-race freedom from the regenerated lock facts.

`Model/VerifyLocks.lean` computes, from `Generated.Verify.lockFacts` / `multiErrorLockFacts`, every
access to mutable verifier state that an exchange, a query and a reset can make in a given tree, with
the mutexes held (ancestors' mutexes as held across the call into the child, the verifier's own, the
MultiError's own). `raceFreeB` = lockset discipline over all pairs of accesses of all pairs of
operations (two goroutines may run the same operation).

The lock facts the theorems depend on (all re-extracted from /repo on every run; a theorem below
stops compiling when one of them changes):
* F1 `factMultiErrorLocked`: every method of `MultiError` touches `errs` with `mu` held, writes with
  `mu.Lock` (F13c-Empty).
* F2 `factRootExclusiveReset`: `martianhttp.Modifier.Reset*Verifications` holds `mu.Lock` across the call
  into the tree; `Modify*` and `Verify*` hold `mu` (shared) across theirs (seed C13-D breaks this).
* F3 `factGroupExclusiveReset`, F3′ `factGroupExclusiveVerify`: the same for `fifo.Group`'s
  `reqmu`/`resmu`, and its verify walk holds them exclusively too.
* F4′ `factFieldsDisciplined`: every field of a verifier that a walk method writes is either always
  accessed under the verifier's own mutex (pingback's `err`) or written by the reset walk only (the
  `*MultiError` field that `Reset*Verifications` replaces — F13c-swap).
* F4 `factNoUnguardedField`: no verifier touches such a field outside its own mutex. This is FALSE
  until `fix: verifiers clear their MultiError in place on reset` is applied; the theorems that need
  it take it as a hypothesis and `reset_swap_status` says which world the source is in.
-/
namespace Martian.Props.C13
open Martian Martian.Verify

/-- The lock facts (F1, F2, F3, F3′, F4′), as extracted from the source. -/
theorem facts_lock_discipline :
    factMultiErrorLocked = true ∧ factRootExclusiveReset = true ∧ factGroupExclusiveReset = true ∧
      factGroupExclusiveVerify = true ∧ factFieldsDisciplined = true := by decide

/-- **Race freedom in cmd/proxy's wiring**: for EVERY tree behind `martianhttp.Modifier`, any two
accesses to the same mutable field of the same verifier object, one of them a write, made by any
two of {exchange, query, reset} running concurrently, hold a common mutex, one of them for writing.
Depends on F1, F2, F4′. -/
theorem race_free_behind_martianhttp (side : Side) (t : T) : raceFreeB .martianhttp side t = true := by
  obtain ⟨hF, hR, _, _, hD⟩ := facts_lock_discipline
  obtain ⟨L⟩ := rootLock hR side
  refine raceFreeB_of_pairs _ side t ?_
  intro k1 k2 a ha b hb hl hw
  exact pair_excl hD side _ L (T.acc_inv hF side k1 t _ [] a ha) (T.acc_inv hF side k2 t _ [] b hb) hl hw

/-- **Race freedom without `martianhttp.Modifier`** (the parse result handed to the handlers
directly) when every verifier sits below a `fifo.Group`. Depends on F1, F3, F4′. -/
theorem race_free_under_groups (side : Side) (t : T) (hc : t.covered = true) : raceFreeB .direct side t = true := by
  obtain ⟨hF, _, hG, _, hD⟩ := facts_lock_discipline
  refine raceFreeB_of_pairs _ side t ?_
  exact T.covered_pairsOk hF hD hG side t (rootCtx .direct side) [] hc

/-- **Race freedom for every tree in every wiring once resets clear in place** (F4): nothing but each
object's own mutex is needed. Depends on F1, F4. -/
theorem race_free_everywhere_of_locked_reset (hN : factNoUnguardedField = true) (w : Wiring) (side : Side) (t : T) :
    raceFreeB w side t = true := by
  obtain ⟨hF, _, _, _, _⟩ := facts_lock_discipline
  refine raceFreeB_of_pairs _ side t ?_
  intro k1 k2 a ha b hb hl hw
  exact pair_excl_own hN side (T.acc_inv hF side k1 t _ [] a ha) (T.acc_inv hF side k2 t _ [] b hb) hl hw

/-- **F13c-swap, exactly**: either the source is repaired (F4 holds, and then every tree is race free
in every wiring), or a bare `status.Verifier` wired directly to the handlers violates the discipline
(its `Reset*Verifications` writes the `*MultiError` field that `Modify*`/`Verify*` read, with no mutex
in common) — `race B` of the harness reproduces that one with the race detector. -/
theorem reset_swap_status :
    (factNoUnguardedField = true ∧ ∀ w side t, raceFreeB w side t = true) ∨
    (factNoUnguardedField = false ∧ raceFreeB .direct .res (.ver (.status 200) []) = false ∧
      raceFreeB .direct .res (.filter (.method []) (.ver (.status 200) []) .nop) = false) := by
  by_cases h : factNoUnguardedField = true
  · exact Or.inl ⟨h, race_free_everywhere_of_locked_reset h⟩
  · refine Or.inr ⟨by simpa using h, ?_⟩
    revert h
    decide

/-- `sync.RWMutex`: from the empty lock table, whatever sequence of `Lock`/`RLock`/`Unlock`/`RUnlock`
steps the goroutines manage to perform, two entries for the same mutex of which one is a write lock
are the same entry — a writer excludes every other holder. Hence two accesses that hold a common
mutex, one of them for writing (`excl`), are never in progress at the same time. -/
theorem rwmutex_exclusion (evs : List LockEv) (lt : LockTable) (h : LockTable.run [] evs = some lt) : lt.wf :=
  LockTable.wf_run evs LockTable.wf_nil h

/-! ### non-vacuity -/

/-- The access lists are not empty: an exchange writes the status verifier's list under the
MultiError's write lock and martianhttp's read lock. -/
example : ((T.ver (.status 200) []).accesses .martianhttp .res .modify).any
    (fun a => a.write && a.field == "errs" && a.held.any (fun h => h.owner == .root && !h.w)) = true := by decide

example : raceFreeB .direct .req (.group false (.cons (.ver (.failure []) []) (.cons (.ping [] [] [] [] true) .nil))) = true := by
  decide

/-- A second goroutine can not take the write lock while a reader holds the mutex. -/
example : LockTable.run [] [.acquire 1 .root "mu" false, .acquire 2 .root "mu" true] = none := by decide
example : (LockTable.run [] [.acquire 1 .root "mu" false, .acquire 2 .root "mu" false, .release 1 .root "mu" false]).isSome = true := by
  decide

end Martian.Props.C13
