import Martian.Skel
import Martian.Generated.Proxy
/-!
C04 — structural facts of `proxy.go` (regenerated from the source on every check) that
`Model/Tunnel.lean` transcribes: the 200 is written and flushed before the pumps start; the
client→target pump reads from `brw` (so bytes that arrived with the CONNECT go first) and writes to
the target connection directly, the target→client pump writes to the client connection directly;
each pump half-closes its destination when its copy ends, whatever the reason; both are joined;
the target connection is closed on return; with a downstream proxy the bytes read ahead with its
2xx head are handed over as the response body.
-/
namespace Martian.Props.C04
open Martian Skel
open Martian.Generated.Proxy (connectBlind connect)

theorem facts_tunnel_pumps :
    hasBlock ["set res.ContentLength = -1", "call res.Write", "call brw.Flush",
              "func closeWrite {", "if cw, ok := c.(interface{ CloseWrite() error }); ok {", "call cw.CloseWrite", "}", "}",
              "func copySync {", "call io.Copy", "call closeWrite", "}",
              "go copySync(cconn, brw, cconn, donec)", "go copySync(conn, cconn, conn, donec)", "return errClose"] connectBlind = true ∧
    count "defer cconn.Close" connectBlind = 1 ∧ count "call cconn.Close" connectBlind = 0 := by
  decide

theorem facts_downstream_read_ahead_handed_over :
    hasBlock ["if res.StatusCode/100 == 2 {", "call pbr.Peek", "set res.Body = ioutil.NopCloser(bytes.NewReader(b))", "}",
              "return res, conn, nil"] connect = true := by
  decide

end Martian.Props.C04
