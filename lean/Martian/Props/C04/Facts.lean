import Martian.Skel
import Martian.Generated.Proxy
import Martian.Generated.Tunnel
/-!
C04 — structural facts of `proxy.go` (regenerated from the source on every check) that
`Model/Tunnel.lean` transcribes: the 200 is written and flushed before the pumps start; the
client→target pump reads from `brw` (so bytes that arrived with the CONNECT go first) and writes to
the target connection directly, the target→client pump writes to the client connection directly;
each pump half-closes its destination when its copy ends, whatever the reason; both are joined;
the target connection is closed on return; with a downstream proxy the bytes read ahead with its
2xx head are handed over as the response body; no SO_LINGER and no deadline is set on either
tunnel connection (the final `Close` of both is graceful: `Tunnel.releaseActs … .graceful`).
-/
namespace Martian.Props.C04
open Martian Skel
open Martian.Generated.Proxy (connectBlind connect)

/-- The 200 is written and flushed, then both copies are started (each exactly once, in either
order), then the handler returns `errClose`; the target connection is closed by the deferred
`Close` only. (Order of the two `go` statements, names of temporaries and the spelling of the
`closeWrite` helper are not pinned.) -/
theorem facts_tunnel_pumps :
    hasSeq ["set res.ContentLength = -1", "call res.Write", "call brw.Flush",
            "go copySync(cconn, brw, cconn, donec)", "return errClose"] connectBlind = true ∧
    hasSeq ["set res.ContentLength = -1", "call res.Write", "call brw.Flush",
            "go copySync(conn, cconn, conn, donec)", "return errClose"] connectBlind = true ∧
    count "go copySync(cconn, brw, cconn, donec)" connectBlind = 1 ∧
    count "go copySync(conn, cconn, conn, donec)" connectBlind = 1 ∧
    count "defer cconn.Close" connectBlind = 1 ∧ count "call cconn.Close" connectBlind = 0 := by
  decide

/-- The `closeWrite` helper half-closes: its body calls a method named `CloseWrite` (behind a type
assertion) and no `Close`. -/
theorem facts_closeWrite_half_closes :
    Martian.Generated.Tunnel.closeWriteCalls = ["CloseWrite"] := by
  decide

theorem facts_downstream_read_ahead_handed_over :
    hasBlock ["if res.StatusCode/100 == 2 {", "call pbr.Peek", "set res.Body = ioutil.NopCloser(bytes.NewReader(b))", "}",
              "return res, conn, nil"] connect = true := by
  decide

/-- `copySync` half-closes its destination unconditionally: `closeWrite` is not inside the
`if err != nil` that follows `io.Copy` (the model's `Pump.step` treats EOF, read error and write
error alike). -/
theorem facts_half_close_whatever_the_reason :
    hasBlock ["func copySync {", "call io.Copy", "call closeWrite", "}"] connectBlind = true ∧
    count "call closeWrite" connectBlind = 1 ∧ count "call io.Copy" connectBlind = 1 := by
  decide

/-- The failed-dial branch tests only `cerr != nil` and answers with the constant 502 plus a Warning;
it returns the result of the flush (the connection is kept). -/
theorem facts_dial_failure_status_is_constant_502 :
    hasBlock ["set cerr = p.connect(req)", "if cerr != nil {", "call proxyutil.NewResponse(502)", "call proxyutil.Warning"]
      connectBlind = true ∧
    hasSeq ["if cerr != nil {", "call res.Write", "call brw.Flush", "return err", "}", "defer cconn.Close"] connectBlind = true ∧
    count "call proxyutil.NewResponse(502)" connectBlind = 1 ∧ count "call proxyutil.NewResponse(200)" connectBlind = 0 := by
  decide

/-- Nothing in the blind branch or in `connect` calls SetLinger / Set(Read|Write)Deadline. -/
theorem facts_tunnel_sockopts :
    Martian.Generated.Tunnel.tunnelSockopts = [] ∧
    Martian.Generated.Tunnel.blindStatementsScanned = true := by
  decide

end Martian.Props.C04
