import Martian.Lemmas.Tunnel
/-!
C04 — several tunnels at once through one proxy.

Every CONNECT is served by its own `handleLoop` goroutine with its own `brw`, its own `cconn`, its
own response and its own two copy goroutines; `connect()` allocates a fresh `bufio.Reader/Writer`
per call, so nothing is shared between tunnels. The model of a proxy serving `n` tunnels is
therefore a list of independent tunnel states, and a global schedule is any interleaving of
per-tunnel steps. `tunnels_are_independent`: whatever the interleaving, the state (and so both
write logs) of tunnel `i` is what tunnel `i` alone produces on its own events — and that is
exactly the `upPump` / `downPump` logs the single-tunnel theorems speak about.
(Seeded defect C04-L shares a pooled read buffer between tunnels: the harness's `multi` op
checks per-tunnel byte identity with tunnel 0's 200 held back while the others connect.)
-/
namespace Martian.Props.C04
open Martian Martian.Tunnel

inductive Dir where
  | up | down
  deriving Repr, DecidableEq

/-- The running state of one tunnel: its two pumps and what each has done to its destination. -/
structure Tun where
  cfg : Cfg
  up : Pump
  down : Pump
  toTarget : List Act
  toClient : List Act
  deriving Repr, DecidableEq

/-- Right after the 200 (and the read-ahead bytes) have been written and both pumps have started. -/
def Tun.init (cfg : Cfg) (ahead early : Bytes) : Tun :=
  let u := (Pump.fresh early).start
  let d := (Pump.fresh []).start
  { cfg := cfg, up := u.1, down := d.1, toTarget := u.2, toClient := optWrite ahead ++ d.2 }

def Tun.step (t : Tun) (d : Dir) (e : Ev) : Tun :=
  match d with
  | .up =>
    let r := t.up.step (readerWriteToLoop t.cfg.target t.cfg.client) e
    { t with up := r.1, toTarget := t.toTarget ++ r.2 }
  | .down =>
    let r := t.down.step (ioCopyLoop t.cfg.client t.cfg.target) e
    { t with down := r.1, toClient := t.toClient ++ r.2 }

/-- One step of the global schedule: an event in one direction of one tunnel. -/
structure Step where
  tunnel : Nat
  dir : Dir
  ev : Ev
  deriving Repr, DecidableEq

def Tun.run (t : Tun) (steps : List Step) : Tun := steps.foldl (fun t s => t.step s.dir s.ev) t

/-- The proxy: tunnel `i` is element `i`; a step touches the tunnel it names and nothing else. -/
def sysStep (sys : List Tun) (s : Step) : List Tun := sys.modify s.tunnel (fun t => t.step s.dir s.ev)

def sysRun (sys : List Tun) (steps : List Step) : List Tun := steps.foldl sysStep sys

def mine (i : Nat) (steps : List Step) : List Step := steps.filter (fun s => s.tunnel == i)

def events (d : Dir) (steps : List Step) : List Ev :=
  steps.filterMap (fun s => if s.dir = d then some s.ev else none)

/-- For any number of tunnels and any interleaving of their steps, tunnel `i` ends in the state it
reaches alone on its own steps: no step of another tunnel changes it. -/
theorem tunnels_are_independent (sys : List Tun) (steps : List Step) (i : Nat) :
    (sysRun sys steps)[i]? = (sys[i]?).map (fun t => t.run (mine i steps)) := by
  induction steps generalizing sys with
  | nil => simp [sysRun, mine, Tun.run]
  | cons s rest ih =>
    have h := ih (sysStep sys s)
    simp only [sysRun, List.foldl_cons] at h ⊢
    rw [h]
    by_cases hs : s.tunnel = i
    · subst hs
      cases hg : sys[s.tunnel]? <;>
        simp [sysStep, mine, Tun.run, List.getElem?_modify, hg, List.filter_cons]
    · have hne : (s.tunnel == i) = false := by simpa using hs
      simp [sysStep, mine, hne, List.getElem?_modify, hs]

theorem Tun.run_logs (t : Tun) (steps : List Step) :
    (t.run steps).toTarget =
      t.toTarget ++ (Pump.runFrom (readerWriteToLoop t.cfg.target t.cfg.client) t.up (events .up steps)).2 ∧
    (t.run steps).toClient =
      t.toClient ++ (Pump.runFrom (ioCopyLoop t.cfg.client t.cfg.target) t.down (events .down steps)).2 ∧
    (t.run steps).up = (Pump.runFrom (readerWriteToLoop t.cfg.target t.cfg.client) t.up (events .up steps)).1 ∧
    (t.run steps).down = (Pump.runFrom (ioCopyLoop t.cfg.client t.cfg.target) t.down (events .down steps)).1 ∧
    (t.run steps).cfg = t.cfg := by
  induction steps generalizing t with
  | nil => simp [Tun.run, events, Pump.runFrom]
  | cons s rest ih =>
    have h := ih (t.step s.dir s.ev)
    simp only [Tun.run, List.foldl_cons] at h ⊢
    cases hd : s.dir <;> simp [hd, Tun.step, events, Pump.runFrom] at h ⊢ <;>
      (obtain ⟨h1, h2, h3, h4, h5⟩ := h; simp [h1, h2, h3, h4, h5, events])

/-- … and that state carries exactly the logs of the single-tunnel model: what tunnel `i` writes to
its target and to its client (before the final close) is `upPump` / `downPump` of ITS OWN early
data, read-ahead bytes and events — for every schedule of every set of tunnels. -/
theorem interleaved_tunnel_logs_are_its_own (cfg : Cfg) (ahead early : Bytes) (steps : List Step) :
    let t := (Tun.init cfg ahead early).run steps
    t.toTarget = (upPump cfg early (events .up steps)).2 ∧
    t.toClient = optWrite ahead ++ (downPump cfg (events .down steps)).2 := by
  have h := Tun.run_logs (Tun.init cfg ahead early) steps
  simp only [Tun.init] at h
  simp [h.1, h.2.1, Tun.init, upPump, downPump, Pump.run, List.append_assoc]

/-- test: two tunnels, steps interleaved; tunnel 0 sees only its own bytes -/
example :
    let sys := [Tun.init ⟨⟨true, true⟩, ⟨true, true⟩⟩ [7] [], Tun.init ⟨⟨true, true⟩, ⟨true, true⟩⟩ [8, 8] []]
    ((sysRun sys [⟨1, .down, .data [5]⟩, ⟨0, .down, .data [1]⟩, ⟨1, .up, .eof⟩])[0]?).map (fun t => bytesOf t.toClient)
      = some [7, 1] := by
  simp [tunnels_are_independent, mine, Tun.run, Tun.step, Tun.init, Pump.start, Pump.fresh, Pump.step, Pump.finished,
    Ev.ending, Ev.accepted, optWrite, bytesOf, chunks_flatten]

end Martian.Props.C04
