import Martian.Lemmas.Tunnel
import Martian.Skel
import Martian.Generated.Proxy
/-!
C04 — open finding `c04:active-tunnel-cut-at-timeout`.

`handleLoop` arms one absolute deadline on the client connection before every exchange
(`conn.SetDeadline(time.Now().Add(p.timeout))`, default 5 minutes) and the blind tunnel branch
neither clears nor re-arms it (`facts_tunnel_sockopts`). A tunnel is therefore cut `p.timeout` after
its CONNECT request however busy it is: the client→target copy ends with a read timeout, the target
is told end-of-stream, and everything the client sends from then on is accepted by the proxy's
kernel and never forwarded (the client's writes do not fail). The property speaks of an *idle*
timeout; this one is not.

The model is faithful (`Ev.deadline` is an event of the client→target direction like any other),
so the theorems of `Props/C04.lean` hold as stated — they speak about what was forwarded up to the
event that ended the copy. What is false is the statement the property makes about the client's
whole stream; it is given here in full, refuted on a witness, and proved under the hypothesis that
excludes exactly this class (the tunnel is younger than the timeout).
-/
namespace Martian.Props.C04
open Martian Martian.Tunnel Skel

/-- What the client hands to the tunnel on its own account: everything it sends until it finishes
or breaks, or until the target stops taking bytes. The proxy's deadline is not the client's doing
and does not end its stream. -/
def offered : List Ev → Bytes
  | [] => []
  | .deadline :: es => offered es
  | e :: es => match e.ending with
    | none => e.accepted ++ offered es
    | some _ => e.accepted

/-- The property's first sentence, for the whole life of a tunnel (FALSE of the code as it is). -/
def TransparentForLife : Prop :=
  ∀ (cfg : Cfg) (st : Nat) (ahead early : Bytes) (up down : List Ev),
    bytesOf (handleConnect cfg (.answered st ahead) early up down).toTarget = early ++ offered up

theorem offered_eq_sentBy_of_no_deadline (evs : List Ev) (h : Ev.deadline ∉ evs) :
    offered evs = sentBy evs := by
  induction evs with
  | nil => simp [offered, sentBy]
  | cons e es ih =>
    have he : e ≠ .deadline := fun hx => h (by simp [hx])
    have hes : Ev.deadline ∉ es := fun hx => h (by simp [hx])
    cases e with
    | deadline => exact absurd rfl he
    | data bs => simp [offered, sentBy, Ev.ending, Ev.accepted, ih hes]
    | eof => simp [offered, sentBy, Ev.ending, Ev.accepted]
    | rerr => simp [offered, sentBy, Ev.ending, Ev.accepted]
    | dataW bs n => simp [offered, sentBy, Ev.ending, Ev.accepted]

/-- Partial: as long as the serving loop's deadline has not passed (the tunnel is younger than
`p.timeout`), every byte the client hands to the tunnel is forwarded. -/
theorem transparent_for_life_partial (cfg : Cfg) (st : Nat) (ahead early : Bytes) (up down : List Ev)
    (h : Ev.deadline ∉ up) :
    bytesOf (handleConnect cfg (.answered st ahead) early up down).toTarget = early ++ offered up := by
  rw [offered_eq_sentBy_of_no_deadline up h]
  simp [handleConnect, handleConnectWith, upPump, run_bytes]

/-- What happens at the deadline, for every busy tunnel: the target has been forwarded exactly what
was sent before it, is told end-of-stream although the client has not finished, and nothing the
client sends afterwards (`post`) arrives. -/
theorem deadline_cuts_a_busy_tunnel (cfg : Cfg) (st : Nat) (ahead early : Bytes) (pre post down : List Ev)
    (hp : closes pre = false) :
    let o := handleConnect cfg (.answered st ahead) early (pre ++ .deadline :: post) down
    bytesOf o.toTarget = early ++ sentBy pre ∧ eofSeen o.toTarget = true := by
  have hc : closes (pre ++ .deadline :: post) = true :=
    (closes_iff_exists_ending _).2 ⟨.deadline, by simp, rfl⟩
  have hs : sentBy (pre ++ .deadline :: post) = sentBy pre := by
    rw [sentBy_append_of_open _ _ hp]; simp [sentBy, Ev.ending, Ev.accepted]
  refine ⟨by simp [handleConnect, handleConnectWith, upPump, run_bytes, hs], ?_⟩
  simp [handleConnect, handleConnectWith, upPump, run_shape, hc]

/-- Counterexample (test): the client sends `[1]`, the deadline passes, the client sends `[2]` and
only then finishes — the target is forwarded `[1]` alone. -/
theorem transparent_for_life_counterexample : ¬ TransparentForLife := by
  intro h
  have h1 := h ⟨⟨true, true⟩, ⟨true, true⟩⟩ 200 [] [] [.data [1], .deadline, .data [2], .eof] []
  have h2 := (deadline_cuts_a_busy_tunnel ⟨⟨true, true⟩, ⟨true, true⟩⟩ 200 [] [] [.data [1]] [.data [2], .eof] []
    (by simp [closes, endOf, Ev.ending])).1
  simp only [List.cons_append, List.nil_append] at h2
  rw [h2] at h1
  simp [sentBy, offered, Ev.ending, Ev.accepted] at h1

/-- The structural reason, regenerated from proxy.go: the deadline is armed once per exchange in the
serving loop, immediately before `p.handle`. -/
theorem facts_deadline_armed_once_per_exchange :
    hasBlock ["for {", "call conn.SetDeadline", "call p.handle"] Martian.Generated.Proxy.handleLoopServing = true ∧
    count "call conn.SetDeadline" Martian.Generated.Proxy.handleLoopServing = 1 := by
  decide

/-- test: the hypothesis of the partial theorem is satisfiable -/
example : Ev.deadline ∉ [Ev.data [1, 2], Ev.eof] := by decide

end Martian.Props.C04
