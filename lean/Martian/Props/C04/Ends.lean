import Martian.Lemmas.Tunnel
/-!
C04 — how a tunnel ends: the three reasons a copy goroutine stops (`EndReason`), and the kind of
the final `Close` (`CloseKind`).

* Whatever ends `io.Copy` — EOF, a failed `Read` (the peer reset the connection, a deadline), a
  failed `Write` (the destination is gone) — the destination is half-closed exactly once, after the
  bytes forwarded so far, and the pump is counted as finished (so the join can complete).
* The final close of both connections is graceful; under the TCP contract `Tunnel.receive` every
  byte written before it is delivered before end-of-stream, however many bytes were still on their
  way (slow reader, multi-MiB upload). With an abortive final close (`SO_LINGER 0` on the outbound
  connection) that is false: `abortive_final_close_truncates`.
-/
namespace Martian.Props.C04
open Martian Martian.Tunnel

/-- Pump level, for every relay loop, buffered prefix, event list and reason: if something ended
the copy, the log is the writes followed by exactly one `closeWrite`, the writes are the buffered
prefix plus what the destination accepted, nothing is retained and the reason is recorded. -/
theorem destination_half_closed_whatever_the_reason (l : Loop) (held : Bytes) (evs : List Ev)
    (r : EndReason) (h : endOf evs = some r) :
    ∃ ws : List Bytes,
      (Pump.run l (.fresh held) evs).2 = ws.map .write ++ [.closeWrite] ∧
      ws.flatten = held ++ sentBy evs ∧
      (Pump.run l (.fresh held) evs).1 = ⟨[], some r⟩ := by
  have hc : closes evs = true := by simp [closes, h]
  cases held with
  | nil =>
    exact ⟨writesOf l evs, by simp [run_shape, hc, closeActs, optWrite], by simp [writesOf_flatten],
      by simp [run_shape, h]⟩
  | cons b bs =>
    exact ⟨(b :: bs) :: writesOf l evs, by simp [run_shape, hc, closeActs, optWrite],
      by simp [writesOf_flatten], by simp [run_shape, h]⟩

/-- Every ending event ends the pump: EOF, read error and write error alike. -/
theorem pump_ends_on_eof_readErr_writeErr (l : Loop) (held : Bytes) (pre post : List Ev) (e : Ev)
    (he : e.ending.isSome = true) :
    (Pump.run l (.fresh held) (pre ++ e :: post)).1.finished = true ∧
    eofSeen (Pump.run l (.fresh held) (pre ++ e :: post)).2 = true := by
  have hc : closes (pre ++ e :: post) = true :=
    (closes_iff_exists_ending _).2 ⟨e, by simp, he⟩
  simp [run_shape, Pump.finished, hc, (show (endOf (pre ++ e :: post)).isSome = true from hc)]

/-- Events after the one that ended a copy change nothing (the goroutine is gone): no byte is
written after the half-close, and the half-close is not repeated. -/
theorem nothing_after_the_end (cfg : Cfg) (st : Nat) (ahead early : Bytes) (up more down : List Ev)
    (h : closes up = true) :
    handleConnect cfg (.answered st ahead) early (up ++ more) down = handleConnect cfg (.answered st ahead) early up down := by
  have hc : closes (up ++ more) = true :=
    (closes_iff_exists_ending _).2 (by
      obtain ⟨e, he, hs⟩ := (closes_iff_exists_ending up).1 h
      exact ⟨e, by simp [he], hs⟩)
  have hw : ∀ l, writesOf l (up ++ more) = writesOf l up := by
    intro l
    induction up with
    | nil => simp [closes, endOf] at h
    | cons e es ih =>
      cases he : e.ending with
      | none =>
        have h' : closes es = true := by simpa [closes_cons, he] using h
        have hc' : closes (es ++ more) = true := by simpa [closes_cons, he] using hc
        simp [writesOf, he, ih h' hc']
      | some r => simp [writesOf, he]
  simp [handleConnect, handleConnectWith, upPump, downPump, run_shape, h, hc, hw,
    endOf_append_of_closed up more h]

/-- The handler's final close of either connection is graceful, and happens exactly at release. -/
theorem final_close_is_graceful (cfg : Cfg) (st : Nat) (ahead early : Bytes) (up down : List Ev) :
    let o := handleConnect cfg (.answered st ahead) early up down
    finalClose o.toTarget = (if o.released then some .graceful else none) ∧
    finalClose o.toClient = (if o.released then some .graceful else none) := by
  simp [handleConnect, handleConnectWith, upPump, downPump, run_shape, Pump.finished, closes]

/-- Client → target, with close kinds: for every number `lost` of bytes still on their way when
the proxy closes (a target that reads slowly, an upload larger than every buffer), the target's
application reads exactly the early data and everything the client sent, and then — iff the
client→target copy has ended — end-of-stream; never a reset, never a shorter stream. -/
theorem every_byte_before_close_reaches_target (cfg : Cfg) (st : Nat) (ahead early : Bytes) (up down : List Ev)
    (lost : Nat) :
    receive lost (handleConnect cfg (.answered st ahead) early up down).toTarget =
      ⟨early ++ sentBy up, if closes up then .eof else .stillOpen⟩ := by
  cases hu : closes up <;> cases hd : closes down <;>
  simp [receive, handleConnect, handleConnectWith, upPump, downPump, run_shape, Pump.finished,
    writesOf_flatten, hu, hd, (show (endOf up).isSome = _ from hu), (show (endOf down).isSome = _ from hd)]

/-- Target → client, with close kinds. -/
theorem every_byte_before_close_reaches_client (cfg : Cfg) (st : Nat) (ahead early : Bytes) (up down : List Ev)
    (lost : Nat) :
    receive lost (handleConnect cfg (.answered st ahead) early up down).toClient =
      ⟨ahead ++ sentBy down, if closes down then .eof else .stillOpen⟩ := by
  cases hu : closes up <;> cases hd : closes down <;>
  simp [receive, handleConnect, handleConnectWith, upPump, downPump, run_shape, Pump.finished,
    writesOf_flatten,
    hu, hd, (show (endOf up).isSome = _ from hu), (show (endOf down).isSome = _ from hd)]

/-- The variant with `SetLinger(0)` on the outbound connection (what the model would be if that
call were added): once the tunnel is released, a target that had `lost > 0` bytes still on their
way reads a strictly shorter stream, ended by a reset. This is why the absence of socket options
on the tunnel connections is pinned as a regenerated fact, and why the harness closes tunnels with
multi-MiB uploads in flight towards slow readers. -/
theorem abortive_final_close_truncates (cfg : Cfg) (st : Nat) (ahead early : Bytes) (up down : List Ev)
    (lost : Nat) (hu : closes up = true) (hd : closes down = true) (hl : 0 < lost) :
    receive lost (handleConnectWith .abortive cfg (.answered st ahead) early up down).toTarget =
      ⟨(early ++ sentBy up).take ((early ++ sentBy up).length - lost), .reset⟩ := by
  have hl' : lost ≠ 0 := by omega
  simp [receive, handleConnectWith, upPump, downPump, run_shape, Pump.finished,
    writesOf_flatten, hu, hd, hl', (show (endOf up).isSome = _ from hu), (show (endOf down).isSome = _ from hd)]

/-- … and nothing is visible when nothing was outstanding, which is why exchanges of a few KiB with
a fast reader do not notice an abortive close. -/
theorem abortive_final_close_invisible_when_nothing_outstanding (cfg : Cfg) (st : Nat) (ahead early : Bytes)
    (up down : List Ev) (hu : closes up = true) (hd : closes down = true) :
    receive 0 (handleConnectWith .abortive cfg (.answered st ahead) early up down).toTarget =
      receive 0 (handleConnect cfg (.answered st ahead) early up down).toTarget := by
  simp [receive, handleConnect, handleConnectWith, upPump, downPump, run_shape, Pump.finished,
    writesOf_flatten, hu, hd, (show (endOf up).isSome = _ from hu), (show (endOf down).isSome = _ from hd)]

/-- Concrete witness (test): target finished first, the client uploads 6 bytes and closes while 4
are still on their way; with an abortive close the target reads 2 bytes and a reset. -/
theorem abortive_final_close_counterexample :
    receive 4 (handleConnectWith .abortive ⟨⟨true, true⟩, ⟨true, true⟩⟩ (.answered 200 []) []
      [.data [1, 2, 3, 4, 5, 6], .eof] [.eof]).toTarget = ⟨[1, 2], .reset⟩ ∧
    receive 4 (handleConnect ⟨⟨true, true⟩, ⟨true, true⟩⟩ (.answered 200 []) []
      [.data [1, 2, 3, 4, 5, 6], .eof] [.eof]).toTarget = ⟨[1, 2, 3, 4, 5, 6], .eof⟩ := by
  constructor
  · rw [abortive_final_close_truncates _ _ _ _ _ _ 4 (by decide) (by decide) (by decide)]
    simp [sentBy, Ev.ending, Ev.accepted]
  · rw [every_byte_before_close_reaches_target]
    simp [sentBy, closes, endOf, Ev.ending, Ev.accepted]

/-! ### Non-vacuity -/

/-- test: each of the three reasons is reachable, and each half-closes the destination -/
example : endOf [Ev.data [1], .eof] = some .eof ∧ endOf [Ev.data [1], .rerr] = some .readErr ∧
    endOf [Ev.data [1], .dataW [2, 3] 1, .eof] = some .writeErr := by decide
/-- test: the target resets the connection while the client keeps its side open — the client is
told end-of-stream; the client then keeps sending: the other copy ends on its write error and the
tunnel is released without waiting for the client. -/
example :
    let o := handleConnect ⟨⟨true, true⟩, ⟨true, true⟩⟩ (.answered 200 []) [] [.data [1, 2]] [.data [9], .rerr]
    eofSeen o.toClient = true ∧ bytesOf o.toClient = [9] ∧ o.released = false := by
  simp [handleConnect, handleConnectWith, upPump, downPump, run_shape, closes, endOf, Ev.ending, Ev.accepted,
    Pump.finished, closeActs, releaseActs, optWrite, writesOf, chunks_flatten, eofSeen, bytesOf]
example :
    let o := handleConnect ⟨⟨true, true⟩, ⟨true, true⟩⟩ (.answered 200 []) [] [.data [1, 2], .dataW [3, 4, 5] 1] [.data [9], .rerr]
    o.released = true ∧ bytesOf o.toTarget = [1, 2, 3] ∧ finalClose o.toClient = some .graceful := by
  simp [handleConnect, handleConnectWith, upPump, downPump, run_shape, closes, endOf, Ev.ending,
    Ev.accepted, Pump.finished, closeActs, releaseActs, optWrite, sentBy, writesOf_flatten, bytesOf, finalClose]

end Martian.Props.C04
