import Martian.Props.C20.Arith
import Martian.Props.C20.Facts
import Martian.Lemmas.Range
import Martian.Lemmas.Path
import Martian.Lemmas.PathBytes
/-!
C20 — Synthetic bodies honour Range requests exactly and stay inside their root.
Only property theorems and non-vacuity examples live here.
Quantifiers: every content (any length), every Range header byte string (ASCII; see Go/Strings),
every component list of a request path.
-/
namespace Martian.Props.C20
open Martian Martian.Go Martian.Range

/-- The modelled Range pipeline never reaches a Go slice-bounds panic. -/
theorem never_panics (content : Bytes) (hdr : Option Bytes) : respond content hdr ≠ .panic := by
  unfold respond
  cases hdr with
  | none => simp
  | some h =>
    simp only
    split
    · simp
    · cases hp : parseAll content.length (split (trimLeft (toLower h) bytesEq) comma) [] with
      | unsat => simp
      | err => simp
      | ok rs =>
        have hall := parseAll_ok content.length _ [] rs (by simp) hp
        match rs, hall with
        | [], _ => simp [sliceParts]
        | [(s, e)], hall =>
          have := hall (s, e) (by simp)
          simp [goSlice_ok this.1 this.2.1 this.2.2]
        | p :: q :: r, hall =>
          simp only
          rw [sliceParts_ok content _ hall]
          simp

/-- No Range header (or an empty one): the whole content, unchanged. -/
theorem full_when_no_range (content : Bytes) :
    respond content none = .full content ∧ respond content (some []) = .full content := by
  simp [respond]

/-- A single-range 206 carries exactly bytes `s..e` of the content, `e` inside the content,
and the advertised total is the content length. -/
theorem single_range_exact {content : Bytes} {hdr : Option Bytes} {s e : Int} {t : Nat} {b : Bytes}
    (h : respond content hdr = .single s e t b) :
    0 ≤ s ∧ s ≤ e ∧ e < (content.length : Int) ∧ t = content.length ∧
      b = (content.drop s.toNat).take (e.toNat + 1 - s.toNat) ∧ b.length = e.toNat + 1 - s.toNat := by
  unfold respond at h
  cases hdr with
  | none => simp at h
  | some hd =>
    simp only at h
    split at h
    · simp at h
    · cases hp : parseAll content.length (split (trimLeft (toLower hd) bytesEq) comma) [] with
      | unsat => simp [hp] at h
      | err => simp [hp] at h
      | ok rs =>
        have hall := parseAll_ok content.length _ [] rs (by simp) hp
        rw [hp] at h
        match rs, hall, h with
        | [], _, h => simp [sliceParts] at h
        | [(s', e')], hall, h =>
          have hb := hall (s', e') (by simp)
          simp only [goSlice_ok hb.1 hb.2.1 hb.2.2] at h
          injection h with h1 h2 h3 h4
          subst h1 h2 h3 h4
          refine ⟨hb.1, hb.2.1, hb.2.2, rfl, rfl, ?_⟩
          simp only [List.length_take, List.length_drop]
          omega
        | p :: q :: r, hall, h =>
          simp only at h
          rw [sliceParts_ok content _ hall] at h
          simp at h

/-- A multi-range 206 has one part per accepted range, each exactly the bytes of its range. -/
theorem multi_range_parts {content : Bytes} {hdr : Option Bytes} {t : Nat}
    {parts : List (Int × Int × Bytes)} (h : respond content hdr = .multi t parts) :
    t = content.length ∧ ∀ p ∈ parts, 0 ≤ p.1 ∧ p.1 ≤ p.2.1 ∧ p.2.1 < (content.length : Int) ∧
      p.2.2 = (content.drop p.1.toNat).take (p.2.1.toNat + 1 - p.1.toNat) := by
  unfold respond at h
  cases hdr with
  | none => simp at h
  | some hd =>
    simp only at h
    split at h
    · simp at h
    · cases hp : parseAll content.length (split (trimLeft (toLower hd) bytesEq) comma) [] with
      | unsat => simp [hp] at h
      | err => simp [hp] at h
      | ok rs =>
        have hall := parseAll_ok content.length _ [] rs (by simp) hp
        rw [hp] at h
        have key : ∀ rs' : List (Int × Int), (∀ p ∈ rs', 0 ≤ p.1 ∧ p.1 ≤ p.2 ∧ p.2 < (content.length : Int)) →
            (match sliceParts content rs' with
              | none => Res.panic
              | some ps => Res.multi content.length ps) = .multi t parts →
            t = content.length ∧ ∀ p ∈ parts, 0 ≤ p.1 ∧ p.1 ≤ p.2.1 ∧ p.2.1 < (content.length : Int) ∧
              p.2.2 = (content.drop p.1.toNat).take (p.2.1.toNat + 1 - p.1.toNat) := by
          intro rs' hall' h'
          rw [sliceParts_ok content _ hall'] at h'
          injection h' with h1 h2
          subst h1 h2
          refine ⟨rfl, ?_⟩
          intro p hp'
          obtain ⟨q, hq, rfl⟩ := List.mem_map.mp hp'
          have := hall' q hq
          exact ⟨this.1, this.2.1, this.2.2, rfl⟩
        match rs, hall, h with
        | [], hall, h => exact key [] hall h
        | [(s', e')], hall, h =>
          have hb := hall (s', e') (by simp)
          simp [goSlice_ok hb.1 hb.2.1 hb.2.2] at h
        | p :: q :: r, hall, h => exact key _ hall h

/-- Whatever is returned is a contiguous piece of the content: never bytes from outside it. -/
theorem never_outside_content {content : Bytes} {hdr : Option Bytes} {s e : Int} {t : Nat} {b : Bytes}
    (h : respond content hdr = .single s e t b) : b <:+: content := by
  have := single_range_exact h
  rw [this.2.2.2.2.1]
  exact ⟨content.take s.toNat, (content.drop s.toNat).drop (e.toNat + 1 - s.toNat), by
      rw [List.append_assoc, List.take_append_drop, List.take_append_drop]⟩

/-- An accepted range is what was asked for, with the last position clamped to the final byte;
a first position at or past the end, or a reversed range, is 416. -/
theorem clamp_or_416 (size : Nat) (a b : Bytes) (s e : Int)
    (hsplit : split (if hasSuffix (a ++ [minus] ++ b) [minus] then a ++ [minus] ++ b ++ itoa ((size : Int) - 1)
        else a ++ [minus] ++ b) minus = [a, b])
    (hs : atoi (trimSpace a) = some s) (he : atoi (trimSpace b) = some e) :
    parseOne size (a ++ [minus] ++ b) =
      if s > e ∨ s ≥ (size : Int) then .unsat else .ok s (min e ((size : Int) - 1)) := by
  unfold parseOne
  simp only [hsplit, hs, he]
  split
  · rfl
  · congr 1
    split <;> omega

/-- Static modifier: after cleaning, a rooted request path has no `..`, `.` or empty component. -/
theorem clean_rooted_has_no_dotdot (pathComps : List Bytes) :
    dotdot ∉ cleanComps true pathComps := by
  intro h
  exact (cleanComps_rooted_plain pathComps dotdot h).2.2 rfl

/-- Static modifier: joining the cleaned root with the cleaned rooted request path and cleaning
again (what `filepath.Join` does) keeps every root component as a prefix: the resolved file lies
beneath the root, however dotted or slashed the request path was. -/
theorem resolved_under_root (rootComps pathComps : List Bytes) :
    cleanComps true (cleanComps true rootComps ++ cleanComps true pathComps)
      = cleanComps true rootComps ++ cleanComps true pathComps :=
  cleanComps_append_rooted _ _ (cleanComps_rooted_plain rootComps)

/-- Byte level, as the static modifier computes it: for a rooted root directory and a rooted request
path - however dotted or slashed - the components of the resolved file name
`filepath.Join(Clean(root), Clean(path))` are the root's components followed by the cleaned path's
components, and no `..` is among the latter: the file lies beneath the root. -/
theorem resolved_bytes_under_root (root p : Bytes) (hr : isRooted root = true) (hp : isRooted p = true) :
    comps (resolve root p) = comps (clean root) ++ comps (clean p) ∧ dotdot ∉ comps (clean p) := by
  have hcr := clean_rooted_isRooted root hr
  have hcp := clean_rooted_isRooted p hp
  have hner : (clean root).isEmpty = false := by cases h : clean root <;> simp_all [isRooted]
  have hnep : (clean p).isEmpty = false := by cases h : clean p <;> simp_all [isRooted]
  have hX : isRooted (clean root ++ [slash] ++ clean p) = true := by
    cases h : clean root with
    | nil => simp [h] at hner
    | cons c r => rw [h] at hcr; simpa [isRooted] using hcr
  constructor
  · unfold resolve join2
    simp only [hner, hnep, Bool.false_and, Bool.false_eq_true, if_false]
    rw [comps_clean_rooted _ hX]
    have hsplit : split (clean root ++ [slash] ++ clean p) slash = split (clean root) slash ++ split (clean p) slash := by
      have : clean root ++ [slash] ++ clean p = clean root ++ slash :: clean p := by simp
      rw [this, split_append_sep]
    rw [hsplit, ← cleanComps_filter, List.filter_append]
    have e1 : (split (clean root) slash).filter (· ≠ []) = comps (clean root) := rfl
    have e2 : (split (clean p) slash).filter (· ≠ []) = comps (clean p) := rfl
    rw [e1, e2]
    apply cleanComps_plain
    intro x hx
    rcases List.mem_append.mp hx with h | h
    · rw [comps_clean_rooted root hr] at h; exact cleanComps_rooted_plain _ x h
    · rw [comps_clean_rooted p hp] at h; exact cleanComps_rooted_plain _ x h
  · rw [comps_clean_rooted p hp]; exact clean_rooted_has_no_dotdot _

/-- **Every answer is about the file as it is now.** After any history of rewrites and requests on one
served path, a request is answered from the content most recently written — size, clamping, the 416
test, `Content-Range` total and the bytes all follow the current file, never an earlier one — so all
theorems above apply to it with `content :=` the current content. -/
theorem answer_follows_current_file (disk : Bytes) (ops : List FileOp) (hdr : Option Bytes) :
    (fileStep (fileRun disk ops) (.get hdr)).2 = some (respond (lastWritten disk ops) hdr) := by
  induction ops generalizing disk with
  | nil => rfl
  | cons op ops ih => cases op <;> simpa [fileRun, fileStep, lastWritten] using ih _

/-- **An explicit path mapping is consulted by exact key only.** A request whose cleaned path is not the
key is resolved as if there were no mapping — so `resolved_bytes_under_root` applies to it, however the
path is dotted below a key that looks like a directory — and a request that hits the key gets the
configured file, whatever else its path spelt. -/
theorem mapping_is_exact_key_only (root key value p : Bytes) :
    (clean p ≠ key → resolveMapped root key value p = resolve root p) ∧
    (clean p = key → resolveMapped root key value p = join2 (clean root) value) := by
  constructor <;> intro h <;> simp [resolveMapped, h]

/-! Non-vacuity / sanity on concrete inputs (tests, labelled as such). -/
example : (fileStep (fileRun (strBytes "0123456789") [.get none, .write (strBytes "0123")]) (.get (some (strBytes "bytes=2-7")))).2
    = some (.single 2 3 4 (strBytes "23")) := by decide
example : respond (strBytes "0123456789") (some (strBytes "bytes=5-20"))
    = .single 5 9 10 (strBytes "56789") := by decide
example : respond (strBytes "0123456789") (some (strBytes "bytes=2-"))
    = .single 2 9 10 (strBytes "23456789") := by decide
example : respond (strBytes "0123456789") (some (strBytes "bytes=10-12")) = .unsat := by decide
example : respond (strBytes "0123456789") (some (strBytes "bytes=0-1, 4-5"))
    = .multi 10 [(0, 1, strBytes "01"), (4, 5, strBytes "45")] := by decide
example : respond [] (some (strBytes "bytes=0-")) = .unsat := by decide
example : respond (strBytes "abc") (some (strBytes "bytes=x-2")) = .err := by decide
example : clean (strBytes "/a/../../etc//passwd/.") = strBytes "/etc/passwd" := by decide
example : resolve (strBytes "/srv/root/") (strBytes "/../../x") = strBytes "/srv/root/x" := by decide
example : resolveMapped (strBytes "/srv/root") (strBytes "/assets/") (strBytes "files") (strBytes "/assets/../../../secret")
    = strBytes "/srv/root/secret" := by decide

end Martian.Props.C20
