import Martian.Lemmas.H2Relay
import Martian.Generated.H2Relay
import Martian.Props.C08.Hpack
/-!
C08 — HTTP/2 relay delivers each stream's frames faithfully for any framing and order.

Theorems about the model of `h2/relay.go` + `h2/queued_frames.go` (`Model/H2Relay.lean`):
* `dispatch_units`: CONTINUATION reassembly — for every RFC-valid frame sequence of one direction
  (`FUnit`s: self-contained frames, or HEADERS / PUSH_PROMISE followed by any number of
  CONTINUATIONs cut anywhere), `processFrame` makes exactly one sink call per unit, with the
  concatenated block, END_STREAM / priority / promised id of the opening frame, the same reset
  codes and priorities; SETTINGS, PING, GOAWAY become direct writes with identical contents.
* `accepted_is_image_of_calls`, `data_split_faithful`, `chunks_concat`: what the sinks enqueue.
* `header_block_frames_fit`, `push_block_frames_fit`: a header block of any length is fragmented
  into frames whose payloads (with the priority / promised-id octets) respect the receiver's
  MAX_FRAME_SIZE, and the fragments concatenate to the encoded block.
* `per_stream_order_and_content` (= no loss, no duplication, per-stream order): for ANY history of
  sink calls interleaved with ANY window schedule and any map iteration orders, on every stream
  `emitted ++ still queued = image of the calls`.
* header blocks and HPACK: `HeaderBlocksLeaveInEncodeOrder` is FALSE for the code as it is (F08b,
  `header_blocks_leave_in_encode_order_counterexample`); it holds for every history that never
  encodes a block while an earlier one is queued on another stream (`…_partial`).
* `priority_flag_partial` / `_counterexample` (F08d): an all-zero priority loses its flag.
Only property theorems and non-vacuity examples live here.
-/
namespace Martian.Props.C08
open Martian Martian.H2Relay

/-! ## Framing: CONTINUATION reassembly and dispatch -/

/-- A self-contained frame: not a CONTINUATION, and a HEADERS / PUSH_PROMISE has END_HEADERS. -/
def complete : Frame → Bool
  | .continuation .. => false
  | .headers _ _ eh _ _ => eh
  | .pushPromise _ _ eh _ => eh
  | _ => true

/-- RFC 7540 §4.3 / §6.10: the units a valid frame sequence of one direction consists of. -/
inductive FUnit
  | single (f : Frame)
  | hblock (sid : Nat) (es : Bool) (prio : Option Prio) (first : Bytes) (mid : List Bytes) (last : Bytes)
  | pblock (sid promised : Nat) (first : Bytes) (mid : List Bytes) (last : Bytes)

def FUnit.valid : FUnit → Prop
  | .single f => complete f = true
  | _ => True

def FUnit.frames : FUnit → List Frame
  | .single f => [f]
  | .hblock sid es prio first mid last =>
    .headers sid es false prio first :: (mid.map (Frame.continuation sid false) ++ [.continuation sid true last])
  | .pblock sid promised first mid last =>
    .pushPromise sid promised false first :: (mid.map (Frame.continuation sid false) ++ [.continuation sid true last])

/-- The meaning of a unit, stated without reference to the relay: one logical event carrying the
whole header block, the opening frame's END_STREAM, priority and promised id. -/
def FUnit.call : FUnit → Call
  | .single (.data sid es payload pad) => .data sid (flowLen payload pad) payload es
  | .single (.headers sid es _ prio frag) => .header sid frag es (prio.getD Prio.zero)
  | .single (.headersRep sid es prio reps) => .headerRep sid reps es (prio.getD Prio.zero)
  | .single (.pushPromise sid promised _ frag) => .pushPromise sid promised frag
  | .single (.continuation ..) => .nilContinuation
  | .single (.priority sid p) => .priority sid p
  | .single (.rst sid code) => .rst sid code
  | .single (.settings kvs) => .settings kvs
  | .single .settingsAck => .settingsAck
  | .single (.ping ack data) => .ping ack data
  | .single (.goaway last code debug) => .goaway last code debug
  | .single (.windowUpdate sid inc) => .windowUpdate sid inc
  | .hblock sid es prio first mid last => .header sid (first ++ mid.flatten ++ last) es (prio.getD Prio.zero)
  | .pblock sid promised first mid last => .pushPromise sid promised (first ++ mid.flatten ++ last)

/-- **Any framing.** Whatever state earlier blocks left behind, a valid frame sequence is
dispatched to exactly the calls its units mean — header blocks whole, END_STREAM exactly where
the HEADERS frame had it (F08a: not invented on continued headers), for every way of cutting
the blocks into CONTINUATION frames. -/
theorem dispatch_units (d : DState) (us : List FUnit) (hv : ∀ u ∈ us, u.valid) :
    (dispatchAll d (us.flatMap FUnit.frames)).2 = us.map FUnit.call := by
  induction us generalizing d with
  | nil => simp [dispatchAll]
  | cons u us ih =>
    have hvu := hv u (by simp)
    have ih' := fun d' => ih d' (fun v hvm => hv v (by simp [hvm]))
    simp only [List.flatMap_cons, List.map_cons]
    rw [dispatchAll_append]
    simp only [ih']
    cases u with
    | single f =>
      cases f <;> simp_all [FUnit.frames, FUnit.call, FUnit.valid, complete, dispatchAll, dispatch]
    | hblock sid es prio first mid last =>
      simp only [FUnit.frames, FUnit.call, dispatchAll, dispatch, Bool.false_eq_true, if_false]
      rw [dispatchAll_conts]
      simp [completeCall]
    | pblock sid promised first mid last =>
      simp only [FUnit.frames, FUnit.call, dispatchAll, dispatch, Bool.false_eq_true, if_false]
      rw [dispatchAll_conts]
      simp [completeCall]

/-- **Control frames.** SETTINGS, SETTINGS-ack, PING and GOAWAY are written to the destination at
once and unchanged; they never enter, leave or reorder a stream queue. -/
theorem control_frames_identical (s : Sys) (d : Dir) (enc : Bytes) (order : List Nat) :
    (∀ ack data, applyCall s d enc order (.ping ack data) = some (s.on d (.ctl (.ping ack data)))) ∧
    (∀ l c dbg, applyCall s d enc order (.goaway l c dbg) = some (s.on d (.ctl (.goaway l c dbg)))) ∧
    applyCall s d enc order .settingsAck = some (s.on d (.ctl .settingsAck)) ∧
    (∀ kvs, applyCall s d enc order (.settings kvs) =
        some ((applySettings s d.peer order kvs).on d (.ctl (.settings kvs)))) ∧
    (∀ (r : Relay) (c : Ctl), (rstep r (.ctl c)).wrote = r.wrote ++ [c] ∧ (rstep r (.ctl c)).emitted = r.emitted ∧
        (rstep r (.ctl c)).accepted = r.accepted ∧ (rstep r (.ctl c)).ob = r.ob) := by
  refine ⟨fun _ _ => rfl, fun _ _ _ => rfl, rfl, fun _ => rfl, fun r c => ⟨rfl, rfl, rfl, rfl⟩⟩

/-! ## What the sinks enqueue -/

def payloadOf : QFrame → Bytes
  | .data _ _ p => p
  | _ => []

def endStreamOf : QFrame → Bool
  | .data _ es _ => es
  | .headers _ es _ _ _ _ => es
  | _ => false

private theorem mkData_props (sid : Nat) (es : Bool) (cs : List Bytes) (hne : cs ≠ []) :
    (mkData sid es cs).map payloadOf = cs ∧ (∀ f ∈ mkData sid es cs, f.sid = sid) ∧
    (mkData sid es cs).map endStreamOf = List.replicate (cs.length - 1) false ++ [es] := by
  induction cs with
  | nil => exact absurd rfl hne
  | cons c rest ih =>
    cases rest with
    | nil => simp [mkData, payloadOf, endStreamOf, QFrame.sid]
    | cons c2 rest2 =>
      have := ih (by simp)
      obtain ⟨h1, h2, h3⟩ := this
      refine ⟨?_, ?_, ?_⟩
      · show payloadOf (.data sid false c) :: (mkData sid es (c2 :: rest2)).map payloadOf = _
        rw [h1]; rfl
      · intro f hf
        simp only [mkData, List.mem_cons] at hf
        rcases hf with hf | hf
        · subst hf; rfl
        · exact h2 f (by simpa [mkData] using hf)
      · have : (mkData sid es (c :: c2 :: rest2)).map endStreamOf = false :: (mkData sid es (c2 :: rest2)).map endStreamOf := by
          simp [mkData, endStreamOf]
        rw [this, h3]
        simp [List.replicate_succ]

/-- **DATA.** One `Data` call (any size) becomes DATA frames on the same stream whose payloads
concatenate to the call's bytes, each at most MAX_FRAME_SIZE, END_STREAM only on the last one
and only if the call had it. -/
theorem data_split_faithful (sid : Nat) (es : Bool) (payload : Bytes) (max : Nat) (hm : 0 < max) :
    let fs := mkData sid es (dataChunks max payload.length payload)
    (fs.map payloadOf).flatten = payload ∧ (∀ f ∈ fs, f.sid = sid ∧ (payloadOf f).length ≤ max) ∧
    fs.map endStreamOf = List.replicate (fs.length - 1) false ++ [es] := by
  have hp := mkData_props sid es (dataChunks max payload.length payload) (dataChunks_ne_nil _ _ _)
  obtain ⟨h1, h2, h3⟩ := hp
  have hlen : (mkData sid es (dataChunks max payload.length payload)).length = (dataChunks max payload.length payload).length := by
    have := congrArg List.length h1; simpa using this
  refine ⟨?_, ?_, ?_⟩
  · simp only [h1]; exact dataChunks_flatten max hm _ _ (Nat.le_refl _)
  · intro f hf
    refine ⟨h2 f hf, ?_⟩
    have : payloadOf f ∈ (mkData sid es (dataChunks max payload.length payload)).map payloadOf := List.mem_map_of_mem hf
    rw [h1] at this
    exact dataChunks_le _ _ _ _ this
  · simp only [hlen]; exact h3

/-- **Header block chunks.** `splitIntoChunks` loses nothing and respects both bounds. -/
theorem chunks_concat (firstMax contMax : Nat) (data : Bytes) (hc : 0 < contMax) :
    (splitIntoChunks firstMax contMax data).flatten = data ∧
    (splitIntoChunks firstMax contMax data).head?.map List.length ≤ some firstMax ∧
    (∀ c ∈ (splitIntoChunks firstMax contMax data).tail, c.length ≤ contMax ∧ 0 < c.length) ∧
    splitIntoChunks firstMax contMax data ≠ [] := by
  refine ⟨?_, ?_, ?_, by simp [splitIntoChunks]⟩
  · simp only [splitIntoChunks, List.flatten_cons]
    rw [chunkRest_flatten contMax hc _ _ (by simp)]
    exact List.take_append_drop _ _
  · simp only [splitIntoChunks, List.head?_cons, Option.map_some, List.length_take]
    exact Option.some_le_some.mpr (Nat.min_le_left _ _)
  · intro c hcm
    simp only [splitIntoChunks, List.tail_cons] at hcm
    refine ⟨chunkRest_le _ _ _ c hcm, ?_⟩
    have key : ∀ (fuel : Nat) (rem : Bytes), ∀ c ∈ chunkRest contMax fuel rem, 0 < c.length := by
      intro fuel
      induction fuel with
      | zero => intro rem c h; simp [chunkRest] at h
      | succ n ih =>
        intro rem c h
        unfold chunkRest at h
        split at h
        · simp at h
        · rename_i hne
          simp only [List.mem_cons] at h
          rcases h with h | h
          · subst h
            cases rem with
            | nil => simp at hne
            | cons x xs => simp; omega
          · exact ih _ c h
    exact key _ _ c hcm

private theorem foldl_max_le (l : List Nat) (a m : Nat) (ha : a ≤ m) (hl : ∀ x ∈ l, x ≤ m) : l.foldl max a ≤ m := by
  induction l generalizing a with
  | nil => simpa
  | cons x rest ih =>
    simp only [List.foldl_cons]
    apply ih
    · have := hl x (by simp); omega
    · intro y hy; exact hl y (by simp [hy])

/-- **A fragmented header block is deliverable (HEADERS).** What `relay.header` enqueues for an
encoded block of ANY length, with or without priority, under any legal MAX_FRAME_SIZE of the
receiver (≥ 5 suffices): the fragments concatenate to the encoded block, and every frame `send`
puts on the wire — the HEADERS frame *including its 5 priority octets*, and each CONTINUATION —
has a payload of at most the receiver's MAX_FRAME_SIZE, so an endpoint that enforces the limit it
advertised (FRAME_SIZE_ERROR otherwise) receives the whole block. -/
theorem header_block_frames_fit (r : Relay) (sid : Nat) (fields : Bytes) (es : Bool) (prio : Prio)
    (encoded : Bytes) (hm : 5 ≤ r.maxFrame) :
    ∃ chunks, acceptedOf r (.header sid fields es prio encoded) = [.headers sid es prio r.nextStamp fields chunks] ∧
      chunks.flatten = encoded ∧
      (QFrame.headers sid es prio r.nextStamp fields chunks).wireMax ≤ r.maxFrame := by
  refine ⟨_, rfl, (chunks_concat _ _ encoded (by omega)).1, ?_⟩
  simp only [QFrame.wireMax, splitIntoChunks]
  apply foldl_max_le
  · simp only [List.length_take]; split <;> omega
  · intro x hx
    simp only [List.mem_map] at hx
    obtain ⟨c, hc, rfl⟩ := hx
    exact chunkRest_le _ _ _ c hc

/-- **… and PUSH_PROMISE**: the first frame carries the 4 octets of the promised stream id. -/
theorem push_block_frames_fit (r : Relay) (sid promised : Nat) (fields encoded : Bytes) (hm : 5 ≤ r.maxFrame) :
    ∃ chunks, acceptedOf r (.push sid promised fields encoded) = [.push sid promised r.nextStamp fields chunks] ∧
      chunks.flatten = encoded ∧
      (QFrame.push sid promised r.nextStamp fields chunks).wireMax ≤ r.maxFrame := by
  refine ⟨_, rfl, (chunks_concat _ _ encoded (by omega)).1, ?_⟩
  simp only [QFrame.wireMax, splitIntoChunks]
  apply foldl_max_le
  · simp only [List.length_take]; omega
  · intro x hx
    simp only [List.mem_map] at hx
    obtain ⟨c, hc, rfl⟩ := hx
    exact chunkRest_le _ _ _ c hc

/-- Test (tightness): with the two size arguments of `splitIntoChunks` exchanged, or the metadata
octets not deducted from the first fragment, the first frame is larger than the limit. -/
example : (QFrame.headers 1 false ⟨0, false, 15⟩ 0 [] (splitIntoChunks 8 (8 - 5) (List.replicate 9 0))).wireMax = 13 := by decide
example : (QFrame.push 1 2 0 [] (splitIntoChunks 8 (8 - 4) (List.replicate 9 0))).wireMax = 12 := by decide
example : (QFrame.headers 1 false ⟨0, false, 15⟩ 0 [] (splitIntoChunks (8 - 5) 8 (List.replicate 9 0))).wireMax = 8 := by decide

/-- Frames enqueued by a whole history. -/
def acceptedRun : Relay → List RIn → List QFrame
  | _, [] => []
  | r, i :: is => acceptedOf r i ++ acceptedRun (rstep r i) is

/-- Everything ever enqueued is, in order, the image (`acceptedOf`) of the sink calls: one queued
frame per HEADERS / PUSH_PROMISE / PRIORITY / RST_STREAM call with the same fields, END_STREAM,
priority, promised id, code; the DATA frames of `data_split_faithful` per `Data` call. -/
theorem accepted_is_image_of_calls (r : Relay) (is : List RIn) :
    (run r is).accepted = r.accepted ++ acceptedRun r is := by
  induction is generalizing r with
  | nil => simp [run, acceptedRun]
  | cons i is ih =>
    have := ih (rstep r i)
    simp only [run, List.foldl_cons] at this ⊢
    rw [this, rstep_accepted, acceptedRun, List.append_assoc]

/-- **Per-stream order and content; no loss, no duplication.** After any history — any
interleaving of streams, any window schedule (WINDOW_UPDATEs, INITIAL_WINDOW_SIZE changes), any
map iteration orders — on every stream the frames put on the output channel followed by the
frames still queued are exactly, in order, the image of that stream's calls: what has left is a
prefix of what must leave, nothing is dropped, duplicated or reordered within a stream. -/
theorem per_stream_order_and_content (is : List RIn) (hok : OkRun {} is) (s : Nat) :
    onS s (run {} is).emitted ++ ((run {} is).ob s).q = onS s (acceptedRun {} is) := by
  have hg := (run_invariant is good0_init allstuck_init hok).1
  have := hg.conserve s
  rw [accepted_is_image_of_calls] at this
  simpa using this

/-! ## Header blocks and the peer's HPACK state -/

/-- Header blocks reach the peer in the order the relay's HPACK encoder produced them (stamps
0, 1, 2, …): the only order in which the peer's decoder reconstructs the same field lists. -/
def EncodeOrder (r : Relay) : Prop := blocks r.emitted = List.range (blocks r.emitted).length

/-- The full statement: after every admissible history. It is FALSE for the code as it is. -/
def HeaderBlocksLeaveInEncodeOrder : Prop := ∀ is : List RIn, OkRun {} is → EncodeOrder (run {} is)

/-- F08b witness (DESIGN §3 C08): the receiver advertised INITIAL_WINDOW_SIZE 0; stream 1 sends
HEADERS, DATA and trailers, stream 3 sends HEADERS; then the receiver opens stream 1. -/
def f08b : List RIn :=
  [.initWin 0 [], .header 1 [1] false Prio.zero [0], .data 1 [7, 7, 7, 7, 7] false,
   .header 1 [2] true Prio.zero [0], .header 3 [3] true Prio.zero [0], .windowUpdate 1 100 []]

/-- The blocks leave as 0, 2, 1: stream 3's block, encoded last, overtakes stream 1's trailers. -/
theorem header_blocks_leave_in_encode_order_counterexample : ¬ HeaderBlocksLeaveInEncodeOrder := by
  intro h
  have h1 := h f08b (okRunB_sound _ _ (by decide))
  have h2 : blocks (run {} f08b).emitted = [0, 2, 1] := by decide
  simp [EncodeOrder, h2] at h1
  exact absurd h1 (by decide)

/-- Histories outside the F08b class: every step is admissible and no header block is encoded
while a block encoded earlier is still queued on another stream. -/
def SafeRun : Relay → List RIn → Prop
  | _, [] => True
  | r, i :: is => OkStep r i ∧ SafeIn r i ∧ SafeRun (rstep r i) is

theorem header_blocks_leave_in_encode_order_partial (is : List RIn) (hs : SafeRun {} is) :
    EncodeOrder (run {} is) ∧ (blocks (run {} is).emitted).length ≤ (run {} is).nextStamp := by
  have gen : ∀ (r : Relay) (is : List RIn), Good0 r → Jn r r.nextStamp → SafeRun r is →
      Jn (run r is) (run r is).nextStamp := by
    intro r is
    induction is generalizing r with
    | nil => intro _ h _; exact h
    | cons i is ih =>
      intro hg hj hs
      exact ih (rstep r i) (rstep_good0 hg i) (rstep_Jn hg hj i hs.2.1) hs.2.2
  have hj0 : Jn ({} : Relay) (({} : Relay).nextStamp) := ⟨0, by simp, by simp⟩
  obtain ⟨s0, -, h2⟩ := gen {} is good0_init hj0 hs
  refine ⟨prefix_of_range h2, ?_⟩
  have := congrArg List.length h2
  simp at this; omega

/-- Executable form of `SafeRun`. -/
def safeInB (r : Relay) : RIn → Bool
  | .header sid _ _ _ _ => r.keys.all fun t => t == sid || (blocks (r.ob t).q).isEmpty
  | .push sid _ _ _ => r.keys.all fun t => t == sid || (blocks (r.ob t).q).isEmpty
  | _ => true

def safeRunB : Relay → List RIn → Bool
  | _, [] => true
  | r, i :: is => okStepB r i && safeInB r i && safeRunB (rstep r i) is

theorem safeRunB_sound (r : Relay) (is : List RIn) (h : safeRunB r is = true) : SafeRun r is := by
  induction is generalizing r with
  | nil => trivial
  | cons i is ih =>
    simp only [safeRunB, Bool.and_eq_true] at h
    refine ⟨okStepB_sound r i h.1.1, ?_, ih _ h.2⟩
    have h2 := h.1.2
    cases i with
    | header sid fields es prio enc =>
      simp only [safeInB, List.all_eq_true, Bool.or_eq_true, beq_iff_eq, List.isEmpty_iff] at h2
      simp only [SafeIn]
      intro t ht hne
      rcases h2 t ht with h3 | h3
      · exact absurd h3 hne
      · exact h3
    | push sid promised fields enc =>
      simp only [safeInB, List.all_eq_true, Bool.or_eq_true, beq_iff_eq, List.isEmpty_iff] at h2
      simp only [SafeIn]
      intro t ht hne
      rcases h2 t ht with h3 | h3
      · exact absurd h3 hne
      · exact h3
    | _ => simp [SafeIn]

/-- Non-vacuity: trailers waiting behind blocked DATA are still in the safe class as long as no
other stream encodes a block meanwhile; the blocks then leave in order. -/
def safeSample : List RIn :=
  [.initWin 0 [], .header 1 [1] false Prio.zero [0], .data 1 [7, 7] false, .header 1 [2] true Prio.zero [0],
   .windowUpdate 1 100 [], .header 3 [3] true ⟨1, false, 16⟩ [0, 0]]

example : SafeRun {} safeSample := safeRunB_sound _ _ (by decide)
example : blocks (run {} safeSample).emitted = [0, 1, 2] := by decide
example : safeRunB {} f08b = false := by decide

/-! ## Priority flag (F08d) -/

/-- What `queuedHeaderFrame.send` puts on the wire: `http2.Framer.WriteHeaders` only writes a
priority that is not `IsZero()`. -/
def wirePrio (p : Prio) : Option Prio := if p.isZero then none else some p

/-- The priority a HEADERS frame carried (present or absent) arrives unchanged, unless it was
present with all-zero contents. -/
theorem priority_flag_partial (prio : Option Prio) (h : prio ≠ some Prio.zero) :
    wirePrio (prio.getD Prio.zero) = prio := by
  cases prio with
  | none => simp [wirePrio, Prio.isZero]
  | some p =>
    have : p ≠ Prio.zero := fun e => h (by rw [e])
    simp [wirePrio, Prio.isZero, this]

/-- F08d: a priority present with dependency 0, non-exclusive, weight field 0 loses its flag. -/
theorem priority_flag_counterexample : wirePrio ((some Prio.zero).getD Prio.zero) ≠ some Prio.zero := by
  decide

/-! ## Facts regenerated from `/repo` on every run (`go/cmd/vextract/facts_c08.go`) -/

/-- The protocol constants of `h2/relay.go` are the ones the model starts from and subtracts. -/
theorem facts_relay_constants :
    Generated.H2Relay.initialMaxFrameSize = ({} : Relay).maxFrame ∧
    Generated.H2Relay.defaultInitialWindowSize = ({} : Relay).initWin ∧
    (Generated.H2Relay.defaultInitialWindowSize : Int) = ({} : Relay).connWin ∧
    Generated.H2Relay.headersPriorityMetadataLength = 5 ∧ Generated.H2Relay.pushPromiseMetadataLength = 4 := by
  decide

/-- `processFrame` stores the HEADERS frame's own END_STREAM flag and `headerContinuation.complete`
passes that stored flag on (F08a fix), as `dispatch` does. -/
theorem facts_continued_headers_keep_end_stream : Generated.H2Relay.continuedHeadersKeepEndStream = true := by
  decide

/-- `forwardPreface` reads the whole 24-byte preface (F08c fix); the transport may deliver it in
arbitrarily small pieces. Outside the relay model; visible only end to end. -/
theorem facts_preface_read_in_full : Generated.H2Relay.prefaceReadInFull = true := by decide

end Martian.Props.C08
