/-! STUB — property C08 is not built yet. -/
