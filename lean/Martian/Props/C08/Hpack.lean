import Martian.Lemmas.H2Hpack
import Martian.Generated.H2Relay
/-!
C08 — "header blocks that decode under its own HPACK state to the same field list": the part of
that clause which depends on SETTINGS_HEADER_TABLE_SIZE histories.

A relay keeps a decoder for the header blocks of its SOURCE endpoint and an encoder towards its
DESTINATION endpoint. The destination's SETTINGS_HEADER_TABLE_SIZE reaches the relay first
(`updateTableSize`), is forwarded, and is applied by the source endpoint only when that endpoint
acknowledges it — blocks it encoded before are still on their way (RFC 7540 6.5.3, RFC 7541 4.2).

* `legal_block_decodes`, `every_legal_block_decodes`: for EVERY history of advertised sizes,
  acknowledgements (in any lag behind the advertisements) and header blocks, every block the source
  endpoint may legally emit decodes at the relay to the field list the sender meant, and the
  relay's decoder table stays equal to the sender's encoder table.
* `decoder_resized_on_settings_counterexample`: with the code before the F08e repair (the decoder
  was resized when the SETTINGS passed by) a legal history exists whose block does not decode.
* `allowed_capped_at_latest_setting_counterexample` (test of tightness): so does a decoder whose
  allowed size follows the latest SETTINGS seen instead of staying above what the lagging sender may
  still use.
* `relay_size_updates_are_advertised`: towards the destination, the size updates the relay's
  encoder writes are values that endpoint advertised itself (the smallest since the last block,
  then the last), so its decoder — which must accept anything up to what it advertised — accepts.
* `literal_blocks_leave_table_alone`: the literal-only blocks the model treats as opaque never read
  or write the dynamic table and never fail.
-/
namespace Martian.Props.C08
open Martian Martian.H2Relay Martian.H2Hpack

/-- One block: if the relay's decoder table equals the sender's encoder table and the decoder
allows at least the limit the sender works under, every block the sender may legally emit decodes
to the field list it means, and the two tables are equal again afterwards. -/
theorem legal_block_decodes (d : Dec) (s : Snd) (b : List Rep) (t' : DynTab) (fs : List Ent)
    (hsync : d.tab = s.tab) (hall : s.limit ≤ d.allowed) (hleg : sndBlock s b = some (t', fs)) :
    d.decodeFull b = some ({ d with tab := t' }, fs) := by
  unfold Dec.decodeFull
  have nofs : ∀ (t : DynTab) (rs : List Rep), sndFields t rs = some (t', fs) → ∀ n r', rs ≠ .sizeUpdate n :: r' := by
    intro t rs h n r' e
    subst e
    simp [sndFields] at h
  match b, hleg with
  | [], hleg =>
    simp only [sndBlock] at hleg
    split at hleg
    · exact decBlock_of_sndFields d true [] t' fs (by intro n r' e; cases e) (by rw [hsync]; exact hleg)
    · cases hleg
  | .sizeUpdate n :: .sizeUpdate m :: rs, hleg =>
    simp only [sndBlock] at hleg
    split at hleg
    · rename_i hc
      obtain ⟨hn, hm, hz⟩ := hc
      have h1 : decRep d true (.sizeUpdate n) = some ({ d with tab := d.tab.setMax n }, []) := by
        simp only [decRep, Bool.not_true, Bool.false_and, Bool.false_eq_true, if_false]
        have : ¬ n > d.allowed := by omega
        simp [this]
      have h2 : decRep { d with tab := d.tab.setMax n } false (.sizeUpdate m) =
          some ({ d with tab := (d.tab.setMax n).setMax m }, []) := by
        have hz' : tabSize (d.tab.setMax n).ents = 0 := by rw [hsync]; exact hz
        have : ¬ m > d.allowed := by omega
        simp [decRep, hz', this]
      have h3 := decBlock_of_sndFields { d with tab := (d.tab.setMax n).setMax m } false rs t' fs
        (nofs _ rs hleg) (by simpa [hsync] using hleg)
      simp only [decBlock, h1, h2, h3]
      simp
    · cases hleg
  | .sizeUpdate n :: [], hleg =>
    simp only [sndBlock] at hleg
    split at hleg
    · rename_i hn
      have h1 : decRep d true (.sizeUpdate n) = some ({ d with tab := d.tab.setMax n }, []) := by
        have : ¬ n > d.allowed := by omega
        simp [decRep, this]
      have h3 := decBlock_of_sndFields { d with tab := d.tab.setMax n } false [] t' fs
        (by intro n r' e; cases e) (by simpa [hsync] using hleg)
      simp only [decBlock, h1] at h3 ⊢
      simpa using h3
    · cases hleg
  | .sizeUpdate n :: .indexed k :: rs, hleg | .sizeUpdate n :: .litInc _ k :: rs, hleg
  | .sizeUpdate n :: .litIncRef _ k :: rs, hleg | .sizeUpdate n :: .lit _ k :: rs, hleg =>
    simp only [sndBlock] at hleg
    split at hleg
    · rename_i hn
      have h1 : decRep d true (.sizeUpdate n) = some ({ d with tab := d.tab.setMax n }, []) := by
        have : ¬ n > d.allowed := by omega
        simp [decRep, this]
      have h3 := decBlock_of_sndFields { d with tab := d.tab.setMax n } false _ t' fs
        (nofs _ _ hleg) (by simpa [hsync] using hleg)
      rw [decBlock, h1]
      simp only [h3]
      simp
    · cases hleg
  | .indexed k :: rs, hleg | .litInc _ k :: rs, hleg | .litIncRef _ k :: rs, hleg | .lit _ k :: rs, hleg =>
    simp only [sndBlock] at hleg
    split at hleg
    · exact decBlock_of_sndFields d true _ t' fs (nofs _ _ hleg) (by rw [hsync]; exact hleg)
    · cases hleg

/-! ### Histories: advertisements, lagging acknowledgements, blocks -/

inductive HEv
  | advertise (v : Nat)     -- the destination's SETTINGS_HEADER_TABLE_SIZE passes the relay and is forwarded
  | ack                     -- the source endpoint acknowledges (= applies) the oldest forwarded SETTINGS
  | block (b : List Rep)    -- the source endpoint emits a header block; the relay decodes it
deriving Repr

structure HSt where
  hp : Hp := {}                 -- the relay
  snd : Snd := {}               -- the source endpoint's encoder
  pending : List Nat := []      -- forwarded, not yet acknowledged

/-- One event, with `upd` as the relay's `updateTableSize`. `none`: a block the sender legally
emitted did not decode at the relay, or decoded to another field list. A block that is not legal
for the sender is outside the claim and skipped. -/
def hstepWith (upd : Hp → Nat → Hp) (st : HSt) : HEv → Option HSt
  | .advertise v => some { st with hp := upd st.hp v, pending := st.pending ++ [v] }
  | .ack =>
    match st.pending with
    | [] => some st
    | v :: rest => some { st with snd := { st.snd with limit := v }, pending := rest }
  | .block b =>
    match sndBlock st.snd b with
    | none => some st
    | some (t', fs) =>
      match st.hp.dec.decodeFull b with
      | none => none
      | some (d', fs') =>
        if fs' = fs then some { st with hp := { st.hp with dec := d' }, snd := { st.snd with tab := t' } } else none

def hrunWith (upd : Hp → Nat → Hp) : HSt → List HEv → Option HSt
  | st, [] => some st
  | st, e :: es =>
    match hstepWith upd st e with
    | none => none
    | some st' => hrunWith upd st' es

/-- The relay as it is (`Hp.updateTableSize`). -/
def hrun := hrunWith Hp.updateTableSize

/-- SETTINGS values are 32-bit. -/
def advertisedOk : List HEv → Prop
  | [] => True
  | .advertise v :: es => v ≤ 4294967295 ∧ advertisedOk es
  | _ :: es => advertisedOk es

private def HInv (st : HSt) : Prop :=
  st.hp.dec.tab = st.snd.tab ∧ st.hp.dec.allowed = 4294967295 ∧ st.snd.limit ≤ 4294967295 ∧
  ∀ v ∈ st.pending, v ≤ 4294967295

/-- **Every block the sender may legally emit decodes**, in every history: whatever sizes the
destination advertises (growing, shrinking, several before one is acknowledged), however far the
source endpoint's acknowledgements lag behind, whatever legal blocks it emits in between — with
or without size updates, referring to any entry of its table — no block fails at the relay or
decodes to a different field list, and the relay's decoder table equals the sender's encoder table
at the end. -/
theorem every_legal_block_decodes (evs : List HEv) (hv : advertisedOk evs) :
    ∃ st, hrun {} evs = some st ∧ st.hp.dec.tab = st.snd.tab := by
  have gen : ∀ (evs : List HEv) (st : HSt), HInv st → advertisedOk evs →
      ∃ st', hrunWith Hp.updateTableSize st evs = some st' ∧ st'.hp.dec.tab = st'.snd.tab := by
    intro evs
    induction evs with
    | nil => intro st hi _; exact ⟨st, rfl, hi.1⟩
    | cons e es ih =>
      intro st hi hv
      obtain ⟨h1, h2, h3, h4⟩ := hi
      cases e with
      | advertise v =>
        simp only [advertisedOk] at hv
        simp only [hrunWith, hstepWith]
        apply ih _ _ hv.2
        refine ⟨by simpa [Hp.updateTableSize] using h1, by simpa [Hp.updateTableSize] using h2, h3, ?_⟩
        intro w hw
        simp only [List.mem_append, List.mem_singleton] at hw
        rcases hw with hw | hw
        · exact h4 w hw
        · subst hw; exact hv.1
      | ack =>
        simp only [advertisedOk] at hv
        simp only [hrunWith, hstepWith]
        cases hp : st.pending with
        | nil => simp only; exact ih st ⟨h1, h2, h3, h4⟩ hv
        | cons v rest =>
          simp only
          apply ih _ _ hv
          refine ⟨h1, h2, ?_, ?_⟩
          · exact h4 v (by simp [hp])
          · intro w hw; exact h4 w (by simp [hp, hw])
      | block b =>
        simp only [advertisedOk] at hv
        simp only [hrunWith, hstepWith]
        cases hs : sndBlock st.snd b with
        | none => simp only; exact ih st ⟨h1, h2, h3, h4⟩ hv
        | some p =>
          obtain ⟨t', fs⟩ := p
          have := legal_block_decodes st.hp.dec st.snd b t' fs h1 (by omega) hs
          simp only [this, if_true]
          apply ih _ _ hv
          exact ⟨rfl, h2, h3, h4⟩
  exact gen evs {} ⟨rfl, rfl, by decide, by intro v hv; cases hv⟩ hv

/-- Non-vacuity: a history with a lagging acknowledgement, a grow, a shrink and table references —
all blocks legal, all decoded (`hrun` skips illegal blocks, so legality is checked separately). -/
def hSample : List HEv :=
  [.block [.litInc [1] [2], .litInc [3] [4]], .advertise 65536, .block [.indexed 1, .litIncRef 0 [5]],
   .ack, .block [.sizeUpdate 65536, .indexed 2], .advertise 0, .block [.indexed 0, .indexed 2],
   .ack, .block [.sizeUpdate 0, .lit [7] [8]]]

example : (hrun {} hSample).map (fun st => (st.snd.tab.ents.length, st.snd.limit)) = some (0, 0) := by decide
example : sndBlock { tab := { ents := [⟨[1], [2]⟩] } } [.indexed 0] = some ({ ents := [⟨[1], [2]⟩] }, [⟨[1], [2]⟩]) := by decide

/-- F08e, the code before the repair (`Hp.updateTableSizeOld`: the decoder's table was resized as
soon as the SETTINGS passed by): the client shrinks its table to 0 while a response block that
refers to the newest entry is on its way — the block is legal for the server, whose encoder has not
seen the SETTINGS, and it does not decode at the relay. -/
theorem decoder_resized_on_settings_counterexample :
    hrunWith Hp.updateTableSizeOld {} [.block [.litInc [120] [121]], .advertise 0, .block [.indexed 0]] = none ∧
    (hrun {} [.block [.litInc [120] [121]], .advertise 0, .block [.indexed 0]]).isSome = true := by
  decide

/-- Test of tightness (seeded class): a decoder whose allowed size follows the latest SETTINGS
seen rejects the size update of a sender that still works, legally, under the previous one. -/
def updCapped (h : Hp) (v : Nat) : Hp := { dec := { h.dec with allowed := v }, enc := h.enc.setMax v }

theorem allowed_capped_at_latest_setting_counterexample :
    hrunWith updCapped {} [.advertise 65536, .ack, .advertise 4096, .block [.sizeUpdate 65536, .lit [1] [2]]] = none ∧
    (hrun {} [.advertise 65536, .ack, .advertise 4096, .block [.sizeUpdate 65536, .lit [1] [2]]]).isSome = true := by
  decide

/-! ### Towards the destination: what the relay's encoder announces -/

private theorem foldl_setMax_props (vs : List Nat) (e : EncSig) (hv : ∀ v ∈ vs, v ≤ e.limit) (hne : vs ≠ []) :
    let e' := vs.foldl EncSig.setMax e
    e'.pending = true ∧ e'.limit = e.limit ∧ e'.maxSize ∈ vs ∧
    (∀ m, e'.minSize = some m → m ∈ vs ∨ e.minSize = some m) ∧ (e'.minSize ≠ none) := by
  induction vs generalizing e with
  | nil => exact absurd rfl hne
  | cons v rest ih =>
    have hv0 : v ≤ e.limit := hv v (by simp)
    have hmax : (e.setMax v).maxSize = v := setMax_maxSize e v hv0
    have hmin : ∀ m, (e.setMax v).minSize = some m → m = v ∨ e.minSize = some m := by
      intro m hm
      simp only [EncSig.setMax] at hm
      have hnot : ¬ v > e.limit := by omega
      simp only [hnot, if_false] at hm
      cases he : e.minSize with
      | none => simp [he] at hm; exact Or.inl hm.symm
      | some m0 =>
        simp only [he] at hm
        split at hm
        · simp at hm; exact Or.inl hm.symm
        · simp at hm; exact Or.inr (by rw [hm])
    have hminne : (e.setMax v).minSize ≠ none := by
      simp only [EncSig.setMax]
      cases e.minSize with
      | none => simp
      | some m0 => simp only; split <;> split <;> simp
    cases rest with
    | nil =>
      simp only [List.foldl_cons, List.foldl_nil]
      refine ⟨rfl, rfl, by simp [hmax], ?_, hminne⟩
      intro m hm
      rcases hmin m hm with h | h
      · left; simp [h]
      · right; exact h
    | cons w rest2 =>
      have := ih (e.setMax v) (by intro x hx; exact hv x (by simp [hx])) (by simp)
      simp only [List.foldl_cons] at this ⊢
      obtain ⟨h1, h2, h3, h4, h5⟩ := this
      refine ⟨h1, by simpa using h2, by simp at h3 ⊢; right; exact h3, ?_, h5⟩
      intro m hm
      rcases h4 m hm with h | h
      · left; simp at h ⊢; right; exact h
      · rcases hmin m h with h' | h'
        · left; simp [h']
        · right; exact h'

/-- **The relay's size updates are the destination's own values.** Between two blocks the relay
encodes towards an endpoint, let that endpoint advertise `vs` (any number of values, in any
order, all 32-bit). The size updates the relay writes in front of the next block are all members
of `vs`, the last one is the last value advertised, and afterwards nothing is pending: the
endpoint's decoder, which has to accept any size up to what it advertised, accepts them. With no
new advertisement nothing is written. -/
theorem relay_size_updates_are_advertised (e : EncSig) (hp : e.pending = false) (hm : e.minSize = none)
    (vs : List Nat) (hv : ∀ v ∈ vs, v ≤ e.limit) :
    let r := (vs.foldl EncSig.setMax e).flush
    (∀ u ∈ r.2, u ∈ vs) ∧ r.2.getLast? = vs.getLast? ∧ r.1.pending = false ∧ r.1.minSize = none ∧
    r.1.limit = e.limit := by
  cases hvs : vs with
  | nil => simp [EncSig.flush, hp, hm]
  | cons v0 rest =>
    have hne : vs ≠ [] := by simp [hvs]
    have := foldl_setMax_props vs e hv hne
    simp only at this
    obtain ⟨h1, h2, h3, h4, h5⟩ := this
    have hlast : (vs.foldl EncSig.setMax e).maxSize = vs.getLast hne := by
      clear h1 h2 h3 h4 h5 hp hm hvs
      induction vs generalizing e with
      | nil => exact absurd rfl hne
      | cons v rest ih =>
        cases rest with
        | nil => simpa using setMax_maxSize e v (hv v (by simp))
        | cons w rest2 =>
          have := ih (e.setMax v) (by intro x hx; exact hv x (by simp [hx])) (by simp)
          simpa using this
    rw [← hvs]
    simp only [EncSig.flush, h1, if_true]
    refine ⟨?_, ?_, by simp, by simp, by simpa using h2⟩
    · intro u hu
      simp only [List.mem_append, List.mem_singleton] at hu
      rcases hu with hu | hu
      · cases hmin : (vs.foldl EncSig.setMax e).minSize with
        | none => simp [hmin] at hu
        | some m =>
          simp only [hmin] at hu
          split at hu
          · simp at hu
            subst hu
            rcases h4 _ hmin with h | h
            · exact h
            · rw [hm] at h; cases h
          · simp at hu
      · subst hu; exact h3
    · rw [List.getLast?_concat, hlast, List.getLast?_eq_some_getLast hne]

/-- Non-vacuity / shape: 100 then 65536 between two blocks is announced as "100, 65536"; 65536
then 100 as "100". -/
example : (([100, 65536].foldl EncSig.setMax { limit := 4294967295 }).flush).2 = [100, 65536] := by decide
example : (([65536, 100].foldl EncSig.setMax { limit := 4294967295 }).flush).2 = [100] := by decide

/-! ### … and when the block carrying them waits (F08b, second form) -/

/-- (size update, table size the destination advertised last) for every size update that stands
in front of a block still QUEUED on relay `d` and exceeds that size. -/
def staleQueued (s : Sys) (d : Dir) : List (Nat × Nat) :=
  (s.relay d).keys.flatMap fun t => ((s.relay d).ob t).q.flatMap fun f =>
    match f.stamp? with
    | some st => ((((s.flushLog d)[st]?).getD []).filter (fun u => decide (u > (s.hp d).enc.maxSize))).map
        fun u => (u, (s.hp d).enc.maxSize)
    | none => []

/-- The full statement: in every reachable state, no queued block carries a size update above the
table size its receiver has advertised last (and will enforce once the acknowledgement, which is
forwarded at once, has arrived). FALSE for the code as it is: the update is written when the
block is enqueued, not when it leaves. -/
def QueuedSizeUpdatesCurrent : Prop :=
  ∀ (evs : List Ev) (s' : Sys) (d : Dir), runSys {} evs = some s' → staleQueued s' d = []

/-- Witness: the server grants no stream window and advertises a table of 4096; the client's
trailers are encoded (size update 4096 in front) and wait behind DATA; the server advertises 31. -/
def staleHistory : List Ev :=
  [⟨.s2c, .settings [(4, 0)], [], []⟩, ⟨.c2s, .headers 1 false true none [0, 1, 97, 1, 98], [0, 0], []⟩,
   ⟨.c2s, .data 1 false [1, 2, 3] none, [], []⟩, ⟨.s2c, .settings [(1, 4096)], [], []⟩,
   ⟨.c2s, .headers 1 true true none [0, 1, 99, 1, 100], [0, 0, 0, 0, 0], []⟩, ⟨.s2c, .settings [(1, 31)], [], []⟩]

theorem queued_size_updates_current_counterexample : ¬ QueuedSizeUpdatesCurrent := by
  intro h
  have h1 : (runSys {} staleHistory).map (fun s => staleQueued s .c2s) = some [(4096, 31)] := by decide
  cases hr : runSys {} staleHistory with
  | none => simp [hr] at h1
  | some s' =>
    have := h staleHistory s' .c2s hr
    simp [hr, this] at h1

/-- What does hold (partial): at the moment a block is ENCODED the updates written in front of it
are current — the last one is the table size in force at the encoder, i.e. the destination's last
advertisement (`relay_size_updates_are_advertised`). A block that leaves in the step that encoded
it is therefore never stale; only a block that waits can become so. -/
theorem size_updates_current_at_encode_partial (s : Sys) (d : Dir) :
    (s.encodeBlock d).flushLog d = s.flushLog d ++ [(s.hp d).enc.flush.2] ∧
    ((s.encodeBlock d).hp d).enc.maxSize = (s.hp d).enc.maxSize ∧
    ∀ u, (s.hp d).enc.flush.2.getLast? = some u → u = (s.hp d).enc.maxSize := by
  refine ⟨by cases d <;> rfl, by cases d <;> simp [Sys.encodeBlock, Sys.hp, Sys.setHp], ?_⟩
  intro u hu
  unfold EncSig.flush at hu
  split at hu
  · simp only [List.getLast?_concat, Option.some.injEq] at hu
    exact hu.symm
  · simp at hu

/-- **Literal blocks.** A block of literal-without-indexing representations (what the
model-compared harness endpoints send, and what the model carries as an opaque block) decodes in
every decoder state, to its own fields, and leaves the decoder as it was. -/
theorem literal_blocks_leave_table_alone (d : Dec) (first : Bool) (fs : List Ent) :
    decBlock d first (fs.map fun e => Rep.lit e.name e.value) = some (d, fs) := by
  induction fs generalizing first with
  | nil => rfl
  | cons e rest ih => simp [decBlock, decRep, ih false]

/-! ### Header blocks without fields -/

/-- **An empty field list is still a header block.** A block that consists of dynamic table size
updates only decodes to no field at all (`decodeFull` succeeds with `[]`), the re-encoded block is
empty, and `relay.header` still enqueues exactly one frame for it whose one fragment is empty: a
HEADERS frame with an empty payload that carries the block's END_STREAM (and priority) — for every
relay state, every legal MAX_FRAME_SIZE, with or without priority. Nothing is written in front of it
and the encoder's pending size updates stay pending (`encodeEmpty`). -/
theorem empty_field_list_block_is_forwarded (r : Relay) (sid : Nat) (es : Bool) (prio : Prio) :
    acceptedOf r (.header sid [] es prio []) = [.headers sid es prio r.nextStamp [] [[]]] ∧
    (∀ (d : Dec) (n : Nat), n ≤ d.allowed →
        d.decodeFull [.sizeUpdate n] = some ({ d with tab := d.tab.setMax n }, [])) ∧
    (∀ (s : Sys) (dir : Dir), (s.encodeFull dir true).hp dir = s.hp dir ∧
        (s.encodeFull dir true).flushLog dir = s.flushLog dir ++ [[]]) := by
  refine ⟨?_, ?_, ?_⟩
  · simp [acceptedOf, splitIntoChunks, chunkRest]
  · intro d n hn
    have : ¬ n > d.allowed := by omega
    simp [Dec.decodeFull, decBlock, decRep, this]
  · intro s dir
    cases dir <;> exact ⟨rfl, rfl⟩

/-- … through the whole relay: the frame is emitted at once when the stream window is not negative
(a header frame has flow-control size 0). -/
example : (rstep {} (.header 1 [] true Prio.zero [])).emitted = [.headers 1 true Prio.zero 0 [] [[]]] := by
  decide

/-! ### Facts regenerated from `/repo` on every run (`go/cmd/vextract/facts_c08.go`) -/

/-- `newRelay` / `updateTableSize` are what `Hp` and `Hp.updateTableSize` transcribe: tables start
at `initialMaxHeaderTableSize`; the decoder accepts any in-band size update and the encoder may
follow any advertised size (`math.MaxUint32`, set in `newRelay` and nowhere else);
`updateTableSize` sets the encoder's size and does not touch the decoder (F08e repair). -/
theorem facts_hpack_table_sizes :
    Generated.H2Relay.initialMaxHeaderTableSize = ({} : Hp).dec.tab.maxSize ∧
    Generated.H2Relay.initialMaxHeaderTableSize = ({} : Hp).enc.maxSize ∧
    Generated.H2Relay.initialMaxHeaderTableSize = ({} : Snd).limit ∧
    Generated.H2Relay.decoderAllowsAnySizeUpdate = true ∧ ({} : Hp).dec.allowed = 4294967295 ∧
    Generated.H2Relay.encoderLimitIsMaxUint32 = true ∧ ({} : Hp).enc.limit = 4294967295 ∧
    Generated.H2Relay.updateTableSizeSetsEncoder = true ∧
    Generated.H2Relay.updateTableSizeTouchesDecoder = false := by
  decide

/-- `splitIntoChunks` produces its first chunk unconditionally (outside any loop: also for an empty
block), and `queuedHeaderFrame.send` / `queuedPushPromiseFrame.send` write the HEADERS /
PUSH_PROMISE frame unconditionally — as `splitIntoChunks` (`data.take firstMax :: …`) and
`QFrame.wireMax` have it. -/
theorem facts_first_chunk_unconditional :
    Generated.H2Relay.firstChunkUnconditional = true ∧ Generated.H2Relay.headersFrameWrittenUnconditionally = true := by
  decide

/-- No framer of the proxy is given a read limit below the legal maximum (`http2.NewFramer`'s
default, 2^24-1): each endpoint's SETTINGS_MAX_FRAME_SIZE is forwarded unchanged, so frames up to
that size are legal input (`Frame` puts no bound on fragments; end to end: `e2e-bigframe`). -/
theorem facts_framers_accept_advertised_frame_sizes :
    Generated.H2Relay.framersAcceptAdvertisedFrameSizes = true := by decide

end Martian.Props.C08
