import Martian.Lemmas.Config
import Martian.Lemmas.ConfigJson
/-!
C12 — from the JSON value to the tree: what `encoding/json` and the `*FromJSON` functions make of a
body (`Config.fromJSON`, `Model/ConfigJson.lean`), and the corner cases that decide acceptance and
meaning: repeated keys, case-folded keys, unknown members, `null`s, numbers as priorities, wrong types.
The tie to the real code is the `postj` op of the harness (mutated JSON values → real `parse.FromJSON`
and `martianhttp` handler, then traffic).
-/
namespace Martian.Props.C12
open Martian Martian.Config Martian.Go

/-! ## 1. Every tree is what its plain JSON spelling says -/

/-- `fromJSON` is onto the trees (with numbers that fit `int64`): the plain JSON spelling `render n` of
a tree decodes to exactly that tree — every scope form, every nesting, every priority, every condition.
So every theorem about trees (`Props/C12.lean`) is a theorem about JSON bodies. -/
theorem fromJSON_render (n : Node) (h : fits n = true) : fromJSON (render n) = n := node_annot_render n h

/-- The whole pipeline on a plain JSON body: if the tree is acceptable, POSTing its JSON spelling makes
traffic behave as the depth-first reading of the tree; if not, the body is rejected and nothing changes. -/
theorem post_plain_json (s : Active) (n : Node) (h : fits n = true) (k : Kind) (msg : Msg) :
    (valid n = true → flatO (run (servePOSTJ s (render n)).1 k msg) = specEval k (msg k) n ∧ (servePOSTJ s (render n)).2 = .ok ()) ∧
    (valid n = false → (servePOSTJ s (render n)).1 = s ∧ ∃ e, (servePOSTJ s (render n)).2 = .error e) := by
  unfold servePOSTJ servePOST
  rw [fromJSON_render n h]
  have hv := compile_okB n
  cases hc : compile n with
  | error e => simp [hc, okB] at hv; simp [hv]
  | ok r =>
    simp [hc, okB] at hv
    simp only [hv, true_implies, and_true, Bool.true_eq_false, false_implies]
    rw [← compile_spec k (msg k) n r hc]
    exact outcomeOf_orNoop (msg k) k r

/-- Reconfiguration by a JSON body is atomic whatever the body is. -/
theorem reconfig_atomic_json (s : Active) (j : JVal) :
    (servePOSTJ s j).1 = (match compile (fromJSON j) with | .ok r => r | .error _ => s) := by
  unfold servePOSTJ servePOST; cases compile (fromJSON j) <;> rfl

/-! ## 2. The registry level (`map[string]json.RawMessage`) -/

/-- Anything that is not a JSON object is rejected: `null` (a `null` child, a `null` "else", …),
numbers, strings, booleans, arrays. -/
theorem non_object_rejected (j : JVal) (h : ∀ kvs, j ≠ .obj kvs) : fromJSON j = .malformed := by
  cases j <;> simp_all [fromJSON, annot, DV.node]

/-- The same name twice: the last body counts. -/
theorem registry_same_name_last_wins (name : Bytes) (b1 b2 : DV) :
    nodeFromKvs [(name, b1), (name, b2)] = bodyNode name b2 := by
  simp [nodeFromKvs, lastValue, List.eraseDups_cons]

/-- Two different names: rejected, whatever they are (also when one of them is unknown). -/
theorem registry_two_names_rejected (a b : Bytes) (x y : DV) (h : a ≠ b) : nodeFromKvs [(a, x), (b, y)] = .malformed := by
  have : (b == a) = false := by simpa using fun e => h e.symm
  simp [nodeFromKvs, List.eraseDups_cons, this]

/-- Registry names are exact: nothing but the registered spelling is known (no case folding here). -/
theorem registry_name_exact (name : Bytes) (body : DV)
    (h : name ∉ ["fifo.Group", "priority.Group", "url.Filter", "header.Filter", "querystring.Filter", "method.Filter",
      "cookie.Filter", "verif.Probe", "port.Filter"].map strBytes) : bodyNode name body = .unknown := by
  simp only [List.map_cons, List.map_nil, List.mem_cons, List.not_mem_nil, or_false, not_or] at h
  obtain ⟨h1, h2, h3, h4, h5, h6, h7, h8, h9⟩ := h
  simp [bodyNode, h1, h2, h3, h4, h5, h6, h7, h8, h9]

/-! ## 3. Struct members: unknown, case-folded, wrong type -/

/-- A member that selects no field is skipped, wherever it stands and whatever its value is. -/
theorem unknown_member_ignored {σ : Type} (fields : List Bytes) (set : σ → Nat → DV → Option σ) (zero : σ)
    (pre post : List (Bytes × DV)) (k : Bytes) (v : DV) (n1 n2 : Node) (h : fieldIdx fields k = none) :
    decStruct fields set zero (.obj (pre ++ (k, v) :: post) n1) = decStruct fields set zero (.obj (pre ++ post) n2) := by
  simp only [decStruct, decMembers_append]
  congr 1
  funext s
  simp [decMembers, h]

/-- … so for every modelled modifier: e.g. a fifo group. -/
theorem fifo_unknown_member_ignored (pre post : List (Bytes × DV)) (k : Bytes) (v : DV) (n1 n2 : Node)
    (h : fieldIdx fifoFields k = none) : fifoNode (.obj (pre ++ (k, v) :: post) n1) = fifoNode (.obj (pre ++ post) n2) := by
  unfold fifoNode
  rw [unknown_member_ignored fifoFields fifoSet {} pre post k v n1 n2 h]

/-- Two spellings that are not member names themselves select the same member iff they fold alike. -/
theorem folded_spellings_equivalent (fields : List Bytes) (k k' : Bytes) (h1 : k ∉ fields) (h2 : k' ∉ fields)
    (hf : foldName k = foldName k') : fieldIdx fields k = fieldIdx fields k' := by
  have e : ∀ x : Bytes, x ∉ fields → fields.findIdx? (· == x) = none := by
    intro x hx
    rw [List.findIdx?_eq_none_iff]
    intro y hy
    have : y ≠ x := fun e => hx (e ▸ hy)
    simpa using this
  simp [fieldIdx, e k h1, e k' h2, hf]

/-- A member of the wrong JSON type makes the whole struct an error (whatever comes before or after). -/
theorem member_type_error_rejects {σ : Type} (fields : List Bytes) (set : σ → Nat → DV → Option σ) (zero : σ)
    (pre post : List (Bytes × DV)) (k : Bytes) (v : DV) (f : Nat) (n : Node) (hk : fieldIdx fields k = some f)
    (hv : ∀ s, set s f v = none) : decStruct fields set zero (.obj (pre ++ (k, v) :: post) n) = none := by
  simp only [decStruct, decMembers_append]
  cases decMembers fields set pre zero with
  | none => rfl
  | some s => simp [decMembers, hk, hv s]

/-- A body that is neither an object nor `null` is a type error; `null` leaves the zero struct. -/
theorem body_kinds {σ : Type} (fields : List Bytes) (set : σ → Nat → DV → Option σ) (zero : σ) (b : Bool) (n : NumLit) (s : Bytes) (xs : List DV) :
    decStruct fields set zero .null = some zero ∧ decStruct fields set zero (.bool b) = none ∧ decStruct fields set zero (.num n) = none ∧
    decStruct fields set zero (.str s) = none ∧ decStruct fields set zero (.arr xs) = none := by
  simp [decStruct]

/-- `{"fifo.Group": null}` is an (accepted) empty group; a filter with a `null` body has no modifier and is rejected. -/
theorem null_bodies (ps : List Bytes) (mk : FilterSt → Cond) :
    fifoNode .null = .fifo none false [] ∧ prioNode .null = .prio none [] ∧
    probeNode .null = .leaf 0 Caps.both false false none ∧ valid (filterNode ps mk .null) = false := by
  refine ⟨by simp [fifoNode, decStruct, scopeOfSl, Sl.nil], by simp [prioNode, decStruct, scopeOfSl, Sl.nil], ?_, ?_⟩
  · simp [probeNode, decStruct, scopeOfSl, Sl.nil, capsOfStr, Caps.both]; decide
  · simp [filterNode, decStruct, rawNode, valid]

/-- `port.Filter` has no else branch: an `"else"` member is just an unknown member. -/
theorem port_filter_else_ignored (pre post : List (Bytes × DV)) (v : DV) (n1 n2 : Node) :
    portNode (.obj (pre ++ (fElse, v) :: post) n1) = portNode (.obj (pre ++ post) n2) := by
  unfold portNode
  rw [unknown_member_ignored portFields portSet {} pre post fElse v n1 n2 (by decide)]

/-- … and what it decodes to is a filter on the port condition without else. -/
theorem port_filter_decodes (p : NumLit) (q : Int) (d : DV) (nd : Node) (hq : int64Of p = some q) :
    portNode (.obj [(fPort, .num p), (fModifier, d)] nd) = .filter (.port q) none d.node none := by
  have h : fieldIdx portFields fPort = some 2 ∧ fieldIdx portFields fModifier = some 0 := by decide
  simp [portNode, decStruct, decMembers, h, portSet, decInt, hq, scopeOfSl, Sl.nil, rawNode]

/-! ## 4. `null`, repeated keys, and what is already there -/

/-- Scalars: a later value replaces, `null` keeps. -/
theorem scalar_members (oldS s : Bytes) (oldB b : Bool) (oldI : Int) :
    decString oldS (.str s) = some s ∧ decString oldS .null = some oldS ∧
    decBool oldB (.bool b) = some b ∧ decBool oldB .null = some oldB ∧ decInt oldI .null = some oldI := by
  simp [decString, decBool, decInt]

/-- Slices: `null` makes the slice nil (a nil scope = every kind), `[]` makes it empty (= no kind). -/
theorem slice_null_and_empty {α : Type} (elem : α → DV → Option α) (z : α) (old : Sl α) :
    decSlice elem z old .null = some Sl.nil ∧ decSlice elem z old (.arr []) = some ⟨false, [], []⟩ := by
  simp [decSlice]

/-- A repeated `"scope"` decodes INTO the earlier one: `[null]` keeps the first element and hides the rest … -/
theorem scope_null_element_keeps_earlier (a : Bytes) (rest st : List Bytes) :
    decScope ⟨false, a :: rest, st⟩ (.arr [.null]) = some ⟨false, [a], rest ++ st⟩ := by
  simp [decScope, decSlice, decElems, decString]

/-- … and a longer array brings the hidden elements back. -/
theorem scope_regrow_reveals_hidden (a b : Bytes) (st : List Bytes) :
    decScope ⟨false, [a], b :: st⟩ (.arr [.null, .null]) = some ⟨false, [a, b], st⟩ := by
  simp [decScope, decSlice, decElems, decString]

/-- Fresh string elements replace whatever was there. -/
theorem scope_strings_replace (old : Sl Bytes) (ss : List Bytes) (h : ss ≠ []) :
    ∃ st, decScope old (.arr (ss.map DV.str)) = some ⟨false, ss, st⟩ := by
  cases ss with
  | nil => exact absurd rfl h
  | cons s ss =>
    refine ⟨(old.vis ++ old.stale).drop (s :: ss).length, ?_⟩
    have := decElems_strings (s :: ss) (old.vis ++ old.stale)
    simp only [List.map_cons] at this
    simp [decScope, decSlice, this]

/-- A priority element decodes into the struct at its index: a missing member keeps what is there. -/
theorem prio_elem_inherits (p : Int) (d d' : Option DV) (x : DV) (n : NumLit) (q : Int) (nd : Node) (hq : int64Of n = some q) :
    decPrioElem ⟨p, d⟩ (.obj [(fModifier, x)] nd) = some ⟨p, some x⟩ ∧
    decPrioElem ⟨p, d'⟩ (.obj [(fPriority, .num n)] nd) = some ⟨q, d'⟩ ∧
    decPrioElem ⟨p, d⟩ (.obj [] nd) = some ⟨p, d⟩ ∧ decPrioElem ⟨p, d⟩ .null = some ⟨p, d⟩ := by
  simp [decPrioElem, decStruct, decMembers, idx_prioElem, prioElemSet, decInt, hq]

/-! ## 5. Numbers as priorities -/

/-- A literal with a fraction or an exponent is not an `int64` (also `1.0`, `1e2`). -/
theorem priority_fraction_or_exponent_rejected (neg : Bool) (i : Nat) : int64Of ⟨neg, i, true⟩ = none := by
  simp [int64Of]

/-- An integer literal is accepted iff it fits 64 bits; its value is the obvious one (`-0` = 0). -/
theorem priority_integer_iff (neg : Bool) (i : Nat) (v : Int) :
    int64Of ⟨neg, i, false⟩ = some v ↔ v = (if neg then -(i : Int) else (i : Int)) ∧ minInt64 ≤ v ∧ v ≤ maxInt64 := by
  unfold int64Of
  cases neg <;> simp <;> constructor <;> (intro h; first | (obtain ⟨h1, h2⟩ := h; subst h2; exact ⟨rfl, h1⟩) | (obtain ⟨h1, h2⟩ := h; subst h1; exact ⟨h2, rfl⟩))

theorem decElems_elem_error {α : Type} (elem : α → DV → Option α) (z : α) (x : DV) (h : ∀ old, elem old x = none) :
    ∀ (pre post : List DV) (mem : List α), decElems elem z (pre ++ x :: post) mem = none := by
  intro pre
  induction pre with
  | nil => intro post mem; simp [decElems, h]
  | cons y pre ih => intro post mem; simp [decElems, ih]

/-- One priority that is not an `int64` rejects the whole group, wherever the element stands. -/
theorem bad_priority_rejects_group (n : NumLit) (hn : int64Of n = none) (d : DV) (nd nn : Node) (pre post : List DV) :
    prioNode (.obj [(fModifiers, .arr (pre ++ .obj [(fPriority, .num n), (fModifier, d)] nd :: post))] nn) = .malformed := by
  have he : ∀ old, decPrioElem old (.obj [(fPriority, .num n), (fModifier, d)] nd) = none := by
    intro old; simp [decPrioElem, decStruct, decMembers, idx_prioElem, prioElemSet, decInt, hn]
  have hs : decSlice decPrioElem {} Sl.nil (.arr (pre ++ .obj [(fPriority, .num n), (fModifier, d)] nd :: post)) = none := by
    cases pre <;> simp [decSlice, decElems_elem_error decPrioElem {} _ he, decElems, he]
  simp [prioNode, decStruct, decMembers, idx_prio, prioSet, hs]

/-- A `null` (or any non-object) child rejects the group as a whole. -/
theorem null_child_rejects_group (pre post : List DV) (x : DV) (hx : x.node = .malformed) (nn : Node) :
    valid (fifoNode (.obj [(fModifiers, .arr (pre ++ x :: post))] nn)) = false := by
  obtain ⟨st, hst⟩ := decSlice_raw_arr .null Sl.nil (pre ++ x :: post)
  have hl : ∀ pre : List DV, validList (pre.map DV.node ++ x.node :: post.map DV.node) = false := by
    intro pre; induction pre with
    | nil => simp [validList, hx, valid]
    | cons a as ih => simp [validList, ih]
  simp [fifoNode, decStruct, decMembers, idx_fifo, fifoSet, hst, valid, hl pre]

/-! ## Non-vacuity (concrete bodies; `decide +kernel` = evaluation by the kernel, a test) -/

def jleaf (l : Nat) : JVal := render (.leaf l Caps.both false false none)
def jstrs (l : List String) : JVal := .arr (l.map fun s => .str (strBytes s))

/-- what a body does to a request / a response when POSTed to a fresh handler (`none` = rejected) -/
def readRun (j : JVal) (k : Kind) : Option SOutcome :=
  match compile (fromJSON j) with
  | .ok r => some (flatO (run r k (fun _ _ => false)))
  | .error _ => none
def readErr (j : JVal) : Option PErr :=
  match compile (fromJSON j) with
  | .ok _ => none
  | .error e => some e

/-- `{"fifo.Group":{"scope":["request","response"],"scope":[null],"MODIFIERS":[L1,L2],"comment":5,"aggregateErrorſ":true}}`:
request only (the second scope keeps `"request"`), both leaves, folded and unknown members -/
def exBody : JVal :=
  .obj [(strBytes "fifo.Group", .obj [(strBytes "scope", jstrs ["request", "response"]), (strBytes "scope", .arr [.null]),
    (strBytes "MODIFIERS", .arr [jleaf 1, jleaf 2]), (strBytes "comment", .num ⟨false, 5, false⟩),
    ([97, 103, 103, 114, 101, 103, 97, 116, 101, 69, 114, 114, 111, 114, 0xC5, 0xBF], .bool true)])]

example : readRun exBody .req = some ([1, 2], []) ∧ readRun exBody .res = some ([], []) := by decide +kernel
example : fits (.prio (some [.request, .other]) [(-5, .leaf 1 Caps.both true false none), (maxInt64, .unknown)]) = true := by decide +kernel
/-- two names / a capitalised name / `null` / a `null` body -/
example : readErr (.obj [(strBytes "fifo.Group", .obj []), (strBytes "verif.Probe", .obj [])]) = some .malformed := by decide +kernel
example : readErr (.obj [(strBytes "Fifo.Group", .obj [])]) = some .unknownModifier := by decide +kernel
example : readErr .null = some .malformed ∧ readRun (.obj [(strBytes "fifo.Group", .null)]) .req = some ([], []) := by decide +kernel
/-- priority group: the second "modifiers" decodes into the first: (5,L1),(1,L2) then [{"modifier":L3},{"priority":9}] = (5,L3),(9,L2) -/
example : readRun (.obj [(strBytes "priority.Group", .obj [
      (strBytes "modifiers", .arr [.obj [(strBytes "priority", .num ⟨false, 5, false⟩), (strBytes "modifier", jleaf 1)],
                                   .obj [(strBytes "priority", .num ⟨false, 1, false⟩), (strBytes "modifier", jleaf 2)]]),
      (strBytes "modifiers", .arr [.obj [(strBytes "modifier", jleaf 3)], .obj [(strBytes "priority", .num ⟨false, 9, false⟩)]])])]) .req
    = some ([2, 3], []) := by decide +kernel
/-- priorities: `-0`, `2^63 - 1`, `2^63`, `1e2` -/
example : int64Of ⟨true, 0, false⟩ = some 0 ∧ int64Of ⟨false, 9223372036854775807, false⟩ = some maxInt64 ∧
    int64Of ⟨false, 9223372036854775808, false⟩ = none ∧ int64Of ⟨false, 1, true⟩ = none := by decide +kernel
/-- hypotheses of `folded_spellings_equivalent` are satisfiable: `SCOPE` and `ſcope` -/
example : strBytes "SCOPE" ∉ fifoFields ∧ ([0xC5, 0xBF] ++ strBytes "cope") ∉ fifoFields ∧
    foldName (strBytes "SCOPE") = foldName ([0xC5, 0xBF] ++ strBytes "cope") ∧ fieldIdx fifoFields (strBytes "SCOPE") = some 0 := by decide +kernel

end Martian.Props.C12
