import Martian.Model.ConfigJson
import Martian.Generated.Config
/-!
C12 — regenerated facts (from `/repo`'s source on every run, `go/ast`; `decide` on finite tables) that
the JSON layer and the matchers of the model rest on. (`facts_servePOST_*`, `facts_priority_insert_test`
are in `Props/C12.lean`.)
-/
namespace Martian.Props.C12
open Martian Martian.Config

/-- The JSON members (tag, Go type) of the structs the `*FromJSON` functions decode into. -/
def expectedJsonStructs : List (String × List (String × String)) :=
  [("fifo.groupJSON", [("aggregateErrors", "bool"), ("modifiers", "[]json.RawMessage"), ("scope", "[]parse.ModifierType")]),
   ("priority.groupJSON", [("modifiers", "[]modifierJSON"), ("scope", "[]parse.ModifierType")]),
   ("priority.modifierJSON", [("modifier", "json.RawMessage"), ("priority", "int64")]),
   ("martianurl.filterJSON", [("else", "json.RawMessage"), ("host", "string"), ("modifier", "json.RawMessage"), ("path", "string"),
      ("query", "string"), ("scheme", "string"), ("scope", "[]parse.ModifierType")]),
   ("header.filterJSON", [("else", "json.RawMessage"), ("modifier", "json.RawMessage"), ("name", "string"), ("scope", "[]parse.ModifierType"), ("value", "string")]),
   ("querystring.filterJSON", [("else", "json.RawMessage"), ("modifier", "json.RawMessage"), ("name", "string"), ("scope", "[]parse.ModifierType"), ("value", "string")]),
   ("method.filterJSON", [("else", "json.RawMessage"), ("method", "string"), ("modifier", "json.RawMessage"), ("scope", "[]parse.ModifierType")]),
   ("cookie.filterJSON", [("else", "json.RawMessage"), ("modifier", "json.RawMessage"), ("name", "string"), ("scope", "[]parse.ModifierType"), ("value", "string")])]

/-- Member names and kinds are those the model decodes: `[]json.RawMessage` (fifo children, verbatim),
`[]modifierJSON` (priority children, element-wise into structs), `int64` priority, string parameters,
`json.RawMessage` modifier/else, `[]parse.ModifierType` scope, `bool` aggregateErrors. -/
theorem facts_json_members : Generated.Config.jsonStructs = expectedJsonStructs := by decide

/-- the tags of a struct of the table, as bytes -/
def tagsOf (name : String) : List Bytes :=
  match Generated.Config.jsonStructs.find? (·.1 == name) with
  | some e => e.2.map fun m => strBytes m.1
  | none => []

def sameMembers (a b : List Bytes) : Bool := a.length == b.length && a.all b.contains && b.all a.contains

/-- The model's member lists are exactly the structs' JSON tags. -/
theorem facts_json_members_match_model :
    sameMembers fifoFields (tagsOf "fifo.groupJSON") = true ∧ sameMembers prioFields (tagsOf "priority.groupJSON") = true ∧
    sameMembers prioElemFields (tagsOf "priority.modifierJSON") = true ∧
    sameMembers ([fModifier, fElse, fScope] ++ [fScheme, fHost, fPath, fQuery]) (tagsOf "martianurl.filterJSON") = true ∧
    sameMembers ([fModifier, fElse, fScope] ++ [fName, fValue]) (tagsOf "header.filterJSON") = true ∧
    sameMembers ([fModifier, fElse, fScope] ++ [fName, fValue]) (tagsOf "querystring.filterJSON") = true ∧
    sameMembers ([fModifier, fElse, fScope] ++ [fMethod]) (tagsOf "method.filterJSON") = true ∧
    sameMembers ([fModifier, fElse, fScope] ++ [fName, fValue]) (tagsOf "cookie.filterJSON") = true := by
  rw [show tagsOf = fun name => (match expectedJsonStructs.find? (·.1 == name) with | some e => e.2.map fun m => strBytes m.1 | none => []) from by
    funext name; unfold tagsOf; rw [facts_json_members]]
  decide +kernel

/-- What each matcher's `MatchResponse` decides on: cookies and headers of the response itself; method,
URL and query of the request it answers (`Config.holds` reads exactly these). -/
theorem facts_matchers_read : Generated.Config.matchResponseReads =
    [("cookie", ["res.Cookies"]), ("header", ["proxyutil.ResponseHeader"]), ("method", ["res.Request.Method"]),
     ("querystring", ["res.Request"]), ("url", ["res.Request.URL"])] := by decide

/-- The library calls the conditions' meaning rests on: `strings.EqualFold` (method), `URL.Query()` (query
string). (Header names are canonicalised twice, at filter construction and in `proxyutil.Header.All`;
either suffices, so neither is pinned — the `cond` ops cover it.) -/
theorem facts_matcher_library_calls : Generated.Config.methodMatchCalls = ["strings.EqualFold"] ∧
    Generated.Config.queryMatchCalls = ["req.URL.Query"] := by decide

end Martian.Props.C12
