import Martian.Lemmas.Config
import Martian.Lemmas.ConfigCond
/-!
C12 — "a filter applies its modifier when its condition holds for the message": the five conditions,
concretely. `Config.holds` transcribes `header.Matcher`, `martianurl.Matcher` (+ `MatchHost`),
`querystring.Matcher`, `method.Matcher`, `cookie.Matcher` on a concrete exchange (`Config.Message`);
the theorems below say what those transcriptions mean, for every exchange and every parameter.
The tie to the real matchers is the differential `cond` / `matchhost` / `query` ops of the harness.
-/
namespace Martian.Props.C12
open Martian Martian.Config Martian.Go

/-! ## 1. The main theorem on a concrete exchange -/

/-- The depth-first reading of the tree on the request (or response) of a concrete exchange: filter
nodes branch on what the real matcher answers for that exchange. -/
def specEvalM (k : Kind) (m : Message) (n : Node) : SOutcome := specEval k (fun c => holds c k m) n

/-- `compile_eval_eq_spec` with the conditions evaluated by the five matchers on a concrete exchange
(any method, URL, query, header map, pseudo-headers, cookies). -/
theorem compile_eval_eq_spec_concrete (n : Node) (r : Result) (k : Kind) (m : Message) (h : compile n = .ok r) :
    flatO (run r k m.toMsg) = specEvalM k m n := by
  unfold specEvalM
  rw [← compile_spec k (fun c => holds c k m) n r h]
  exact outcomeOf_orNoop (m.toMsg k) k r

/-- The filter clause, literally: in scope, the `modifier` branch runs iff the condition holds for the
message, the `else` branch (nothing, if absent) otherwise. -/
theorem filter_applies_iff_condition_holds (c : Cond) (scope : Scope) (t : Node) (e : Option Node) (k : Kind) (m : Message) :
    specEvalM k m (.filter c scope t e) =
      if acts scope Caps.both k then (if holds c k m then specEvalM k m t else (match e with | some x => specEvalM k m x | none => ([], [])))
      else ([], []) := by
  unfold specEvalM
  cases e <;> simp [specEval, specOpt]

/-- One exchange, two moments: the response side's effect is the depth-first reading on the exchange AS
IT IS AT RESPONSE TIME — whatever the exchange looked like when its request went through (no decision
is carried over from the request side), and the request side's on the exchange at request time. -/
theorem response_side_reads_the_exchange_at_response_time (n : Node) (r : Result) (m1 m1' m2 : Message) (h : compile n = .ok r) :
    (xrun r m1 m2).2 = (xrun r m1' m2).2 ∧ flatO (xrun r m1 m2).2 = specEvalM .res m2 n ∧ flatO (xrun r m1 m2).1 = specEvalM .req m1 n :=
  ⟨rfl, compile_eval_eq_spec_concrete n r .res m2 h, compile_eval_eq_spec_concrete n r .req m1 h⟩

/-- … and a filter whose condition changed truth between the two moments takes different branches on the two sides. -/
theorem filter_may_branch_differently_on_the_two_sides (c : Cond) (t e : Node) (m1 m2 : Message)
    (h1 : holds c .req m1 = true) (h2 : holds c .res m2 = false) :
    specEvalM .req m1 (.filter c none t (some e)) = specEvalM .req m1 t ∧ specEvalM .res m2 (.filter c none t (some e)) = specEvalM .res m2 e := by
  simp [filter_applies_iff_condition_holds, h1, h2, acts, Caps.both, Caps.has]

/-! ## 2. method.Filter -/

/-- ASCII case-insensitive equality with the request's method. -/
theorem method_cond_iff (x : Bytes) (k : Kind) (m : Message) :
    holds (.method x) k m = true ↔ toLower m.method = toLower x := by
  simp [holds, equalFold]

/-- Method, URL and query-string conditions are about the REQUEST of the exchange: a response is
filtered by the request it answers. -/
theorem request_conditions_read_the_request (k : Kind) (m : Message) (x s h p q n v : Bytes) :
    holds (.method x) k m = holds (.method x) .req m ∧ holds (.url s h p q) k m = holds (.url s h p q) .req m ∧
    holds (.query n v) k m = holds (.query n v) .req m := by
  simp [holds]

/-! ## 3. url.Filter and MatchHost -/

/-- Every non-empty segment of the filter must match; an empty segment does not constrain. -/
theorem url_cond_iff (s h p q : Bytes) (k : Kind) (m : Message) :
    holds (.url s h p q) k m = true ↔
      (s = [] ∨ s = m.scheme) ∧ (h = [] ∨ matchHost m.host h = true) ∧ (p = [] ∨ p = m.path) ∧ (q = [] ∨ q = m.rawQuery) := by
  simp only [holds, urlMatches]
  cases s <;> cases h <;> cases p <;> cases q <;> simp <;> grind

theorem url_cond_unconstrained (k : Kind) (m : Message) : holds (.url [] [] [] []) k m = true := by
  simp [holds, urlMatches]

theorem matchHost_empty_host (pat : Bytes) : matchHost [] pat = false := by simp [matchHost]

theorem matchHost_self (host : Bytes) (h : host ≠ []) : matchHost host host = true := by
  cases host <;> simp_all [matchHost]

/-- A pattern without `*` matches exactly itself. -/
theorem matchHost_literal (host pat : Bytes) (hs : star ∉ pat) :
    matchHost host pat = true ↔ host ≠ [] ∧ host = pat := by
  unfold matchHost
  cases host with
  | nil => simp
  | cons a as =>
    by_cases he : (a :: as) = pat
    · simp [he]
    · have hne : ((a :: as) == pat) = false := by simpa using he
      have hl := hostLoop_nostar pat.reverse (a :: as).reverse (by simpa using hs) (by simp)
      have hrev : ((a :: as).reverse = pat.reverse) ↔ (a :: as) = pat := List.reverse_inj
      simp only [List.isEmpty_cons, Bool.false_eq_true, if_false, hne]
      rw [hl, hrev]
      simp [he]

/-- `*.domain` matches `label.domain` for every non-empty dot-free label. -/
theorem matchHost_wildcard_label (l d : Bytes) (hl : l ≠ []) (hdot : dotB ∉ l) (hd : star ∉ d) :
    matchHost (l ++ dotB :: d) (star :: dotB :: d) = true := by
  unfold matchHost
  have hne : (l ++ dotB :: d).isEmpty = false := by cases l <;> simp
  simp only [hne, Bool.false_eq_true, if_false]
  split
  · rfl
  · have h1 : (l ++ dotB :: d).reverse = (d.reverse ++ [dotB]) ++ l.reverse := by simp
    have h2 : (star :: dotB :: d).reverse = (d.reverse ++ [dotB]) ++ [star] := by simp
    rw [h1, h2, hostLoop_common (d.reverse ++ [dotB]) l.reverse [star]
      (by
        intro h
        rcases List.mem_append.mp h with h | h
        · exact hd (by simpa using h)
        · simp [star, dotB] at h)
      (by simpa using hl)]
    have hlen := skipLabel_nodot l.reverse (by simpa using hl) (by simpa using hdot)
    simp [hostLoop, hlen]

/-! ## 4. querystring.Filter and ParseQuery -/

/-- Some parameter of the request's query has the name and (when a value is asked for) the value. -/
theorem query_cond_iff (n v : Bytes) (k : Kind) (m : Message) :
    holds (.query n v) k m = true ↔ ∃ kv ∈ parseQuery m.rawQuery, kv.1 = n ∧ (v = [] ∨ kv.2 = v) := by
  simp only [holds, List.any_eq_true]
  constructor
  · rintro ⟨kv, hkv, h⟩
    refine ⟨kv, hkv, ?_⟩
    cases v <;> simp_all <;> grind
  · rintro ⟨kv, hkv, h1, h2⟩
    refine ⟨kv, hkv, ?_⟩
    cases v <;> simp_all

/-- `url.ParseQuery` on a query written from plain names and values gives back exactly those. -/
theorem parseQuery_of_plain_pairs (ps : List (Bytes × Bytes)) (h : ∀ p ∈ ps, plainQ p.1 ∧ plainQ p.2 ∧ p.1 ≠ []) :
    parseQuery (renderQuery ps) = ps := parseQuery_render ps h

/-- Pieces are independent: `a&b` has the parameters of `a` followed by those of `b` (so a broken
piece — bad escape, `;` — drops only itself). -/
theorem parseQuery_pieces_independent (a b : Bytes) : parseQuery (a ++ 38 :: b) = parseQuery a ++ parseQuery b :=
  parseQuery_append a b

/-! ## 5. header.Filter -/

def headerOf (m : Message) : Kind → Header
  | .req => m.reqHeader
  | .res => m.resHeader

theorem any_find_iff_index (h : Header) (key v : Bytes) :
    (match (h.find? (·.1 == key)).map (·.2) with | none => false | some vs => vs.any (· == v)) = true ↔ v ∈ Header.index h key := by
  unfold Header.index
  cases hf : h.find? (fun x => x.1 == key) <;> simp

/-- A header that is not one of the three pseudo-headers: the condition holds iff one of the values
stored under the canonical name equals the filter's value. -/
theorem header_cond_iff (n v : Bytes) (k : Kind) (m : Message)
    (hp : canonKey n ≠ hostKey ∧ canonKey n ≠ clKey ∧ canonKey n ≠ teKey) :
    holds (.header n v) k m = true ↔ v ∈ Header.index (headerOf m k) (canonKey n) := by
  obtain ⟨h1, h2, h3⟩ := hp
  have e1 : (canonKey n == hostKey) = false := by simpa using h1
  have e2 : (canonKey n == clKey) = false := by simpa using h2
  have e3 : (canonKey n == teKey) = false := by simpa using h3
  cases k
  · simp only [holds, Message.headerAll, headerAll, canonKey_idem, e1, e2, e3, Bool.false_eq_true, if_false, headerOf]
    exact any_find_iff_index m.reqHeader (canonKey n) v
  · simp only [holds, Message.headerAll, headerAll, canonKey_idem, e1, e2, e3, Bool.false_eq_true, if_false, headerOf]
    exact any_find_iff_index m.resHeader (canonKey n) v

/-- Header names are case-insensitive (for names that are HTTP tokens). -/
theorem header_cond_name_case_insensitive (n v : Bytes) (k : Kind) (m : Message) (hn : n.all validHeaderFieldByte = true) :
    holds (.header (toLower n) v) k m = holds (.header n v) k m ∧ holds (.header (toUpper n) v) k m = holds (.header n v) k m := by
  simp [holds, canonKey_toLower n hn, canonKey_toUpper n hn]

/-- `Host` is the request's `Host` field, and no response has one. -/
theorem header_cond_host (v : Bytes) (m : Message) :
    (holds (.header hostKey v) .req m = true ↔ m.reqHost ≠ [] ∧ m.reqHost = v) ∧ holds (.header hostKey v) .res m = false := by
  have hk : canonKey (canonKey hostKey) = hostKey := by decide
  constructor
  · simp only [holds, Message.headerAll, headerAll, hk, beq_self_eq_true, if_true]
    cases h : m.reqHost <;> simp
  · simp [holds, Message.headerAll, headerAll, hk]

/-! ## 6. cookie.Filter -/

theorem cookie_cond_iff (n v : Bytes) (k : Kind) (m : Message) :
    holds (.cookie n v) k m = true ↔ ∃ c ∈ m.cookies k, c.1 = n ∧ (v = [] ∨ c.2 = v) := by
  simp only [holds, List.any_eq_true]
  constructor
  · rintro ⟨c, hc, h⟩
    refine ⟨c, hc, ?_⟩
    cases v <;> simp_all <;> grind
  · rintro ⟨c, hc, h1, h2⟩
    refine ⟨c, hc, ?_⟩
    cases v <;> simp_all

/-! ## 7. port.Filter -/

/-- The port of the request URL — the explicit one, else 80 for `http`, 443 for `https` — is the
filter's; for responses too (after `repo-patches/C12-fix-port-filter-response.patch`; the unpatched
`ModifyResponse` returns an error when there is no explicit port and the default is not the filter's:
known finding `c12:port-filter-response-error`). -/
theorem port_cond_iff (p : Int) (k : Kind) (m : Message) :
    holds (.port p) k m = true ↔
      (match explicitPort m.host with
       | none => p = defaultPort m.scheme
       | some ps => atoi ps = some p) := by
  simp only [holds, portMatches]
  cases explicitPort m.host <;> simp

theorem port_cond_reads_the_request (p : Int) (k : Kind) (m : Message) : holds (.port p) k m = holds (.port p) .req m := rfl

/-! ## Non-vacuity (concrete witnesses; `decide +kernel` = evaluation by the kernel, a test, not a proof of the property) -/

def exMsg : Message :=
  { method := strBytes "POST", scheme := strBytes "https", host := strBytes "www.a.example", path := strBytes "/p1",
    rawQuery := strBytes "k1=v%31&k2", reqHost := strBytes "a.example", reqCL := 5, reqTE := none,
    reqHeader := [(strBytes "X-A", [strBytes "1", strBytes "2"])], reqCookies := [(strBytes "c1", strBytes "v1")],
    resCL := 0, resTE := some [strBytes "chunked"], resHeader := [(strBytes "X-B", [strBytes "1"])], resCookies := [] }

example : holds (.method (strBytes "post")) .res exMsg = true := by decide +kernel
example : holds (.url (strBytes "https") (strBytes "*.a.example") [] []) .req exMsg = true := by decide +kernel
example : holds (.url [] (strBytes "*.example") [] []) .req exMsg = false := by decide +kernel
example : holds (.query (strBytes "k1") (strBytes "v1")) .res exMsg = true := by decide +kernel
example : holds (.query (strBytes "k2") []) .req exMsg = true := by decide +kernel
example : holds (.header (strBytes "x-a") (strBytes "2")) .req exMsg = true := by decide +kernel
example : holds (.header (strBytes "x-a") (strBytes "2")) .res exMsg = false := by decide +kernel
example : holds (.header (strBytes "content-length") (strBytes "5")) .req exMsg = true := by decide +kernel
example : holds (.header (strBytes "transfer-encoding") (strBytes "chunked")) .res exMsg = true := by decide +kernel
example : holds (.cookie (strBytes "c1") []) .req exMsg = true ∧ holds (.cookie (strBytes "c1") []) .res exMsg = false := by decide +kernel
example : holds (.port 443) .res exMsg = true ∧ holds (.port 8080) .res exMsg = false ∧
    holds (.port 8080) .req { exMsg with host := strBytes "a.example:8080" } = true := by decide +kernel
/-- hypotheses of `filter_may_branch_differently_on_the_two_sides` are satisfiable: the path was rewritten between the two sides -/
example : holds (.url [] [] (strBytes "/p1") []) .req exMsg = true ∧ holds (.url [] [] (strBytes "/p1") []) .res { exMsg with path := strBytes "/new" } = false := by decide +kernel
/-- hypotheses of `matchHost_wildcard_label` are satisfiable; and a wildcard does not span two labels -/
example : matchHost (strBytes "www.a.example") (strBytes "*.a.example") = true ∧ matchHost (strBytes "x.y.a.example") (strBytes "*.a.example") = false := by decide +kernel
/-- a filter on the exchange above, both branches -/
example : specEvalM .req exMsg (.filter (.method (strBytes "post")) none (.leaf 1 Caps.both false false none) (some (.leaf 2 Caps.both false false none))) = ([1], []) := by decide +kernel
example : specEvalM .req exMsg (.filter (.method (strBytes "GET")) none (.leaf 1 Caps.both false false none) (some (.leaf 2 Caps.both false false none))) = ([2], []) := by decide +kernel

end Martian.Props.C12
