import Martian.Generated.Mitm
/-!
C06 — "backed by a key the proxy holds so the handshake completes": which clients `crypto/tls` is willing
to serve with the `tls.Certificate` that `Config.cert` returns.

Model of `crypto/tls`'s `selectSignatureScheme` as far as an RSA leaf is concerned (the leaf key of every
martian config is RSA: `NewConfig` generates it): the candidate schemes of the key are the PKCS#1 v1.5
and RSASSA-PSS families under TLS 1.2 and RSASSA-PSS alone under TLS 1.3; a certificate may narrow them
through `SupportedSignatureAlgorithms` (empty = no restriction); the first scheme of the client's
`signature_algorithms` that survives is used, and there being none is `handshake_failure`.
`usable` is what the harness observes through `(*tls.ClientHelloInfo).SupportsCertificate` for each
client profile (oracle `c06:unusable:<profile>`); the regenerated fact `facts_served_unrestricted`
says that the certificate martian serves sets no restriction.
-/
namespace Martian.Props.C06
open Martian

inductive Family | pkcs1 | pss | ecdsa | ed25519
  deriving DecidableEq, Repr

structure Scheme where
  family : Family
  hash   : Nat          -- 1 = SHA-1, 256, 384, 512
  deriving DecidableEq, Repr

inductive Vers | tls12 | tls13
  deriving DecidableEq, Repr

/-- `signatureSchemesForCertificate` for an RSA key (key large enough for every hash: ≥ 2048 bits). -/
def rsaCandidate (v : Vers) (s : Scheme) : Bool :=
  match v, s.family with
  | _, .pss => s.hash == 256 || s.hash == 384 || s.hash == 512
  | .tls12, .pkcs1 => s.hash == 1 || s.hash == 256 || s.hash == 384 || s.hash == 512
  | _, _ => false

/-- The restriction a certificate carries: `[]` (the field left unset) allows everything. -/
def allowedBy (restrict : List Scheme) (s : Scheme) : Bool :=
  restrict.isEmpty || restrict.contains s

/-- `selectSignatureScheme`: the first of the peer's schemes that the key supports and the certificate allows. -/
def selectScheme (v : Vers) (restrict peer : List Scheme) : Option Scheme :=
  peer.find? (fun s => rsaCandidate v s && allowedBy restrict s)

def usable (v : Vers) (restrict peer : List Scheme) : Bool := (selectScheme v restrict peer).isSome

/-- An unrestricted RSA certificate serves every client that offers at least one scheme an RSA key can
sign with under the negotiated version — whatever else, and in whatever order, the client lists. -/
theorem unrestricted_usable (v : Vers) (peer : List Scheme) (s : Scheme)
    (hs : s ∈ peer) (hc : rsaCandidate v s = true) : usable v [] peer = true := by
  unfold usable selectScheme
  rw [List.find?_isSome]
  exact ⟨s, hs, by simp [hc, allowedBy]⟩

/-- The scheme chosen is one the client offered and the key can sign with (no downgrade to something
the peer did not list). -/
theorem selected_is_offered (v : Vers) (restrict peer : List Scheme) (s : Scheme)
    (h : selectScheme v restrict peer = some s) : s ∈ peer ∧ rsaCandidate v s = true := by
  unfold selectScheme at h
  have h1 := List.mem_of_find?_eq_some h
  have h2 := List.find?_some h
  simp only [Bool.and_eq_true] at h2
  exact ⟨h1, h2.1⟩

/-- A restriction can only lose clients: whoever a restricted certificate serves, the unrestricted one serves. -/
theorem restriction_only_loses (v : Vers) (restrict peer : List Scheme)
    (h : usable v restrict peer = true) : usable v [] peer = true := by
  unfold usable at h
  obtain ⟨s, hs⟩ := Option.isSome_iff_exists.mp h
  have := selected_is_offered v restrict peer s hs
  exact unrestricted_usable v peer s this.1 this.2

/-- And it does lose some: a PSS-only certificate refuses the TLS 1.2 client that offers PKCS#1 v1.5 only
(the seeded change C06-R; the harness profile `tls12-pkcs1v15-only`). -/
theorem pss_only_refuses_pkcs1_client :
    usable .tls12 [⟨.pss, 256⟩, ⟨.pss, 384⟩, ⟨.pss, 512⟩] [⟨.pkcs1, 256⟩, ⟨.pkcs1, 384⟩, ⟨.pkcs1, 512⟩] = false ∧
    usable .tls12 [] [⟨.pkcs1, 256⟩, ⟨.pkcs1, 384⟩, ⟨.pkcs1, 512⟩] = true := by decide

/-- Regenerated from `mitm/mitm.go`: the served `tls.Certificate` literal sets exactly the chain, the key and
the parsed leaf, and nothing reachable from `cert` writes `SupportedSignatureAlgorithms` — the `restrict`
argument of `usable` is `[]` for every certificate martian serves. -/
theorem facts_served_unrestricted :
    Generated.Mitm.servedCertKeys = ["Certificate", "Leaf", "PrivateKey"] ∧
    Generated.Mitm.servedCertRestrictWrites = 0 := by decide

/-- The property clause for the harness's client profiles: each is served by the certificate as built. -/
theorem served_cert_usable_for_profiles :
    usable .tls12 [] [⟨.pkcs1, 256⟩, ⟨.pkcs1, 384⟩, ⟨.pkcs1, 512⟩] = true ∧
    usable .tls12 [] [⟨.pss, 256⟩, ⟨.pss, 384⟩, ⟨.pss, 512⟩] = true ∧
    usable .tls12 [] [⟨.pkcs1, 1⟩, ⟨.pkcs1, 256⟩] = true ∧
    usable .tls13 [] [⟨.pss, 256⟩, ⟨.pss, 384⟩, ⟨.pss, 512⟩] = true := by decide

-- non-vacuity: a client with an ECDSA-first list and one RSA scheme meets the hypotheses
example : usable .tls12 [] [⟨.ecdsa, 256⟩, ⟨.ed25519, 0⟩, ⟨.pkcs1, 256⟩] = true :=
  unrestricted_usable _ _ ⟨.pkcs1, 256⟩ (by decide) (by decide)

end Martian.Props.C06
