import Martian.Generated.Mitm
/-!
C06 — facts about `mitm/mitm.go` regenerated from the source on every check (`go/cmd/vextract/facts_c06.go`
→ `Generated/Mitm.lean`) that the model's `normalise`, `sanFor`, `issue` and `goVerify` rely on. They are
read off `cert` **and the package functions reachable from it**, by meaning (which library function, which
field, which sign), so extracting a helper or renaming a variable changes nothing, while swapping the
port-stripping function, the SAN rule, the window or the verify options breaks a theorem here.
-/
namespace Martian.Props.C06
open Martian

/-- The only library functions that look at or rewrite the host string on its way to the cache key and
the SAN are `net.SplitHostPort` (model: `splitHostPort`/`normalise`) and `net.ParseIP` (model: `parseIP`). -/
theorem facts_host_functions :
    Generated.Mitm.hostFunctions = ["net.ParseIP", "net.SplitHostPort"] := by decide

/-- SAN choice (model: `sanFor`): `IPAddresses = [ip]` exactly under `ip := net.ParseIP(host); ip != nil`,
`DNSNames = [host]` in the else branch, and no other write to either field on the path. -/
theorem facts_san_choice :
    Generated.Mitm.sanByParseIP = true ∧ Generated.Mitm.sanWrites = 2 := by decide

/-- The template (model: `issue`, `stepF`): `NotBefore = time.Now() − validity`, `NotAfter = time.Now() + validity`
(at most the two clock reads the fine-grained semantics has), the organisation is the configured one, the
leaf is a server-auth certificate (what `Verify` demands by default). -/
theorem facts_template :
    Generated.Mitm.tmplNotBefore = "now-validity" ∧ Generated.Mitm.tmplNotAfter = "now+validity" ∧
    Generated.Mitm.templateClockReads ≤ 2 ∧ Generated.Mitm.tmplOrgFromConfig = true ∧
    Generated.Mitm.tmplServerAuth = true := by decide

/-- The re-verification of a cache hit (model: `goVerify`): `VerifyOptions` sets exactly `DNSName` — the very
string that keys the cache — and `Roots`; no `CurrentTime` (the real clock decides), no `KeyUsages`. -/
theorem facts_verify_call :
    Generated.Mitm.verifyOptionKeys = ["DNSName", "Roots"] ∧ Generated.Mitm.verifyNameIsCacheKey = true := by decide

/-- A cache hit is returned only from inside the success branch of its own `Leaf.Verify` (model: `certFor`,
`stepF` hand out a cached certificate only after `goVerify`): no shortcut — memoised verdict, rate limit,
"checked recently" — returns the entry unverified. -/
theorem facts_hit_verified :
    Generated.Mitm.unverifiedHitReturns = 0 ∧ 1 ≤ Generated.Mitm.verifiedHitReturns := by decide

end Martian.Props.C06
