import Martian.Lemmas.Mitm
import Martian.Generated.Mitm
/-!
C06 — the CHAIN part of "verifies" for names the configuration itself carries. The bit `signedByCA` stands for
"the CA's signature on the leaf checks out". Go's chain builder (`Certificate.buildChains` → `alreadyInChain`)
additionally skips a candidate parent that has **the same subject, the same public key and the same SANs** as a
certificate already in the chain. A leaf issued for the authority's own name, with the leaf organisation equal to
the authority's, has the CA certificate's subject and SAN; it still chains because `NewConfig` generates a key of
its own for the leaves. This file states that: the chain verdict does not depend on which name is asked — for ALL
names, the authority's own included — given distinct keys, and shows what happens without that.
Trusted: that `alreadyInChain` is this comparison (crypto/x509/verify.go, Go 1.23) — checked on every run by real
`x509.Verify` on leaves served for the authority's own name under every CA key kind.
-/
namespace Martian.Props.C06
open Martian Martian.Go Martian.Mitm

/-- What `alreadyInChain` looks at, for the CA certificate: subject (CN, organisation), SANs, public key. -/
structure Authority where
  cn : Bytes
  org : Bytes
  names : List Bytes
  ips : List IP
  key : Nat
  deriving DecidableEq, Repr

/-- The template's subject is `CommonName: hostname, Organization: [c.org]`; `leafKey` is the key of `c.priv`. -/
def alreadyInChain (a : Authority) (host : Bytes) (leafKey : Nat) (c : Cert) : Bool :=
  host == a.cn && c.org == a.org && leafKey == a.key && c.names == a.names && c.ips == a.ips

/-- Chain building to the single root `a`: signed by it, and the root not mistaken for the leaf itself. -/
def chainsTo (a : Authority) (host : Bytes) (leafKey : Nat) (c : Cert) : Bool :=
  c.signedByCA && !alreadyInChain a host leafKey c

/-- **The chain verdict does not depend on the name asked.** With a leaf key different from the authority's
(what `NewConfig` generates: `facts_leaf_key_generated`), for every host — an ordinary one or the authority's own
CN / SAN in any spelling — every organisation and every authority, the leaf chains iff the signature is good. -/
theorem chain_independent_of_name (a : Authority) (host : Bytes) (leafKey : Nat) (c : Cert)
    (hk : leafKey ≠ a.key) : chainsTo a host leafKey c = c.signedByCA := by
  have : (leafKey == a.key) = false := by simpa using hk
  simp [chainsTo, alreadyInChain, this]

/-- In particular every issued certificate chains, whatever it was issued for. -/
theorem issued_chains_for_every_name (cfg : Config) (a : Authority) (host : Bytes) (now : Int) (n leafKey : Nat)
    (hk : leafKey ≠ a.key) : chainsTo a host leafKey (issue cfg host now n) = true := by
  rw [chain_independent_of_name a host leafKey _ hk]; rfl

/-- Without the distinct key the verdict DOES depend on the name: the leaf for the authority's own name under the
authority's organisation is taken for the root itself and does not chain, while every other name still does
(the defect class of seeded C06-N: the CA key reused as the leaf key). -/
theorem shared_key_own_name_counterexample :
    let a : Authority := { cn := strBytes "martian.proxy", org := strBytes "Martian Proxy",
                           names := [strBytes "martian.proxy"], ips := [], key := 7 }
    let cfg : Config := { validity := 3600000, org := strBytes "Martian Proxy" }
    chainsTo a (strBytes "martian.proxy") 7 (issue cfg (strBytes "martian.proxy") 5000 0) = false ∧
    chainsTo a (strBytes "Martian.Proxy") 7 (issue cfg (strBytes "Martian.Proxy") 5000 0) = true ∧
    chainsTo a (strBytes "example.com") 7 (issue cfg (strBytes "example.com") 5000 0) = true ∧
    chainsTo a (strBytes "martian.proxy") 8 (issue cfg (strBytes "martian.proxy") 5000 0) = true := by decide

/-- With a shared key the only names that fail are the authority's own, exact case, same organisation and SAN. -/
theorem shared_key_fails_only_for_own_name (a : Authority) (host : Bytes) (c : Cert)
    (hs : c.signedByCA = true) (h : chainsTo a host a.key c = false) :
    host = a.cn ∧ c.org = a.org ∧ c.names = a.names ∧ c.ips = a.ips := by
  simp only [chainsTo, alreadyInChain, hs, Bool.true_and, Bool.not_eq_false', Bool.and_eq_true, beq_iff_eq] at h
  exact ⟨h.1.1.1.1, h.1.1.1.2, h.1.2, h.2⟩

/-- Regenerated from `NewConfig`: the key in the `priv` field comes from a `GenerateKey` call and from nothing
else, and the `privateKey` parameter flows into `capriv` only — the hypothesis `leafKey ≠ a.key` above. -/
theorem facts_leaf_key_generated :
    Generated.Mitm.leafKeyGenerated = true ∧ Generated.Mitm.caKeyFlowsTo = ["capriv"] := by decide

end Martian.Props.C06
