import Martian.Lemmas.Mitm
import Martian.Lemmas.MitmNorm
/-!
C06 — host normalisation ("Remove the port if it exists") on every spelling the property lists:
`name`, `name:port`, IPv4, `v4:port`, bare IPv6, `[v6]:port`, in any letter case. `normalise` is
`net.SplitHostPort`-or-identity (Model/Mitm.lean); `parseIP` is `net.ParseIP`.
-/
namespace Martian.Props.C06
open Martian Martian.Go Martian.Mitm

/-- `host:port` (DNS name or IPv4 literal, any port string without `:`/`[`/`]`) ↦ `host`. -/
theorem normalise_host_port {d p : Bytes}
    (d1 : colon ∉ d) (d2 : lbr ∉ d) (d3 : rbr ∉ d) (p1 : colon ∉ p) (p2 : lbr ∉ p) (p3 : rbr ∉ p) :
    normalise (d ++ colon :: p) = d := by
  simp [normalise, splitHostPort_host_port d1 d2 d3 p1 p2 p3]

/-- `[addr]:port` ↦ `addr` (colons inside the brackets are kept, whatever the groups look like). -/
theorem normalise_bracketed {a p : Bytes}
    (a2 : lbr ∉ a) (a3 : rbr ∉ a) (p1 : colon ∉ p) (p2 : lbr ∉ p) (p3 : rbr ∉ p) :
    normalise (lbr :: a ++ rbr :: colon :: p) = a := by
  have := splitHostPort_bracketed a2 a3 p1 p2 p3
  unfold normalise
  rw [this]

/-- A host without any colon (bare DNS name, bare IPv4) is used as it is. -/
theorem normalise_no_colon {h : Bytes} (hc : colon ∉ h) : normalise h = h :=
  normalise_bare (splitHostPort_no_colon hc)

/-- **A bare IPv6 literal is never truncated**, syntactic form: two or more colons and no leading
`[` — in particular when the last group consists of decimal digits only (`::1`, `2001:db8::7`,
`fe80::1:2:443`), the class in which "last colon = port separator" heuristics go wrong. -/
theorem normalise_bare_v6 {h : Bytes} (hh : h.head? ≠ some lbr) (h2 : 2 ≤ h.count colon) : normalise h = h :=
  normalise_bare (splitHostPort_two_colons hh h2)

/-- … and semantic form: whatever `net.ParseIP` accepts (IPv4, IPv6, v4-mapped, `::`-compressed, with
an embedded dotted quad) is left untouched by the port stripping, so the IP SAN is built from the
whole literal. -/
theorem normalise_ip_literal {h : Bytes} {ip : IP} (hp : parseIP h = some ip) : normalise h = h :=
  normalise_bare (splitHostPort_of_parseIP hp)

/-- A bare IP literal gets exactly the IP SAN of the complete address, under its own cache key. -/
theorem ip_literal_san {h : Bytes} {ip : IP} (hp : parseIP h = some ip) :
    sanFor (normalise h) = ([], [ip]) := by
  rw [normalise_ip_literal hp]; simp [sanFor, hp]

/-- Letter case does not disturb the port stripping: lower-casing (or any byte map that leaves `:`,
`[`, `]` alone) commutes with it. -/
theorem normalise_toLower (h : Bytes) : normalise (toLower h) = toLower (normalise h) :=
  normalise_map keepsDelims_toLowerB h

/-- The listed spellings with a port are servable whenever the host part is a host at all. -/
theorem servable_host_port {d p : Bytes}
    (d0 : d ≠ []) (d0' : d ≠ [dot]) (d1 : colon ∉ d) (d2 : lbr ∉ d) (d3 : rbr ∉ d)
    (p1 : colon ∉ p) (p2 : lbr ∉ p) (p3 : rbr ∉ p) : Servable (d ++ colon :: p) := by
  have hn := normalise_host_port d1 d2 d3 p1 p2 p3
  unfold Servable
  rw [hn]
  exact ⟨d0, d0', head_ne_of_not_mem d2⟩

theorem servable_bracketed {a p : Bytes}
    (a0 : a ≠ []) (a0' : a ≠ [dot]) (a2 : lbr ∉ a) (a3 : rbr ∉ a) (p1 : colon ∉ p) (p2 : lbr ∉ p) (p3 : rbr ∉ p) :
    Servable (lbr :: a ++ rbr :: colon :: p) := by
  have hn := normalise_bracketed a2 a3 p1 p2 p3
  unfold Servable
  rw [hn]
  exact ⟨a0, a0', head_ne_of_not_mem a2⟩

/-- A bare IP literal is servable. -/
theorem servable_ip_literal {h : Bytes} {ip : IP} (hp : parseIP h = some ip) : Servable h := by
  have hs := splitHostPort_of_parseIP hp
  unfold Servable
  rw [normalise_ip_literal hp]
  refine ⟨?_, ?_, ?_⟩
  · intro e; subst e
    have : parseIP [] = none := by decide
    rw [this] at hp; cases hp
  · intro e; subst e
    have : parseIP [dot] = none := by decide
    rw [this] at hp; cases hp
  · intro hb
    unfold parseIP at hp
    split at hp
    · cases hp
    · split at hp
      · cases hp
      · split at hp
        · cases hv : parseV4Fields h with
          | none => rw [hv] at hp; cases hp
          | some f =>
            -- a dotted quad starts with a digit or a dot
            have hall := parseV4Fields_no_colon hv
            unfold parseV4Fields at hv
            simp only at hv
            split at hv
            · cases hv
            · have hd := (mapM_some v4Field _ _ hv).2
              cases h with
              | nil => simp at hb
              | cons c t =>
                simp only [List.head?_cons, Option.some.injEq] at hb
                subst hb
                have hm : lbr ∈ unsplit dot (split (lbr :: t) dot) := by rw [unsplit_split]; simp
                rcases mem_unsplit hm with e | ⟨q, hq, hx⟩
                · exact absurd e (by decide)
                · obtain ⟨v, hv'⟩ := hd q hq
                  exact absurd (v4Field_digits hv' lbr hx) (by decide)
        · exact (parseV6_shape hp).1 hb

/-! ### tests: the class of seeded defect C06-C, and the other listed spellings -/

example : normalise (strBytes "::1") = strBytes "::1" ∧ normalise (strBytes "2001:db8::7") = strBytes "2001:db8::7" ∧
    normalise (strBytes "fe80::1:2:443") = strBytes "fe80::1:2:443" ∧
    normalise (strBytes "1:2:3:4:5:6:7:8") = strBytes "1:2:3:4:5:6:7:8" ∧
    normalise (strBytes "::ffff:10.0.0.1") = strBytes "::ffff:10.0.0.1" := by decide
example : normalise (strBytes "[fe80::1:2:443]:8443") = strBytes "fe80::1:2:443" ∧
    normalise (strBytes "EXAMPLE.com:443") = strBytes "EXAMPLE.com" ∧ normalise (strBytes "10.0.0.1:1") = strBytes "10.0.0.1" := by decide

end Martian.Props.C06
