import Martian.Lemmas.Mitm
/-!
C06 — the NAME and the WINDOW part of "verifies" made concrete.

`verifyHostname` (Model/Mitm.lean) transcribes Go 1.23 `x509.Certificate.VerifyHostname`
(`validHostname`, `matchHostnames` with the left-most wildcard, `matchExactly`, the `[ip]` spelling);
`verifyErr` the order in which `Certificate.Verify` tests window, host name and chain. The theorems
here say what that verifier accepts **on the certificates this code issues** (`GoodFor k c`: the SAN is
the one the template builds for cache key `k`): exactly the spellings of `k` itself.
-/
namespace Martian.Props.C06
open Martian Martian.Go Martian.Mitm

/-! ### the two branches of `VerifyHostname` -/

/-- A host that parses as an IP address, with or without `[ ]`, is compared with the IP SANs only
(byte-wise on the 16-byte form), never with a DNS name. -/
theorem verifyHostname_ip_branch (c : Cert) (h : Bytes) {ip : IP} (hp : parseIP (stripBrackets h) = some ip) :
    verifyHostname c h = c.ips.contains ip := by
  simp [verifyHostname, hp]

/-- Any other host is compared with the DNS SANs only. -/
theorem verifyHostname_dns_branch (c : Cert) (h : Bytes) (hp : parseIP (stripBrackets h) = none) :
    verifyHostname c h = c.names.any (fun n => matchDNS n (toLower h)) := by
  simp [verifyHostname, hp]

/-! ### what an issued certificate is valid for: exactly its own host -/

/-- A name that is valid as a certificate pattern and has no wildcard: LDH labels (plus `_`), no empty
label, no trailing dot. Every DNS name the property lists is one. -/
def PlainName (k : Bytes) : Prop := validHostname k true = true ∧ star ∉ k

instance (k : Bytes) : Decidable (PlainName k) := by unfold PlainName; exact inferInstance

/-- Certificate issued for an IP literal `k`: it verifies for `h` iff `h` (brackets optional) parses
to the same address. -/
theorem issued_ip_exact {k : Bytes} {c : Cert} {ip : IP} (hg : GoodFor k c) (hk : parseIP k = some ip) (h : Bytes) :
    verifyHostname c h = true ↔ parseIP (stripBrackets h) = some ip := by
  have hs : c.names = [] ∧ c.ips = [ip] := by
    have := hg.1
    simp only [sanFor, hk, Prod.mk.injEq] at this
    exact this
  unfold verifyHostname
  cases hp : parseIP (stripBrackets h) with
  | none => simp [hs.1]
  | some a =>
    simp only [hs.2, List.contains_cons, List.contains_nil, Bool.or_false, beq_iff_eq, Option.some.injEq]

/-- Certificate issued for a plain DNS name `k`: it verifies for `h` iff `h` is not an IP literal and
equals `k` up to ASCII letter case and one trailing dot. No other host is accepted. -/
theorem issued_dns_exact {k : Bytes} {c : Cert} (hg : GoodFor k c) (hk : parseIP k = none) (hp : PlainName k) (h : Bytes) :
    verifyHostname c h = true ↔ parseIP (stripBrackets h) = none ∧ toLower (trimDot h) = toLower k := by
  have hs : c.names = [k] ∧ c.ips = [] := by
    have := hg.1
    simp only [sanFor, hk, Prod.mk.injEq] at this
    exact this
  obtain ⟨hvp, hstar⟩ := hp
  unfold verifyHostname
  cases hph : parseIP (stripBrackets h) with
  | some a => simp [hs.2]
  | none =>
    simp only [hs.1, List.any_cons, List.any_nil, Bool.or_false, true_and]
    have hvc : validHostname (toLower h) false = validParts (toLower (trimDot h)) := by
      rw [validHostname_input_eq, trimDot_toLower]
    constructor
    · intro hm
      unfold matchDNS at hm
      split at hm
      · have := matchHostnames_no_star hstar hm
        rwa [trimDot_toLower, toLower_idem] at this
      · rename_i hnv
        have hvc' : validHostname (toLower h) false = false := by
          simpa [hvp] using hnv
        obtain ⟨_, _, _, _, he⟩ := matchExactly_iff.mp hm
        rw [toLower_idem] at he
        rcases trimDot_cases h with ⟨_, ht⟩ | ht
        · rw [ht]; exact he.symm
        · exfalso
          apply validPattern_no_trailing_dot hvp
          apply getLast?_of_toLower_dot
          rw [he, ht, toLower_append]
          simp [toLower, toLowerB_eq_dot.mpr rfl]
    · intro he
      unfold matchDNS
      have hv : validHostname (toLower h) false = true := by
        rw [hvc, he, validParts_toLower, ← validHostname_pattern_eq hstar]; exact hvp
      simp only [hv, hvp, Bool.and_self, if_true]
      apply matchHostnames_self_lower (validPattern_ne_nil hvp)
      rw [trimDot_toLower, toLower_idem]; exact he

/-- Certificate issued for any other key `k` (not an IP literal, not valid as a pattern: `[::1]`,
`example.com.`, a name with a space, …): only the exact match applies — `h` equals `k` up to ASCII
letter case, and `k` is neither empty nor ".". -/
theorem issued_odd_exact {k : Bytes} {c : Cert} (hg : GoodFor k c) (hk : parseIP k = none)
    (hv : validHostname k true = false) (h : Bytes) :
    verifyHostname c h = true ↔
      parseIP (stripBrackets h) = none ∧ k ≠ [] ∧ k ≠ [dot] ∧ toLower h = toLower k := by
  have hs : c.names = [k] ∧ c.ips = [] := by
    have := hg.1
    simp only [sanFor, hk, Prod.mk.injEq] at this
    exact this
  unfold verifyHostname
  cases hph : parseIP (stripBrackets h) with
  | some a => simp [hs.2]
  | none =>
    simp only [hs.1, List.any_cons, List.any_nil, Bool.or_false, true_and]
    unfold matchDNS
    simp only [hv, Bool.and_false, Bool.false_eq_true, if_false]
    rw [matchExactly_iff, toLower_idem]
    constructor
    · rintro ⟨h1, h2, _, _, he⟩; exact ⟨h1, h2, he.symm⟩
    · rintro ⟨h1, h2, he⟩
      refine ⟨h1, h2, ?_, ?_, he.symm⟩
      · rw [he]; intro e; exact h1 (toLower_eq_nil.mp e)
      · rw [he]; intro e; exact h2 ((toLower_eq_single (fun _ => toLowerB_eq_dot)).mp e)

/-- The three cases together: the certificate issued for cache key `k` verifies for `k` itself —
whenever `k` is not empty, not "." and does not start with `[` — in every letter case. -/
theorem issued_verifies_any_case {k : Bytes} {c : Cert} (hg : GoodFor k c) (hk : parseIP k = none)
    (h1 : k ≠ []) (h2 : k ≠ [dot]) (h : Bytes) (hph : parseIP (stripBrackets h) = none) (he : toLower h = toLower k) :
    verifyHostname c h = true := by
  have hs : c.names = [k] := by
    have := hg.1
    simp only [sanFor, hk, Prod.mk.injEq] at this
    exact this.1
  rw [verifyHostname_dns_branch c h hph, hs]
  simp only [List.any_cons, List.any_nil, Bool.or_false]
  rw [he]
  exact matchDNS_self h1 h2

/-- (test) A wildcard key — not a spelling the property lists, only reachable by calling
`GetCertificate` with such an SNI — yields a certificate that also names sibling hosts. -/
theorem wildcard_key_names_siblings :
    verifyHostname (issue { validity := 3600000, org := [] } (strBytes "*.example.com") 5000 0) (strBytes "a.example.com") = true ∧
    verifyHostname (issue { validity := 3600000, org := [] } (strBytes "*.example.com") 5000 0) (strBytes "a.b.example.com") = false ∧
    ¬ PlainName (strBytes "*.example.com") := by
  decide

/-! ### the order of `Certificate.Verify` and the validity window -/

/-- `goVerify` is "no error" of the ordered check. -/
theorem goVerify_iff_verifyErr_ok (c : Cert) (host : Bytes) (now : Int) :
    goVerify c host now = true ↔ verifyErr c host now = .ok := by
  unfold goVerify verifyErr
  cases inWindow c now <;> cases (host.isEmpty || verifyHostname c host) <;> cases c.signedByCA <;> simp

/-- The window is tested first and with the certificate's whole-second bounds: `Expired` exactly when
the time lies outside `[NotBefore, NotAfter]`, whatever the name and the chain. -/
theorem verifyErr_expired_iff (c : Cert) (host : Bytes) (now : Int) :
    verifyErr c host now = .expired ↔ now < c.notBefore ∨ c.notAfter < now := by
  unfold verifyErr inWindow
  by_cases h1 : c.notBefore ≤ now <;> by_cases h2 : now ≤ c.notAfter
  · simp only [h1, h2, decide_true, Bool.and_self, Bool.not_true, Bool.false_eq_true, if_false]
    constructor
    · intro h; split at h
      · cases h
      · split at h <;> cases h
    · intro h; omega
  · simp [h1, h2]; omega
  · simp [h1, h2]; omega
  · simp [h1, h2]; omega

/-- A hostname error is reported only inside the window, an authority error only for a certificate
that is inside the window and names the host. -/
theorem verifyErr_order (c : Cert) (host : Bytes) (now : Int) :
    (verifyErr c host now = .hostname → inWindow c now = true ∧ host ≠ [] ∧ verifyHostname c host = false) ∧
    (verifyErr c host now = .authority → inWindow c now = true ∧ (host = [] ∨ verifyHostname c host = true) ∧ c.signedByCA = false) := by
  unfold verifyErr
  cases hw : inWindow c now <;> cases hh : verifyHostname c host <;> cases hs : c.signedByCA <;> cases host <;> simp

/-- The window of a freshly issued certificate, exactly: whole seconds around `now ∓ validity`. -/
theorem issued_window (cfg : Config) (k : Bytes) (now t : Int) (n : Nat) :
    inWindow (issue cfg k now n) t = true ↔ floorSec (now - cfg.validity) ≤ t ∧ t ≤ floorSec (now + cfg.validity) := by
  simp only [inWindow, issue, Bool.and_eq_true]
  constructor
  · rintro ⟨a, b⟩; exact ⟨of_decide_eq_true a, of_decide_eq_true b⟩
  · rintro ⟨a, b⟩; exact ⟨decide_eq_true a, decide_eq_true b⟩

/-- … hence valid from `now − validity` until (at least) one second before `now + validity` … -/
theorem issued_valid_throughout (cfg : Config) (k : Bytes) (now t : Int) (n : Nat)
    (h1 : now - cfg.validity ≤ t) (h2 : t ≤ now + cfg.validity - 1000) :
    inWindow (issue cfg k now n) t = true := by
  rw [issued_window]
  have a := floorSec_le (now - cfg.validity)
  have b := lt_floorSec_add (now + cfg.validity)
  omega

/-- … and expired once the configured validity has passed. -/
theorem issued_expired_after (cfg : Config) (k : Bytes) (now t : Int) (n : Nat) (h : now + cfg.validity < t) :
    inWindow (issue cfg k now n) t = false := by
  have b := floorSec_le (now + cfg.validity)
  have : ¬ (floorSec (now - cfg.validity) ≤ t ∧ t ≤ floorSec (now + cfg.validity)) := by omega
  cases hw : inWindow (issue cfg k now n) t with
  | false => rfl
  | true => exact absurd ((issued_window cfg k now t n).mp hw) this

/-! ### non-vacuity -/

example : PlainName (strBytes "example.com") ∧ PlainName (strBytes "xn--bcher-kva.example") ∧
    PlainName (strBytes "EXAMPLE.Com") ∧ PlainName (strBytes "a_b.example") ∧ ¬ PlainName (strBytes "example.com.") ∧
    ¬ PlainName (strBytes "-a.example.com") ∧ ¬ PlainName (strBytes "a..b") ∧ ¬ PlainName [] := by decide
/-- trailing dot and case on the host side; no match for a sibling or a parent -/
example : let c := issue { validity := 2000, org := [] } (strBytes "example.com") 10400 0
    verifyHostname c (strBytes "EXAMPLE.com.") = true ∧ verifyHostname c (strBytes "example.com..") = false ∧
    verifyHostname c (strBytes "a.example.com") = false ∧ verifyHostname c (strBytes "com") = false := by decide
/-- IPv4 against its v4-mapped IPv6 spelling and the bracketed form -/
example : let c := issue { validity := 2000, org := [] } (strBytes "10.0.0.1") 10400 0
    verifyHostname c (strBytes "::ffff:10.0.0.1") = true ∧ verifyHostname c (strBytes "[::ffff:a00:1]") = true ∧
    verifyHostname c (strBytes "10.0.0.2") = false ∧ verifyHostname c (strBytes "10.0.0.1.") = false := by decide
example : verifyErr (issue { validity := 2000, org := [] } (strBytes "example.com") 10400 0) (strBytes "other.example") 99000 = .expired ∧
    verifyErr (issue { validity := 2000, org := [] } (strBytes "example.com") 10400 0) (strBytes "other.example") 10400 = .hostname := by decide

end Martian.Props.C06
