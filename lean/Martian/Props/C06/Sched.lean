import Martian.Lemmas.MitmSched
/-!
C06 — concurrent handshakes at the finest grain: every lock boundary and every clock read of
`Config.cert` is a separate step (`stepF`), any number of requesters, any interleaving, and time moves
forward by an arbitrary amount before every step. So a cached certificate may expire between the
read-locked lookup and its `Verify`, between `Verify` and the return; another requester may replace
the map entry while this one still holds the old pointer; two requesters may issue for the same host
at once (last writer wins).
-/
namespace Martian.Props.C06
open Martian Martian.Go Martian.Mitm

/-- **Every schedule, every requester.** Whoever has returned holds a refusal only if its own host names
nothing; otherwise a certificate with exactly the SAN of **its own** port-stripped host, the CA
signature, the proxy key and the configured organisation. With validity ≥ 1 s and a servable host that
certificate verified for the host at the instant `tchk` it was checked (`Leaf.Verify` of a cache hit)
or created (fresh); at the instant `tret ≥ tchk` of the return it still verifies **iff** its `NotAfter`
has not been passed meanwhile (everything but the window is time-independent), and a fresh one does
for at least `validity − 1 s`. -/
theorem served_under_every_fine_schedule (cfg : Config) (hosts : List Bytes) (s : State) (t0 : Int)
    (hc : ∀ k c, (k, c) ∈ s.cache → GoodFor k c ∧ c.org = cfg.org)
    (sched : List (Nat × Nat)) (i : Nat) (hostname : Bytes) (o : Outcome) (tchk tret : Int)
    (hh : hosts[i]? = some hostname)
    (hd : (runF cfg sched { st := s, clock := t0, threads := hosts.map FPc.start }).threads[i]? = some (.done o tchk tret)) :
    match o with
    | .refused => normalise hostname = []
    | .served c f =>
      normalise hostname ≠ [] ∧ (c.names, c.ips) = sanFor (normalise hostname) ∧
      c.signedByCA = true ∧ c.keyHeld = true ∧ c.org = cfg.org ∧ tchk ≤ tret ∧
      (1000 ≤ cfg.validity → Servable hostname →
        verifiesFor c (normalise hostname) tchk = true ∧
        (verifiesFor c (normalise hostname) tret = true ↔ tret ≤ c.notAfter) ∧
        (f = true → tret ≤ tchk + cfg.validity - 1000 → verifiesFor c (normalise hostname) tret = true)) := by
  have hinv := finv_run (cfg := cfg) (hosts := hosts) sched (finv_start (cfg := cfg) (hosts := hosts) (t0 := t0) hc)
  obtain ⟨h', hh', hg⟩ := hinv.2 i _ hd
  rw [hh] at hh'
  cases hh'
  obtain ⟨hle, _, hr⟩ := hg
  cases o with
  | refused => exact hr
  | served c f =>
    obtain ⟨hne, ⟨hgood, horg⟩, hcached, hfresh⟩ := hr
    refine ⟨hne, hgood.1, hgood.2.1, hgood.2.2, horg, hle, ?_⟩
    intro hv hs
    have hchk : verifiesFor c (normalise hostname) tchk = true := by
      cases f with
      | false => exact verifiesFor_of_goVerify hne (hcached rfl)
      | true =>
        obtain ⟨hnb, hna⟩ := hfresh rfl
        have hname := verifyHostname_of_san hgood.1 hs.1 hs.2.1 hs.2.2
        have hw : inWindow c tchk = true := by
          have := lt_floorSec_add (tchk + cfg.validity)
          simp only [inWindow, Bool.and_eq_true, decide_eq_true_eq]
          constructor <;> omega
        cases hn : normalise hostname with
        | nil => exact absurd hn hne
        | cons x xs => rw [hn] at hname; simp [verifiesFor, hname, hw, hgood.2.1]
    have hwin : inWindow c tchk = true := by
      simp only [verifiesFor, Bool.and_eq_true] at hchk
      exact hchk.1.2
    have hnb : c.notBefore ≤ tret := by
      simp only [inWindow, Bool.and_eq_true, decide_eq_true_eq] at hwin
      omega
    have hiff : verifiesFor c (normalise hostname) tret = true ↔ tret ≤ c.notAfter := by
      rw [verifiesFor_window hchk]
      simp only [inWindow, Bool.and_eq_true, decide_eq_true_eq]
      constructor
      · intro h; exact h.2
      · intro h; exact ⟨hnb, h⟩
    refine ⟨hchk, hiff, ?_⟩
    intro hf hslack
    obtain ⟨_, hna⟩ := hfresh hf
    apply hiff.mpr
    have := lt_floorSec_add (tchk + cfg.validity)
    omega

/-- "A served certificate is valid at the time it is returned", restricted to what is true: under the
assumption that the return happens before `NotAfter`. Without it the statement is false — see
`served_valid_at_return_counterexample`. -/
theorem served_valid_at_return_partial (cfg : Config) (hosts : List Bytes) (s : State) (t0 : Int)
    (hc : ∀ k c, (k, c) ∈ s.cache → GoodFor k c ∧ c.org = cfg.org)
    (sched : List (Nat × Nat)) (i : Nat) (hostname : Bytes) (c : Cert) (f : Bool) (tchk tret : Int)
    (hh : hosts[i]? = some hostname) (hv : 1000 ≤ cfg.validity) (hs : Servable hostname)
    (hd : (runF cfg sched { st := s, clock := t0, threads := hosts.map FPc.start }).threads[i]? = some (.done (.served c f) tchk tret))
    (hnotyet : tret ≤ c.notAfter) :
    verifiesFor c (normalise hostname) tret = true := by
  have := served_under_every_fine_schedule cfg hosts s t0 hc sched i hostname _ tchk tret hh hd
  exact (this.2.2.2.2.2.2 hv hs).2.1.mpr hnotyet

/-- The residual window (inherent to any cache with expiry and no renewal margin): a cached
certificate is verified in its last valid millisecond and returned one millisecond later — already
expired when the caller gets it. Requester 0 issues at 8.000 s with validity 2 s (`NotAfter` = 10.000 s);
requester 1 looks up and verifies at 10.000 s and returns at 10.001 s. -/
theorem served_valid_at_return_counterexample :
    let cfg : Config := { validity := 2000, org := [] }
    let h := strBytes "example.com"
    let sys := runF cfg [(0, 0), (0, 0), (0, 0), (0, 0), (0, 0), (0, 0), (1, 2000), (1, 0), (1, 1)]
      { st := {}, clock := 8000, threads := [.start h, .start h] }
    ∃ c, sys.threads[1]? = some (.done (.served c false) 10000 10001) ∧
      verifiesFor c h 10000 = true ∧ verifiesFor c h 10001 = false := by
  refine ⟨{ serial := 0, names := [strBytes "example.com"], ips := [], notBefore := 6000, notAfter := 10000,
            org := [], signedByCA := true, keyHeld := true }, ?_⟩
  decide

/-- Expiry between the read-locked lookup and the use: a requester that fetched the entry while it was
valid and reaches `Verify` after `NotAfter` does not return it; it goes on to issue a fresh one. -/
theorem expired_between_lookup_and_verify_not_served (cfg : Config) (sys : FSys) (i d : Nat) (host : Bytes) (c : Cert)
    (hp : sys.threads[i]? = some (.looked host c)) (hexp : c.notAfter < sys.clock + (d : Int)) :
    (stepF cfg sys i d).threads[i]? = some (.miss host) := by
  have hg : goVerify c host (sys.clock + (d : Int)) = false := by
    have : ¬ sys.clock + (d : Int) ≤ c.notAfter := by omega
    simp [goVerify, inWindow, this]
  have hlt : i < sys.threads.length := by
    rcases Nat.lt_or_ge i sys.threads.length with h | h
    · exact h
    · rw [List.getElem?_eq_none h] at hp; cases hp
  unfold stepF
  simp only [hp, hg, Bool.false_eq_true, if_false]
  simp [hlt]

/-- The fine-grained steps of one requester, run back to back with no time passing, are the
sequential `Config.cert` (so the step semantics really is that function cut at its lock boundaries
and clock reads). Seven steps: lookup, verify, serial + `NotBefore`, `NotAfter` + sign, insert, return. -/
theorem fine_steps_are_cert (cfg : Config) (hostname : Bytes) (now : Int) (s : State) :
    runF cfg (List.replicate 7 (0, 0)) { st := s, clock := now, threads := [.start hostname] } =
      { st := (cert cfg hostname now s).1, clock := now, threads := [.done (cert cfg hostname now s).2 now now] } := by
  by_cases he : (normalise hostname).isEmpty = true
  · simp [List.replicate, runF, stepF, cert, he]
  · cases hl : s.cache.lookup (normalise hostname) with
    | none => simp [List.replicate, runF, stepF, cert, certFor, he, hl, issueAndStore, issue, store, insertCert]
    | some c =>
      cases hg : goVerify c (normalise hostname) now <;>
        simp [List.replicate, runF, stepF, cert, certFor, he, hl, hg, issueAndStore, issue, store, insertCert]

/-- Two requesters for the same host, both missing the cache: both issue, both get a certificate for
that host, the map keeps the later insert (test; the general fact is the theorem above). -/
example :
    let cfg : Config := { validity := 3600000, org := [] }
    let h := strBytes "example.com"
    let sys := runF cfg [(0, 0), (1, 0), (0, 1), (1, 1), (0, 1), (1, 1), (1, 1), (0, 1), (0, 0), (1, 0)]
      { st := {}, clock := 5000, threads := [.start h, .start (strBytes "EXAMPLE.com:443")] }
    sys.st.cache.length = 2 ∧ sys.st.next = 2 ∧
      sys.threads.map (fun pc => match pc with
        | .done (.served c true) _ _ => some c.names
        | _ => none) = [some [h], some [strBytes "EXAMPLE.com"]] := by
  decide

end Martian.Props.C06
