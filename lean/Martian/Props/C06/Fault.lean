import Martian.Lemmas.Mitm
/-!
C06 — fault injection at the signing step. The CA key handed to `NewConfig` is any `crypto.Signer`; its `Sign`
may fail at any call (`signOk = false`). Whatever the cache holds — nothing, a valid entry, an expired entry —
nothing that does not verify is ever served: a failed signature means a refused handshake, never the stale entry.
-/
namespace Martian.Props.C06
open Martian Martian.Go Martian.Mitm

/-- With a healthy signer `certS` is `cert`. -/
theorem certS_healthy (cfg : Config) (hostname : Bytes) (now : Int) (s : State) :
    certS cfg hostname now true s = cert cfg hostname now s := by
  unfold certS cert certFor
  by_cases he : (normalise hostname).isEmpty = true
  · simp [he]
  · cases hl : s.cache.lookup (normalise hostname) <;> simp [he]

/-- **Signing failure refuses, never serves stale.** When the signing step fails and the cache has no entry for
the host, or one that no longer verifies (expired, or any other reason), the handshake is refused and the cache
is left as it was. -/
theorem sign_failure_refuses_never_serves_stale (cfg : Config) (hostname : Bytes) (now : Int) (s : State)
    (hstale : ∀ c, s.cache.lookup (normalise hostname) = some c → goVerify c (normalise hostname) now = false) :
    certS cfg hostname now false s = (s, .refused) := by
  unfold certS
  simp only
  split
  · rfl
  · cases hl : s.cache.lookup (normalise hostname) with
    | none => simp
    | some c => simp [hstale c hl]

/-- Whatever the signer does and whatever the cache holds, a served certificate is either the cached entry that
has just passed `Verify` for this host at this time, or a freshly signed one (then the signer worked). -/
theorem served_is_verified_or_fresh (cfg : Config) (hostname : Bytes) (now : Int) (signOk : Bool) (s : State)
    {c : Cert} {f : Bool} (h : (certS cfg hostname now signOk s).2 = .served c f) :
    (f = false ∧ s.cache.lookup (normalise hostname) = some c ∧ goVerify c (normalise hostname) now = true) ∨
    (f = true ∧ signOk = true ∧ c = issue cfg (normalise hostname) now s.next) := by
  unfold certS at h
  simp only at h
  split at h
  · cases h
  · cases hl : s.cache.lookup (normalise hostname) with
    | none =>
      rw [hl] at h
      cases signOk with
      | false => simp at h
      | true =>
        simp only [if_true, issueAndStore, Outcome.served.injEq] at h
        exact Or.inr ⟨h.2.symm, rfl, h.1.symm⟩
    | some c0 =>
      rw [hl] at h
      simp only at h
      cases hg : goVerify c0 (normalise hostname) now with
      | true =>
        simp only [hg, if_true, Outcome.served.injEq] at h
        exact Or.inl ⟨h.2.symm, by rw [h.1], by rw [← h.1]; exact hg⟩
      | false =>
        cases signOk with
        | false => simp [hg] at h
        | true =>
          simp only [hg, Bool.false_eq_true, if_false, if_true, issueAndStore, Outcome.served.injEq] at h
          exact Or.inr ⟨h.2.symm, rfl, h.1.symm⟩

/-- Hence, with or without faults: every served certificate verifies for the requested host at the time of the
call (validity ≥ 1 s, servable host). -/
theorem served_verifies_under_faults (cfg : Config) (hostname : Bytes) (now : Int) (signOk : Bool) (s : State)
    {c : Cert} {f : Bool} (hv : 1000 ≤ cfg.validity) (hs : Servable hostname)
    (h : (certS cfg hostname now signOk s).2 = .served c f) :
    verifiesFor c (normalise hostname) now = true := by
  rcases served_is_verified_or_fresh cfg hostname now signOk s h with ⟨_, _, hg⟩ | ⟨_, _, hc⟩
  · exact verifiesFor_of_goVerify hs.1 hg
  · rw [hc]; exact verifiesFor_issue cfg now _ hv hs.1 hs.2.1 hs.2.2

/-- A failed signature changes nothing: no entry is stored, no serial is consumed; a valid entry keeps being served. -/
theorem sign_failure_keeps_state (cfg : Config) (hostname : Bytes) (now : Int) (s : State) :
    (certS cfg hostname now false s).1 = s := by
  unfold certS
  simp only
  split
  · rfl
  · cases s.cache.lookup (normalise hostname) with
    | none => simp
    | some c => simp only; split <;> simp

/-- (test) the defect of seeded C06-H on a concrete history: a 2-second leaf, three seconds later, signer down —
refused, not the stale leaf. -/
example :
    let cfg : Config := { validity := 2000, org := [] }
    let h := strBytes "example.com"
    let s1 := (certS cfg h 10400 true {}).1
    (certS cfg h 10500 false s1).2 = .served (issue cfg h 10400 0) false ∧
    (certS cfg h 13400 false s1).2 = .refused ∧
    (certS cfg h 13400 true s1).2 = .served (issue cfg h 13400 1) true := by decide

end Martian.Props.C06
