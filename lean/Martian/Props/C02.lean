import Martian.Props.C02.Facts
import Martian.Props.C02.SemFacts
import Martian.Props.C02.ErrorValues
import Martian.Props.C02.ContextFlags
import Martian.Lemmas.Proxy
import Martian.Lemmas.ProxyTrace
import Martian.Lemmas.ProxyState
/-!
C02 — Each exchange runs request then response modifiers exactly once with one context.
Theorems about the exchange machine `Martian.Proxy.runConn` (model of `handleLoop`/`handle`/
`handleConnectRequest`), for every connection script: any number of requests, any mix of plain,
blind-CONNECT and MITM requests, any assignment of modifier behaviours and origin outcomes,
shutdown flag on or off. `T` below is the whole event trace of one client connection.
-/
namespace Martian.Props.C02
open Martian.Proxy

variable (sd : Bool) (base : Nat) (items : List Item)

/-- Every request the proxy reads gets exactly one request-modifier call (and no request is read twice). -/
theorem reqmod_exactly_once (k : Nat) :
    countP (isReqmod k) (runConn sd base items) = countP (isRead k) (runConn sd base items) ∧
      countP (isRead k) (runConn sd base items) ≤ 1 := by
  unfold runConn
  rw [count_run local_reqmod, count_run local_read]
  cases at? sd base {} 0 items k with
  | none => simp
  | some p => obtain ⟨s', it⟩ := p; simp [own_reqmod, own_read]

/-- The request modifier of an exchange runs before any upstream contact (round trip or dial) of it. -/
theorem reqmod_before_upstream : okUp [] (runConn sd base items) = true :=
  okUp_run sd base {} 0 [] items []

/-- Unless the connection was hijacked during the exchange, the response modifier runs exactly once
and exactly one response is written; it never runs twice. -/
theorem resmod_exactly_once_unless_hijacked (k : Nat)
    (hread : countP (isRead k) (runConn sd base items) = 1) :
    countP (isResmod k) (runConn sd base items) ≤ 1 ∧
    (countP (isHijacked k) (runConn sd base items) = 0 →
      countP (isResmod k) (runConn sd base items) = 1 ∧ countP (isWrite k) (runConn sd base items) = 1) := by
  unfold runConn at *
  rw [count_run local_read] at hread
  rw [count_run local_resmod, count_run local_hijacked, count_run local_write]
  cases h : at? sd base {} 0 items k with
  | none => simp [h] at hread
  | some p =>
    obtain ⟨s', it⟩ := p
    simp only [own_resmod, own_hijacked, own_write]
    cases hq : it.rq <;> cases hs : it.rs <;> simp [Item.hij, hq, hs]

/-- A request-side hijack means the response modifier never runs for that exchange. -/
theorem no_resmod_after_request_hijack (k : Nat) (s' : St) (it : Item)
    (h : at? sd base {} 0 items k = some (s', it)) (hq : it.rq = .hijack) :
    countP (isResmod k) (runConn sd base items) = 0 := by
  unfold runConn; rw [count_run local_resmod, h]; simp [own_resmod, hq]

/-- Request and response modifier of one exchange see the same context, and it is the exchange's own
(`base + k`): every `reqmod`/`resmod`/`link` event of exchange `k` carries context id `base + k`. -/
theorem same_context_for_request_and_response :
    ∀ e ∈ runConn sd base items,
      (∀ k c h s t tid, e = .reqmod k c h s t tid → c = base + k) ∧ (∀ k c st, e = .resmod k c st → c = base + k) := by
  have key : ∀ e ∈ runConn sd base items, ctxOK base e = true := by
    refine forall_run (fun e => ctxOK base e = true) sd base ?_ ?_ ?_ {} 0 [] items
    · intro s i it e he
      exact List.all_eq_true.mp (ctxOK_item sd base s i it) e he
    · intro c; rfl
    · rfl
  intro e he
  have := key e he
  constructor
  · intro k c h s t tid heq; subst heq; simpa [ctxOK] using this
  · intro k c st heq; subst heq; simpa [ctxOK] using this

/-- Context ids are unique per exchange. -/
theorem ctx_ids_pairwise_distinct : (links (runConn sd base items)).Nodup :=
  links_nodup sd base {} 0 [] items

/-- When the connection is over no context remains linked: every link has its unlink. -/
theorem ctx_table_empty_at_quiescence (c : Nat) :
    (unlinks (runConn sd base items)).count c = (links (runConn sd base items)).count c := by
  have := unlinks_count sd base {} 0 [] items c
  simpa [runConn] using this

/-- A request-modifier error never aborts the exchange, **whatever value the error is** (`rqErr`
holds of `.err v` and `.errSkip v` for every `v : ErrVal`, the connection-level values `io.EOF`,
`io.ErrClosedPipe` and timeouts included): it is surfaced as a Warning on the request and (unless a
modifier hijacks) the exchange still gets its response-modifier call and its response. -/
theorem request_modifier_error_never_aborts (k : Nat) (s' : St) (it : Item)
    (h : at? sd base {} 0 items k = some (s', it)) (he : rqErr it.rq = true) :
    countP (isWarnReq k) (runConn sd base items) = 1 ∧
      (it.rs ≠ .hijack → countP (isResmod k) (runConn sd base items) = 1 ∧
        countP (isWrite k) (runConn sd base items) = 1) := by
  unfold runConn
  rw [count_run local_warnReq, count_run local_resmod, count_run local_write, h]
  simp only [own_warnReq, own_resmod, own_write, he, if_true]
  cases hq : it.rq <;> simp [rqErr, hq] at he <;> cases hs : it.rs <;> simp [Item.hij, hq, hs]

/-- A response-modifier error never aborts the exchange, whatever value the error is: Warning on the
response, response written. -/
theorem response_modifier_error_never_aborts (k : Nat) (s' : St) (it : Item) (v : ErrVal)
    (h : at? sd base {} 0 items k = some (s', it)) (hq : it.rq ≠ .hijack) (hs : it.rs = .err v) :
    countP (isWarnRes k) (runConn sd base items) = 1 ∧ countP (isWrite k) (runConn sd base items) = 1 := by
  unfold runConn
  rw [count_run local_warnRes, count_run local_write, h]
  simp only [own_warnRes, own_write]
  cases hq' : it.rq <;> simp [Item.hij, hq', hs, rsErr] at * 

/-- Skip-round-trip: zero upstream contact, and a 200 that still passes through the response modifier. -/
theorem skip_roundtrip_zero_upstream_and_200_through_resmod (k : Nat) (s' : St)
    (rc : Bool) (rq : ReqB) (rs : ResB) (org : Org)
    (h : at? sd base {} 0 items k = some (s', .x rc rq rs org)) (hskip : rqSkip rq = true) :
    countP (isUpstream k) (runConn sd base items) = 0 ∧
      Ev.resmod k (base + k) 200 ∈ runConn sd base items := by
  constructor
  · unfold runConn; rw [count_run local_upstream, h]
    cases rq <;> simp [rqSkip] at hskip <;> cases rs <;> cases org <;>
      simp [handleItem, handleX, pre, rqErr, rqSkip, countP, isUpstream]
  · apply mem_run_of_at? sd base {} 0 [] items k s' _ h
    cases rq <;> simp [rqSkip] at hskip <;> cases rs <;> cases org <;>
      simp [handleItem, handleX, pre, rqErr, rqSkip]

/-- After a modifier hijacks the connection the proxy does nothing more on it: the only events after
`hijacked` are context bookkeeping and closing the connection. -/
theorem hijack_stops_io : quiet (runConn sd base items) = true :=
  quiet_run sd base {} 0 [] items

/-! Non-vacuity: a concrete connection in which the hypotheses above are met. -/
example : at? false 0 {} 0 [.x false .pass .pass (.ok 200 false), .x false (.errSkip .eof) (.err .timeout) (.ok 200 false),
    .x false .hijack .pass .fail] 1 = some ({ stored := 1 }, .x false (.errSkip .eof) (.err .timeout) (.ok 200 false)) := by decide
example : countP (isRead 2) (runConn false 0 [.x false .pass .pass (.ok 200 false), .x false (.errSkip .eof) (.err .timeout) (.ok 200 false),
    .x false .hijack .pass .fail]) = 1 := by decide
example : countP (isResmod 2) (runConn false 0 [.x false .pass .pass (.ok 200 false), .x false (.errSkip .eof) (.err .timeout) (.ok 200 false),
    .x false .hijack .pass .fail]) = 0 := by decide

end Martian.Props.C02
