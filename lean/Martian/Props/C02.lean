/-! STUB — property C02 is not built yet. -/
