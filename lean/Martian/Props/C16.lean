/-! STUB — property C16 is not built yet. -/
