import Martian.Lemmas.Har
import Martian.Props.C16.Headers
import Martian.Props.C16.Json
import Martian.Props.C16.Query
import Martian.Props.C16.Facts
/-!
C16 — HAR entries faithfully describe the exchange and survive a JSON round trip.
Only property theorems and non-vacuity examples live here.
Quantifiers: every message, every capture option, every body byte string; the trusted parsers
(media type, form/multipart parameters, gzip/flate) are parameters; the JSON string coder is the
concrete model of `encoding/json` (`Props/C16/Json.lean`).
-/
namespace Martian.Props.C16
open Martian Martian.Go Martian.MessageView Martian.Har

/-- Request entry: method, URL, HTTP version and body size are the message's, and the header list
is exactly (a permutation of) the header map with Host / Content-Length / Transfer-Encoding put in. -/
theorem request_fields_equal (pp : Bytes → Bytes → Option (List Param)) (mt : Bytes) (wb : Bool)
    (m : Msg) (r : Request) (h : newRequest pp mt wb m = some r) :
    r.method = m.method ∧ r.url = m.url ∧ r.httpVersion = protoBytes m.major m.minor ∧
    r.bodySize = m.cl ∧ ∀ kv, kv ∈ r.headers ↔ kv ∈ headerMap m := by
  unfold newRequest at h
  cases hp : postData pp mt wb m with
  | none => simp [hp] at h
  | some pd =>
    simp [hp] at h
    subst h
    simp [harHeaders, mem_sortKV]

/-- Response entry: status, HTTP version, body size, redirect URL (Location of a 3xx) and headers. -/
theorem response_fields_equal (infl : Bytes → Bytes → Option Bytes) (wb : Bool) (m : Msg) (r : Response)
    (h : newResponse infl wb m = some r) :
    r.status = m.code ∧ r.httpVersion = protoBytes m.major m.minor ∧ r.bodySize = m.cl ∧
    r.redirectURL = (if 300 ≤ m.code && m.code < 400 then headerGet m.hdr locationKey else []) ∧
    r.content.mime = headerGet m.hdr ctKey ∧
    ∀ kv, kv ∈ r.headers ↔ kv ∈ headerMap m := by
  unfold newResponse at h
  simp only [Option.map_eq_some_iff] at h
  obtain ⟨c, hc, rfl⟩ := h
  refine ⟨rfl, rfl, rfl, rfl, ?_, by simp [harHeaders, mem_sortKV]⟩
  split at hc
  · simp only [Option.map_eq_some_iff] at hc
    obtain ⟨b, _, rfl⟩ := hc
    rfl
  · simp at hc; subst hc; rfl

/-- The header list includes Host (requests), Content-Length (when positive) and every
Transfer-Encoding value, next to every ordinary header field. -/
theorem header_list_includes_host_cl_te (m : Msg) :
    (m.isReq = true → m.host ≠ [] → (hostKey, m.host) ∈ headerMap m) ∧
    (0 < m.cl → (clKey, itoa m.cl) ∈ headerMap m) ∧
    (∀ t ∈ m.te, (teKey, t) ∈ headerMap m) ∧
    (∀ kv ∈ m.hdr, kv.1 ≠ hostKey → kv.1 ≠ clKey → kv.1 ≠ teKey → kv ∈ headerMap m) := by
  refine ⟨?_, ?_, ?_, ?_⟩
  · intro hr hh
    have : m.host.isEmpty = false := by cases hm : m.host <;> simp_all
    simp only [headerMap, hr, this]
    apply mem_setKey_of_mem _ _ _ _ _ hostKey_ne_teKey
    apply mem_setKey_of_mem _ _ _ _ _ hostKey_ne_clKey
    exact (mem_setKey_some _ _ _ _).2 (Or.inr ⟨rfl, by simp⟩)
  · intro hc
    simp only [headerMap, hc]
    apply mem_setKey_of_mem _ _ _ _ _ clKey_ne_teKey
    exact (mem_setKey_some _ _ _ _).2 (Or.inr ⟨rfl, by simp⟩)
  · intro t ht
    have : m.te.isEmpty = false := by cases hm : m.te <;> simp_all
    simp only [headerMap, this]
    exact (mem_setKey_some _ _ _ _).2 (Or.inr ⟨rfl, ht⟩)
  · intro kv hkv h1 h2 h3
    simp only [headerMap]
    exact mem_setKey_of_mem _ _ _ _ (mem_setKey_of_mem _ _ _ _ (mem_setKey_of_mem _ _ _ _ hkv h1) h2) h3

/-- Post data is the de-framed request body (never the chunk framing): plain bodies go to `text`
unchanged, form and multipart bodies are parsed from those same bytes. -/
theorem postdata_is_deframed_body (pp : Bytes → Bytes → Option (List Param)) (mt : Bytes) (m : Msg)
    (pd : PostData) (h : postData pp mt true m = some (some pd)) :
    pd.mime = mt ∧
    (mt ≠ multipartTok → mt ≠ formTok → pd.text = m.body.getD [] ∧ pd.params = []) ∧
    ((mt = multipartTok ∨ mt = formTok) → pp mt (m.body.getD []) = some pd.params ∧ pd.text = []) := by
  unfold postData at h
  split at h
  · simp at h
  · simp only [Bool.not_true, Bool.false_eq_true, if_false, snapshotMsg_id] at h
    split at h
    · rename_i hmt
      simp only [Option.map_eq_some_iff] at h
      obtain ⟨ps, hps, hpd⟩ := h
      simp at hpd; subst hpd
      refine ⟨rfl, ?_, fun _ => ⟨hps, rfl⟩⟩
      intro h1 h2
      simp [h1, h2] at hmt
    · rename_i hmt
      simp at h; subst h
      refine ⟨rfl, fun _ _ => ⟨rfl, rfl⟩, ?_⟩
      intro h1
      rcases h1 with h1 | h1 <;> simp [h1] at hmt

/-- Regression witness for F16: the raw body section of the snapshot of a chunked message is the
chunk framing, which is never the body itself. -/
theorem chunk_framing_is_not_body (m : Msg) (b : Bytes) (hb : m.body = some b)
    (hch : isChunked m.te = true) :
    bodyReader (snapshot noOpts m) = chunkedWrite b ∧ chunkedWrite b ≠ b := by
  have hc : captures noOpts m = true := by simp [captures, noOpts, hb]
  refine ⟨by simp [bodyReader_snapshot noOpts m hc, framedBody, hch, hb], ?_⟩
  intro h
  have := congrArg List.length h
  unfold chunkedWrite at this
  split at this <;> simp [crlf] at this
  · rename_i he
    have : b = [] := by simpa using he
    subst this; simp at *
  · omega

/-- Response content is the fully decoded body with its true size: for every framing the text is
the message body (de-chunked), passed through the trusted gzip/flate when the message announces
one of them (and is not a 204/206), and `size` is the length of exactly that text. -/
theorem content_is_decoded_body_with_true_size (infl : Bytes → Bytes → Option Bytes) (m : Msg)
    (b : Bytes) (r : Response) (hb : m.body = some b) (h : newResponse infl true m = some r) :
    r.content.size = r.content.text.length ∧
    (if compressOf m == gzipTok || compressOf m == deflateTok then infl (compressOf m) b = some r.content.text
     else r.content.text = b) := by
  have hc : captures noOpts m = true := by simp [captures, noOpts, hb]
  unfold newResponse at h
  simp only [if_true, decodeBody_snapshot infl noOpts m b hc hb, Option.map_eq_some_iff] at h
  obtain ⟨c, ⟨t, ht, rfl⟩, rfl⟩ := h
  refine ⟨rfl, ?_⟩
  split
  · rename_i hz; simpa [hz] using ht
  · rename_i hz; simp [hz] at ht; exact ht.symm

/-- Body capture follows the configured content-type options: prefix match on the lower-cased
Content-Type, opt-in lists capture exactly the matching types, opt-out lists exactly the others;
without capture nothing of the body is in the entry. -/
theorem capture_follows_options (ct : Bytes) (cts : List Bytes) :
    Capture.all.decide ct = true ∧ Capture.nothing.decide ct = false ∧
    ((Capture.optIn cts).decide ct = true ↔ ∃ p ∈ cts, (toLower p).isPrefixOf (toLower ct) = true) ∧
    ((Capture.optOut cts).decide ct = true ↔ ¬ ∃ p ∈ cts, (toLower p).isPrefixOf (toLower ct) = true) := by
  simp [Capture.decide, hasPrefix]

theorem uncaptured_has_no_body (pp : Bytes → Bytes → Option (List Param)) (infl : Bytes → Bytes → Option Bytes)
    (mt : Bytes) (c : Capture) (m : Msg) (hc : c.decide (headerGet m.hdr ctKey) = false) :
    (∀ r pd, logRequest pp mt c m = some r → r.postData = some pd → pd.text = [] ∧ pd.params = []) ∧
    (∀ r, logResponse infl c m = some r → r.content.text = [] ∧ r.content.size = 0) := by
  constructor
  · intro r pd h hpd
    simp only [logRequest, hc, newRequest, postData] at h
    split at h
    · simp at h; subst h; simp at hpd
    · simp at h; subst h; simp at hpd; subst hpd; simp
  · intro r h
    simp only [logResponse, hc, newResponse] at h
    simp at h; subst h; simp

/-- …and every response the model logs has base64 content (so `content_json_roundtrip` applies). -/
theorem logged_content_is_base64 (infl : Bytes → Bytes → Option Bytes) (wb : Bool) (m : Msg) (r : Response)
    (h : newResponse infl wb m = some r) : r.content.base64 = true := by
  unfold newResponse at h
  simp only [Option.map_eq_some_iff] at h
  obtain ⟨c, hc, rfl⟩ := h
  split at hc
  · simp only [Option.map_eq_some_iff] at hc
    obtain ⟨b, _, rfl⟩ := hc
    rfl
  · simp at hc; subst hc; rfl

-- non-vacuity: both branches of the text-or-base64 choice occur
example : utf8Valid (strBytes "abc") = true ∧ utf8Valid [0xff, 0xfe] = false := by decide
example : b64Encode (strBytes "Man") = strBytes "TWFu" ∧ b64Encode (strBytes "Ma") = strBytes "TWE=" := by decide

/-- The text-vs-base64 decision looks at the WHOLE body: an ASCII preamble of any length followed
by one byte that cannot start a UTF-8 sequence is not text (so `marshalPD` takes the base64 form,
whatever the length of the preamble — a classifier that sniffs a prefix gets this wrong). -/
theorem late_invalid_byte_is_not_text (pre post : Bytes) (b : UInt8) (hp : ∀ x ∈ pre, x < 0x80)
    (hb : 0xF5 ≤ b) : utf8Valid (pre ++ b :: post) = false := by
  induction pre with
  | nil =>
    have hb' : 245 ≤ b.toNat := by
      have := UInt8.le_iff_toNat_le.mp hb
      simpa using this
    have h1 : ¬ b < 0x80 := by
      intro h; have := UInt8.lt_iff_toNat_lt.mp h; simp at this; omega
    have h2 : ¬ b ≤ 0xDF := by
      intro h; have := UInt8.le_iff_toNat_le.mp h; simp at this; omega
    have h3 : ¬ b ≤ 0xEF := by
      intro h; have := UInt8.le_iff_toNat_le.mp h; simp at this; omega
    have h4 : ¬ b ≤ 0xF4 := by
      intro h; have := UInt8.le_iff_toNat_le.mp h; simp at this; omega
    rw [List.nil_append]
    unfold utf8Valid
    simp [h1, h2, h3, h4]
  | cons a t ih =>
    have ha : a < 0x80 := hp a (by simp)
    have := ih (fun x hx => hp x (by simp [hx]))
    rw [List.cons_append]
    unfold utf8Valid
    simp [ha, this]

theorem late_invalid_byte_is_base64 (enc : Bytes → Bytes) (p : PostData) (pre post : Bytes) (b : UInt8)
    (ht : p.text = pre ++ b :: post) (hp : ∀ x ∈ pre, x < 0x80) (hb : 0xF5 ≤ b) :
    (marshalPD enc p).encoding = some (enc base64Tok) ∧ (marshalPD enc p).text = enc (b64Encode p.text) := by
  simp [marshalPD, ht, late_invalid_byte_is_not_text pre post b hp hb]

example : utf8Valid (List.replicate 600 97 ++ [0xFF]) = false :=
  late_invalid_byte_is_not_text (List.replicate 600 97) [] 0xFF
    (by intro x hx; rw [List.eq_of_mem_replicate hx]; decide) (by decide)

end Martian.Props.C16
