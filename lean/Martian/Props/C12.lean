/-! STUB — property C12 is not built yet. -/
