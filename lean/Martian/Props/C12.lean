import Martian.Lemmas.Config
import Martian.Generated.Config
import Martian.Props.C12.Matchers
import Martian.Props.C12.Json
import Martian.Props.C12.Facts
/-!
C12 — A JSON modifier configuration means what its tree says, for every tree.
Only property theorems and non-vacuity examples live here.
Quantifiers: every configuration tree `Node` (any depth, any width, any scope list at every level,
any priorities), every condition valuation of the message, both message kinds, every history of
POSTed bodies. Filter conditions are concrete (`Cond`); the theorems of this file hold for every
valuation of them (`Msg`), so in particular for the one a concrete exchange induces through the five
matchers (`Props/C12/Matchers.lean`). JSON decoding: `Props/C12/Json.lean`.
-/
namespace Martian.Props.C12
open Martian Martian.Config

/-! ## 1. Compiled evaluation = depth-first specification -/

/-- **Main theorem.** If `parse.FromJSON` accepts the tree, then running the compiled modifier
(through `martianhttp.Modifier`) on a request or a response runs exactly the leaves, in exactly the
order, and reports exactly the errors, of the depth-first reading `specEval` of the tree. -/
theorem compile_eval_eq_spec (n : Node) (r : Result) (k : Kind) (msg : Msg) (h : compile n = .ok r) :
    flatO (run r k msg) = specEval k (msg k) n := by
  rw [← compile_spec k (msg k) n r h]
  exact outcomeOf_orNoop (msg k) k r

/-- An error value produced by any compiled modifier is nil, a leaf error, or a non-empty
`MultiError` of leaf errors (depth never exceeds one: by type; never empty: here). -/
theorem multierror_never_empty (v : Cond → Bool) (m : Mod) : (eval v m).2 ≠ .multi [] := eval_wf v m

/-! ## 2. Priority order -/

/-- `priority.Group`'s insertion loop over the listed modifiers = stable descending sort of the
reversed list. -/
theorem priority_insert_sorted {α : Type} (ms : List (Int × α)) : insertAll ms = stableSortDesc ms.reverse :=
  insertAll_eq_stableSort ms

/-- … which is: the same elements, in non-increasing priority, and among the elements of any one
priority the later-listed first. -/
theorem priority_order_characterised {α : Type} (ms : List (Int × α)) :
    (insertAll ms).Perm ms ∧ SortedDesc (insertAll ms) ∧
    ∀ p : Int, (insertAll ms).filter (fun y => y.1 == p) = ms.reverse.filter (fun y => y.1 == p) :=
  ⟨insertAll_perm ms, insertAll_sorted ms, fun p => filter_insertAll p ms⟩

/-- … and nothing else is: the two ordering clauses determine the run order uniquely. -/
theorem priority_order_unique {α : Type} (ms l : List (Int × α)) (hs : SortedDesc l)
    (he : ∀ p : Int, l.filter (fun y => y.1 == p) = ms.reverse.filter (fun y => y.1 == p)) : l = insertAll ms :=
  sorted_filter_unique l (insertAll ms) hs (insertAll_sorted ms) (fun p => by rw [he p, filter_insertAll])

/-- One insertion: the new modifier goes after every strictly higher priority and in front of
everything else (so in front of its equals). -/
theorem priority_insert_position {α : Type} (x : Int × α) (l : List (Int × α)) (hs : SortedDesc l) :
    ∃ pre suf, ins x l = pre ++ x :: suf ∧ l = pre ++ suf ∧ (∀ m ∈ pre, m.1 > x.1) ∧ (∀ m ∈ suf, x.1 ≥ m.1) := by
  obtain ⟨pre, suf, h1, h2, h3⟩ := ins_split x l
  refine ⟨pre, suf, h1, h2, h3, ?_⟩
  have hsorted := ins_sorted x hs
  rw [h1] at hsorted
  have := (List.pairwise_append.mp hsorted).2.1
  exact fun m hm => (List.pairwise_cons.mp this).1 m hm

/-! ## 3. Scope projection -/

def scopeOf : Node → Scope
  | .leaf _ _ _ _ s => s
  | .fifo s _ _ => s
  | .prio s _ => s
  | .filter _ s _ _ => s
  | _ => none

def capsOf : Node → Caps
  | .leaf _ c _ _ _ => c
  | _ => Caps.both

/-- An accepted node exposes a request (response) modifier iff its scope names requests
(responses); with no scope, iff its Go type supports them. `[]` exposes nothing, `nil` everything. -/
theorem scope_projection (n : Node) (r : Result) (k : Kind) (h : compile n = .ok r) :
    (r.side k).isSome = acts (scopeOf n) (capsOf n) k := by
  cases n with
  | leaf l caps fq fs scope =>
    simp only [compile] at h
    rw [newResult_side h k]; simp only [scopeOf, capsOf]; split <;> simp_all
  | unknown => simp [compile] at h
  | malformed => simp [compile] at h
  | fifo scope agg cs =>
    simp only [compile] at h
    cases hc : compileList cs with
    | error e => simp [hc] at h
    | ok rs => simp only [hc] at h; rw [newResult_side h k]; simp only [scopeOf, capsOf]; split <;> simp_all
  | prio scope cs =>
    simp only [compile] at h
    cases hc : compilePList cs with
    | error e => simp [hc] at h
    | ok rs => simp only [hc] at h; rw [newResult_side h k]; simp only [scopeOf, capsOf]; split <;> simp_all
  | filter c scope t e =>
    simp only [compile] at h
    cases hc : compile t with
    | error err => simp [hc] at h
    | ok m =>
      simp only [hc] at h
      cases he : compileOpt e with
      | error err => simp [he] at h
      | ok em => simp only [he] at h; rw [newResult_side h k]; simp only [scopeOf, capsOf]; split <;> simp_all

/-- A message kind that the root's scope does not name is left alone: no leaf runs, no error. -/
theorem out_of_scope_untouched (n : Node) (r : Result) (k : Kind) (msg : Msg) (h : compile n = .ok r)
    (hs : acts (scopeOf n) (capsOf n) k = false) : run r k msg = ([], .none) := by
  have := scope_projection n r k h
  rw [hs] at this
  cases hk : r.side k with
  | none => simp [run, hk, orNoop, eval]
  | some m => simp [hk] at this

/-- The same at every level of the specification (so, by the main theorem, of the compiled tree):
whatever is below a node that does not act on `k` does not run for `k`. -/
theorem spec_out_of_scope (n : Node) (k : Kind) (v : Cond → Bool) (hs : acts (scopeOf n) (capsOf n) k = false) :
    specEval k v n = ([], []) := by
  cases n <;> simp_all [specEval, scopeOf, capsOf]

/-! ## 4. Error policy -/

/-- fifo group without aggregation: the first child that fails ends the group; the children after
it do not run, its error is returned as it is. -/
theorem first_error_stops (v : Cond → Bool) (pre post : List Mod) (m : Mod)
    (hpre : ∀ x ∈ pre, (eval v x).2 = .none) (hm : (eval v m).2 ≠ .none) :
    eval v (.fifo false (pre ++ m :: post)) = (pre.flatMap (fun x => (eval v x).1) ++ (eval v m).1, (eval v m).2) := by
  simp only [eval, evalList_eq, List.map_append, List.map_cons]
  rw [fifoLoop_false_stop _ (eval v m).1 (eval v m).2 _ _ hm]
  · simp [List.flatMap_map]
  · intro o ho
    obtain ⟨x, hx, rfl⟩ := List.mem_map.mp ho
    exact hpre x hx

/-- priority group: the same, over the run order. -/
theorem first_error_stops_priority (v : Cond → Bool) (pre post : List (Int × Mod)) (m : Int × Mod)
    (hpre : ∀ x ∈ pre, (eval v x.2).2 = .none) (hm : (eval v m.2).2 ≠ .none) :
    eval v (.prio (pre ++ m :: post)) = (pre.flatMap (fun x => (eval v x.2).1) ++ (eval v m.2).1, (eval v m.2).2) := by
  simp only [eval, evalPList_eq, List.map_append, List.map_cons]
  rw [prioLoop_stop _ (eval v m.2).1 (eval v m.2).2 _ _ hm]
  · simp [List.flatMap_map]
  · intro o ho
    obtain ⟨x, hx, rfl⟩ := List.mem_map.mp ho
    exact hpre x hx

/-- no failing child: everything runs, nil is returned (either policy). -/
theorem no_error_runs_all (v : Cond → Bool) (agg : Bool) (ms : List Mod) (h : ∀ x ∈ ms, (eval v x).2 = .none) :
    eval v (.fifo agg ms) = (ms.flatMap (fun x => (eval v x).1), .none) := by
  simp only [eval, evalList_eq]
  induction ms with
  | nil => simp [fifoLoop]
  | cons m ms ih =>
    have hm := h m (by simp)
    have := ih (fun x hx => h x (List.mem_cons_of_mem _ hx))
    cases hme : eval v m with
    | mk t e =>
      simp only [hme] at hm
      subst hm
      simp only [List.map_cons, hme, fifoLoop, this, List.flatMap_cons]

/-- fifo group with `aggregateErrors`: every child runs, and the errors reported are those of the
children, each once, in order (nested `MultiError`s flattened). -/
theorem aggregate_runs_all_reports_each_once (v : Cond → Bool) (ms : List Mod) :
    flatO (eval v (.fifo true ms)) = (ms.flatMap (fun x => (eval v x).1), ms.flatMap (fun x => (eval v x).2.flat)) := by
  simp only [eval, evalList_eq]
  rw [fifoLoop_true, allErrors_eq]
  simp [List.flatMap_map, flatO]

/-- "every error is reported once" is once EACH: errors are VALUES (the model identifies one by the leaf
that returned it; it has no message texts, so nothing can depend on them), and the reported list keeps
multiplicities — an error value that occurs several times below an aggregating group (leaves with
equal labels, the same leaf listed twice, at any depth of nested aggregation) is reported exactly as
many times as it occurred. No merging, no de-duplication. -/
theorem aggregate_reports_with_multiplicity (v : Cond → Bool) (ms : List Mod) (l : Nat) :
    (flatO (eval v (.fifo true ms))).2.count l = (ms.map fun x => (eval v x).2.flat.count l).sum := by
  rw [aggregate_runs_all_reports_each_once]
  simp [List.count_flatMap, Function.comp_def]

/-- … in particular through a nested aggregating group: what the inner group collected is appended
whole to what the outer one has, also when the outer one already holds equal errors. -/
theorem nested_aggregate_keeps_equal_errors (v : Cond → Bool) (pre inner post : List Mod) :
    (flatO (eval v (.fifo true (pre ++ .fifo true inner :: post)))).2 =
      pre.flatMap (fun x => (eval v x).2.flat) ++ inner.flatMap (fun x => (eval v x).2.flat) ++ post.flatMap (fun x => (eval v x).2.flat) := by
  rw [aggregate_runs_all_reports_each_once]
  have hin := aggregate_runs_all_reports_each_once v inner
  simp only [flatO, Prod.mk.injEq] at hin
  simp [List.flatMap_append, hin.2]

/-! ## 5. Rejection as a whole -/

/-- A body is accepted iff every node of it names a registered modifier, has the right JSON shape
and a scope its modifier supports (`valid` recurses through the whole tree). -/
theorem accept_iff_valid (n : Node) : (∃ r, compile n = .ok r) ↔ valid n = true := by
  rw [← compile_okB n]
  cases compile n <;> simp [okB]

/-- Anything unknown, unsupported or malformed anywhere ⇒ the whole body is an error: no result. -/
theorem reject_whole (n : Node) (h : valid n = false) : ∃ e, compile n = .error e := by
  rw [← compile_okB n] at h
  cases hc : compile n with
  | error e => exact ⟨e, rfl⟩
  | ok r => simp [hc, okB] at h

/-- "anywhere", explicitly: a body is rejected iff some node of it — at any depth, under any scope,
in any branch — is itself bad (`badHere`: unregistered name, wrong shape, unsupported scope). -/
theorem reject_iff_bad_node_anywhere (n : Node) : (∃ e, compile n = .error e) ↔ anyNode badHere n = true := by
  have h1 := compile_okB n
  rw [valid_eq_not_any] at h1
  cases hc : compile n with
  | error e => simp [hc, okB] at h1; simp [h1]
  | ok r => simp [hc, okB] at h1; simp [h1]

/-- "anywhere", spelled out for groups and filters: one bad child/branch poisons the parent,
whatever the parent's scope (even `[]`) and whatever the siblings. -/
theorem bad_child_rejects_parent (scope : Scope) (agg : Bool) (pre post : List Node) (c : Node) (p : Int)
    (cond : Cond) (t : Node) (e : Option Node) (h : valid c = false) :
    valid (.fifo scope agg (pre ++ c :: post)) = false ∧
    valid (.prio scope ((pre.map fun x => (p, x)) ++ (p, c) :: (post.map fun x => (p, x)))) = false ∧
    valid (.filter cond scope c e) = false ∧ valid (.filter cond scope t (some c)) = false := by
  have hl : ∀ pre : List Node, validList (pre ++ c :: post) = false := by
    intro pre; induction pre with
    | nil => simp [validList, h]
    | cons a as ih => simp [validList, ih]
  have hp : ∀ pre : List Node, validPList ((pre.map fun x => (p, x)) ++ (p, c) :: (post.map fun x => (p, x))) = false := by
    intro pre; induction pre with
    | nil => simp [validPList, h]
    | cons a as ih => simp [validPList, ih]
  simp [valid, validOpt, hl, hp, h]

/-! ## 6. Reconfiguration is atomic -/

/-- `servePOST`: a rejected body changes nothing; an accepted body installs exactly its own
compilation, whatever was there before. -/
theorem reconfig_atomic (s : Active) (body : Node) :
    (servePOST s body).1 = (match compile body with | .ok r => r | .error _ => s) := by
  unfold servePOST; cases compile body <;> rfl

theorem rejected_leaves_previous (s : Active) (body : Node) (h : valid body = false) (k : Kind) (msg : Msg) :
    run (servePOST s body).1 k msg = run s k msg := by
  obtain ⟨e, he⟩ := reject_whole body h
  simp [servePOST, he]

theorem accepted_replaces_completely (s s' : Active) (body : Node) (h : valid body = true) :
    (servePOST s body).1 = (servePOST s' body).1 := by
  obtain ⟨r, hr⟩ := (accept_iff_valid body).mpr h
  simp [servePOST, hr]

/-- State after a history of POSTs. -/
def afterPosts (s : Active) (bodies : List Node) : Active := bodies.foldl (fun s b => (servePOST s b).1) s

/-- The last valid body of a history, if any. -/
def lastValid (bodies : List Node) : Option Node := bodies.reverse.find? valid

/-- After any history of POSTs the traffic is treated exactly as the depth-first reading of the last
accepted body says — or, if none was accepted, as before the history. -/
theorem traffic_follows_last_accepted (s : Active) (bodies : List Node) (k : Kind) (msg : Msg) :
    flatO (run (afterPosts s bodies) k msg) =
      (match lastValid bodies with
       | some b => specEval k (msg k) b
       | none => flatO (run s k msg)) := by
  induction bodies using snocInd with
  | h0 => simp [afterPosts, lastValid]
  | h1 bs b ih =>
    have hstep : afterPosts s (bs ++ [b]) = (servePOST (afterPosts s bs) b).1 := by simp [afterPosts, List.foldl_append]
    rw [hstep]
    cases hv : valid b with
    | true =>
      obtain ⟨r, hr⟩ := (accept_iff_valid b).mpr hv
      have : lastValid (bs ++ [b]) = some b := by simp [lastValid, hv]
      rw [this]
      simp only [servePOST, hr]
      exact compile_eval_eq_spec b r k msg hr
    | false =>
      have : lastValid (bs ++ [b]) = lastValid bs := by simp [lastValid, hv]
      rw [this, rejected_leaves_previous _ b hv, ih]

/-- **Replacement is complete after any history.** Whatever was done to the endpoint before — bodies
accepted or rejected, modifiers installed through `SetRequestModifier` / `SetResponseModifier` in any
order — an accepted body installs exactly its own compilation: nothing of the earlier state survives. -/
theorem accepted_post_replaces_after_any_history (s : Active) (ops : List EOp) (body : Node) (r : Result)
    (h : compile body = .ok r) : afterOps s (ops ++ [.post body]) = r := by
  simp [afterOps, List.foldl_append, applyOp, servePOST, h]

/-- … so the traffic after it is treated as the depth-first reading of that body says, on both sides,
also when one side had been replaced through the Go API since the same body was last accepted. -/
theorem accepted_post_discards_installed_modifiers (s : Active) (ops : List EOp) (body : Node)
    (hv : valid body = true) (k : Kind) (msg : Msg) :
    flatO (run (afterOps s (ops ++ [.post body])) k msg) = specEval k (msg k) body := by
  obtain ⟨r, hr⟩ := (accept_iff_valid body).mpr hv
  rw [accepted_post_replaces_after_any_history s ops body r hr]
  exact compile_eval_eq_spec body r k msg hr

/-- `Set*Modifier` replaces one side only: the other side treats every message as before. -/
theorem set_leaves_other_side (s : Active) (k k' : Kind) (m : Option Mod) (hk : k' ≠ k) (msg : Msg) :
    run (setSide s k m) k' msg = run s k' msg := by
  cases k <;> cases k' <;> simp_all [setSide, run, Result.side]

/-- … and on its own side it installs exactly the given modifier (`nil` = noop). -/
theorem set_installs_side (s : Active) (k : Kind) (m : Option Mod) (msg : Msg) :
    run (setSide s k m) k msg = eval (msg k) (orNoop m) := by
  cases k <;> simp [setSide, run, Result.side]

/-- A rejected body leaves the pair in force, also a side installed through the Go API. -/
theorem rejected_post_keeps_installed_modifiers (s : Active) (ops : List EOp) (body : Node)
    (hv : valid body = false) : afterOps s (ops ++ [.post body]) = afterOps s ops := by
  obtain ⟨e, he⟩ := reject_whole body hv
  simp [afterOps, List.foldl_append, applyOp, servePOST, he]

/-! ## 7. Regenerated facts (from `/repo`'s source on every run; `decide` on a finite table) -/

/-- The event order of `martianhttp.Modifier.servePOST` that `Config.servePOST` transcribes. -/
def expectedServePOST : List (String × String) :=
  [("return", ""), ("call", "parse.FromJSON"), ("return", ""), ("call", "json.Indent"), ("return", ""),
   ("call", "m.mu.Lock"), ("defer", "m.mu.Unlock"), ("write", "m.config"),
   ("call", "m.setRequestModifier"), ("call", "m.setResponseModifier")]

theorem facts_servePOST_order : Generated.Config.servePOST = expectedServePOST := by decide

/-- an event that changes the handler's state -/
def isStateWrite (e : String × String) : Bool :=
  e.1 == "write" || e.2 == "m.setRequestModifier" || e.2 == "m.setResponseModifier" ||
  e.2 == "m.SetRequestModifier" || e.2 == "m.SetResponseModifier"

/-- What that order means: the body is parsed before the lock is taken and before any state is
written; every early `return` precedes every write; both sides are installed under one lock. -/
theorem facts_servePOST_parse_then_swap :
    let ev := Generated.Config.servePOST
    let firstWrite := ev.findIdx isStateWrite
    ev.idxOf ("call", "parse.FromJSON") < ev.idxOf ("call", "m.mu.Lock") ∧ ev.idxOf ("call", "m.mu.Lock") < firstWrite ∧
    (∀ i, i < ev.length → ev[i]? = some ("return", "") → i < firstWrite) ∧
    ev.contains ("call", "m.setRequestModifier") ∧ ev.contains ("call", "m.setResponseModifier") ∧
    ev.count ("call", "m.mu.Lock") = 1 := by
  rw [facts_servePOST_order]; decide

/-- Both insertion loops of `priority.Group` test `new.priority >= existing.priority` (the `ins` of the model). -/
theorem facts_priority_insert_test : Generated.Config.prioInsertTest =
    ["AddRequestModifier: preqmod.priority >= m.priority", "AddResponseModifier: presmod.priority >= m.priority"] := by decide

/-! ## Non-vacuity (concrete witnesses; `decide` here is a test, not a proof of the property) -/

def leafOK (l : Nat) : Node := .leaf l Caps.both false false none
def leafFail (l : Nat) : Node := .leaf l Caps.both true true none

/-- some condition (`method.Filter {"method": "PUT"}`) -/
def c7 : Cond := .method [80, 85, 84]

/-- aggregate group [ leaf 1 (fails) ; request-scoped priority group (0↦2, 5↦3, 0↦4) ;
filter on condition `c7` (then: failing leaf 5, else: leaf 6) ; response-only leaf 7 ]. -/
def exTree : Node :=
  .fifo none true
    [leafFail 1,
     .prio (some [.request]) [(0, leafOK 2), (5, leafOK 3), (0, leafOK 4)],
     .filter c7 none (leafFail 5) (some (leafOK 6)),
     .leaf 7 ⟨false, true⟩ false false none]

def atom7 : Msg := fun _ a => a == c7
def noAtom : Msg := fun _ _ => false

def runTree (n : Node) (k : Kind) (msg : Msg) : Option SOutcome :=
  match compile n with
  | .ok r => some (flatO (run r k msg))
  | .error _ => none

def errOf (n : Node) : Option PErr :=
  match compile n with
  | .ok _ => none
  | .error e => some e

example : valid exTree = true := by decide
example : runTree exTree .req atom7 = some ([1, 3, 4, 2, 5], [1, 5]) := by decide
example : runTree exTree .req noAtom = some ([1, 3, 4, 2, 6], [1]) := by decide
example : runTree exTree .res atom7 = some ([1, 5, 7], [1, 5]) := by decide
example : specEval .req (atom7 .req) exTree = ([1, 3, 4, 2, 5], [1, 5]) := by decide
/-- without aggregation the first failing leaf stops everything -/
example : runTree (.fifo none false [leafOK 0, leafFail 1, leafOK 2]) .req noAtom = some ([0, 1], [1]) := by decide
/-- two failing leaves with the SAME label (equal error values), the later one inside a nested aggregating
group, also through a filter: each is reported, `[7, 7, 7]` -/
example : runTree (.fifo none true [leafFail 7, .fifo none true [leafFail 7, leafOK 8, .filter c7 none (.fifo none true [leafFail 7]) none]]) .req atom7
    = some ([7, 7, 8, 7], [7, 7, 7]) := by decide
/-- hypotheses of `reject_whole` are satisfiable: an unknown name four levels down, under a `[]` scope -/
example : valid (.fifo none false [.filter c7 (some []) (leafOK 1) (some (.prio none [(1, .fifo none true [.unknown])]))]) = false := by decide
/-- unsupported scope: a response scope on a request-only leaf -/
example : errOf (.leaf 1 ⟨true, false⟩ false false (some [.response])) = some .invalidScope := by decide
/-- the error reported is the first one met in parse order (child before the parent's own scope) -/
example : errOf (.fifo (some [.other]) false [leafOK 1, .unknown, .malformed]) = some .unknownModifier := by decide
/-- nil scope vs `[]` scope -/
example : runTree (.fifo (some []) false [leafOK 1]) .req noAtom = some ([], []) := by decide
example : runTree (.fifo none false [leafOK 1]) .req noAtom = some ([1], []) := by decide
/-- reconfiguration: rejected body keeps the old tree, accepted body replaces it -/
example : (lastValid [exTree, .unknown]).isSome = true ∧ (lastValid [.unknown]).isSome = false := by decide
example : insertAll [((0 : Int), 1), (5, 2), (0, 3), (5, 4), (9, 5)] = [(9, 5), (5, 4), (5, 2), (0, 3), (0, 1)] := by decide

-- a side installed through the API is discarded by re-posting the body that was already accepted
example : (afterOps Active.init [.post exTree, .set .req none, .post exTree]).req.isSome = true ∧
    (afterOps Active.init [.post exTree, .set .req none]).req.isSome = false := by decide

end Martian.Props.C12
